/* Representation invariant of DBusString as stated by DBUS_GENERIC_STRING_PREAMBLE, plus the
 * heap shape it stands for.  Used as `requires` of every function taking a DBusString. */
#ifndef VERIF_STR_H
#define VERIF_STR_H
#include <config.h>
#include "dbus/dbus-internals.h"
#include "dbus/dbus-string.h"
#define DBUS_CAN_USE_DBUS_STRING_PRIVATE 1
#include "dbus/dbus-string-private.h"
#include "verif_ghost.h"
#define REAL(s) ((const DBusRealString *)(s))
#define RW(s) ((DBusRealString *)(s))
#ifndef VERIF_MAXLEN
#define VERIF_MAXLEN _DBUS_STRING_MAX_LENGTH
#endif
/* const string: len bytes + NUL are readable */
#define STR_FIELDS_OK(s) (REAL(s)->valid && REAL(s)->len >= 0 && REAL(s)->len <= VERIF_MAXLEN && \
  REAL(s)->allocated >= REAL(s)->len + _DBUS_STRING_ALLOCATION_PADDING && REAL(s)->allocated <= _DBUS_INT32_MAX)
#define STR_OK_REQUIRES(s) \
  __CPROVER_requires(__CPROVER_is_fresh(s, sizeof(DBusString))) \
  __CPROVER_requires(STR_FIELDS_OK(s)) \
  __CPROVER_requires(__CPROVER_is_fresh(REAL(s)->str, REAL(s)->len + 1)) \
  __CPROVER_requires(REAL(s)->str[REAL(s)->len] == 0)
#define SB(s, start) (REAL(s)->str + (start))
#define IMP(a, b) (!(a) || (b))
#define REACH(tag) __CPROVER_assert(0, "REACH:" tag)
#endif
