/* Ghost variables shared by overlays and harnesses (see DESIGN.md 3.1/3.2).
 * verif_gk : ghost index. Nothing ever assigns it, so a statement about position verif_gk is a
 *            statement about every position.
 * verif_w* : ghost witnesses. Assigned only by injected ghost statements. */
#ifndef VERIF_GHOST_H
#define VERIF_GHOST_H
#include "grammar.h"
#include "utf8_spec.h"
extern long verif_gk;
extern long verif_gk2;
extern long verif_w;
extern long verif_w2;
extern int  verif_flag;
extern int  verif_depths[8];
extern int  verif_calls;
#endif
