/* Compiles one real translation unit of /repo (path in VERIF_TU, either the pristine file or
 * its overlay copy with contract clauses injected) behind the verification prelude. */
#include <config.h>
#include "dbus/dbus-internals.h"
#include "verif_prelude.h"
#include "verif_ghost.h"
#ifdef VERIF_EXTRA_PRELUDE
#include VERIF_EXTRA_PRELUDE
#endif
#include VERIF_TU
