/* Verification prelude. Included by include/tu_wrap.c AFTER dbus-internals.h (whose include
 * guard then keeps these definitions in force for the real translation unit that follows).
 *
 * What it remaps (stated in every evidence file under extraction_drops):
 *   _dbus_assert(c)            -> proof obligation + assumption, as an expression
 *   _dbus_assert_not_reached   -> obligation "unreachable"
 *   _dbus_verbose(...)         -> nothing (logging only; variadic)
 * Nothing else of the translation unit is touched.
 */
#ifndef VERIF_PRELUDE_H
#define VERIF_PRELUDE_H
#undef _dbus_assert
#define _dbus_assert(c) ((void)(__CPROVER_assert((c) != 0, "dbus assertion: " #c), __CPROVER_assume((c) != 0), 0))
#undef _dbus_assert_not_reached
#define _dbus_assert_not_reached(e) ((void)(__CPROVER_assert(0, "dbus assert_not_reached: " e), __CPROVER_assume(0), 0))
#undef _dbus_verbose
#define _dbus_verbose(...) ((void)0)
#endif
