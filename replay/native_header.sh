#!/bin/sh
# Native replay of the header family against /repo's current tree (or $VERIF_REPO):
#   replay/native_header.sh load <hex> | demarshal <hex> | local-iface <name> | local-path <path> | oom-set | oom-delete | oom-strip
# Builds libdbus natively (ASan+UBSan) in $NATIVE_WD (default: a temp dir, removed afterwards). Exit 1 = violation reproduced.
cd "$(dirname "$0")/.." || exit 2
exec python3 - "$@" <<'PY'
import os, shutil, sys, tempfile
sys.path.insert(0, os.getcwd())
from tool import replay
wd = os.environ.get('NATIVE_WD') or tempfile.mkdtemp(prefix='verif-native-header-')
try:
    rc, out = replay.native_run('header', sys.argv[1:], wd)
    print(out)
    print('REPLAY: %s (rc=%s)' % ('violation reproduced on the real code' if rc else 'not reproduced', rc))
    sys.exit(1 if rc else 0)
finally:
    if not os.environ.get('NATIVE_WD'):
        shutil.rmtree(wd, ignore_errors=True)
PY
