/* Native replay for the header family (C01 header part, C12/C14 header edits): runs the real code of /repo's
 * current tree and compares with the reference of spec/header_ref.h.  Exit 1 = violation reproduced.
 *   argv: load <hex>          real _dbus_header_have_message_untrusted + _dbus_header_load (untrusted mode) on the bytes;
 *                             verdict vs hdr_ref_valid; on accept every accessor vs the reference decoding
 *         demarshal <hex>     the same through the public dbus_message_demarshal (whole message: header + body)
 *         local-iface <name>  build a signal on interface <name> with the public API, marshal it, then as `demarshal`
 *         local-path <path>   same for the object path
 *         oom-set | oom-delete | oom-strip   fail the k-th allocation (k = 0..15) inside
 *                             dbus_message_set_destination / _dbus_header_delete_field / _dbus_header_remove_unknown_fields;
 *                             after a FALSE return the header must be as before (length, padding, wire image valid)   */
#include <config.h>
#include <stdio.h>
#include <stdlib.h>
#include <string.h>
#include "dbus/dbus.h"
#include "dbus/dbus-internals.h"
#include "dbus/dbus-string.h"
#include "dbus/dbus-marshal-header.h"
#include "dbus/dbus-marshal-validate.h"
#include "dbus/dbus-message-private.h"
#include "dbus/dbus-protocol.h"
#define BODY_REF_MAXSTR 4096
#define HDR_REF_MAXFIELDS 64
#include "header_ref.h"

static unsigned char buf[1 << 16] __attribute__ ((aligned (8)));
static int unhex (const char *hex) { int n = 0; if (strcmp (hex, "-") != 0) for (; hex[2 * n] && hex[2 * n + 1]; n++) { unsigned v; sscanf (hex + 2 * n, "%2x", &v); buf[n] = v; } return n; }
static void dump (const unsigned char *b, int n) { for (int i = 0; i < n; i++) printf ("%s%02x", i && i % 8 == 0 ? "  " : " ", b[i]); printf ("\n"); }

static int compare_accessors (DBusHeader *h, const unsigned char *b, int n)
{
  int bad = 0, c;
  if (_dbus_header_get_serial (h) != hdr_ref_serial (b)) { printf ("  serial: real %u, reference %u\n", _dbus_header_get_serial (h), hdr_ref_serial (b)); bad = 1; }
  if (_dbus_header_get_message_type (h) != hdr_ref_message_type (b)) { printf ("  message type differs\n"); bad = 1; }
  for (c = 0; c < 8; c++) if (_dbus_header_get_flag (h, 1u << c) != hdr_ref_flag (b, 1u << c)) { printf ("  flag 0x%x differs\n", 1u << c); bad = 1; }
  for (c = 1; c <= DBUS_HEADER_FIELD_LAST; c++)
    {
      int v_at, type, count, pos = -1; const DBusString *s = NULL; dbus_bool_t got;
      hdr_ref_find_field (b, n, c, &v_at, &type, &count);
      got = _dbus_header_get_field_raw (h, c, &s, &pos);
      if ((got != 0) != (count > 0)) { printf ("  field %d: real %s, reference %s\n", c, got ? "present" : "absent", count ? "present" : "absent"); bad = 1; continue; }
      if (got && pos != v_at) { printf ("  field %d: real value position %d, reference %d\n", c, pos, v_at); bad = 1; }
      if (got && type == 'u') { dbus_uint32_t v = 0; _dbus_header_get_field_basic (h, c, DBUS_TYPE_UINT32, &v); if (v != body_ref_u32 (b, v_at, HDR_REF_LE (b))) { printf ("  field %d: real value %u, reference %u\n", c, v, body_ref_u32 (b, v_at, HDR_REF_LE (b))); bad = 1; } }
      if (got && (type == 's' || type == 'o')) { const char *v = NULL; int s_at, s_len; _dbus_header_get_field_basic (h, c, type, &v); hdr_ref_string_at (b, v_at, type, &s_at, &s_len);
          if (v != (const char *) _dbus_string_get_const_data (&h->data) + s_at || (int) strlen (v) != s_len) { printf ("  field %d: string read back differs from the reference decoding\n", c); bad = 1; } }
    }
  return bad;
}

static int do_load (int n)
{
  DBusString str; DBusHeader h; DBusValidity v = DBUS_VALID; int bo, fal, hl, bl, want, rhl = 0; dbus_bool_t have, ok;
  printf ("bytes (%d):", n); dump (buf, n);
  if (n < 16) { printf ("fewer than 16 bytes: nothing to decide\n"); return 0; }
  _dbus_string_init_const_len (&str, (const char *) buf, n);
  have = _dbus_header_have_message_untrusted (DBUS_MAXIMUM_MESSAGE_LENGTH, &v, &bo, &fal, &hl, &bl, &str, 0, n);
  if (!have) { printf ("real _dbus_header_have_message_untrusted -> FALSE (validity %d): frame incomplete or insane lengths; nothing loaded\n", v); return 0; }
  if (!_dbus_header_init (&h)) return 2;
  ok = _dbus_header_load (&h, DBUS_VALIDATION_MODE_DATA_IS_UNTRUSTED, &v, bo, fal, hl, bl, &str);
  want = hdr_ref_valid (buf, n, &rhl);
  printf ("real _dbus_header_load -> %s (validity %d), header length %d ; specification -> %s\n", ok ? "TRUE" : "FALSE", v, ok ? _dbus_string_get_length (&h.data) : 0, want ? "VALID" : "invalid");
  if ((ok != 0) != (want != 0)) return 1;
  if (ok && (v != DBUS_VALID || _dbus_string_get_length (&h.data) != rhl)) { printf ("accepted but validity/length inconsistent\n"); return 1; }
  if (!ok && (v == DBUS_VALID || _dbus_string_get_length (&h.data) != 0)) { printf ("rejected but validity VALID or header not emptied\n"); return 1; }
  if (ok && compare_accessors (&h, buf, n)) return 1;
  return 0;
}

static int do_demarshal (int n)
{
  DBusError e; DBusMessage *m; int want, rhl = 0;
  dbus_error_init (&e);
  printf ("message (%d bytes):", n); dump (buf, n > 128 ? 128 : n);
  m = dbus_message_demarshal ((const char *) buf, n, &e);
  want = hdr_ref_valid (buf, n, &rhl);
  printf ("real dbus_message_demarshal -> %s%s%s ; specification (header part) -> %s\n", m ? "message" : "rejected", m ? "" : ": ", m ? "" : e.message, want ? "VALID" : "invalid");
  if (m && !want) return 1;
  if (!m && want) { printf ("(a valid header was refused; if the body is valid too this is a rejected-but-valid message)\n"); return 1; }
  if (m && compare_accessors (&m->header, buf, rhl)) return 1;
  return 0;
}

static int build_and_demarshal (const char *path, const char *iface)
{
  DBusMessage *m = dbus_message_new_signal (path, iface, "M"); char *wire; int len;
  if (!m) { printf ("dbus_message_new_signal refused the arguments\n"); return 0; }
  dbus_message_set_serial (m, 1);
  if (!dbus_message_marshal (m, &wire, &len)) return 2;
  memcpy (buf, wire, len);
  return do_demarshal (len);
}

static int do_oom (const char *what)
{
  int k, bad = 0;
  for (k = 0; k < 16; k++)
    {
      DBusMessage *m = dbus_message_new_signal ("/a", "a.b", "M"); const char *s = "hello"; dbus_uint32_t u = 0x11223344; dbus_bool_t ok; char *wire; int len, l0, l1, p0, p1; DBusError e; DBusMessage *r;
      dbus_message_set_serial (m, 1);
      dbus_message_append_args (m, DBUS_TYPE_STRING, &s, DBUS_TYPE_UINT32, &u, DBUS_TYPE_INVALID);
      if (strcmp (what, "oom-strip") == 0)
        { /* add a field with an unknown code (200) the way a peer would: through the typed writer of set_field_basic */
          DBusString *d = &m->header.data; dbus_uint32_t fal;
          /* append (y=200, v=u 7) after aligning to 8: code, sig "u", value */
          _dbus_string_shorten (d, m->header.padding);
          _dbus_string_align_length (d, 8);
          { unsigned char f[8] = { 200, 1, 'u', 0, 7, 0, 0, 0 }; if (_dbus_header_get_byte_order (&m->header) == 'B') { f[4] = 0; f[7] = 7; } _dbus_string_append_len (d, (const char *) f, 8); }
          fal = _dbus_string_get_length (d) - 16;
          _dbus_marshal_set_uint32 (d, 12, fal, _dbus_header_get_byte_order (&m->header));
          { int before = _dbus_string_get_length (d); _dbus_string_align_length (d, 8); m->header.padding = _dbus_string_get_length (d) - before; }
        }
      l0 = _dbus_string_get_length (&m->header.data); p0 = m->header.padding;
      _dbus_set_fail_alloc_counter (k);
      if (strcmp (what, "oom-set") == 0) ok = dbus_message_set_destination (m, "a.bcd");
      else if (strcmp (what, "oom-delete") == 0) ok = _dbus_header_delete_field (&m->header, DBUS_HEADER_FIELD_INTERFACE);
      else ok = _dbus_header_remove_unknown_fields (&m->header);
      _dbus_set_fail_alloc_counter (_DBUS_INT_MAX);
      l1 = _dbus_string_get_length (&m->header.data); p1 = m->header.padding;
      dbus_error_init (&e);
      if (!dbus_message_marshal (m, &wire, &len)) return 2;
      r = dbus_message_demarshal (wire, len, &e);
      printf ("allocation #%d fails: %s -> %s ; header length %d -> %d, padding %d -> %d ; wire image %s%s%s\n", k, what + 4, ok ? "TRUE" : "FALSE", l0, l1, p0, p1,
              r ? "valid" : "CORRUPT (", r ? "" : e.message, r ? "" : ")");
      if (!ok && (l1 != l0 || p1 != p0 || (l1 % 8) != 0)) bad = 1;
      if (!ok && !r && strcmp (what, "oom-delete") != 0) bad = 1;
      if (ok) break;
    }
  if (bad) printf ("a failed edit left the header changed (C14: failure must leave the observable state unchanged)\n");
  return bad;
}

int main (int argc, char **argv)
{
  if (argc < 2) return 2;
  if (strncmp (argv[1], "oom-", 4) == 0) return do_oom (argv[1]);
  if (argc < 3) return 2;
  if (strcmp (argv[1], "local-iface") == 0) return build_and_demarshal ("/a", argv[2]);
  if (strcmp (argv[1], "local-path") == 0) return build_and_demarshal (argv[2], "a.b");
  if (strcmp (argv[1], "demarshal") == 0) return do_demarshal (unhex (argv[2]));
  return do_load (unhex (argv[2]));
}
