#!/bin/sh
# Builds and runs the native replay of a C08/C10 handshake input against /repo's current tree.
#   replay/native_c08_auth.sh 'AUTH \n\r\n'
REPO=${VERIF_REPO:-/repo}
OUT=$(mktemp -d)
gcc -g -O0 -DDBUS_COMPILATION -DHAVE_CONFIG_H -D_GNU_SOURCE -I$REPO -I/repo/_build -I$REPO/dbus \
    "$(dirname "$0")/native_c08_auth.c" $REPO/dbus/dbus-auth.c $REPO/dbus/dbus-string.c \
    /repo/_build/lib/libdbus-internal.a -L/repo/_build/lib -ldbus-1 -Wl,-rpath,/repo/_build/lib -lpthread -o $OUT/native_c08_auth 2>$OUT/build.log || { cat $OUT/build.log; exit 2; }
$OUT/native_c08_auth "$@"
rc=$?
echo "exit status $rc"
rm -rf $OUT
exit $rc
