/* Native replay of the C04 / C14 findings in the owner-queue code of bus/services.c.
 * The REAL bus/services.c from /repo's current tree (#include'd) on the REAL dbus-list / dbus-hash /
 * dbus-mempool (linked from the library); only the bus neighbours (driver signals, connection counters,
 * transaction hook list) are small stand-ins that behave like bus/connection.c (hooks are prepended and
 * run in that order on cancel, then freed).
 *
 * argv[1] = "queuepos": A primary (no replacement allowed), B waiting, C: bus_service_add_owner(C, REPLACE_EXISTING)
 *                     as bus_registry_acquire_service calls it for RequestName(REPLACE_EXISTING) -> IN_QUEUE.
 *                     Specification: "If replacement is not possible, and the method caller is currently not in the
 *                     queue, the method caller is appended to the queue."  Expected queue A B C.
 * argv[1] = "remove": name owned by A, B waiting; ReleaseName path (bus_service_remove_owner(A)) succeeds,
 *                     then the transaction is cancelled (what bus_dispatch does when a later step, e.g.
 *                     building the reply, runs out of memory).
 * argv[1] = "swap"  : A primary (allows replacement), RequestName(REPLACE_EXISTING) by B:
 *                     bus_service_add_owner(B) + bus_service_swap_owner(A) succeed, then cancel.
 * argv[1] = "atomic": A primary with ALLOW_REPLACEMENT, B waiting.  (1) A: RequestName(flags 0) -> ALREADY_OWNER, then the
 *                     driver cannot build the reply (NoMemory) and the transaction is cancelled;  (2) B: RequestName(
 *                     DO_NOT_QUEUE) -> EXISTS, likewise cancelled.  Expected (C14): A still allows replacement, B still waits.
 * Expected (C14): the queue is exactly as before, nobody twice, no freed owner in it.
 * build (see tool/replay.py native_run, or by hand):
 *   gcc -g -w -fsanitize=address -DDBUS_COMPILATION -DHAVE_CONFIG_H -D_GNU_SOURCE -DDBUS_STATIC_BUILD -I/repo -I/repo/_build \
 *       -I/repo/bus -ffunction-sections -Wl,--gc-sections native_c04_own.c /repo/_build/lib/libdbus-internal.a -L/repo/_build/lib -ldbus-1 -Wl,-rpath,/repo/_build/lib -lpthread
 * run: DBUS_DISABLE_MEM_POOLS=1 ./a.out remove      (mem pools off so that ASan sees the freed BusOwner)
 * The stand-in for _dbus_real_assert only REPORTS failed assertions (so that the DBUS_DISABLE_ASSERT behaviour
 * is visible too); in the assert-enabled build of /repo the first report is an abort of dbus-daemon. */
#include <config.h>
#include <stdio.h>
#include <stdlib.h>
#include <string.h>
#include "dbus/dbus-internals.h"
#undef _dbus_assert
#define _dbus_assert(c) do { if (!(c)) { printf ("ASSERTION FAILED (daemon would abort): %s  [%s:%d]\n", #c, __FILE__, __LINE__); n_assert++; } } while (0)
static int n_assert;
const char bus_no_memory_message[] = "Memory allocation failure in message bus";
#define dbus_connection_ref verif_standin_connection_ref
#define dbus_connection_unref verif_standin_connection_unref
#include "bus/services.c"

struct DBusConnection { const char *name; int owned; };   /* stand-in: only identity, name and the counter */
static struct DBusConnection A = { ":1.0", 0 }, B = { ":1.1", 0 }, C = { ":1.2", 0 };
/* never called in these scenarios; present so that the whole of services.c links */
#define DUMMY(name) void verif_dummy_##name (void) __asm__ (#name) __attribute__ ((weak)); void verif_dummy_##name (void) { abort (); }
DUMMY (bus_context_log) DUMMY (bus_selinux_id_table_insert) DUMMY (bus_selinux_id_table_new)
/* neighbours of bus_registry_acquire_service ("atomic" mode): everything is allowed, limit 10 */
dbus_bool_t bus_activation_send_pending_auto_activation_messages (BusActivation *a, BusService *s, BusTransaction *t) { return TRUE; }
dbus_bool_t bus_apparmor_allows_acquire_service (DBusConnection *c, const char *bt, const char *n, DBusError *e) { return TRUE; }
dbus_bool_t bus_client_policy_check_can_own (BusClientPolicy *p, const DBusString *n) { return TRUE; }
int bus_connection_get_n_services_owned (DBusConnection *c) { return 1; }
BusClientPolicy *bus_connection_get_policy (DBusConnection *c) { return (BusClientPolicy *) c; }
dbus_bool_t bus_connection_is_active (DBusConnection *c) { return TRUE; }
int bus_context_get_max_services_per_connection (BusContext *c) { return 10; }
const char *bus_context_get_type (BusContext *c) { return "session"; }
dbus_bool_t bus_selinux_allows_acquire_service (DBusConnection *c, BusSELinuxID *sid, const char *n, DBusError *e) { return TRUE; }
BusSELinuxID *bus_selinux_id_table_lookup (DBusHashTable *t, const DBusString *n) { return NULL; }
/* ---- neighbours ---- */
dbus_bool_t bus_driver_send_service_acquired (DBusConnection *c, const char *n, BusTransaction *t, DBusError *e) { printf ("  signal NameAcquired(%s) -> %s\n", n, c->name); return TRUE; }
dbus_bool_t bus_driver_send_service_lost (DBusConnection *c, const char *n, BusTransaction *t, DBusError *e) { printf ("  signal NameLost(%s) -> %s\n", n, c->name); return TRUE; }
dbus_bool_t bus_driver_send_service_owner_changed (const char *n, const char *o, const char *nw, BusTransaction *t, DBusError *e) { printf ("  signal NameOwnerChanged(%s, %s, %s)\n", n, o ? o : "", nw ? nw : ""); return TRUE; }
const char *bus_connection_get_name (DBusConnection *c) { return c->name; }
dbus_bool_t bus_connection_add_owned_service (DBusConnection *c, BusService *s) { c->owned++; return TRUE; }
void bus_connection_add_owned_service_link (DBusConnection *c, DBusList *l) { c->owned++; _dbus_list_free_link (l); }
void bus_connection_remove_owned_service (DBusConnection *c, BusService *s) { c->owned--; }
DBusConnection *dbus_connection_ref (DBusConnection *c) { return c; }
void dbus_connection_unref (DBusConnection *c) { }
dbus_bool_t bus_activation_service_created (BusActivation *a, const char *n, BusTransaction *t, DBusError *e) { return TRUE; }
BusActivation *bus_context_get_activation (BusContext *c) { return NULL; }
/* transaction: like bus/connection.c — hooks prepended; cancel runs all cancel functions, then frees */
typedef struct { BusTransactionCancelFunction f; void *d; DBusFreeFunction ff; } Hook;
struct BusTransaction { Hook h[8]; int n; };
dbus_bool_t bus_transaction_add_cancel_hook (BusTransaction *t, BusTransactionCancelFunction f, void *d, DBusFreeFunction ff)
{ memmove (&t->h[1], &t->h[0], sizeof (Hook) * t->n); t->h[0].f = f; t->h[0].d = d; t->h[0].ff = ff; t->n++; return TRUE; }
static void txn_execute (BusTransaction *t) { for (int i = 0; i < t->n; i++) if (t->h[i].ff) t->h[i].ff (t->h[i].d); t->n = 0; }
static void txn_cancel (BusTransaction *t) { for (int i = 0; i < t->n; i++) if (t->h[i].f) t->h[i].f (t->h[i].d); txn_execute (t); }

static void show (const char *what, BusService *s)
{ printf ("%s: queue =", what);
  for (DBusList *l = _dbus_list_get_first_link (&s->owners); l; l = _dbus_list_get_next_link (&s->owners, l))
    { BusOwner *o = l->data; printf (" %s(owner %p refcount %d)", o->conn->name, (void *) o, o->refcount); }
  printf ("   n_services_owned: A=%d B=%d\n", A.owned, B.owned); }

int main (int argc, char **argv)
{
  setvbuf (stdout, NULL, _IONBF, 0); setenv ("DBUS_DISABLE_MEM_POOLS", "1", 1);   /* so that ASan sees a freed BusOwner */
  DBusError e; dbus_error_init (&e); BusTransaction t; memset (&t, 0, sizeof t); DBusString name; _dbus_string_init_const (&name, "com.example.N");
  int swap = argc > 1 && !strcmp (argv[1], "swap"), qpos = argc > 1 && !strcmp (argv[1], "queuepos"), atomic = argc > 1 && !strcmp (argv[1], "atomic");
  BusRegistry *r = bus_registry_new ((BusContext *) &t);
  BusService *s = bus_registry_ensure (r, &name, &A, (swap || atomic) ? DBUS_NAME_FLAG_ALLOW_REPLACEMENT : 0, &t, &e); txn_execute (&t);
  if (!swap) { bus_service_add_owner (s, &B, 0, &t, &e); txn_execute (&t); }
  show ("before the request ", s);
  if (atomic)
    { dbus_uint32_t code = 0; int bad;
      printf ("A allows replacement: %d\n", (int) bus_service_get_allow_replacement (s));
      printf ("A: RequestName(flags 0)\n");
      if (!bus_registry_acquire_service (r, &A, &name, 0, &code, &t, &e)) return 2;
      printf ("  registry answered %u (ALREADY_OWNER = 4); the driver then fails to build the reply: NoMemory -> transaction cancelled\n", code);
      txn_cancel (&t);
      printf ("A allows replacement: %d   (request was refused with NoMemory, so it should still be 1)\n", (int) bus_service_get_allow_replacement (s));
      bad = !bus_service_get_allow_replacement (s);
      printf ("B: RequestName(DO_NOT_QUEUE)\n");
      if (!bus_registry_acquire_service (r, &B, &name, DBUS_NAME_FLAG_DO_NOT_QUEUE, &code, &t, &e)) return 2;
      printf ("  registry answered %u (EXISTS = 3); reply cannot be built: NoMemory -> transaction cancelled\n", code);
      txn_cancel (&t);
      show ("after the cancel    ", s);
      bad |= !bus_service_owner_in_queue (s, &B);
      printf ("%s\n", bad ? "STATE CHANGED BY REQUESTS THAT FAILED WITH NoMemory: violation confirmed" : "unchanged");
      return bad; }
  if (qpos)
    { printf ("C: RequestName(REPLACE_EXISTING), replacement not possible -> bus_service_add_owner(C, REPLACE_EXISTING)\n");
      if (!bus_service_add_owner (s, &C, DBUS_NAME_FLAG_REPLACE_EXISTING, &t, &e)) return 2; txn_execute (&t);
      show ("after the request  ", s);
      DBusList *l2 = _dbus_list_get_next_link (&s->owners, _dbus_list_get_first_link (&s->owners));
      int bad = ((BusOwner *) l2->data)->conn != &B;
      printf ("specification      : queue = :1.0 :1.1 :1.2 (\"the method caller is appended to the queue\")\n%s\n", bad ? "DIFFERENT: violation confirmed" : "same");
      return bad; }
  if (!swap)
    { printf ("A: ReleaseName -> bus_service_remove_owner(A)\n"); if (!bus_service_remove_owner (s, &A, &t, &e)) return 2; }
  else
    { printf ("B: RequestName(REPLACE_EXISTING) -> bus_service_add_owner(B), bus_service_swap_owner(A)\n");
      if (!bus_service_add_owner (s, &B, DBUS_NAME_FLAG_REPLACE_EXISTING, &t, &e) || !bus_service_swap_owner (s, &A, &t, &e)) return 2; }
  show ("after the operation ", s);
  printf ("later step of the same request fails with NoMemory -> bus_transaction_cancel_and_free\n");
  txn_cancel (&t);
  show ("after the cancel    ", s);
  int n = 0, dup = 0; DBusConnection *seen[8];
  for (DBusList *l = _dbus_list_get_first_link (&s->owners); l; l = _dbus_list_get_next_link (&s->owners, l))
    { BusOwner *o = l->data; for (int i = 0; i < n; i++) if (seen[i] == o->conn) dup = 1; if (n < 8) seen[n++] = o->conn; }
  int bad = n_assert > 0 || dup || A.owned != 1 || B.owned != (swap ? 0 : 1);
  printf ("%s (assertions failed: %d, duplicate in queue: %d)\n", bad ? "STATE NOT RESTORED: violation confirmed" : "restored", n_assert, dup);
  return bad;
}
