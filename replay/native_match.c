/* Native replay for the match-rule family (C07): runs the REAL parser / matcher of /repo's current tree
 * (bus/signals.c is #included to reach the static functions) under ASan/UBSan and compares with the oracle
 * spec/match_ref.h.  Exit status != 0: the violation reproduced (sanitizer report, or real != specification).
 *
 * argv:  match <hex rule text | -> [ARG ...]     parse the rule with the real parser, build a broadcast signal
 *                                                whose body has the given arguments, run match_rule_matches
 *        parse <hex rule text | ->               real bus_match_rule_parse vs reference grammar (accept / error name)
 *        value <hex value text | ->              = parse on the rule text  arg0=<value text>   (quoting rules)
 *        key   <hex text | ->                    = parse on the text itself (start of a rule: key scanning)
 *        argmatch <hex rule value | -> <kind 0 argN,1 argNpath,2 arg0namespace> <arg type code> <arg length> <a0> .. <a7>
 *                                                = match on the rule arg0[path|namespace]=<value, quoted> and a message whose first
 *                                                  argument is the string / object path with the given bytes (finder unit C07.find.match)
 *   ARG: s<hex>  STRING argument        o<hex>  OBJECT_PATH argument       u  a UINT32 argument (not matchable)
 *        (plain <hex> = s<hex>; "s-" / "o-" = empty string)
 *   options for match, given as further ARGs:  P<hex> message path (default /a)   I<hex> interface (default a.b)
 *        M<hex> member (default M)   D<hex> destination (default: none = broadcast)   T<n> message type (default 4 signal)
 */
#include <config.h>
#include <stdio.h>
#include <stdlib.h>
#include <string.h>
#include "bus/signals.c"
#include "match_ref.h"

/* link-time stand-ins for the bus functions signals.c refers to; the replays use sender == NULL (bus driver) and
 * addressed_recipient == NULL, so the registry is never consulted */
dbus_bool_t bus_connection_add_match_rule (DBusConnection *c, BusMatchRule *r) { return TRUE; }
void bus_connection_remove_match_rule (DBusConnection *c, BusMatchRule *r) { }
const char *bus_connection_get_name (DBusConnection *c) { return ":1.0"; }
BusRegistry *bus_connection_get_registry (DBusConnection *c) { return NULL; }
dbus_bool_t bus_connection_is_active (DBusConnection *c) { return TRUE; }
dbus_bool_t bus_connection_mark_stamp (DBusConnection *c) { return TRUE; }
void bus_connections_increment_stamp (BusConnections *c) { }
const char bus_no_memory_message[] = "Memory allocation failure in message bus";
BusService *bus_registry_lookup (BusRegistry *r, const DBusString *n) { return NULL; }
DBusConnection *bus_service_get_primary_owners_connection (BusService *s) { return NULL; }

static char *unhex (const char *hex, int *n)
{
  int k = 0; char *b = malloc (strlen (hex) / 2 + 2);
  if (strcmp (hex, "-") != 0) for (; hex[2 * k] && hex[2 * k + 1]; k++) { unsigned v; sscanf (hex + 2 * k, "%2x", &v); b[k] = (char) v; }
  b[k] = 0; *n = k; return b;
}
static void show (const char *what, const char *b, int n)
{ int i; printf ("%s (%d bytes): ", what, n); for (i = 0; i < n; i++) printf ((unsigned char) b[i] >= 32 && (unsigned char) b[i] < 127 ? "%c" : "\\x%02x", (unsigned char) b[i]); printf ("\n"); }

static RefParsed ref;
int main (int argc, char **argv)
{
  int n, i, want; char *text; DBusString s; DBusError e; BusMatchRule *rule;
  if (argc < 3) { fprintf (stderr, "usage: see header comment\n"); return 2; }
  if (!strcmp (argv[1], "argmatch") && argc >= 14)
    { /* rebuild the command line of mode "match" */
      static char rule[256], arg[64], *nargv[5]; int vn, k, kind = atoi (argv[3]), atype = atoi (argv[4]), alen = atoi (argv[5]); char *val = unhex (argv[2], &vn), *q = rule, hexr[600], *h = hexr;
      q += sprintf (q, "arg0%s=", kind == 1 ? "path" : kind == 2 ? "namespace" : "");
      if (vn == 0) q += sprintf (q, "''");
      for (k = 0; k < vn; k++) { if (val[k] == '\'') q += sprintf (q, "\\'"); else q += sprintf (q, "'%c'", val[k]); }
      for (k = 0; rule[k]; k++) h += sprintf (h, "%02x", (unsigned char) rule[k]);
      if (atype == DBUS_TYPE_STRING || atype == DBUS_TYPE_OBJECT_PATH)
        { char *a = arg; *a++ = atype == DBUS_TYPE_STRING ? 's' : 'o'; if (alen <= 0) *a++ = '-'; for (k = 0; k < alen && k < 8; k++) a += sprintf (a, "%02x", (unsigned) atoi (argv[6 + k]) & 0xff); *a = 0; }
      else strcpy (arg, atype == DBUS_TYPE_INVALID ? "T4" : "u");   /* no argument at all / an argument that is not a string */
      nargv[0] = argv[0]; nargv[1] = "match"; nargv[2] = strdup (hexr); nargv[3] = arg; nargv[4] = NULL; argv = nargv; argc = 4;
    }
  text = unhex (argv[2], &n);
  if (!strcmp (argv[1], "value")) { char *t2 = malloc (n + 6); memcpy (t2, "arg0=", 5); memcpy (t2 + 5, text, n + 1); text = t2; n += 5; argv[1] = "parse"; }
  else if (!strcmp (argv[1], "key")) argv[1] = "parse";
  show ("rule text", text, n);
  dbus_error_init (&e);
  _dbus_string_init_const_len (&s, text, n);
  rule = bus_match_rule_parse (NULL, &s, &e);
  want = ref_parse_rule (text, n, &ref);
  printf ("real bus_match_rule_parse -> %s ; specification -> %s\n", rule ? "accepted" : e.name,
          want == REF_PARSE_OK ? "accepted" : want == REF_PARSE_LIMITS ? DBUS_ERROR_LIMITS_EXCEEDED : DBUS_ERROR_MATCH_RULE_INVALID);
  fflush (stdout);
  if (!strcmp (argv[1], "parse"))
    {
      if (rule) { char *t = match_rule_to_string (rule); printf ("rule as understood by the bus: %s\n", t ? t : "?"); dbus_free (t); }
      if ((rule != NULL) != (want == REF_PARSE_OK)) return 1;
      if (!rule && strcmp (e.name, want == REF_PARSE_LIMITS ? DBUS_ERROR_LIMITS_EXCEEDED : DBUS_ERROR_MATCH_RULE_INVALID) != 0) return 1;
      if (rule)
        { /* accepted by both: the bus must have understood the same rule */
          int nargs = 0, bad = 0;
          for (i = 0; i <= REF_MAX_ARG; i++) if (ref.arg_kind[i] >= 0) nargs = i + 1;
          if (((rule->flags & BUS_MATCH_ARGS) ? rule->args_len : 0) != nargs) bad = 1;
          for (i = 0; i < nargs && !bad; i++)
            if ((rule->args[i] != NULL) != (ref.arg_kind[i] >= 0) ||
                (rule->args[i] && ((long) (rule->arg_lens[i] & ~BUS_MATCH_ARG_FLAGS) != ref.arg_len[i] || memcmp (rule->args[i], ref.arg_val[i], ref.arg_len[i]) != 0))) bad = 1;
          if (((rule->flags & BUS_MATCH_MEMBER) != 0) != (ref.r.member != NULL) || ((rule->flags & BUS_MATCH_INTERFACE) != 0) != (ref.r.interface != NULL) ||
              ((rule->flags & BUS_MATCH_SENDER) != 0) != (ref.r.sender != NULL) || ((rule->flags & BUS_MATCH_DESTINATION) != 0) != (ref.r.destination != NULL) ||
              ((rule->flags & BUS_MATCH_PATH) != 0) != (ref.r.path != NULL) || ((rule->flags & BUS_MATCH_PATH_NAMESPACE) != 0) != (ref.r.path_namespace != NULL) ||
              ((rule->flags & BUS_MATCH_MESSAGE_TYPE) != 0) != (ref.r.has_type != 0) || ((rule->flags & BUS_MATCH_CLIENT_IS_EAVESDROPPING) != 0) != (ref.r.eavesdrop != 0)) bad = 1;
          if (bad) { printf ("the rule the bus stored differs from the rule text (keys or argument matches dropped / renumbered)\n"); return 1; }
        }
      return 0;
    }
  if (strcmp (argv[1], "match") != 0) { fprintf (stderr, "unknown mode %s\n", argv[1]); return 2; }
  if (!rule) { printf ("rule rejected by the real parser: nothing to match\n"); return (want == REF_PARSE_OK); }
  {
    const char *path = "/a", *iface = "a.b", *member = "M", *dest = NULL; int type = DBUS_MESSAGE_TYPE_SIGNAL;
    DBusMessage *m; DBusMessageIter it; dbus_bool_t got; int spec = 1, nargs = 0, k;
    int at[REF_MAX_ARG + 2]; const char *av[REF_MAX_ARG + 2]; long al[REF_MAX_ARG + 2];
    for (i = 3; i < argc; i++)
      {
        int l; char c = argv[i][0];
        if (c == 'P') path = unhex (argv[i] + 1, &l); else if (c == 'I') iface = unhex (argv[i] + 1, &l); else if (c == 'M') member = unhex (argv[i] + 1, &l);
        else if (c == 'D') dest = unhex (argv[i] + 1, &l); else if (c == 'T') type = atoi (argv[i] + 1);
      }
    m = dbus_message_new (type);
    if (!m || !dbus_message_set_path (m, path) || !dbus_message_set_interface (m, iface) || !dbus_message_set_member (m, member) || (dest && !dbus_message_set_destination (m, dest))) { fprintf (stderr, "cannot build message\n"); return 2; }
    dbus_message_iter_init_append (m, &it);
    for (i = 3; i < argc && nargs <= REF_MAX_ARG; i++)
      {
        int l; char c = argv[i][0]; const char *v; dbus_uint32_t u = 7;
        if (c == 'P' || c == 'I' || c == 'M' || c == 'D' || c == 'T') continue;
        if (c == 'u') { dbus_message_iter_append_basic (&it, DBUS_TYPE_UINT32, &u); at[nargs] = 'u'; av[nargs] = ""; al[nargs] = 0; nargs++; continue; }
        v = unhex ((c == 's' || c == 'o') ? argv[i] + 1 : argv[i], &l);
        if (!dbus_message_iter_append_basic (&it, c == 'o' ? DBUS_TYPE_OBJECT_PATH : DBUS_TYPE_STRING, &v)) { fprintf (stderr, "cannot append argument\n"); return 2; }
        at[nargs] = c == 'o' ? REF_T_OBJECT_PATH : REF_T_STRING; av[nargs] = v; al[nargs] = l; show (c == 'o' ? "object path argument" : "string argument", v, l); nargs++;
      }
    if (want == REF_PARSE_OK)
      {
        RefMsgFacts mf; mf.type = type; mf.interface = iface; mf.member = member; mf.path = path; mf.destination = dest; mf.sender_is_bus = 1; mf.recipient_is_conn = 0;
        spec = ref_header_matches (&ref.r, &mf, 0, 0);
        for (k = 0; k <= REF_MAX_ARG && spec; k++)
          if (ref.arg_kind[k] >= 0)
            spec = ref_arg_matches (ref.arg_kind[k], ref.arg_val[k], ref.arg_len[k], k < nargs ? at[k] : REF_T_INVALID, k < nargs ? av[k] : "", k < nargs ? al[k] : 0);
      }
    fflush (stdout);
    got = match_rule_matches (rule, NULL, NULL, m, 0);      /* sender: the bus driver; no addressed recipient */
    printf ("real match_rule_matches -> %d ; specification -> %s\n", got, want == REF_PARSE_OK ? (spec ? "1" : "0") : "(rule text not in the grammar)");
    if (want != REF_PARSE_OK) return 1;
    return (got != 0) != (spec != 0);
  }
}
