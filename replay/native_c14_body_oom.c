/* Native replay for obligation "load.oom2" of unit C15.load_message_fds (properties C14, C01, C10, C11): an allocation
 * failure inside body validation (the validator of a VARIANT's contained signature keeps a list of open containers) makes
 * _dbus_validate_body_with_reason return DBUS_VALIDITY_UNKNOWN_OOM_ERROR; load_message treated every non-VALID body verdict as
 * corruption: a well-formed message was declared corrupt and the connection dropped because memory was short for a moment.
 * Build like native_c15_load_oom.c.  Exit 1 = defect reproduced, 0 = not reproduced. */
#include <config.h>
#include <stdio.h>
#include <stdlib.h>
#include "dbus/dbus.h"
#include "dbus/dbus-internals.h"
#include "dbus/dbus-string.h"
#include "dbus/dbus-message-internal.h"
#include "dbus/dbus-marshal-validate.h"
static DBusMessageLoader *fresh_loader (const DBusString *header, const DBusString *body)
{
  DBusMessageLoader *l = _dbus_message_loader_new (); DBusString *buf;
  _dbus_message_loader_get_buffer (l, &buf, NULL, NULL);
  if (!_dbus_string_copy (header, 0, buf, 0) || !_dbus_string_copy (body, 0, buf, _dbus_string_get_length (buf))) exit (3);
  _dbus_message_loader_return_buffer (l, buf);
  return l;
}
int main (void)
{
  DBusMessage *m = dbus_message_new_method_call ("a.b", "/a", "a.b", "M"); DBusMessageIter it, var, st; dbus_int32_t v = 7; const DBusString *header, *body; int reproduced = 0;
  if (!m) return 3;
  dbus_message_iter_init_append (m, &it);
  if (!dbus_message_iter_open_container (&it, DBUS_TYPE_VARIANT, "(ii)", &var) || !dbus_message_iter_open_container (&var, DBUS_TYPE_STRUCT, NULL, &st)
      || !dbus_message_iter_append_basic (&st, DBUS_TYPE_INT32, &v) || !dbus_message_iter_append_basic (&st, DBUS_TYPE_INT32, &v)
      || !dbus_message_iter_close_container (&var, &st) || !dbus_message_iter_close_container (&it, &var)) return 3;
  dbus_message_set_serial (m, 1); dbus_message_lock (m);
  _dbus_message_get_network_data (m, &header, &body);
  for (int k = 0; k < 60; k++)
    {
      DBusMessageLoader *l = fresh_loader (header, body);
      _dbus_set_fail_alloc_counter (k);
      dbus_bool_t ok = _dbus_message_loader_queue_messages (l);
      _dbus_set_fail_alloc_counter (_DBUS_INT_MAX);
      DBusMessage *got = _dbus_message_loader_pop_message (l);
      if (_dbus_message_loader_get_is_corrupted (l))
        {
          printf ("allocation #%d fails: the loader declares the stream CORRUPT (reason %d; DBUS_VALIDITY_UNKNOWN_OOM_ERROR = %d) for a well-formed message\n",
                  k, _dbus_message_loader_get_corruption_reason (l), DBUS_VALIDITY_UNKNOWN_OOM_ERROR);
          reproduced = 1;
        }
      else if (!ok && got == NULL)
        {
          /* proper OOM report: the retry must produce the message */
          ok = _dbus_message_loader_queue_messages (l); got = _dbus_message_loader_pop_message (l);
          if (!ok || got == NULL) { printf ("allocation #%d: retry with memory available did not produce the message\n", k); reproduced = 1; }
        }
      if (got) dbus_message_unref (got);
      _dbus_message_loader_unref (l);
    }
  printf (reproduced ? "REPRODUCED: a transient allocation failure turns a well-formed message into a protocol violation\n" : "not reproduced\n");
  return reproduced;
}
