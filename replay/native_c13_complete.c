/* Native replay of the C13/C14 finding in bus_connection_complete (bus/connection.c): the per-user connection
 * count is incremented and NOT rolled back when a later step of the same Hello fails with out-of-memory.
 * The REAL bus/connection.c from /repo's current tree (#include'd) on the real dbus-hash / dbus-list /
 * dbus-string / dbus-memory of the library, with the library's own allocation-failure injector
 * (_dbus_set_fail_alloc_counter, the one the OOM unit tests use).  Stand-ins only for the neighbours:
 * connection data slot, peer uid (1000), client policy object, accept gate.
 * Scenario: one incomplete connection of uid 1000 sends Hello; the k-th allocation inside
 * bus_connection_complete fails, for k = 0, 1, 2, ...; after each FAILED attempt the connection is still
 * incomplete, so completed_by_user[1000] must still be 0 (property C13: "refused ... and changes nothing";
 * C14: OOM leaves state unchanged).
 * build by hand:
 *   gcc -g -w -DDBUS_COMPILATION -DHAVE_CONFIG_H -D_GNU_SOURCE -DDBUS_STATIC_BUILD -I/repo -I/repo/_build -I/repo/bus \
 *       native_c13_complete.c -L/repo/_build/lib -ldbus-1 -Wl,-rpath,/repo/_build/lib */
#include <config.h>
#include <stdio.h>
#include <stdlib.h>
#include <string.h>
#include "dbus/dbus-internals.h"
/* the two libdbus entry points that need a live socket are redirected to stand-ins (callee name only) */
#define dbus_connection_get_data verif_standin_get_data
#define dbus_connection_get_unix_user verif_standin_get_unix_user
#include "bus/connection.c"

const char bus_no_memory_message[] = "Memory allocation failure in message bus";
static BusConnectionData the_data; static char conn_obj, policy_obj;
void *dbus_connection_get_data (DBusConnection *c, dbus_int32_t slot) { return &the_data; }
dbus_bool_t dbus_connection_get_unix_user (DBusConnection *c, unsigned long *uid) { *uid = 1000; return TRUE; }
BusClientPolicy *bus_context_create_client_policy (BusContext *ctx, DBusConnection *c, DBusError *e) { return (BusClientPolicy *) &policy_obj; }
void bus_client_policy_unref (BusClientPolicy *p) { }
void bus_context_check_all_watches (BusContext *ctx) { }
#define DUMMY(name) void verif_dummy_##name (void) __asm__ (#name) __attribute__ ((weak)); void verif_dummy_##name (void) { fprintf (stderr, "unexpected call of " #name "\n"); abort (); }
#include "native_c13_dummies.h"

int main (void)
{
  static BusConnections conns; DBusError e; DBusString name; int k, leaked = 0;
  setvbuf (stdout, NULL, _IONBF, 0);
  memset (&conns, 0, sizeof conns); conns.refcount = 1;
  conns.completed_by_user = _dbus_hash_table_new (DBUS_HASH_UINTPTR, NULL, NULL);
  memset (&the_data, 0, sizeof the_data); the_data.connections = &conns; the_data.connection = (DBusConnection *) &conn_obj;
  the_data.link_in_connection_list = _dbus_list_alloc_link (&conn_obj);
  _dbus_list_append_link (&conns.incomplete, the_data.link_in_connection_list); conns.n_incomplete = 1;
  _dbus_string_init_const (&name, ":1.0");
  printf ("uid 1000: completed connections = %d, completed_by_user[1000] = %d\n", conns.n_completed, get_connections_for_uid (&conns, 1000));
  for (k = 0; k < 12; k++)
    {
      dbus_error_init (&e);
      _dbus_set_fail_alloc_counter (k);
      dbus_bool_t ok = bus_connection_complete ((DBusConnection *) &conn_obj, &name, &e);
      _dbus_set_fail_alloc_counter (_DBUS_INT_MAX);
      int cnt = get_connections_for_uid (&conns, 1000);
      printf ("Hello with allocation #%d failing: bus_connection_complete -> %s%s%s; n_completed = %d, n_incomplete = %d, completed_by_user[1000] = %d%s\n",
              k, ok ? "TRUE" : "FALSE", ok ? "" : " error ", ok ? "" : e.name, conns.n_completed, conns.n_incomplete, cnt,
              (!ok && cnt != conns.n_completed) ? "   <-- count changed by a refused request" : "");
      if (!ok && cnt != conns.n_completed) { leaked = 1; dbus_error_free (&e); break; }
      dbus_error_free (&e);
      if (ok) break;
    }
  printf ("%s\n", leaked ? "PER-USER COUNT LEAKED ON FAILURE: violation confirmed" : "no leak");
  return leaked;
}
