/* Native replay for unit C07.rule_equal: with only path_namespace='/com/example' held, RemoveMatch of
 * path_namespace='/zzz' must fail with MatchRuleNotFound and leave the held rule in place.
 * (The bus also sends a success reply first - known finding KF-C07-removematch-double-reply - so the error replies
 * are counted with a filter instead of trusting the first reply.)
 * Build + run: replay/native_c07_equal.sh [<repo>]   Exit 1 = the bogus RemoveMatch removed the held rule. */
#include <dbus/dbus.h>
#include <stdio.h>
#include <string.h>
static int not_found;
static DBusHandlerResult filter (DBusConnection *c, DBusMessage *m, void *d)
{ if (dbus_message_get_type (m) == DBUS_MESSAGE_TYPE_ERROR && dbus_message_get_error_name (m) && strstr (dbus_message_get_error_name (m), "MatchRuleNotFound")) not_found++;
  return DBUS_HANDLER_RESULT_NOT_YET_HANDLED; }
static void call (DBusConnection *c, const char *method, const char *rule)
{ DBusMessage *m = dbus_message_new_method_call ("org.freedesktop.DBus", "/org/freedesktop/DBus", "org.freedesktop.DBus", method);
  dbus_message_append_args (m, DBUS_TYPE_STRING, &rule, DBUS_TYPE_INVALID); dbus_connection_send (c, m, NULL); dbus_message_unref (m);
  dbus_connection_flush (c); for (int i = 0; i < 5; i++) dbus_connection_read_write_dispatch (c, 100); }
int main (void)
{
  DBusError e; dbus_error_init (&e); int after_bogus, after_real;
  DBusConnection *c = dbus_bus_get_private (DBUS_BUS_SESSION, &e); if (!c) { fprintf (stderr, "connect: %s\n", e.message); return 2; }
  dbus_connection_set_exit_on_disconnect (c, FALSE); dbus_connection_add_filter (c, filter, NULL, NULL);
  call (c, "AddMatch", "type='signal',path_namespace='/com/example'");
  call (c, "RemoveMatch", "type='signal',path_namespace='/zzz'"); after_bogus = not_found;
  call (c, "RemoveMatch", "type='signal',path_namespace='/com/example'"); after_real = not_found - after_bogus;
  printf ("RemoveMatch(path_namespace='/zzz', not held): %d MatchRuleNotFound ; RemoveMatch(the held rule): %d MatchRuleNotFound\n", after_bogus, after_real);
  if (after_bogus == 1 && after_real == 0) { printf ("correct: the bogus removal failed and the held rule was still there\n"); return 0; }
  printf ("DEFECT: the removal of a different path_namespace value removed the held rule\n"); return 1;
}
