/* Native replay for the body-validator family: run the real _dbus_validate_body_with_reason from /repo's
 * current tree on the given bytes and compare with the reference decoder (spec/body_ref.h).
 * argv: <signature>:<le 0|1>  <hex bytes or ->     Exit 1 = they differ (violation reproduced). */
#include <config.h>
#include <stdio.h>
#include <stdlib.h>
#include <string.h>
#include "dbus/dbus-internals.h"
#include "dbus/dbus-string.h"
#include "dbus/dbus-marshal-validate.h"
#include "dbus/dbus-protocol.h"
#define BODY_REF_MAXSTR 4096
#include "body_ref.h"
int main (int argc, char **argv)
{
  static unsigned char buf[1 << 16] __attribute__ ((aligned (8))); int n = 0, le; char sigtxt[300]; DBusString body, sig; DBusValidity got; int want; const char *hex;
  if (argc < 3) return 2;
  strncpy (sigtxt, argv[1], sizeof sigtxt - 1); char *colon = strrchr (sigtxt, ':'); if (!colon) return 2; *colon = 0; le = atoi (colon + 1);
  hex = argv[2];
  if (strcmp (hex, "-") != 0) for (; hex[2 * n] && hex[2 * n + 1]; n++) { unsigned v; sscanf (hex + 2 * n, "%2x", &v); buf[n] = v; }
  _dbus_string_init_const_len (&body, (const char *) buf, n);
  _dbus_string_init_const (&sig, sigtxt);
  got = _dbus_validate_body_with_reason (&sig, 0, le ? DBUS_LITTLE_ENDIAN : DBUS_BIG_ENDIAN, NULL, &body, 0, n);
  want = body_ref_valid (sigtxt, buf, n, le);
  printf ("signature '%s', %s endian, body (%d bytes):", sigtxt, le ? "little" : "big", n); for (int i = 0; i < n; i++) printf (" %02x", buf[i]); printf ("\n");
  printf ("real _dbus_validate_body_with_reason -> %d (%s) ; specification -> %s\n", got, got == DBUS_VALID ? "VALID" : "invalid", want ? "VALID" : "invalid");
  return (got == DBUS_VALID) != (want != 0);
}
