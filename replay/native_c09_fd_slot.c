/* Native replay for obligation "post.C09.no-slot-for-refused-fd-call" of unit C05.matches (properties C05, C09): bus_dispatch_matches
 * refused a call carrying descriptors to a recipient without fd passing (NotSupported) AFTER bus_context_check_security_policy had
 * already registered the pending reply: the caller got its error, the slot stayed open, and when the would-be callee disconnected
 * (or the reply timeout passed) the caller received a second error (NoReply) for the same call.  (Raw-socket recipient taken from
 * the demo of seeded change C05-5.)  usage: prog <bus-address>; exit 1 = reproduced. */
/* Demonstration for C05 change 1.
 *
 * A method call that carries a Unix file descriptor is addressed to a
 * connection that did not negotiate fd-passing.  The bus cannot deliver such
 * a call, so it has to refuse it: the caller must get exactly one error
 * reply carrying the call's serial, and the recipient must get nothing.
 *
 * The recipient is a hand-made client on a raw Unix socket (libdbus always
 * negotiates fd-passing on Unix sockets, so it cannot play that role); only
 * public libdbus API is used otherwise.  argv[1] is the address of a
 * private bus.
 */

#define _GNU_SOURCE

#include <dbus/dbus.h>

#include <errno.h>
#include <fcntl.h>
#include <poll.h>
#include <stdio.h>
#include <stdlib.h>
#include <string.h>
#include <sys/socket.h>
#include <sys/types.h>
#include <sys/un.h>
#include <unistd.h>

static int failures = 0;

/* ---- the raw recipient ------------------------------------------------ */

typedef struct
{
  int fd;
  char buf[65536];
  size_t len;
  char unique_name[64];
  int calls_received;
} Raw;

static void
raw_write (Raw *r, const void *data, size_t len)
{
  const char *p = data;

  while (len > 0)
    {
      ssize_t n = send (r->fd, p, len, MSG_NOSIGNAL);

      if (n < 0)
        {
          if (errno == EINTR)
            continue;
          perror ("send");
          exit (2);
        }
      p += n;
      len -= n;
    }
}

/* Wait up to @ms for more bytes; FALSE on timeout or EOF */
static int
raw_fill (Raw *r, int ms)
{
  struct pollfd p = { r->fd, POLLIN, 0 };
  ssize_t n;

  if (poll (&p, 1, ms) <= 0)
    return 0;

  n = recv (r->fd, r->buf + r->len, sizeof (r->buf) - r->len, 0);
  if (n <= 0)
    return 0;
  r->len += n;
  return 1;
}

static void
raw_read_line (Raw *r, char *line, size_t max)
{
  for (;;)
    {
      char *end = r->len >= 2 ? memmem (r->buf, r->len, "\r\n", 2) : NULL;

      if (end != NULL)
        {
          size_t n = end - r->buf;

          if (n >= max)
            exit (2);
          memcpy (line, r->buf, n);
          line[n] = '\0';
          memmove (r->buf, end + 2, r->len - n - 2);
          r->len -= n + 2;
          return;
        }

      if (!raw_fill (r, 5000))
        {
          fprintf (stderr, "raw client: no answer during authentication\n");
          exit (2);
        }
    }
}

/* Next complete message, or NULL if none arrives within @ms */
static DBusMessage *
raw_next_message (Raw *r, int ms)
{
  for (;;)
    {
      int needed = 0;

      if (r->len >= 16)
        needed = dbus_message_demarshal_bytes_needed (r->buf, r->len);

      if (needed < 0)
        {
          fprintf (stderr, "raw client: corrupt message from the bus\n");
          exit (2);
        }

      if (needed > 0 && (size_t) needed <= r->len)
        {
          DBusError error = DBUS_ERROR_INIT;
          DBusMessage *m = dbus_message_demarshal (r->buf, needed, &error);

          if (m == NULL)
            {
              fprintf (stderr, "raw client: %s\n", error.message);
              exit (2);
            }
          memmove (r->buf, r->buf + needed, r->len - needed);
          r->len -= needed;
          return m;
        }

      if (!raw_fill (r, ms))
        return NULL;
    }
}

static void
raw_send_message (Raw *r, DBusMessage *m, dbus_uint32_t serial)
{
  char *blob;
  int len;

  dbus_message_set_serial (m, serial);
  if (!dbus_message_marshal (m, &blob, &len))
    exit (2);
  raw_write (r, blob, len);
  dbus_free (blob);
}

static void
raw_connect (Raw *r, const char *address)
{
  DBusError error = DBUS_ERROR_INIT;
  DBusAddressEntry **entries;
  int n_entries;
  const char *path;
  struct sockaddr_un addr;
  char uid[32], line[512], hex[80];
  size_t i;
  DBusMessage *m;

  memset (r, 0, sizeof (*r));

  if (!dbus_parse_address (address, &entries, &n_entries, &error) ||
      n_entries < 1 ||
      (path = dbus_address_entry_get_value (entries[0], "path")) == NULL)
    {
      fprintf (stderr, "need a unix:path= address, got %s\n", address);
      exit (2);
    }

  memset (&addr, 0, sizeof (addr));
  addr.sun_family = AF_UNIX;
  snprintf (addr.sun_path, sizeof (addr.sun_path), "%s", path);
  dbus_address_entries_free (entries);

  r->fd = socket (AF_UNIX, SOCK_STREAM, 0);
  if (r->fd < 0 || connect (r->fd, (struct sockaddr *) &addr, sizeof (addr)) < 0)
    {
      perror ("connect");
      exit (2);
    }

  /* SASL: EXTERNAL, and deliberately no NEGOTIATE_UNIX_FD */
  snprintf (uid, sizeof (uid), "%lu", (unsigned long) getuid ());
  for (i = 0; uid[i] != '\0'; i++)
    snprintf (hex + 2 * i, 3, "%02x", (unsigned char) uid[i]);

  raw_write (r, "\0", 1);
  snprintf (line, sizeof (line), "AUTH EXTERNAL %s\r\n", hex);
  raw_write (r, line, strlen (line));
  raw_read_line (r, line, sizeof (line));
  if (strncmp (line, "OK ", 3) != 0)
    {
      fprintf (stderr, "raw client: authentication refused: %s\n", line);
      exit (2);
    }
  raw_write (r, "BEGIN\r\n", 7);

  m = dbus_message_new_method_call (DBUS_SERVICE_DBUS, DBUS_PATH_DBUS,
                                    DBUS_INTERFACE_DBUS, "Hello");
  raw_send_message (r, m, 1);
  dbus_message_unref (m);

  while ((m = raw_next_message (r, 5000)) != NULL)
    {
      const char *name;

      if (dbus_message_get_type (m) == DBUS_MESSAGE_TYPE_METHOD_RETURN &&
          dbus_message_get_reply_serial (m) == 1 &&
          dbus_message_get_args (m, NULL, DBUS_TYPE_STRING, &name,
                                 DBUS_TYPE_INVALID))
        {
          snprintf (r->unique_name, sizeof (r->unique_name), "%s", name);
          dbus_message_unref (m);
          return;
        }

      dbus_message_unref (m);
    }

  fprintf (stderr, "raw client: no reply to Hello\n");
  exit (2);
}

/* Look at whatever the bus sends to the raw client during @ms */
static void
raw_drain (Raw *r, int ms)
{
  DBusMessage *m;

  while ((m = raw_next_message (r, ms)) != NULL)
    {
      if (dbus_message_get_type (m) == DBUS_MESSAGE_TYPE_METHOD_CALL)
        {
          r->calls_received++;
          printf ("  recipient %s received call %s.%s from %s\n",
                  r->unique_name, dbus_message_get_interface (m),
                  dbus_message_get_member (m), dbus_message_get_sender (m));
        }

      dbus_message_unref (m);
    }
}

/* ---- the caller ------------------------------------------------------- */

/* Send @m and wait for what comes back.  Returns the number of replies from
 * the bus that carry the call's serial within @ms; *error_name is set to the
 * last error's name. */
static dbus_uint32_t g_last_serial;
static int
call_and_count_replies (DBusConnection *caller,
                        DBusMessage    *m,
                        int             ms,
                        char           *error_name,
                        size_t          error_name_len)
{
  dbus_uint32_t serial;
  int waited, replies = 0;

  error_name[0] = '\0';

  if (!dbus_connection_send (caller, m, &serial))
    exit (2);
  dbus_connection_flush (caller);
  g_last_serial = serial;

  for (waited = 0; waited < ms; waited += 20)
    {
      DBusMessage *r;

      dbus_connection_read_write (caller, 20);

      while ((r = dbus_connection_pop_message (caller)) != NULL)
        {
          if (dbus_message_get_reply_serial (r) == serial)
            {
              replies++;

              if (dbus_message_get_type (r) == DBUS_MESSAGE_TYPE_ERROR)
                {
                  const char *text = NULL;

                  dbus_message_get_args (r, NULL, DBUS_TYPE_STRING, &text,
                                         DBUS_TYPE_INVALID);
                  snprintf (error_name, error_name_len, "%s",
                            dbus_message_get_error_name (r));
                  printf ("  caller received error %s from %s: %s\n",
                          error_name, dbus_message_get_sender (r),
                          text ? text : "");
                }
            }

          dbus_message_unref (r);
        }
    }

  return replies;
}

int
main (int argc, char **argv)
{
  DBusError error = DBUS_ERROR_INIT; DBusConnection *caller; DBusMessage *m; Raw recipient; char error_name[128]; int fd, n, later = 0, waited;
  if (argc != 2) return 3;
  raw_connect (&recipient, argv[1]);
  caller = dbus_connection_open_private (argv[1], &error);
  if (caller == NULL || !dbus_bus_register (caller, &error)) { fprintf (stderr, "cannot connect: %s\n", error.message); return 3; }
  dbus_connection_set_exit_on_disconnect (caller, FALSE);
  if (!dbus_connection_can_send_type (caller, DBUS_TYPE_UNIX_FD)) { printf ("SKIP: no fd passing here\n"); return 0; }
  printf ("method call carrying a file descriptor to %s, a connection that did not negotiate fd passing\n", recipient.unique_name);
  fd = open ("/dev/null", O_RDONLY);
  m = dbus_message_new_method_call (recipient.unique_name, "/com/example/Object", "com.example.Iface", "TakeThis");
  if (fd < 0 || m == NULL || !dbus_message_append_args (m, DBUS_TYPE_UNIX_FD, &fd, DBUS_TYPE_INVALID)) return 3;
  close (fd);
  n = call_and_count_replies (caller, m, 1500, error_name, sizeof (error_name));
  dbus_message_unref (m);
  printf ("replies so far: %d (%s)\n", n, error_name);
  if (n != 1) { printf ("unexpected: wanted exactly the NotSupported error\n"); return 3; }
  printf ("the would-be recipient now disconnects\n");
  close (recipient.fd);
  for (waited = 0; waited < 1500; waited += 20)
    { DBusMessage *r; dbus_connection_read_write (caller, 20);
      while ((r = dbus_connection_pop_message (caller)) != NULL)
        { if (dbus_message_get_reply_serial (r) == g_last_serial) { later++; printf ("  caller received ANOTHER reply to the same call: %s\n", dbus_message_get_type (r) == DBUS_MESSAGE_TYPE_ERROR ? dbus_message_get_error_name (r) : "(method return)"); }
          dbus_message_unref (r); } }
  dbus_connection_close (caller); dbus_connection_unref (caller);
  if (later) { printf ("REPRODUCED: %d + %d replies for one refused call: the refusal left its pending-reply slot open\n", n, later); return 1; }
  printf ("not reproduced: exactly one error for the refused call\n");
  return 0;
}
