/* Native replay of C04 finding "queue position with REPLACE_EXISTING when replacement is not possible".
 * Talks to a real dbus-daemon built from /repo's current tree (address in argv[1]) through libdbus:
 *   A: RequestName(n, 0)                  -> PRIMARY_OWNER   (A does not allow replacement)
 *   B: RequestName(n, 0)                  -> IN_QUEUE
 *   C: RequestName(n, REPLACE_EXISTING)   -> IN_QUEUE        (replacement not possible)
 *   ListQueuedOwners(n)
 * Specification (RequestName): "If replacement is not possible, and the method caller is currently not in
 * the queue, the method caller is appended to the queue."  => [A, B, C].
 * build: gcc -I/repo -I/repo/_build native_c04_queuepos.c -L/repo/_build/lib -ldbus-1 -Wl,-rpath,/repo/_build/lib
 * run:   dbus-daemon --config-file=/repo/_build/bus/session.conf --print-address --nofork & ; ./a.out <address> */
#include <stdio.h>
#include <string.h>
#include <dbus/dbus.h>
static DBusConnection *open_conn (const char *addr)
{ DBusError e; dbus_error_init (&e); DBusConnection *c = dbus_connection_open_private (addr, &e);
  if (!c || !dbus_bus_register (c, &e)) { fprintf (stderr, "connect: %s\n", e.message); return NULL; } return c; }
int main (int argc, char **argv)
{
  const char *name = "com.example.VerifQueue"; DBusError e; dbus_error_init (&e);
  if (argc < 2) return 2;
  DBusConnection *a = open_conn (argv[1]), *b = open_conn (argv[1]), *c = open_conn (argv[1]);
  if (!a || !b || !c) return 2;
  printf ("A=%s B=%s C=%s\n", dbus_bus_get_unique_name (a), dbus_bus_get_unique_name (b), dbus_bus_get_unique_name (c));
  printf ("A RequestName(0)                -> %d\n", dbus_bus_request_name (a, name, 0, &e));
  printf ("B RequestName(0)                -> %d\n", dbus_bus_request_name (b, name, 0, &e));
  printf ("C RequestName(REPLACE_EXISTING) -> %d\n", dbus_bus_request_name (c, name, DBUS_NAME_FLAG_REPLACE_EXISTING, &e));
  DBusMessage *m = dbus_message_new_method_call ("org.freedesktop.DBus", "/org/freedesktop/DBus", "org.freedesktop.DBus", "ListQueuedOwners");
  dbus_message_append_args (m, DBUS_TYPE_STRING, &name, DBUS_TYPE_INVALID);
  DBusMessage *r = dbus_connection_send_with_reply_and_block (a, m, 2000, &e);
  if (!r) { fprintf (stderr, "ListQueuedOwners: %s\n", e.message); return 2; }
  char **q; int n, i; dbus_message_get_args (r, &e, DBUS_TYPE_ARRAY, DBUS_TYPE_STRING, &q, &n, DBUS_TYPE_INVALID);
  printf ("daemon queue :"); for (i = 0; i < n; i++) printf (" %s", q[i]); printf ("\n");
  printf ("specification: %s %s %s\n", dbus_bus_get_unique_name (a), dbus_bus_get_unique_name (b), dbus_bus_get_unique_name (c));
  int differ = !(n == 3 && !strcmp (q[1], dbus_bus_get_unique_name (b)) && !strcmp (q[2], dbus_bus_get_unique_name (c)));
  printf (differ ? "DIFFERENT: violation confirmed\n" : "same\n");
  return differ ? 1 : 0;
}
