/* Native replay of the C20 finding named by unit C20.dispatch, obligation
 *   "postE found_object iff the path is in the registered tree or below a registered fallback handler".
 * The REAL dbus/dbus-object-tree.c of /repo's current tree (#include'd) on the built libdbus.
 * Property C20: "With no taker the caller receives UnknownMethod when the path is a registered path, an ancestor
 * of one, or lies below a fallback registration, and UnknownObject otherwise".
 * dbus_connection_dispatch sends `found_object ? UnknownMethod : UnknownObject`, and found_object is what
 * _dbus_object_tree_dispatch_and_unlock stores.  Scenarios (no handler ever takes the message):
 *   1. empty tree, call to /no/such/object                         -> owed: found_object == 0
 *   2. /a/b registered as fallback, /a/b/c registered, then /a/b unregistered; call to /a/b/x/y
 *      (no fallback registration covers it any more, /a/b/x is not in the tree) -> owed: found_object == 0
 *   3. control: /a/b/c registered; call to /a/b (ancestor of a registered path) -> owed: found_object == 1
 * build by hand:
 *   gcc -g -w -DDBUS_COMPILATION -DHAVE_CONFIG_H -D_GNU_SOURCE -I/repo -I/repo/_build -I/repo/dbus \
 *       native_c20_found.c -L/repo/_build/lib -ldbus-1 -Wl,-rpath,/repo/_build/lib -o /tmp/native_c20_found && /tmp/native_c20_found */
#include <config.h>
#include <stdio.h>
#include <stdlib.h>
#include <string.h>
#include "dbus/dbus-object-tree.c"

static DBusHandlerResult decline (DBusConnection *c, DBusMessage *m, void *d) { return DBUS_HANDLER_RESULT_NOT_YET_HANDLED; }
static const DBusObjectPathVTable vt = { NULL, decline, NULL, NULL, NULL, NULL };

static int probe (DBusObjectTree *t, const char *path)
{
  DBusMessage *m = dbus_message_new_method_call (NULL, path, "com.example.I", "M");
  dbus_bool_t found = 42;
  DBusHandlerResult r = _dbus_object_tree_dispatch_and_unlock (t, m, &found);
  printf ("  call to %-12s: result=%s found_object=%u -> error sent by dbus_connection_dispatch: %s\n", path,
          r == DBUS_HANDLER_RESULT_NOT_YET_HANDLED ? "NOT_YET_HANDLED" : "other", found,
          found ? "UnknownMethod" : "UnknownObject");
  dbus_message_unref (m);
  return found != 0;
}

int main (void)
{
  int bad = 0;
  const char *ab[] = { "a", "b", NULL }, *abc[] = { "a", "b", "c", NULL };
  DBusError e = DBUS_ERROR_INIT;
  DBusObjectTree *t = _dbus_object_tree_new (NULL);
  printf ("scenario 1: empty tree\n");
  if (probe (t, "/no/such/object")) { printf ("  MISMATCH: nothing is registered, UnknownObject is owed\n"); bad++; }
  printf ("scenario 2: fallback /a/b registered, /a/b/c registered, /a/b unregistered\n");
  _dbus_object_tree_register (t, TRUE, ab, &vt, NULL, &e);
  _dbus_object_tree_register (t, FALSE, abc, &vt, NULL, &e);
  _dbus_object_tree_unregister_and_unlock (t, ab);
  if (probe (t, "/a/b/x/y")) { printf ("  MISMATCH: no fallback registration covers /a/b/x/y, UnknownObject is owed\n"); bad++; }
  printf ("scenario 3 (control): /a/b is an ancestor of the registered /a/b/c\n");
  if (!probe (t, "/a/b")) { printf ("  MISMATCH: UnknownMethod is owed\n"); bad++; }
  printf (bad ? "REPLAY: code and specification DIFFER (%d)\n" : "REPLAY: code agrees with the specification\n", bad);
  return bad ? 1 : 0;
}
