/* Native replay for the scanner family: run the real predicate from /repo's current tree on the
 * given bytes and compare with the reference recogniser.  argv: <function> <hex bytes or ->  */
#include <config.h>
#include <stdio.h>
#include <stdlib.h>
#include <string.h>
#include "dbus/dbus-internals.h"
#include "dbus/dbus-string.h"
#include "dbus/dbus-marshal-validate.h"
#include "dbus/dbus-signature.h"
#include "grammar_ref.h"
#include "signature_ref.h"
int main (int argc, char **argv)
{
  static unsigned char buf[1 << 16]; int n = 0, got = -1, want = -1; DBusString s; const char *fn, *hex;
  if (argc < 3) return 2;
  fn = argv[1]; hex = argv[2];
  if (strcmp (hex, "-") != 0) for (; hex[2 * n] && hex[2 * n + 1]; n++) { unsigned v; sscanf (hex + 2 * n, "%2x", &v); buf[n] = v; }
  buf[n] = 0;
  _dbus_string_init_const_len (&s, (const char *) buf, n);
  if (!strcmp (fn, "_dbus_validate_member")) { got = _dbus_validate_member (&s, 0, n); want = ref_member (buf, n); }
  else if (!strcmp (fn, "_dbus_validate_interface")) { got = _dbus_validate_interface (&s, 0, n); want = ref_interface (buf, n); }
  else if (!strcmp (fn, "_dbus_validate_error_name")) { got = _dbus_validate_error_name (&s, 0, n); want = ref_interface (buf, n); }
  else if (!strcmp (fn, "_dbus_validate_bus_name")) { got = _dbus_validate_bus_name (&s, 0, n); want = ref_bus_name_full (buf, n, 0); }
  else if (!strcmp (fn, "_dbus_validate_bus_namespace")) { got = _dbus_validate_bus_namespace (&s, 0, n); want = ref_bus_name_full (buf, n, 1); }
  else if (!strcmp (fn, "_dbus_validate_path")) { got = _dbus_validate_path (&s, 0, n); want = ref_path (buf, n); }
  else if (!strcmp (fn, "_dbus_string_validate_utf8")) { got = _dbus_string_validate_utf8 (&s, 0, n); want = ref_utf8 (buf, n); }
  else if (!strcmp (fn, "_dbus_validate_signature_with_reason")) { got = (_dbus_validate_signature_with_reason (&s, 0, n) == DBUS_VALID); want = spec_signature (buf, n);
      printf ("public API dbus_signature_validate -> %d\n", (int) dbus_signature_validate ((const char *) buf, NULL)); }
  else { fprintf (stderr, "unknown function %s\n", fn); return 2; }
  printf ("input (%d bytes): ", n); for (int i = 0; i < n; i++) printf (buf[i] >= 32 && buf[i] < 127 ? "%c" : "\\x%02x", buf[i]); printf ("\n");
  printf ("real %s -> %d ; specification -> %d\n", fn, got, want);
  return (got != 0) != (want != 0);
}
