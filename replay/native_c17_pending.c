/* Native replay of the two C17 findings (units C17.disconnect and C17.block_cancelled) on the built library of
 * /repo's current tree, through the PUBLIC API only: an in-process private server and client on one DBusLoop.
 *   mode 0 (C17.disconnect, obligation "postD after the connection closed every outstanding call is completed or
 *           can still be completed"): a call is outstanding, the peer closes; the client dispatches from its main
 *           loop.  Owed (property C17; dbus_connection_send_with_reply doc "A DBusPendingCall will always see exactly
 *           one reply message, unless it's cancelled"): the call completes once with a local error.  Observed: the
 *           synthesized NoReply error is handed to the FILTERS as an ordinary message, the call never completes.
 *           (connection_timeout_and_complete_all_pending_calls_unlocked removes the call from pending_replies
 *           without completing it, so dbus_connection_dispatch no longer finds it.)
 *   mode 1 (C17.block_cancelled, obligation "post a cancelled call is never completed nor notified"): send with
 *           reply (2 s timeout), dbus_pending_call_cancel, then dbus_pending_call_block.  Owed: never notified.
 *           Observed: after the timeout the cancelled call is completed with NoReply and its notify function runs.
 * build by hand (libdbus-testutils provides the main loop glue):
 *   gcc -g -w -DDBUS_COMPILATION -DHAVE_CONFIG_H -D_GNU_SOURCE -I/repo -I/repo/_build -I/repo/test native_c17_pending.c \
 *       -L/repo/_build/lib -ldbus-testutils -ldbus-internal -ldbus-1 -lsystemd -lpthread -Wl,-rpath,/repo/_build/lib \
 *       -o /tmp/native_c17_pending && /tmp/native_c17_pending 0; /tmp/native_c17_pending 1
 * exit code 1 = code and specification differ. */
#include <config.h>
#include <stdio.h>
#include <stdlib.h>
#include <dbus/dbus.h>
#include "test-utils.h"
static DBusConnection *server_conn; static int notified; static int new_conn;
static void new_connection_cb (DBusServer *server, DBusConnection *c, void *data) { server_conn = dbus_connection_ref (c); test_connection_setup (data, c); new_conn = 1; }
static void notify (DBusPendingCall *pc, void *d) { notified++; DBusMessage *m = dbus_pending_call_steal_reply (pc); printf ("  notify #%d: reply type=%d error=%s\n", notified, m ? dbus_message_get_type (m) : -1, m ? dbus_message_get_error_name (m) : "(null)"); if (m) dbus_message_unref (m); }
static DBusHandlerResult filt (DBusConnection *c, DBusMessage *m, void *d) { printf ("  filter sees: type=%d error=%s member=%s reply_serial=%u\n", dbus_message_get_type (m), dbus_message_get_error_name (m), dbus_message_get_member (m), dbus_message_get_reply_serial (m)); return DBUS_HANDLER_RESULT_NOT_YET_HANDLED; }
int main (int argc, char **argv)
{ setvbuf (stdout, NULL, _IONBF, 0);
  int mode = argc > 1 ? atoi (argv[1]) : 0;
  DBusError e = DBUS_ERROR_INIT; TestMainContext *ctx = test_main_context_get ();
  DBusServer *server = dbus_server_listen ("unix:tmpdir=/tmp", &e); if (!server) { printf ("listen: %s\n", e.message); return 2; }
  dbus_server_set_new_connection_function (server, new_connection_cb, ctx, NULL); test_server_setup (ctx, server);
  DBusConnection *client = dbus_connection_open_private (dbus_server_get_address (server), &e); if (!client) { printf ("open: %s\n", e.message); return 2; }
  test_connection_setup (ctx, client); dbus_connection_add_filter (client, filt, NULL, NULL);
  while (!new_conn) test_main_context_iterate (ctx, TRUE);
  DBusMessage *m = dbus_message_new_method_call (NULL, "/x", "a.b", "M"); DBusPendingCall *pc = NULL;
  dbus_connection_send_with_reply (client, m, &pc, 2000); dbus_pending_call_set_notify (pc, notify, NULL, NULL);
  if (mode == 0)
    { printf ("mode 0: peer closes while the call is outstanding; client only dispatches from its main loop\n");
      dbus_connection_close (server_conn);
      for (int i = 0; i < 200 && dbus_connection_get_is_connected (client); i++) test_main_context_iterate (ctx, FALSE);
      for (int i = 0; i < 50; i++) { test_main_context_iterate (ctx, FALSE); while (dbus_connection_dispatch (client) == DBUS_DISPATCH_DATA_REMAINS) ; }
      printf ("  connected=%d completed=%d notified=%d\n", dbus_connection_get_is_connected (client), dbus_pending_call_get_completed (pc), notified);
      printf (notified == 1 ? "AGREES: completed exactly once\n" : "DIFFERS: outstanding call not completed after disconnect\n"); return notified == 1 ? 0 : 1; }
  else
    { printf ("mode 1: cancel, then block on the cancelled call (timeout 2 s)\n"); while (dbus_connection_has_messages_to_send (client)) test_main_context_iterate (ctx, FALSE);
      dbus_pending_call_cancel (pc); dbus_pending_call_block (pc);
      printf ("  completed=%d notified=%d\n", dbus_pending_call_get_completed (pc), notified);
      printf (notified == 0 ? "AGREES: cancelled call never notified\n" : "DIFFERS: a cancelled call was notified\n"); return notified == 0 ? 0 : 1; }
  return 0;
}
