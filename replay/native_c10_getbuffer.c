/* Native replay for the two findings of unit C11.F4.loader_buffer_full (lemma F4, _dbus_message_loader_get_buffer):
 * when COMPLETE frames are still in the loader's buffer while descriptors are pending -- the state left behind by
 * _dbus_message_loader_queue_messages returning FALSE for lack of memory, after which the transport simply retries
 * do_reading() -> _dbus_message_loader_get_buffer() -- the "skip over entire messages" loop
 *   (a) calls _dbus_header_have_message_untrusted at offset = length of the first message, which is not 8-aligned unless
 *       the body length happens to be a multiple of 8: that function asserts the alignment (abort in assertion-enabled
 *       builds; without assertions its 32-bit reads round the position up to 4 and read the wrong words);
 *   (b) asserts needed > DBUS_MINIMUM_HEADER_SIZE, which a 16-byte frame (empty field array, empty body; judged VALID by the
 *       untrusted length check, rejected only later by load_message) violates.
 * Build (against the build tree of the repo under test; EMBEDDED_TESTS for the allocation-failure hook):
 *   gcc -DDBUS_COMPILATION -DHAVE_CONFIG_H -D_GNU_SOURCE -I$REPO -I$REPO/_build native_c10_getbuffer.c \
 *       $REPO/_build/lib/libdbus-internal.a -L$REPO/_build/lib -ldbus-1 -Wl,-rpath,$REPO/_build/lib -lpthread -lrt -o native_c10_getbuffer
 * Usage: native_c10_getbuffer a|b     Exit 1 = defect reproduced (child aborted in get_buffer), 0 = not reproduced. */
#include <config.h>
#include <stdio.h>
#include <stdlib.h>
#include <string.h>
#include <unistd.h>
#include <sys/wait.h>
#include "dbus/dbus.h"
#include "dbus/dbus-internals.h"
#include "dbus/dbus-string.h"
#include "dbus/dbus-message-internal.h"

static void scenario (int which)
{
  DBusMessageLoader *l; DBusString *buf; int *fds; unsigned n; int max_to_read = 0; dbus_bool_t may_fds = 0;
  /* warm-up: the global locks exist in any running process */
  { DBusMessage *w = dbus_message_new_method_call ("a.b", "/a", "a.b", "W"); if (!w) exit (3); /* kept alive: the message cache stays empty */ }
  l = _dbus_message_loader_new ();
  if (!l) exit (3);
  _dbus_message_loader_get_buffer (l, &buf, NULL, NULL);
  if (which == 'a')
    {
      /* message A: body = one byte => header_len + body_len is odd; followed by the first 24 bytes of message B (incomplete) */
      DBusMessage *a = dbus_message_new_method_call ("a.b", "/a", "a.b", "M"), *b = dbus_message_new_method_call ("a.b", "/a", "a.b", "N");
      unsigned char y = 7; const DBusString *h, *bd;
      if (!a || !b || !dbus_message_append_args (a, DBUS_TYPE_BYTE, &y, DBUS_TYPE_INVALID)) exit (3);
      dbus_message_set_serial (a, 1); dbus_message_lock (a); dbus_message_set_serial (b, 2); dbus_message_lock (b);
      _dbus_message_get_network_data (a, &h, &bd);
      if (!_dbus_string_copy (h, 0, buf, 0) || !_dbus_string_copy (bd, 0, buf, _dbus_string_get_length (buf))) exit (3);
      printf ("message A: %d bytes (header %d + body %d)\n", _dbus_string_get_length (buf), _dbus_string_get_length (h), _dbus_string_get_length (bd));
      _dbus_message_get_network_data (b, &h, &bd);
      if (!_dbus_string_copy_len (h, 0, 24, buf, _dbus_string_get_length (buf))) exit (3);
    }
  else
    {
      /* a 16-byte frame: little endian, type 1, flags 0, version 1, body length 0, serial 1, field array length 0 */
      static const unsigned char f[16] = { 'l', 1, 0, 1, 0, 0, 0, 0, 1, 0, 0, 0, 0, 0, 0, 0 };
      if (!_dbus_string_append_len (buf, (const char *) f, 16)) exit (3);
    }
  /* one descriptor arrived with these bytes */
  if (!_dbus_message_loader_get_unix_fds (l, &fds, &n) || n < 1) exit (3);
  fds[0] = dup (0);
  _dbus_message_loader_return_unix_fds (l, fds, 1);
  _dbus_message_loader_return_buffer (l, buf);
  /* the transport now frames what it has -- and runs out of memory at the first allocation */
  _dbus_set_fail_alloc_counter (0);
  dbus_bool_t ok = _dbus_message_loader_queue_messages (l);
  _dbus_set_fail_alloc_counter (_DBUS_INT_MAX);
  printf ("queue_messages under OOM: %s, corrupted=%d, %d bytes still buffered, %d descriptor(s) pending\n", ok ? "TRUE" : "FALSE (need memory)",
          _dbus_message_loader_get_is_corrupted (l), _dbus_string_get_length (buf), _dbus_message_loader_get_pending_fds_count (l));
  if (ok) exit (4);      /* allocation hook did not bite: cannot replay */
  fflush (stdout);
  /* memory is back; the transport retries do_reading(), whose first step is: */
  _dbus_message_loader_get_buffer (l, &buf, &max_to_read, &may_fds);
  printf ("get_buffer survived: max_to_read=%d may_read_fds=%d\n", max_to_read, may_fds);
  exit (0);
}
int main (int argc, char **argv)
{
  int which = argc > 1 ? argv[1][0] : 'a'; int st;
  pid_t p = fork ();
  if (p == 0) { scenario (which); }
  waitpid (p, &st, 0);
  if (WIFSIGNALED (st)) { printf ("REPRODUCED (%c): _dbus_message_loader_get_buffer aborted with signal %d\n", which, WTERMSIG (st)); return 1; }
  printf ("not reproduced (%c): child exit %d\n", which, WEXITSTATUS (st)); return 0;
}
