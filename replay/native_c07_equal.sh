#!/bin/bash
R=${1:-${VERIF_REPO:-/repo}}; B=$R/_build; D=$(mktemp -d /tmp/c07eq.XXXXXX); trap 'kill $DPID 2>/dev/null; rm -rf $D' EXIT
gcc -o $D/t $(dirname $0)/native_c07_equal.c -I$R -I$B -L$B/lib -ldbus-1 -Wl,-rpath,$B/lib || exit 2
cat > $D/bus.conf <<EOC
<!DOCTYPE busconfig PUBLIC "-//freedesktop//DTD D-Bus Bus Configuration 1.0//EN" "http://www.freedesktop.org/standards/dbus/1.0/busconfig.dtd">
<busconfig><type>session</type><listen>unix:path=$D/sock</listen><policy context="default"><allow send_destination="*" eavesdrop="true"/><allow eavesdrop="true"/><allow own="*"/></policy></busconfig>
EOC
$B/bin/dbus-daemon --config-file=$D/bus.conf --nofork > $D/log 2>&1 & DPID=$!
sleep 1; DBUS_SESSION_BUS_ADDRESS=unix:path=$D/sock $D/t
