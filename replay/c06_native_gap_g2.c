/* Native replay for the C06 man-page/code gap G2: [send|receive]_requested_reply is documented as "ignored for other
 * message types" than method returns and errors, but bus/policy.c keys on the REPLY_SERIAL header field instead of the
 * message type.  A *signal* that carries a REPLY_SERIAL field is therefore refused by <allow send_type="signal"/>
 * (requested_reply defaults to "true" on <allow>), while the same signal without the field is accepted.
 * usage: c06_native_gap_g2 <bus address> <0|1: set reply serial> */
#include <dbus/dbus.h>
#include <stdio.h>
#include <stdlib.h>
int main (int argc, char **argv)
{
  DBusError e; dbus_error_init (&e);
  DBusConnection *rx = dbus_connection_open_private (argv[1], &e), *tx = dbus_connection_open_private (argv[1], &e);
  if (!rx || !tx || !dbus_bus_register (rx, &e) || !dbus_bus_register (tx, &e)) { fprintf (stderr, "connect: %s\n", e.message); return 2; }
  dbus_bus_add_match (rx, "type='signal',interface='a.b'", &e);
  if (dbus_error_is_set (&e)) { fprintf (stderr, "add_match: %s\n", e.message); return 2; }
  DBusMessage *m = dbus_message_new_signal ("/a", "a.b", "S");
  if (atoi (argv[2])) dbus_message_set_reply_serial (m, 7);
  dbus_connection_send (tx, m, NULL); dbus_connection_flush (tx);
  for (int i = 0; i < 20; i++)
    {
      dbus_connection_read_write (rx, 50); dbus_connection_read_write (tx, 0);
      DBusMessage *r;
      while ((r = dbus_connection_pop_message (rx)) != NULL)
        {
          if (dbus_message_is_signal (r, "a.b", "S")) { printf ("delivered\n"); return 0; }
          dbus_message_unref (r);
        }
    }
  printf ("NOT delivered\n"); return 1;
}
