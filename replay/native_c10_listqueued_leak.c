/* Native replay for obligation "drv.queued.release" of unit C04.driver_list_queued_owners (property C10: no sequence of
 * requests from one client makes the bus stop serving): every successful ListQueuedOwners call leaked the temporary list of
 * owner names (bus_driver_handle_list_queued_owners returned TRUE without _dbus_list_clear (&base_names)), so one client can
 * grow the bus without bound.  The program asks a private dbus-daemon N times for ListQueuedOwners (and, as control, N times for
 * GetNameOwner) and compares the daemon's resident set size.  usage: prog <daemon-pid> <bus-address> ; exit 1 = leak reproduced. */
#include <stdio.h>
#include <stdlib.h>
#include <string.h>
#include <dbus/dbus.h>
static long rss_kb (int pid) { char p[64], l[256]; long v = -1; snprintf (p, sizeof p, "/proc/%d/status", pid); FILE *f = fopen (p, "r"); if (!f) return -1; while (fgets (l, sizeof l, f)) if (!strncmp (l, "VmRSS:", 6)) v = atol (l + 6); fclose (f); return v; }
static void burst (DBusConnection *c, const char *method, int n)
{ const char *name = "org.freedesktop.DBus";
  for (int i = 0; i < n; i++)
    { DBusMessage *m = dbus_message_new_method_call ("org.freedesktop.DBus", "/org/freedesktop/DBus", "org.freedesktop.DBus", method);
      dbus_message_append_args (m, DBUS_TYPE_STRING, &name, DBUS_TYPE_INVALID);
      DBusMessage *r = dbus_connection_send_with_reply_and_block (c, m, -1, NULL); dbus_message_unref (m); if (!r) { fprintf (stderr, "call failed\n"); exit (3); } dbus_message_unref (r); } }
int main (int argc, char **argv)
{
  if (argc < 3) return 3; int pid = atoi (argv[1]); DBusError e; dbus_error_init (&e);
  DBusConnection *c = dbus_connection_open_private (argv[2], &e); if (!c || !dbus_bus_register (c, &e)) { fprintf (stderr, "connect: %s\n", e.message); return 3; }
  int n = 150000;
  burst (c, "GetNameOwner", 2000); burst (c, "ListQueuedOwners", 2000);       /* warm up allocator pools */
  long r0 = rss_kb (pid); burst (c, "GetNameOwner", n); long r1 = rss_kb (pid); burst (c, "ListQueuedOwners", n); long r2 = rss_kb (pid);
  printf ("daemon RSS: start %ld kB; after %d GetNameOwner calls %+ld kB; after %d ListQueuedOwners calls %+ld kB\n", r0, n, r1 - r0, n, r2 - r1);
  int leak = (r2 - r1) > 1500 && (r2 - r1) > 4 * (r1 - r0 > 100 ? r1 - r0 : 100);
  printf (leak ? "REPRODUCED: the bus grows with every ListQueuedOwners call\n" : "not reproduced\n");
  return leak;
}
