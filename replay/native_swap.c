/* Native replay for the byteswap family: validate the body with the real validator in the given byte
 * order, convert it with the real _dbus_marshal_byteswap, validate again.  argv: <signature>:<le 0|1> <hex>
 * Exit != 0 (abort from an assertion, or a different verdict) = violation reproduced. */
#include <config.h>
#include <stdio.h>
#include <stdlib.h>
#include <string.h>
#include "dbus/dbus-internals.h"
#include "dbus/dbus-string.h"
#include "dbus/dbus-marshal-validate.h"
#include "dbus/dbus-marshal-byteswap.h"
#include "dbus/dbus-protocol.h"
int main (int argc, char **argv)
{
  unsigned char buf[4096]; int n = 0, le; char sigtxt[300]; DBusString body, sig; DBusValidity v1, v2; const char *hex;
  if (argc < 3) return 2;
  strncpy (sigtxt, argv[1], sizeof sigtxt - 1); char *colon = strrchr (sigtxt, ':'); if (!colon) return 2; *colon = 0; le = atoi (colon + 1);
  hex = argv[2];
  if (strcmp (hex, "-") != 0) for (; hex[2 * n] && hex[2 * n + 1]; n++) { unsigned v; sscanf (hex + 2 * n, "%2x", &v); buf[n] = v; }
  if (!_dbus_string_init (&body) || !_dbus_string_append_len (&body, (const char *) buf, n)) return 2;
  _dbus_string_init_const (&sig, sigtxt);
  int A = le ? DBUS_LITTLE_ENDIAN : DBUS_BIG_ENDIAN, B = le ? DBUS_BIG_ENDIAN : DBUS_LITTLE_ENDIAN;
  v1 = _dbus_validate_body_with_reason (&sig, 0, A, NULL, &body, 0, n);
  printf ("signature '%s', %s endian, %d bytes: validator says %s\n", sigtxt, le ? "little" : "big", n, v1 == DBUS_VALID ? "VALID" : "invalid");
  if (v1 != DBUS_VALID) return 0;
  fflush (stdout);
  _dbus_marshal_byteswap (&sig, 0, A, B, &body, 0);     /* aborts here if an assertion fails */
  v2 = _dbus_validate_body_with_reason (&sig, 0, B, NULL, &body, 0, n);
  printf ("after conversion to the other byte order: %s\n", v2 == DBUS_VALID ? "VALID" : "invalid");
  return v2 != DBUS_VALID;
}
