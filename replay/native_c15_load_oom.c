/* Native replay for the finding of unit C15.load_message_fds_atomic: an allocation failure in
 * load_message AFTER the descriptors were moved from the loader to the message (list append / body
 * copy) makes the loader lose them: the message is discarded (its descriptors closed), the frame stays
 * in the buffer, and the retry judges the same frame DBUS_INVALID_MISSING_UNIX_FDS -> the connection is
 * dropped although nothing invalid was received.
 * Build (against the build tree of the repo under test, EMBEDDED_TESTS for the allocation-failure hook):
 *   gcc -DDBUS_COMPILATION -DHAVE_CONFIG_H -D_GNU_SOURCE -I$REPO -I$REPO/_build native_c15_load_oom.c \
 *       $REPO/_build/lib/libdbus-internal.a -L$REPO/_build/lib -ldbus-1 -Wl,-rpath,$REPO/_build/lib -lpthread -lrt -o native_c15_load_oom
 * Exit 1 = defect reproduced. */
#include <config.h>
#include <stdio.h>
#include <stdlib.h>
#include <unistd.h>
#include "dbus/dbus.h"
#include "dbus/dbus-internals.h"
#include "dbus/dbus-string.h"
#include "dbus/dbus-message-internal.h"
#include "dbus/dbus-marshal-validate.h"
static DBusMessageLoader *fresh_loader (const DBusString *header, const DBusString *body)
{
  DBusMessageLoader *l = _dbus_message_loader_new (); DBusString *buf; int *fds; unsigned n;
  _dbus_message_loader_get_buffer (l, &buf, NULL, NULL);
  if (!_dbus_string_copy (header, 0, buf, 0) || !_dbus_string_copy (body, 0, buf, _dbus_string_get_length (buf))) exit (3);
  if (!_dbus_message_loader_get_unix_fds (l, &fds, &n) || n < 1) exit (3);
  fds[0] = dup (0);
  _dbus_message_loader_return_unix_fds (l, fds, 1);
  _dbus_message_loader_return_buffer (l, buf);       /* (does not queue by itself) */
  return l;
}
int main (void)
{
  DBusMessage *m = dbus_message_new_method_call ("a.b", "/a", "a.b", "M"); int fd = 0; const DBusString *header, *body; int reproduced = 0;
  if (!m || !dbus_message_append_args (m, DBUS_TYPE_UNIX_FD, &fd, DBUS_TYPE_INVALID)) return 3;
  dbus_message_set_serial (m, 1); dbus_message_lock (m);
  _dbus_message_get_network_data (m, &header, &body);
  for (int k = 0; k < 40; k++)
    {
      DBusMessageLoader *l = fresh_loader (header, body);
      int before = _dbus_message_loader_get_pending_fds_count (l);
      _dbus_set_fail_alloc_counter (k);
      dbus_bool_t ok = _dbus_message_loader_queue_messages (l);
      _dbus_set_fail_alloc_counter (_DBUS_INT_MAX);
      int after = _dbus_message_loader_get_pending_fds_count (l);
      DBusMessage *got = _dbus_message_loader_pop_message (l);
      if (!ok && !_dbus_message_loader_get_is_corrupted (l) && got == NULL && after < before)
        {
          printf ("allocation #%d fails: queue_messages reports OOM, no message produced, but pending descriptors %d -> %d (lost)\n", k, before, after);
          ok = _dbus_message_loader_queue_messages (l);      /* the retry the transport performs once memory is back */
          printf ("retry with memory available: returned %d, corrupted=%d, reason=%d (DBUS_INVALID_MISSING_UNIX_FDS=%d)\n", ok,
                  _dbus_message_loader_get_is_corrupted (l), _dbus_message_loader_get_corruption_reason (l), DBUS_INVALID_MISSING_UNIX_FDS);
          if (_dbus_message_loader_get_is_corrupted (l) && _dbus_message_loader_get_corruption_reason (l) == DBUS_INVALID_MISSING_UNIX_FDS) reproduced = 1;
        }
      if (got) dbus_message_unref (got);
      _dbus_message_loader_unref (l);
      if (ok && got) break;     /* k large enough: everything succeeded */
    }
  printf (reproduced ? "REPRODUCED: a valid fd-carrying frame is turned into a protocol violation by a transient OOM\n" : "not reproduced\n");
  return reproduced;
}
