/* Native replay for C08/C10 findings on the server-side handshake: feeds raw bytes to a server DBusAuth object of the
 * CURRENT /repo tree (dbus-auth.c and dbus-string.c are compiled from source here; the rest comes from
 * _build/lib/libdbus-internal.a) and reports what _dbus_auth_do_work does.
 *   usage: native_c08_auth '<bytes with C escapes, e.g. AUTH \n\r\n>'
 * build:  see replay/native_c08_auth.sh
 */
#include <config.h>
#include <stdio.h>
#include <string.h>
#include <stdlib.h>
#include "dbus/dbus-internals.h"
#include "dbus/dbus-auth.h"
#include "dbus/dbus-string.h"

static int unescape (const char *s, unsigned char *out)
{
  int n = 0;
  while (*s)
    {
      if (*s == '\\' && s[1])
        {
          s++;
          if (*s == 'n') out[n++] = '\n'; else if (*s == 'r') out[n++] = '\r'; else if (*s == 't') out[n++] = '\t';
          else if (*s == '0') out[n++] = 0; else if (*s == 'x') { unsigned v; sscanf (s + 1, "%2x", &v); out[n++] = (unsigned char) v; s += 2; }
          else out[n++] = *s;
          s++;
        }
      else out[n++] = (unsigned char) *s++;
    }
  return n;
}

int main (int argc, char **argv)
{
  DBusString guid; DBusString *buf; DBusAuth *auth; unsigned char bytes[4096]; int n, i; DBusAuthState st; const DBusString *out;
  if (argc < 2) { fprintf (stderr, "usage: %s 'bytes'\n", argv[0]); return 2; }
  n = unescape (argv[1], bytes);
  _dbus_string_init_const (&guid, "0123456789abcdef0123456789abcdef");
  auth = _dbus_auth_server_new (&guid);
  if (!auth) return 3;
  _dbus_auth_get_buffer (auth, &buf);
  for (i = 0; i < n; i++) if (!_dbus_string_append_byte (buf, bytes[i])) return 3;
  _dbus_auth_return_buffer (auth, buf);
  printf ("feeding %d bytes to a server-side DBusAuth\n", n); fflush (stdout);
  st = _dbus_auth_do_work (auth);
  printf ("_dbus_auth_do_work returned %d\n", (int) st);
  if (_dbus_auth_get_bytes_to_send (auth, &out)) printf ("server says: %s", _dbus_string_get_const_data (out));
  _dbus_auth_unref (auth);
  return 0;
}
