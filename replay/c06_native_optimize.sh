#!/bin/bash
# Native replay for C06.optimize_*: bus_client_policy_optimize prunes rules that precede a rule it takes for a
# catch-all, but its catch-all test ignores the modifiers min_fds/max_fds, send_broadcast, eavesdrop and
# [send|receive]_requested_reply.  dbus-daemon(1): "The last rule that matches the message determines whether it may
# be sent" -- <deny send_destination="*" min_fds="1"/> does not match a message without fds, so the earlier <allow>
# must still decide.  Usage: c06_native_optimize.sh [repo-root]   (needs <repo>/_build/bin/dbus-daemon, dbus-send)
REPO=${1:-/repo}; B=$REPO/_build/bin; D=$(mktemp -d); trap 'kill $PID 2>/dev/null; rm -rf $D' EXIT
run () {  # $1 = policy body
  cat > $D/c.conf <<XML
<!DOCTYPE busconfig PUBLIC "-//freedesktop//DTD D-Bus Bus Configuration 1.0//EN" "http://www.freedesktop.org/standards/dbus/1.0/busconfig.dtd">
<busconfig><type>session</type><listen>unix:dir=$D</listen>
<policy context="default">$1</policy></busconfig>
XML
  $B/dbus-daemon --config-file=$D/c.conf --nofork --print-address=3 3>$D/addr & PID=$!
  for i in 1 2 3 4 5 6 7 8 9 10; do [ -s $D/addr ] && break; sleep 0.2; done
  $B/dbus-send --bus="$(cat $D/addr)" --print-reply --dest=org.freedesktop.DBus /org/freedesktop/DBus org.freedesktop.DBus.GetId 2>&1 | head -2 | tr '\n' ' '; echo
  kill $PID; wait $PID 2>/dev/null; rm -f $D/addr
}
ALLOW='<allow send_destination="*" eavesdrop="true"/><allow eavesdrop="true"/><allow own="*"/>'
DENY='<deny send_destination="*" min_fds="1"/>'
echo "control (deny-fds rule first, allow rules last): a call without fds gives"; run "$DENY$ALLOW"
echo "probe   (allow rules first, deny-fds rule last):  a call without fds gives"; run "$ALLOW$DENY"
echo "oracle: both must succeed -- the <deny ... min_fds=\"1\"> rule matches neither call (0 fds attached)"
