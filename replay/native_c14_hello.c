/* Native replay of the suspected C14 defect in bus_driver_handle_hello (bus/driver.c): Hello is not atomic under
 * out-of-memory.  When bus_connection_complete() has succeeded and a LATER step of the same Hello
 * (dbus_message_set_sender / bus_driver_send_welcome_message / bus_registry_ensure) runs out of memory, bus_dispatch
 * sends org.freedesktop.DBus.Error.NoMemory and cancels the transaction, but nothing undoes bus_connection_complete:
 * the connection stays ACTIVE with a unique name for which no BusService exists, and a retried Hello is refused with
 * "Already handled an Hello message".
 *
 * Everything here is the REAL daemon code of /repo's current tree as built in /repo/_build (libdbus-daemon-internal.a =
 * bus/*.c incl. the test glue of bus/test.c, libdbus-internal.a, libdbus-1.so; built with DBUS_ENABLE_EMBEDDED_TESTS so
 * that the library's own allocation-failure injector _dbus_set_fail_alloc_counter exists - the one the OOM unit tests
 * use).  A BusContext is created from a minimal configuration listening on the in-process debug-pipe transport (as
 * bus/dispatch.c's own tests do); clients are ordinary private DBusConnections.  For k = 0, 1, 2, ... a fresh client
 * authenticates, sends Hello, the bus side reads it WITHOUT injection, and then exactly the dispatch of that message
 * (dbus_connection_dispatch on the bus-side DBusConnection -> bus_dispatch_message_filter -> bus_dispatch ->
 * bus_driver_handle_hello) runs with the k-th allocation failing once.  After each NoMemory reply the bus-side state
 * of that connection is printed (bus_connection_is_active, bus_connection_get_name, bus_registry_lookup of that name,
 * NameHasOwner as seen by a healthy second client) and Hello is sent again without any injection.
 * The only non-repo piece is an OBSERVER: ld --wrap on bus_connections_setup_connection records the bus-side
 * DBusConnection of each new client and calls the real function unchanged.
 *
 * build + run: sh /verif/replay/native_c14_hello.sh        (which does:)
 *   gcc -g -w -DDBUS_COMPILATION -DHAVE_CONFIG_H -D_GNU_SOURCE -DDBUS_STATIC_BUILD -I/repo -I/repo/_build -I/repo/bus \
 *       -o /tmp/native_c14_hello /verif/replay/native_c14_hello.c -Wl,--wrap=bus_connections_setup_connection \
 *       /repo/_build/lib/libdbus-daemon-internal.a /repo/_build/lib/libdbus-testutils.a -lexpat \
 *       /repo/_build/lib/libdbus-internal.a -L/repo/_build/lib -ldbus-1 -lsystemd -lrt -lpthread -Wl,-rpath,/repo/_build/lib
 *   /tmp/native_c14_hello 2>&1
 * exit status 1 = defect reproduced (NoMemory reply + connection left active and unregistered + retried Hello refused),
 *             0 = not reproduced, 2 = set-up problem. */
#include <config.h>
#include <stdio.h>
#include <stdlib.h>
#include <string.h>
#include <unistd.h>
#include "dbus/dbus.h"
#include "dbus/dbus-internals.h"
#include "dbus/dbus-string.h"
#include "dbus/dbus-mainloop.h"
#include "bus/bus.h"
#include "bus/connection.h"
#include "bus/services.h"
#include "bus/test.h"

#define PIPE "debug-pipe:name=test-server"

static const char config_text[] =
  "<!DOCTYPE busconfig PUBLIC \"-//freedesktop//DTD D-BUS Bus Configuration 1.0//EN\"\n"
  " \"http://www.freedesktop.org/standards/dbus/1.0/busconfig.dtd\">\n"
  "<busconfig>\n"
  "  <listen>" PIPE "</listen>\n"
  "  <policy context=\"default\">\n"
  "    <allow send_interface=\"*\"/>\n"
  "    <allow receive_interface=\"*\"/>\n"
  "    <allow own=\"*\"/>\n"
  "    <allow user=\"*\"/>\n"
  "  </policy>\n"
  "</busconfig>\n";

/* observer only: remember the bus-side DBusConnection of the newest client */
static DBusConnection *last_server_side;
dbus_bool_t __real_bus_connections_setup_connection (BusConnections *connections, DBusConnection *connection);
dbus_bool_t __wrap_bus_connections_setup_connection (BusConnections *connections, DBusConnection *connection)
{
  last_server_side = connection;
  return __real_bus_connections_setup_connection (connections, connection);
}

static BusContext *context;

static void die (const char *what) { printf ("SET-UP PROBLEM: %s\n", what); exit (2); }

static DBusConnection *new_client (DBusConnection **server_side)
{
  DBusError e; DBusConnection *c; int i;
  dbus_error_init (&e);
  last_server_side = NULL;
  c = dbus_connection_open_private (PIPE, &e);
  if (c == NULL) die (e.message);
  if (!bus_setup_debug_client (c)) die ("bus_setup_debug_client");
  for (i = 0; i < 1000 && !dbus_connection_get_is_authenticated (c) && dbus_connection_get_is_connected (c); i++)
    {
      bus_test_run_bus_loop (context, FALSE);
      bus_test_run_clients_loop (FALSE);
    }
  if (!dbus_connection_get_is_authenticated (c)) die ("client did not authenticate");
  if (last_server_side == NULL) die ("bus side of the new client not seen");
  if (server_side) *server_side = last_server_side;
  return c;
}

static void drop_client (DBusConnection *c)
{
  dbus_connection_ref (c);
  dbus_connection_close (c);
  while (dbus_connection_dispatch (c) == DBUS_DISPATCH_DATA_REMAINS) ;   /* bus/test.c's disconnect filter drops the list's ref */
  dbus_connection_unref (c);
  bus_test_run_bus_loop (context, FALSE);   /* not bus_test_run_everything: that one spins forever once the last test client is gone */
  bus_test_run_clients_loop (FALSE);
}

/* Sends a method call to the bus driver from `client` and returns the reply.  If server_side != NULL the bus side
 * first reads the message (no injection) and then dispatches it with the inject_k-th allocation failing once;
 * *fired tells whether the failure was actually delivered. */
static DBusMessage *call_driver (DBusConnection *client, const char *member, const char *arg,
                                 DBusConnection *server_side, int inject_k, int *fired)
{
  DBusMessage *m, *r; dbus_uint32_t serial; int i;
  m = dbus_message_new_method_call (DBUS_SERVICE_DBUS, DBUS_PATH_DBUS, DBUS_INTERFACE_DBUS, member);
  if (m == NULL) die ("no memory (client)");
  if (arg && !dbus_message_append_args (m, DBUS_TYPE_STRING, &arg, DBUS_TYPE_INVALID)) die ("no memory (client)");
  if (!dbus_connection_send (client, m, &serial)) die ("no memory (client)");
  dbus_message_unref (m);
  dbus_connection_flush (client);
  if (fired) *fired = 0;
  if (server_side != NULL)
    {
      DBusDispatchStatus st;
      for (i = 0; i < 1000 && dbus_connection_get_dispatch_status (server_side) != DBUS_DISPATCH_DATA_REMAINS; i++)
        dbus_connection_read_write (server_side, 0);                      /* bus side reads the Hello, no injection */
      if (dbus_connection_get_dispatch_status (server_side) != DBUS_DISPATCH_DATA_REMAINS) die ("bus side did not receive the message");
      _dbus_set_fail_alloc_counter (inject_k);
      st = dbus_connection_dispatch (server_side);                        /* -> bus_dispatch -> bus_driver_handle_hello */
      if (fired) *fired = _dbus_get_fail_alloc_counter () > inject_k;     /* the injector re-arms itself to INT_MAX after firing */
      _dbus_set_fail_alloc_counter (_DBUS_INT_MAX);
      while (st != DBUS_DISPATCH_COMPLETE)                                /* libdbus put the message back (failure before the bus saw it) */
        st = dbus_connection_dispatch (server_side);
    }
  for (i = 0; i < 1000; i++)
    {
      bus_test_run_everything (context);
      while ((r = dbus_connection_pop_message (client)) != NULL)
        {
          if (dbus_message_get_reply_serial (r) == serial)
            return r;
          printf ("      (client also received: %s %s%s%s)\n", dbus_message_type_to_string (dbus_message_get_type (r)),
                  dbus_message_get_member (r) ? dbus_message_get_member (r) : "",
                  dbus_message_get_error_name (r) ? " " : "", dbus_message_get_error_name (r) ? dbus_message_get_error_name (r) : "");
          dbus_message_unref (r);
        }
      if (!dbus_connection_get_is_connected (client)) { printf ("      (client was disconnected by the bus)\n"); return NULL; }
    }
  return NULL;
}

static void show_reply (const char *what, DBusMessage *r)
{
  const char *s = NULL; dbus_bool_t b;
  if (r == NULL) { printf ("    %s -> no reply\n", what); return; }
  if (dbus_message_get_type (r) == DBUS_MESSAGE_TYPE_ERROR)
    {
      dbus_message_get_args (r, NULL, DBUS_TYPE_STRING, &s, DBUS_TYPE_INVALID);
      printf ("    %s -> ERROR %s \"%s\"\n", what, dbus_message_get_error_name (r), s ? s : "");
    }
  else if (dbus_message_get_args (r, NULL, DBUS_TYPE_STRING, &s, DBUS_TYPE_INVALID))
    printf ("    %s -> method return \"%s\"\n", what, s);
  else if (dbus_message_get_args (r, NULL, DBUS_TYPE_BOOLEAN, &b, DBUS_TYPE_INVALID))
    printf ("    %s -> method return %s\n", what, b ? "true" : "false");
  else
    printf ("    %s -> method return (signature \"%s\")\n", what, dbus_message_get_signature (r));
}

int main (void)
{
  char path[] = "/tmp/native_c14_hello.conf.XXXXXX"; int fd, k, defect = 0, n_nomem = 0, n_atomic = 0, shown_defect = 0, shown_atomic = 0;
  DBusString cfg; DBusError e; DBusConnection *observer; DBusMessage *r; BusConnections *conns; BusRegistry *registry;

  setvbuf (stdout, NULL, _IONBF, 0);
  fd = mkstemp (path);
  if (fd < 0 || write (fd, config_text, sizeof config_text - 1) != (ssize_t) (sizeof config_text - 1)) die ("cannot write temporary config");
  close (fd);
  _dbus_string_init_const (&cfg, path);
  dbus_error_init (&e);
  context = bus_context_new (&cfg, BUS_CONTEXT_FLAG_NONE, NULL, NULL, NULL, &e);
  unlink (path);
  if (context == NULL) die (e.message);
  conns = bus_context_get_connections (context);
  registry = bus_context_get_registry (context);

  observer = new_client (NULL);
  r = call_driver (observer, "Hello", NULL, NULL, 0, NULL);
  show_reply ("healthy observer client: Hello", r);
  if (r == NULL || dbus_message_get_type (r) != DBUS_MESSAGE_TYPE_METHOD_RETURN) die ("observer could not register");
  dbus_message_unref (r);
  bus_test_run_everything (context);
  while ((r = dbus_connection_pop_message (observer)) != NULL) dbus_message_unref (r);   /* its own NameAcquired */
  printf ("bus: %d active, %d incomplete connections\n\n", bus_connections_get_n_active (conns), bus_connections_get_n_incomplete (conns));

  for (k = 0; k < 400; k++)
    {
      DBusConnection *client, *server_side; int fired, was_active, detailed; const char *name; char namebuf[64]; DBusString ns;
      const char *errname;

      client = new_client (&server_side);
      r = call_driver (client, "Hello", NULL, server_side, k, &fired);
      if (r == NULL) { printf ("k=%d: no reply to Hello\n", k); drop_client (client); continue; }
      if (dbus_message_get_type (r) == DBUS_MESSAGE_TYPE_METHOD_RETURN)
        {
          const char *s = NULL; dbus_message_get_args (r, NULL, DBUS_TYPE_STRING, &s, DBUS_TYPE_INVALID);
          printf ("k=%d: Hello with allocation #%d of the dispatch failing: %s -> method return \"%s\"; bus side active=%d\n",
                  k, k, fired ? "failure absorbed (retried inside libdbus)" : "injector did not fire (fewer allocations)", s ? s : "?",
                  bus_connection_is_active (server_side));
          dbus_message_unref (r);
          drop_client (client);
          if (!fired) break;
          continue;
        }
      errname = dbus_message_get_error_name (r);
      if (errname == NULL || strcmp (errname, DBUS_ERROR_NO_MEMORY) != 0)
        {
          printf ("k=%d: Hello with allocation #%d of the dispatch failing:\n", k, k);
          show_reply ("first Hello", r);
          dbus_message_unref (r); drop_client (client); continue;
        }
      n_nomem++;
      was_active = bus_connection_is_active (server_side);
      name = was_active ? bus_connection_get_name (server_side) : NULL;
      detailed = was_active ? !shown_defect : !shown_atomic;      /* full detail for the first case of each kind, one line for the rest */
      if (was_active) shown_defect = 1; else shown_atomic = 1;
      if (detailed)
        {
          printf ("k=%d: Hello with allocation #%d of the dispatch failing:\n", k, k);
          show_reply ("first Hello", r);
          printf ("    bus side of this client after the refused Hello: bus_connection_is_active = %s, bus_connection_get_name = %s;  bus: %d active, %d incomplete connections\n",
                  was_active ? "TRUE" : "FALSE", name ? name : "(null)", bus_connections_get_n_active (conns), bus_connections_get_n_incomplete (conns));
        }
      else
        printf ("k=%d: Hello -> ERROR %s; bus side: active=%s name=%s", k, errname, was_active ? "TRUE" : "FALSE", name ? name : "(null)");
      dbus_message_unref (r);
      if (was_active)
        {
          dbus_bool_t has = 2; BusService *svc;
          snprintf (namebuf, sizeof namebuf, "%s", name);
          _dbus_string_init_const (&ns, namebuf);
          svc = bus_registry_lookup (registry, &ns);
          r = call_driver (observer, "NameHasOwner", namebuf, NULL, 0, NULL);
          if (detailed)
            {
              printf ("    bus_registry_lookup (\"%s\") = %s\n", namebuf, svc ? "a BusService" : "NULL  (no service for the connection's unique name)");
              show_reply ("healthy observer client: NameHasOwner(that name)", r);
            }
          else
            {
              if (r) dbus_message_get_args (r, NULL, DBUS_TYPE_BOOLEAN, &has, DBUS_TYPE_INVALID);
              printf (" registry=%s NameHasOwner=%s", svc ? "BusService" : "NULL", has == 2 ? "?" : has ? "true" : "false");
            }
          if (r) dbus_message_unref (r);
        }
      r = call_driver (client, "Hello", NULL, NULL, 0, NULL);     /* the retry, nothing injected */
      if (detailed)
        show_reply ("retried Hello (no injection)", r);
      else
        {
          const char *s = NULL;
          if (r) dbus_message_get_args (r, NULL, DBUS_TYPE_STRING, &s, DBUS_TYPE_INVALID);
          printf ("; retried Hello -> %s%s \"%s\"", r == NULL ? "no reply" : dbus_message_get_type (r) == DBUS_MESSAGE_TYPE_ERROR ? "ERROR " : "method return",
                  r && dbus_message_get_error_name (r) ? dbus_message_get_error_name (r) : "", s ? s : "");
        }
      if (was_active && r != NULL && dbus_message_is_error (r, DBUS_ERROR_FAILED))
        {
          printf (detailed ? "    ==> DEFECT: the refused Hello left the connection active but unregistered, and it can never say Hello again\n" : "   <== DEFECT\n");
          defect++;
        }
      else
        {
          if (!was_active && r != NULL && dbus_message_get_type (r) == DBUS_MESSAGE_TYPE_METHOD_RETURN)
            n_atomic++;
          if (!detailed) printf ("\n");
        }
      if (r) dbus_message_unref (r);
      drop_client (client);
    }

  printf ("\nsummary: %d injection points gave a NoMemory reply to Hello; %d of them left everything unchanged (retry succeeded), %d left the connection ACTIVE without a registered name and refused the retry\n",
          n_nomem, n_atomic, defect);
  printf ("%s\n", defect ? "HELLO IS NOT ATOMIC UNDER OUT-OF-MEMORY: violation confirmed" : "not reproduced");
  drop_client (observer);
  bus_context_unref (context);
  return defect ? 1 : 0;
}
