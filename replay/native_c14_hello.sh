#!/bin/sh
# Native replay of the Hello-not-atomic-under-OOM finding (see native_c14_hello.c).  exit 1 = reproduced, 0 = not, 2 = set-up problem.
# usage: sh /verif/replay/native_c14_hello.sh
here=$(dirname "$0")
out=${TMPDIR:-/tmp}/native_c14_hello.$$
gcc -g -w -DDBUS_COMPILATION -DHAVE_CONFIG_H -D_GNU_SOURCE -DDBUS_STATIC_BUILD -I/repo -I/repo/_build -I/repo/bus \
    -o "$out" "$here/native_c14_hello.c" -Wl,--wrap=bus_connections_setup_connection \
    /repo/_build/lib/libdbus-daemon-internal.a /repo/_build/lib/libdbus-testutils.a -lexpat \
    /repo/_build/lib/libdbus-internal.a -L/repo/_build/lib -ldbus-1 -lsystemd -lrt -lpthread -Wl,-rpath,/repo/_build/lib || exit 2
env -u DBUS_MALLOC_FAIL_NTH -u DBUS_VERBOSE "$out" 2>&1
rc=$?
rm -f "$out"
exit $rc
