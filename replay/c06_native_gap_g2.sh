#!/bin/bash
# usage: c06_native_gap_g2.sh [repo-root]
REPO=${1:-/repo}; B=$REPO/_build; D=$(mktemp -d); trap 'kill $PID 2>/dev/null; rm -rf $D' EXIT
gcc -o $D/g2 $(dirname $0)/c06_native_gap_g2.c -I$REPO -I$B -L$B/lib -ldbus-1 -Wl,-rpath,$B/lib || exit 2
cat > $D/c.conf <<XML
<!DOCTYPE busconfig PUBLIC "-//freedesktop//DTD D-Bus Bus Configuration 1.0//EN" "http://www.freedesktop.org/standards/dbus/1.0/busconfig.dtd">
<busconfig><type>session</type><listen>unix:dir=$D</listen>
<policy context="default"><allow send_type="signal"/><allow receive_type="signal"/><allow send_destination="org.freedesktop.DBus"/><allow receive_sender="org.freedesktop.DBus"/></policy></busconfig>
XML
$B/bin/dbus-daemon --config-file=$D/c.conf --nofork --print-address=3 3>$D/addr 2>$D/log & PID=$!
for i in 1 2 3 4 5 6 7 8 9 10; do [ -s $D/addr ] && break; sleep 0.2; done
echo -n "signal without REPLY_SERIAL, <allow send_type=\"signal\"/><allow receive_type=\"signal\"/>: "; $D/g2 "$(cat $D/addr)" 0
echo -n "same signal with REPLY_SERIAL=7:                                                      "; $D/g2 "$(cat $D/addr)" 1
grep -o "Rejected [a-z]* message, [0-9]* matched rules; type=\"signal\"" $D/log | head -2
echo 'man page: requested_reply "only makes sense for reply messages (errors and method returns), and is ignored for other message types"'
