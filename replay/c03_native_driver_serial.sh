#!/bin/bash
# Native replay of the finding named by units C03.from_driver and C18.owner_changed
# ("precondition of bus_transaction_capture_error_reply / bus_dispatch_matches: non-zero serial"):
# with a monitor attached, a message BUILT BY THE BUS (serial still 0) that a recipient's receive policy denies makes
# dbus-daemon synthesise an error reply for the monitors -> dbus_message_new_error -> dbus_message_set_reply_serial (.., 0)
# -> "assertion reply_serial != 0 failed" -> _dbus_abort (check failures are fatal by default).   Cf. CVE-2023-34969.
#   route 1 (unicast):   Hello -> NameAcquired -> bus_transaction_send_from_driver            (deny receive_type=signal from the bus)
#   route 2 (broadcast): Hello -> NameOwnerChanged -> bus_dispatch_matches/send_one_message   (deny receive_member=NameOwnerChanged)
# Usage: c03_native_driver_serial.sh [1|2]    Uses the daemon and tools of ${VERIF_REPO:-/repo}/_build.  Exit 1 = daemon aborted (defect present).
set -u
ROUTE=${1:-1}; R=${VERIF_REPO:-/repo}; B=$R/_build/bin; export LD_LIBRARY_PATH=$R/_build/lib
D=$(mktemp -d /tmp/c03replay.XXXXXX); trap 'kill $DPID $LPID 2>/dev/null; rm -rf $D' EXIT; LPID=
if [ "$ROUTE" = 1 ]; then RULE='<deny receive_type="signal" receive_sender="org.freedesktop.DBus"/>'
else RULE='<deny receive_interface="org.freedesktop.DBus" receive_member="NameOwnerChanged"/>'; fi
cat > $D/bus.conf <<EOF
<!DOCTYPE busconfig PUBLIC "-//freedesktop//DTD D-Bus Bus Configuration 1.0//EN" "http://www.freedesktop.org/standards/dbus/1.0/busconfig.dtd">
<busconfig><type>session</type><listen>unix:path=$D/sock</listen>
 <policy context="default"><allow send_destination="*" eavesdrop="true"/><allow eavesdrop="true"/><allow own="*"/>$RULE</policy>
</busconfig>
EOF
$B/dbus-daemon --config-file=$D/bus.conf --nofork > $D/daemon.log 2>&1 & DPID=$!
sleep 1; export DBUS_SESSION_BUS_ADDRESS=unix:path=$D/sock
if [ "$ROUTE" = 2 ]; then   # an ordinary client with a match rule on NameOwnerChanged (so that send_one_message is reached)
cat > $D/listener.c <<'EOF'
#include <dbus/dbus.h>
#include <stdio.h>
int main (void) { DBusError e; dbus_error_init (&e); DBusConnection *c = dbus_bus_get_private (DBUS_BUS_SESSION, &e); if (!c) return 1;
  dbus_connection_set_exit_on_disconnect (c, FALSE);
  dbus_bus_add_match (c, "type='signal',interface='org.freedesktop.DBus',member='NameOwnerChanged'", &e);
  for (int i = 0; i < 80 && dbus_connection_read_write_dispatch (c, 100); i++) ; return 0; }
EOF
gcc -o $D/listener $D/listener.c -I$R -I$R/_build -L$R/_build/lib -ldbus-1 || exit 2
$D/listener & LPID=$!; sleep 1
fi
timeout 5 $B/dbus-send --session --dest=org.freedesktop.DBus --print-reply /org/freedesktop/DBus org.freedesktop.DBus.GetId > /dev/null 2>&1
kill -0 $DPID 2>/dev/null || { echo "daemon died before any monitor was attached (unexpected)"; exit 2; }
echo "no monitor attached: a client came and went, daemon alive"
timeout 20 $B/dbus-monitor --session > /dev/null 2>&1 &
sleep 1; kill -0 $DPID 2>/dev/null || { echo "daemon died when the monitor attached (unexpected)"; exit 2; }
echo "monitor attached, daemon alive; now an ordinary client says Hello ..."
timeout 5 $B/dbus-send --session --dest=org.freedesktop.DBus --print-reply /org/freedesktop/DBus org.freedesktop.DBus.GetId > /dev/null 2>&1
sleep 1
if kill -0 $DPID 2>/dev/null; then echo "RESULT: daemon still alive (defect not present)"; exit 0; fi
wait $DPID; echo "RESULT: dbus-daemon DIED, exit status $? (134 = SIGABRT)"; grep -m1 "were incorrect" $D/daemon.log
grep -o "dbus-daemon([a-z_]*" $D/daemon.log | sed 's/dbus-daemon(/   in /' | grep -v "in $" | head -6
exit 1
