#!/bin/bash
# usage: native_c09_fd_slot.sh <build-dir>   (exit 1 = reproduced, 0 = not reproduced, 3 = setup problem)
B=${1:-/repo/_build}; D=$(mktemp -d); trap 'kill $DPID 2>/dev/null; rm -rf $D' EXIT
SRC=$(grep CMAKE_HOME_DIRECTORY $B/CMakeCache.txt | cut -d= -f2)
cat > $D/c.conf <<EOC
<busconfig><type>session</type><listen>unix:dir=$D</listen><policy context="default"><allow send_destination="*" eavesdrop="true"/><allow eavesdrop="true"/><allow own="*"/></policy></busconfig>
EOC
gcc -O1 -I$SRC -I$B -o $D/p $(dirname $0)/native_c09_fd_slot.c -L$B/lib -ldbus-1 -Wl,-rpath,$B/lib || exit 3
$B/bin/dbus-daemon --config-file=$D/c.conf --nofork --print-address=3 3>$D/addr 2>/dev/null & DPID=$!
for i in $(seq 50); do [ -s $D/addr ] && break; sleep 0.1; done
[ -s $D/addr ] || exit 3
$D/p "$(head -1 $D/addr)"
