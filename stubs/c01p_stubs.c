/* Callee contracts of the C01.p.body unit, written as stubs (assert the precondition, havoc, assume the
 * postcondition, update the ghost state of harness/c01p_ghost.h); bound with --replace-calls.
 *
 * DBusTypeReader (types-only) -- contracts taken from the API documentation in dbus-marshal-recursive.c:
 *   get_current_type: "the type it's currently pointing to ... at the end of a block or end of a container returns
 *                     DBUS_TYPE_INVALID"; pure.
 *   get_element_type: "It's an error to call this if get_current_type() doesn't return DBUS_TYPE_ARRAY"; pure.
 *   recurse:          "initialize a new reader pointing to the first type ... in the container that's the current
 *                     value of this reader"; a types-only reader cannot recurse into a variant.
 *   next:             "Skip to the next value on this level ... Returns FALSE at the end of the current container";
 *                     returns FALSE and changes nothing when already at the end.
 *   init_types_only:  reader at position type_pos of a (validated, NUL-terminated) signature.
 * These contracts are ASSUMED here (dbus-marshal-recursive.c is exercised with the real validator only in the bounded
 * C01.body.* units).  One of them is a fact about validated signatures rather than about the reader: a struct or dict
 * entry is never empty, so a reader recursed into one starts at a type (used only for post.progress / termination).
 *
 * Constant DBusString API (_dbus_string_init_const_len, _dbus_string_get_length, _dbus_first_type_in_signature): ghost
 * record (identity, data pointer, length) of the one constant string alive at a time; preconditions = the functions'
 * own _dbus_asserts (same text).  The DBusString object itself is not written (see c01p_ghost.h for why).
 *
 * _dbus_unpack_uint32: precondition = its own assertion (4-aligned address) + the 4 bytes lie inside [p0, end) of the
 * buffer under validation; result arbitrary (its value contract is enforced by the C02 units).
 *
 * String validators -- C16 contracts, restricted to what this caller needs (result range, accept => length facts,
 * VALID signature => first byte opens a complete type).  NOTE the precondition: the C16 units enforce those contracts
 * under the DBusString invariant (len + 1 readable bytes, NUL at str[len]); validate_body_helper calls them on a const
 * string whose byte str[len] may be `end` itself (NUL termination is checked AFTER the call).  The stubs therefore only
 * require [str, str + len) readable AND below `end`.
 */
#include <config.h>
#include "dbus/dbus-internals.h"
#include "dbus/dbus-string.h"
#define DBUS_CAN_USE_DBUS_STRING_PRIVATE 1
#include "dbus/dbus-string-private.h"
#include "dbus/dbus-marshal-validate.h"
#include "dbus/dbus-marshal-recursive.h"
#include "c01p_ghost.h"
#define IMP(a, b) (!(a) || (b))
#define PRE(c, what) __CPROVER_assert((c), "precondition of " what)
#define OFF(q) ((long) __CPROVER_POINTER_OFFSET (q))
_Bool nondet_bool (void); int nondet_int (void); unsigned nondet_uint (void);

/* ---------------------------------------------------------------- types-only reader ---- */
int verif_stub_reader_get_current_type (const DBusTypeReader *reader)
{
  PRE (reader != NULL && __CPROVER_r_ok (reader, sizeof (DBusTypeReader)), "_dbus_type_reader_get_current_type: a reader");
  if (reader == verif_reader)
    {
      PRE (VERIF_CUR_OK (verif_cur_r), "_dbus_type_reader_get_current_type: initialised reader");
#ifdef VERIF_CASE
      /* case split (not a contract clause): this unit covers the executions in which the loop head sees a code of its class */
      __CPROVER_assume (verif_cur_r == DBUS_TYPE_INVALID || VERIF_CASE (verif_cur_r));
#endif
      return verif_cur_r;
    }
  PRE (VERIF_CUR_OK (verif_cur_s), "_dbus_type_reader_get_current_type: initialised sub reader");
  return verif_cur_s;
}

int verif_stub_reader_get_element_type (const DBusTypeReader *reader)
{
  PRE (reader != NULL && __CPROVER_r_ok (reader, sizeof (DBusTypeReader)), "_dbus_type_reader_get_element_type: a reader");
  if (reader == verif_reader) { PRE (verif_cur_r == DBUS_TYPE_ARRAY, "_dbus_type_reader_get_element_type: current type is an array"); return verif_elem_r; }
  PRE (verif_cur_s == DBUS_TYPE_ARRAY, "_dbus_type_reader_get_element_type: current type is an array (sub)");
  return verif_elem_s;
}

void verif_stub_reader_recurse (DBusTypeReader *reader, DBusTypeReader *sub)
{
  PRE (reader != NULL && reader == verif_reader, "_dbus_type_reader_recurse: from the reader under contract");
  PRE (sub != NULL && sub != verif_reader && __CPROVER_w_ok (sub, sizeof (DBusTypeReader)), "_dbus_type_reader_recurse: into a distinct writable sub reader");
  PRE (verif_cur_r == DBUS_TYPE_ARRAY || verif_cur_r == DBUS_TYPE_STRUCT || verif_cur_r == DBUS_TYPE_DICT_ENTRY, "_dbus_type_reader_recurse: current type is an array, struct or dict entry");
#ifdef VERIF_TYPE_SUBSET
  __CPROVER_assume (verif_cur_r != DBUS_TYPE_ARRAY || VERIF_CUR_OK (verif_elem_r));
#endif
  if (verif_cur_r == DBUS_TYPE_ARRAY)
    verif_cur_s = verif_elem_r;                 /* the sub reader points at the element type */
  else
    { int c = nondet_int (); __CPROVER_assume (VERIF_IS_TYPE (c) && VERIF_CUR_OK (c)); verif_cur_s = c; }   /* validated signature: no empty struct */
  verif_elem_s = nondet_int ();
}

dbus_bool_t verif_stub_reader_next (DBusTypeReader *reader)
{
  PRE (reader != NULL && __CPROVER_w_ok (reader, sizeof (DBusTypeReader)), "_dbus_type_reader_next: a reader");
  int c = nondet_int (); __CPROVER_assume (VERIF_CUR_OK (c));
  if (reader == verif_reader)
    {
      PRE (VERIF_CUR_OK (verif_cur_r), "_dbus_type_reader_next: initialised reader");
      if (verif_cur_r == DBUS_TYPE_INVALID) return 0;
      verif_cur_r = c; verif_elem_r = nondet_int ();
    }
  else
    {
      PRE (VERIF_CUR_OK (verif_cur_s), "_dbus_type_reader_next: initialised sub reader");
      if (verif_cur_s == DBUS_TYPE_INVALID) return 0;
      verif_cur_s = c; verif_elem_s = nondet_int ();
    }
  return c != DBUS_TYPE_INVALID;
}

void verif_stub_reader_init_types_only (DBusTypeReader *reader, const DBusString *type_str, int type_pos)
{
  PRE (reader != NULL && reader != verif_reader && __CPROVER_w_ok (reader, sizeof (DBusTypeReader)), "_dbus_type_reader_init_types_only: a distinct writable sub reader");
  PRE (type_str != NULL && type_str == verif_cs && type_pos >= 0 && type_pos <= verif_cs_len, "_dbus_type_reader_init_types_only: position inside an initialised signature string");
  PRE (__CPROVER_r_ok (verif_cs_ptr + type_pos, 1) && OFF (verif_cs_ptr) + type_pos < verif_end_off, "_dbus_type_reader_init_types_only: signature readable at type_pos (below end)");
  int c = verif_cs_ptr[type_pos];
  int t = c == DBUS_STRUCT_BEGIN_CHAR ? DBUS_TYPE_STRUCT : c == DBUS_DICT_ENTRY_BEGIN_CHAR ? DBUS_TYPE_DICT_ENTRY : c;
  PRE (t == DBUS_TYPE_INVALID || VERIF_IS_TYPE (t), "_dbus_type_reader_init_types_only: validated signature (a type code or NUL at type_pos)");
#ifdef VERIF_TYPE_SUBSET
  __CPROVER_assume (VERIF_CUR_OK (t));
#endif
  verif_cur_s = t; verif_elem_s = nondet_int ();
}

/* ---------------------------------------------------------------- constant strings ---- */
void verif_stub_string_init_const_len (DBusString *str, const char *value, int len)
{
  PRE (str != NULL && __CPROVER_w_ok (str, sizeof (DBusString)), "_dbus_string_init_const_len: str != NULL (writable)");
  PRE (len == 0 || value != NULL, "_dbus_string_init_const_len: len == 0 || value != NULL");
  PRE (len <= _DBUS_STRING_MAX_LENGTH, "_dbus_string_init_const_len: len <= _DBUS_STRING_MAX_LENGTH");
  PRE (len >= 0, "_dbus_string_init_const_len: len >= 0");
  verif_cs = str; verif_cs_ptr = (const unsigned char *) value; verif_cs_len = len;
}

int verif_stub_string_get_length (const DBusString *str)
{
  PRE (str != NULL && str == verif_cs, "_dbus_string_get_length: an initialised string");
  return verif_cs_len;
}

int verif_stub_first_type_in_signature (const DBusString *str, int pos)
{
  PRE (str != NULL && str == verif_cs, "_dbus_first_type_in_signature: an initialised string");
  PRE (pos >= 0 && pos <= verif_cs_len, "_dbus_first_type_in_signature: start >= 0 && start <= real->len (_dbus_string_get_byte)");
  PRE (__CPROVER_r_ok (verif_cs_ptr + pos, 1) && OFF (verif_cs_ptr) + pos < verif_end_off, "_dbus_first_type_in_signature: byte at pos readable (below end)");
  int c = verif_cs_ptr[pos];
  if (c == DBUS_STRUCT_BEGIN_CHAR) return DBUS_TYPE_STRUCT;
  if (c == DBUS_DICT_ENTRY_BEGIN_CHAR) return DBUS_TYPE_DICT_ENTRY;
  PRE (c != DBUS_STRUCT_END_CHAR, "_dbus_first_type_in_signature: t != DBUS_STRUCT_END_CHAR (map_type_char_to_type)");
  PRE (c != DBUS_DICT_ENTRY_END_CHAR, "_dbus_first_type_in_signature: t != DBUS_DICT_ENTRY_END_CHAR (map_type_char_to_type)");
  return c;
}

dbus_uint32_t verif_stub_unpack_uint32 (int byte_order, const unsigned char *data)
{
  PRE ((__CPROVER_POINTER_OFFSET (data) & 3) == 0, "_dbus_unpack_uint32: _DBUS_ALIGN_ADDRESS (data, 4) == data");
  PRE (__CPROVER_same_object (data, verif_base) && OFF (data) >= verif_p0_off && OFF (data) + 4 <= verif_end_off, "_dbus_unpack_uint32: the 4 bytes lie inside [p, end)");
  PRE (__CPROVER_r_ok (data, 4), "_dbus_unpack_uint32: 4 readable bytes");
  return nondet_uint ();
}

/* ---------------------------------------------------------------- string validators (C16) ---- */
/* first bytes a non-empty valid signature can have (specification, "Type System": a signature is a sequence of single
 * complete types; a dict entry only occurs as an array element type) */
#define VERIF_SIG_FIRST(c) ((c)=='y'||(c)=='b'||(c)=='n'||(c)=='q'||(c)=='i'||(c)=='u'||(c)=='x'||(c)=='t'||(c)=='d'||(c)=='s'||(c)=='o'||(c)=='g'||(c)=='h'||(c)=='v'||(c)=='a'||(c)=='(')

#define VALIDATOR_PRE(s_, start_, len_, what) \
  PRE ((s_) != NULL && (s_) == verif_cs && (start_) >= 0 && (len_) >= 0 && (start_) <= verif_cs_len, what ": initialised string, start and len in range"); \
  PRE (IMP ((len_) > 0 && (len_) <= verif_cs_len - (start_), __CPROVER_r_ok (verif_cs_ptr + (start_), (len_)) && \
       __CPROVER_same_object (verif_cs_ptr, verif_base) && OFF (verif_cs_ptr) + (start_) + (len_) <= verif_end_off), what ": [start, start + len) readable and below end")

DBusValidity verif_stub_validate_signature (const DBusString *type_str, int type_pos, int len)
{
  VALIDATOR_PRE (type_str, type_pos, len, "_dbus_validate_signature_with_reason");
  PRE (len <= verif_cs_len - type_pos, "_dbus_validate_signature_with_reason: range inside the string");
  /* C16.sig.depth proves this validator memory-safe on a string object of len + 1 bytes (no NUL assumed): require exactly that */
  PRE (__CPROVER_r_ok (verif_cs_ptr + type_pos, (long) len + 1) && OFF (verif_cs_ptr) + type_pos + len + 1 <= verif_end_off, "_dbus_validate_signature_with_reason: [start, start + len] (len + 1 bytes) readable and below end");
  DBusValidity v = (DBusValidity) nondet_int ();
  __CPROVER_assume (IMP (v == DBUS_VALID, len <= DBUS_MAXIMUM_SIGNATURE_LENGTH));
  if (v == DBUS_VALID && len > 0) __CPROVER_assume (VERIF_SIG_FIRST (verif_cs_ptr[type_pos]));
  return v;
}

dbus_bool_t verif_stub_validate_path (const DBusString *str, int start, int len)
{
  VALIDATOR_PRE (str, start, len, "_dbus_validate_path");
  dbus_bool_t r = nondet_bool ();
  __CPROVER_assume (IMP (r, len >= 1 && len <= verif_cs_len - start));
  return r;
}

dbus_bool_t verif_stub_validate_utf8 (const DBusString *str, int start, int len)
{
  VALIDATOR_PRE (str, start, len, "_dbus_string_validate_utf8");
  dbus_bool_t r = nondet_bool ();
  __CPROVER_assume (IMP (r, len <= verif_cs_len - start));
  return r;
}

void verif_stub_warn_return_if_fail (const char *function, const char *assertion, const char *file, int line)
{
  __CPROVER_assert (0, "_dbus_return_val_if_fail check of a public function fails (dbus_type_is_fixed called with a non-typecode)");
}
