/* The library's assertion entry points as proof obligations (for TUs compiled without the
 * prelude macro remap, e.g. dbus-string.c helpers linked into a unit). */
#include <config.h>
#include "dbus/dbus-internals.h"
void _dbus_real_assert (dbus_bool_t condition, const char *condition_text, const char *file, int line, const char *func)
{ __CPROVER_assert(condition, "dbus assertion (library helper)"); __CPROVER_assume(condition); }
void _dbus_real_assert_not_reached (const char *explanation, const char *file, int line)
{ __CPROVER_assert(0, "dbus assert_not_reached (library helper)"); __CPROVER_assume(0); }
