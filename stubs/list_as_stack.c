/* ASSUMED contract of dbus-list as used by _dbus_validate_signature_with_reason: a LIFO stack
 * (append pushes, pop_last pops the most recently appended datum, clear empties).  The real
 * dbus-list.c + dbus-mempool.c are not executed in the signature units (measured: too heavy). */
#include <config.h>
#include "dbus/dbus-internals.h"
#include "dbus/dbus-list.h"
static long verif_stk[300]; static int verif_sp; static DBusList verif_dummy_link;
int verif_list_fail;   /* set by harness to allow OOM */
_Bool nondet_bool (void);
dbus_bool_t _dbus_list_append (DBusList **list, void *data)
{ if (verif_list_fail && nondet_bool ()) return 0; __CPROVER_assert (verif_sp < 300, "list stack model capacity"); verif_stk[verif_sp++] = (long) data; *list = &verif_dummy_link; return 1; }
void *_dbus_list_pop_last (DBusList **list)
{ void *d; if (verif_sp == 0) return NULL; d = (void *) verif_stk[--verif_sp]; if (verif_sp == 0) *list = NULL; return d; }
void _dbus_list_clear (DBusList **list) { verif_sp = 0; *list = NULL; }
int verif_list_depth (void) { return verif_sp; }
