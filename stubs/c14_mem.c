/* C14 string units: the dbus-memory.c wrappers bound to CBMC's allocator (DESIGN section 2, "Stubs": the wrappers only add
 * debugging, guards and the fail counter).  With `cbmc --malloc-may-fail --malloc-fail-null` every malloc/realloc below may
 * return NULL independently of all others, which is the fault model of property C14 ("every index k of the allocation
 * that fails ... every pair").  dbus_free (NULL) is a no-op and dbus_malloc (0) / dbus_realloc (p, 0) return NULL, as
 * documented in dbus-memory.c.
 *
 * realloc is CBMC's library model: new block of the requested size (may fail: then the old block stays valid and untouched,
 * ISO C 7.22.3.5), ARRAY_COPY of the old contents, release of the old block — i.e. the block ALWAYS moves (the strictest
 * behaviour for stale pointers).  Measured: the built-in (one array-level copy) costs 8 k variables / 0.3 s for a symbolic
 * block size, a hand-written byte loop 3 M variables / 130 s; so no own model is used. */
#include <stdlib.h>
#include <string.h>
#include <config.h>
#include "dbus/dbus-memory.h"
_Bool nondet_bool (void);
int verif_mallocs, verif_frees;     /* ghost counters: blocks handed out / released through the wrappers */
void *dbus_malloc (size_t bytes)
{
  if (bytes == 0) return NULL;
  void *p = malloc (bytes);
  if (p != NULL) verif_mallocs++;
  return p;
}
void *dbus_malloc0 (size_t bytes)
{
  if (bytes == 0) return NULL;
  void *p = calloc (bytes, 1);
  if (p != NULL) verif_mallocs++;
  return p;
}
void *dbus_realloc (void *memory, size_t bytes)
{
  if (bytes == 0) { if (memory) { free (memory); verif_frees++; } return NULL; }
  if (memory == NULL) return dbus_malloc (bytes);
  return realloc (memory, bytes);
}
void dbus_free (void *memory) { if (memory) { free (memory); verif_frees++; } }

/* Platform fact (DESIGN 3.5, in the ledger): the allocator returns blocks aligned to 8, so fixup_alignment of
 * dbus-string.c never shifts the text (align_offset stays 0).  CBMC cannot evaluate the integer rounding of a symbolic
 * object address, so the static function is bound to this statement with --replace-calls; its own two assertions are kept. */
#define DBUS_CAN_USE_DBUS_STRING_PRIVATE 1
#include "dbus/dbus-internals.h"
#include "dbus/dbus-string.h"
#include "dbus/dbus-string-private.h"
void verif_stub_fixup_alignment (DBusRealString *real)
{
  __CPROVER_assert (real->len <= real->allocated - _DBUS_STRING_ALLOCATION_PADDING, "dbus assertion: real->len <= real->allocated - _DBUS_STRING_ALLOCATION_PADDING");
  __CPROVER_assert (real->align_offset == 0 && __CPROVER_POINTER_OFFSET (real->str) == 0, "fixup_alignment: text starts at the start of an (aligned) allocator block");
}
