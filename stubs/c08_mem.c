/* C08 B units: the dbus_malloc family on CBMC's allocator (DESIGN 2, stubs table).  Every block has the same constant
 * capacity VERIF_MEM_CAP (requests above it are a reported failure of the unit's bound, not of dbus), which keeps all heap
 * objects of constant size for the solver; realloc always moves the block (the strictest behaviour for stale pointers).
 * Allocation does not fail here: out-of-memory behaviour of the handshake is covered by the P units. */
#include <config.h>
#include "dbus/dbus-internals.h"
#include <stdlib.h>
#include <string.h>
#ifndef VERIF_MEM_CAP
#define VERIF_MEM_CAP 64
#endif
void *dbus_malloc (size_t n) { if (n == 0) return NULL; __CPROVER_assert (n <= VERIF_MEM_CAP, "unit bound: allocation within VERIF_MEM_CAP"); __CPROVER_assume (n <= VERIF_MEM_CAP); void *p = malloc (VERIF_MEM_CAP); __CPROVER_assume (p != NULL); return p; }
/* zero-initialised allocations are objects (never resized): exact size when larger than the string capacity */
void *dbus_malloc0 (size_t n) { if (n == 0) return NULL; void *p = calloc (1, n <= VERIF_MEM_CAP ? VERIF_MEM_CAP : n); __CPROVER_assume (p != NULL); return p; }
void *dbus_realloc (void *m, size_t n)
{
  if (n == 0) { free (m); return NULL; }
  __CPROVER_assert (n <= VERIF_MEM_CAP, "unit bound: allocation within VERIF_MEM_CAP"); __CPROVER_assume (n <= VERIF_MEM_CAP);
  char *q = malloc (VERIF_MEM_CAP);
  __CPROVER_assume (q != NULL);
  if (m != NULL) { memcpy (q, m, VERIF_MEM_CAP); free (m); }
  return q;
}
void dbus_free (void *m) { if (m) free (m); }
/* Platform fact (DESIGN 3.5, in the ledger): the allocator returns blocks aligned to 8, so fixup_alignment of dbus-string.c
 * never shifts the text (align_offset stays 0).  CBMC cannot evaluate the integer rounding of a symbolic object address, so
 * the function is bound to this statement with --replace-calls. */
#define DBUS_CAN_USE_DBUS_STRING_PRIVATE 1
#include "dbus/dbus-string.h"
#include "dbus/dbus-string-private.h"
void verif_stub_fixup_alignment (DBusRealString *real)
{
  __CPROVER_assert (real->align_offset == 0, "fixup_alignment: block was aligned before");
  __CPROVER_assert (real->len <= real->allocated - _DBUS_STRING_ALLOCATION_PADDING, "dbus assertion: real->len <= real->allocated - _DBUS_STRING_ALLOCATION_PADDING");
}
