/* C14 string units: ghost-index contracts of memmove / memcpy / memset, bound with --replace-calls.
 *
 * CBMC's built-in models of these functions (array_copy into a VLA + array_replace at a symbolic offset) do not terminate
 * on a symbolic size (measured: open_gap on a <= 64-byte buffer, no result in 600 s).  The contracts below are the ISO C
 * semantics (7.24.2.1/2, 7.24.6.1), stated the quantifier-free way of DESIGN 3.1:
 *
 *   requires  n == 0, or src readable / dst writable for n bytes (and for memcpy: the regions do not overlap)
 *   ensures   for each instantiation point P in verif_pts[]: the byte at offset P of the destination OBJECT is
 *                the old source byte src[P - off(dst)]   if off(dst) <= P < off(dst) + n      (memset: the fill value)
 *                what it was                             otherwise
 *   every other byte of the destination object is HAVOCKED.
 *
 * This is an over-approximation of the real function for any choice of the points (the real result is one of the admitted
 * states), so everything proved with it holds for the real memmove/memcpy/memset.  The harness chooses the points = the
 * positions its postconditions look at (ghost indices k, j, z and the NUL position); since those ghost indices are
 * arbitrary, the postconditions hold at every position. */
#include <stddef.h>
#ifndef VERIF_NPTS
#define VERIF_NPTS 8
#endif
size_t verif_pts[VERIF_NPTS];      /* offsets (within whatever object is written); set by the harness */
int verif_memops;                  /* ghost: number of block operations performed */

static void apply (unsigned char *dst, const unsigned char *src, int fill, _Bool is_set, size_t n)
{
  unsigned char nv[VERIF_NPTS]; _Bool in[VERIF_NPTS];
  size_t doff = __CPROVER_POINTER_OFFSET (dst), dsize = __CPROVER_OBJECT_SIZE (dst);
  unsigned char *base = dst - doff;
  for (int i = 0; i < VERIF_NPTS; i++)
    {
      size_t p = verif_pts[i];
      in[i] = p < dsize;
      if (in[i])
        nv[i] = (p >= doff && p - doff < n) ? (is_set ? (unsigned char) fill : src[p - doff]) : base[p];
    }
  __CPROVER_havoc_object (base);
  for (int i = 0; i < VERIF_NPTS; i++)
    if (in[i]) __CPROVER_assume (base[verif_pts[i]] == nv[i]);      /* stub postcondition (satisfiable: equal points get equal values) */
  verif_memops++;
}
void *verif_stub_memmove (void *dst, const void *src, size_t n)
{
  if (n == 0) return dst;
  __CPROVER_assert (__CPROVER_r_ok (src, n), "precondition of memmove: source readable for n bytes");
  __CPROVER_assert (__CPROVER_w_ok (dst, n), "precondition of memmove: destination writable for n bytes");
  apply (dst, src, 0, 0, n);
  return dst;
}
void *verif_stub_memcpy (void *dst, const void *src, size_t n)
{
  if (n == 0) return dst;
  __CPROVER_assert (__CPROVER_r_ok (src, n), "precondition of memcpy: source readable for n bytes");
  __CPROVER_assert (__CPROVER_w_ok (dst, n), "precondition of memcpy: destination writable for n bytes");
  __CPROVER_assert (!__CPROVER_same_object (dst, src) || __CPROVER_POINTER_OFFSET (dst) + n <= __CPROVER_POINTER_OFFSET (src) || __CPROVER_POINTER_OFFSET (src) + n <= __CPROVER_POINTER_OFFSET (dst),
                    "precondition of memcpy: regions do not overlap");
  apply (dst, src, 0, 0, n);
  return dst;
}
void *verif_stub_memset (void *dst, int c, size_t n)
{
  if (n == 0) return dst;
  __CPROVER_assert (__CPROVER_w_ok (dst, n), "precondition of memset: destination writable for n bytes");
  apply (dst, (const unsigned char *) 0, c, 1, n);
  return dst;
}
