/* C19: common part of the bus/activation.c harnesses (textually included after the real TU). */
#ifndef C19_ACT_COMMON
#define C19_ACT_COMMON
#include "activation_ref.h"
_Bool nondet_bool(void); int nondet_int(void); unsigned nondet_unsigned(void); long nondet_long(void); void *nondet_ptr(void);
#define PRE(c, what) __CPROVER_assert((c), "precondition of " what)
#define IMP(a,b) (!(a) || (b))
#define REACH(tag) __CPROVER_assert(0, "REACH:" tag)
#define ERR_SET(e) ((e)->name != NULL)
static const char some_string[] = "s";
void _dbus_real_assert (dbus_bool_t condition, const char *condition_text, const char *file, int line, const char *func)
{ __CPROVER_assert(condition, "dbus internal assertion"); __CPROVER_assume(condition); }
void _dbus_real_assert_not_reached (const char *explanation, const char *file, int line) { __CPROVER_assert(0, "dbus assert_not_reached"); __CPROVER_assume(0); }
void _dbus_verbose_real (const char *file, const int line, const char *function, const char *format, ...) {}
void dbus_error_init (DBusError *e) { PRE(e != NULL, "dbus_error_init"); e->name = NULL; e->message = NULL; }
void dbus_error_free (DBusError *e) { PRE(e != NULL, "dbus_error_free"); e->name = NULL; e->message = NULL; }
dbus_bool_t dbus_error_is_set (const DBusError *e) { PRE(e != NULL, "dbus_error_is_set"); return ERR_SET(e); }
void dbus_move_error (DBusError *src, DBusError *dest) { PRE(src != NULL && (dest == NULL || !ERR_SET(dest)), "dbus_move_error: destination clear"); if (dest) { dest->name = src->name; dest->message = src->message; } src->name = NULL; src->message = NULL; }
void verif_stub_dbus_set_error (DBusError *e, const char *name, const char *format, ...) { PRE(name != NULL && (e == NULL || !ERR_SET(e)), "dbus_set_error: error not already set"); if (e) { e->name = name; e->message = some_string; } }
void dbus_set_error_const (DBusError *e, const char *name, const char *message) { PRE(name != NULL && (e == NULL || !ERR_SET(e)), "dbus_set_error_const: error not already set"); if (e) { e->name = name; e->message = message; } }
void bus_context_log (BusContext *context, DBusSystemLogSeverity severity, const char *msg, ...) {}
const char bus_no_memory_message[] = "oom";
#endif
