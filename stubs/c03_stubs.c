/* C03/C05/C18/C10/C14/C15 typestate units: callee contracts written as stubs (P-stub route).
 *
 * This file is #included by harness/c03_*.c AFTER the real translation unit (VERIF_TU), so that the
 * types of that TU are in scope.  It contains
 *   (A) the ghost pools (connections, messages, list links),
 *   (B) models of the opaque libdbus objects the bus code only reaches through accessors
 *       (DBusMessage, DBusConnection, DBusError, DBusList links): defined under their real names,
 *   (C) contracts of bus-level functions as `verif_stub_<name>`: assert the precondition (macro from
 *       spec/bus_typestate.h), havoc, assume the postcondition, update the ghost record G.  They are
 *       bound with `goto-instrument --replace-calls <name>:verif_stub_<name>`; tool/units/c03.py
 *       derives that list from this file, minus the functions that are real in the unit.
 * A stub never reads a pointer the real callee would not read, and every nondeterministic choice
 * is a fresh nondet_*() value.
 */
#ifndef C03_STUBS_C
#define C03_STUBS_C
#include "bus_typestate.h"
#include "bus.h"
#include "connection.h"
#include "services.h"
#include "activation.h"
#include "signals.h"
#include "driver.h"
#include "utils.h"
#include <dbus/dbus-list.h>
#include <dbus/dbus-string.h>
#include <dbus/dbus-message-internal.h>
#include <dbus/dbus-mainloop.h>

_Bool nondet_bool (void); int nondet_int (void); unsigned nondet_uint (void); long nondet_long (void);
#define PRE(c, what) __CPROVER_assert ((c), "precondition of " what)

/* ------------------------------------------------------------------ (A) ghost pools -------- */
struct bus_ts G; _Bool ts_waited, ts_oom_preallocated;
int verif_mint_pre, verif_mint_assumed, verif_mint_major0, verif_mint_minor0, verif_mint_major1, verif_mint_minor1;
int verif_mint_tok_n, verif_mint_tok_major, verif_mint_tok_minor, verif_mint_iter_major, verif_mint_iter_minor, verif_mint_lookups;
_Bool verif_mint_tok_colon, verif_mint_tok_dot, verif_mint_last_lookup_null, verif_mint_retried, ts_lookup_fresh;
#define TS_NCONN 4
struct ts_conn ts_conns[TS_NCONN];
static const char ts_name0[] = ":1.10", ts_name1[] = ":1.11", ts_name2[] = ":1.12", ts_name3[] = ":1.13";
static const char *const ts_names[TS_NCONN] = { ts_name0, ts_name1, ts_name2, ts_name3 };
#define TS_NMSG 2
struct ts_msg ts_new_msgs[TS_NMSG]; int ts_new_msgs_used; int ts_str_inits, ts_str_frees;
static char ts_context_obj, ts_registry_obj, ts_activation_obj, ts_matchmaker_obj, ts_monitor_mm_obj, ts_service_obj;
void *ts_bus_connections;            /* BusConnections of the context (a real struct in connection.c units) */
void *ts_transaction;                /* the transaction of this step */
static const char ts_s_bus[] = DBUS_SERVICE_DBUS, ts_s_other[] = "com.example.Svc", ts_s_text[] = "text";
static const char ts_e_nomem[] = DBUS_ERROR_NO_MEMORY, ts_e_denied[] = DBUS_ERROR_ACCESS_DENIED, ts_e_limits[] = DBUS_ERROR_LIMITS_EXCEEDED,
  ts_e_noowner[] = DBUS_ERROR_NAME_HAS_NO_OWNER, ts_e_notsupp[] = DBUS_ERROR_NOT_SUPPORTED, ts_e_failed[] = DBUS_ERROR_FAILED,
  ts_e_other[] = "org.freedesktop.DBus.Error.ServiceUnknown";

static _Bool ts_streq (const char *a, const char *b)
{ if (a == NULL || b == NULL) return 0;
  for (int i = 0; i < 48; i++) { if (a[i] != b[i]) return 0; if (a[i] == 0) return 1; }
  return 0; }
static enum ts_err ts_errkind (const char *name)
{ if (name == NULL) return TS_ERR_NONE;
  if (ts_streq (name, ts_e_nomem)) return TS_ERR_NO_MEMORY;
  if (ts_streq (name, ts_e_noowner)) return TS_ERR_NAME_HAS_NO_OWNER;
  if (ts_streq (name, ts_e_denied)) return TS_ERR_ACCESS_DENIED;
  if (ts_streq (name, ts_e_notsupp)) return TS_ERR_NOT_SUPPORTED;
  if (ts_streq (name, ts_e_failed)) return TS_ERR_FAILED;
  if (ts_streq (name, ts_e_limits)) return TS_ERR_LIMITS_EXCEEDED;
  return TS_ERR_OTHER; }
/* error raised by a failing callee: any name, possibly NoMemory */
static void ts_raise (DBusError *error, _Bool may_be_oom)
{ if (error == NULL) return;
  int k = nondet_int ();
  error->name = (k == 0 && may_be_oom) ? ts_e_nomem : k == 1 ? ts_e_denied : k == 2 ? ts_e_limits : k == 3 ? ts_e_failed : ts_e_other;
  error->message = ts_s_text; }
static _Bool ts_is_pool_conn (const void *c)
{ return c == &ts_conns[0] || c == &ts_conns[1] || c == &ts_conns[2] || c == &ts_conns[3]; }
/* explicit initial ghost state (DFCC makes every static object nondeterministic; plain CBMC zero-initialises: be explicit in both) */
static void ts_conn_reset (struct ts_conn *c)
{ c->refs = 0; c->closed = 0; c->disconnected = 0; c->staged = 0; c->staged_fd = 0; c->oom_errors = 0; c->completed = 0; }
DBusList ts_links[3]; int ts_list_clears; int ts_n_recipients; struct ts_conn *ts_recipient[3]; DBusString *ts_minted_string;
static void ts_reset (void)
{ G = (struct bus_ts) { 0 }; ts_waited = 0; ts_oom_preallocated = 0; ts_new_msgs_used = 0; ts_str_inits = 0; ts_str_frees = 0; ts_list_clears = 0; ts_n_recipients = 0;
  ts_recipient[0] = ts_recipient[1] = ts_recipient[2] = NULL; ts_lookup_fresh = 0;
  verif_mint_pre = 0; verif_mint_assumed = 0; verif_mint_tok_n = 0; verif_mint_tok_colon = 0; verif_mint_tok_dot = 0; verif_mint_tok_major = 0; verif_mint_tok_minor = 0; verif_mint_lookups = 0;
  verif_mint_last_lookup_null = 0; verif_mint_retried = 0; verif_mint_iter_major = 0; verif_mint_iter_minor = 0; verif_mint_major1 = 0; verif_mint_minor1 = 0; ts_minted_string = NULL; ts_bus_connections = NULL; ts_transaction = NULL;
  ts_conn_reset (&ts_conns[0]); ts_conn_reset (&ts_conns[1]); ts_conn_reset (&ts_conns[2]); ts_conn_reset (&ts_conns[3]); }
#define ERR_CLEAR(e) ((e) == NULL || (e)->name == NULL)
#define ERR_SET(e)   ((e) != NULL && (e)->name != NULL)

/* the library's assertion entry points (reached from code not covered by the prelude's macro remap) are obligations */
void _dbus_real_assert (dbus_bool_t condition, const char *condition_text, const char *file, int line, const char *func)
{ __CPROVER_assert (condition, "dbus assertion (library helper)"); __CPROVER_assume (condition); }
void _dbus_real_assert_not_reached (const char *explanation, const char *file, int line)
{ __CPROVER_assert (0, "dbus assert_not_reached (library helper)"); __CPROVER_assume (0); }

/* ------------------------------------------------------------------ (B) libdbus models ------ */
/* DBusError (dbus-errors.c): name/message pair */
void dbus_error_init (DBusError *e) { PRE (e != NULL, "dbus_error_init"); e->name = NULL; e->message = NULL; }
void dbus_error_free (DBusError *e) { PRE (e != NULL, "dbus_error_free"); e->name = NULL; e->message = NULL; }
dbus_bool_t dbus_error_is_set (const DBusError *e) { PRE (e != NULL, "dbus_error_is_set"); return e->name != NULL; }
dbus_bool_t dbus_error_has_name (const DBusError *e, const char *name) { PRE (e != NULL && name != NULL, "dbus_error_has_name"); return e->name != NULL && ts_streq (e->name, name); }
void dbus_set_error_const (DBusError *e, const char *name, const char *message)
{ PRE (name != NULL && ERR_CLEAR (e), "dbus_set_error_const: error must not be set twice"); if (e) { e->name = name; e->message = message ? message : ts_s_text; } }
void ts_set_error (DBusError *e, const char *name)
{ PRE (name != NULL && ERR_CLEAR (e), "dbus_set_error: error must not be set twice"); if (e) { e->name = name; e->message = ts_s_text; } }
#ifndef C03_REMAP_VARIADIC     /* under DFCC (route hybrid) variadic callees are remapped to fixed arity by the harness, see harness/c03_dispatch.c */
void dbus_set_error (DBusError *e, const char *name, const char *format, ...) { ts_set_error (e, name); }
#endif
void dbus_move_error (DBusError *src, DBusError *dest)
{ PRE (src != NULL && ERR_CLEAR (dest), "dbus_move_error: destination must be clear"); if (dest) { dest->name = src->name; dest->message = src->message; } src->name = NULL; src->message = NULL; }

/* DBusConnection (dbus-connection.c) */
DBusConnection *dbus_connection_ref (DBusConnection *c) { PRE (c != NULL, "dbus_connection_ref"); TS_CONN (c)->refs++; return c; }
void dbus_connection_unref (DBusConnection *c) { PRE (c != NULL && TS_CONN (c)->refs > 0, "dbus_connection_unref: holds a reference"); TS_CONN (c)->refs--; }
void dbus_connection_close (DBusConnection *c) { PRE (c != NULL, "dbus_connection_close"); TS_CONN (c)->closed++; TS_CONN (c)->connected = 0; }
dbus_bool_t dbus_connection_get_is_connected (DBusConnection *c) { PRE (c != NULL, "dbus_connection_get_is_connected"); return TS_CONN (c)->connected; }
dbus_bool_t dbus_connection_can_send_type (DBusConnection *c, int type)
{ PRE (c != NULL, "dbus_connection_can_send_type"); return type == DBUS_TYPE_UNIX_FD ? TS_CONN (c)->can_unix_fd : 1; }

/* DBusMessage (dbus-message.c) */
int dbus_message_get_type (DBusMessage *m) { PRE (m != NULL, "dbus_message_get_type"); return TS_MSG (m)->type; }
const char *dbus_message_type_to_string (int type) { return ts_s_text; }
const char *dbus_message_get_interface (DBusMessage *m) { return nondet_bool () ? ts_s_text : NULL; }
const char *dbus_message_get_member (DBusMessage *m) { return nondet_bool () ? ts_s_text : NULL; }
const char *dbus_message_get_path (DBusMessage *m) { return nondet_bool () ? ts_s_text : NULL; }
const char *dbus_message_get_error_name (DBusMessage *m) { return nondet_bool () ? ts_s_text : NULL; }
dbus_uint32_t dbus_message_get_serial (DBusMessage *m) { PRE (m != NULL, "dbus_message_get_serial"); return TS_MSG (m)->serial; }
dbus_uint32_t dbus_message_get_reply_serial (DBusMessage *m) { PRE (m != NULL, "dbus_message_get_reply_serial"); return TS_MSG (m)->reply_serial; }
dbus_bool_t dbus_message_get_auto_start (DBusMessage *m) { PRE (m != NULL, "dbus_message_get_auto_start"); return TS_MSG (m)->auto_start; }
dbus_bool_t dbus_message_contains_unix_fds (DBusMessage *m) { PRE (m != NULL, "dbus_message_contains_unix_fds"); return TS_MSG (m)->has_fds; }
const char *dbus_message_get_destination (DBusMessage *m)
{ PRE (m != NULL, "dbus_message_get_destination");
  switch (TS_MSG (m)->dest) { case TS_DST_NONE: return NULL; case TS_DST_BUS: return ts_s_bus; case TS_DST_UNIQUE: return TS_MSG (m)->dest_of->name; default: return ts_s_other; } }
const char *dbus_message_get_sender (DBusMessage *m)
{ PRE (m != NULL, "dbus_message_get_sender");
  switch (TS_MSG (m)->sender) { case TS_SND_CLIENT: return nondet_bool () ? ts_s_other : NULL; case TS_SND_UNIQUE: return TS_MSG (m)->sender_of->name;
    case TS_SND_DRIVER: return ts_s_bus; default: return ts_s_other; } }
dbus_bool_t dbus_message_is_signal (DBusMessage *m, const char *iface, const char *name)
{ PRE (m != NULL && iface != NULL && name != NULL, "dbus_message_is_signal");
  /* the only question the routing core asks is "is this org.freedesktop.DBus.Local.Disconnected" */
  PRE (ts_streq (iface, DBUS_INTERFACE_LOCAL) && ts_streq (name, "Disconnected"), "dbus_message_is_signal: only asked about Local.Disconnected");
  return TS_MSG (m)->local_disconnected && TS_MSG (m)->type == DBUS_MESSAGE_TYPE_SIGNAL; }
dbus_bool_t _dbus_message_remove_unknown_fields (DBusMessage *m)
{ PRE (m != NULL, "_dbus_message_remove_unknown_fields"); if (nondet_bool ()) return 0; TS_MSG (m)->unknown_stripped = 1; return 1; }
dbus_bool_t dbus_message_set_container_instance (DBusMessage *m, const char *path)
{ PRE (m != NULL, "dbus_message_set_container_instance"); if (nondet_bool ()) return 0; TS_MSG (m)->container_cleared = (path == NULL); return 1; }
/* API dbus_message_set_sender: message != NULL, sender NULL or a valid bus name */
dbus_bool_t dbus_message_set_sender (DBusMessage *m, const char *sender)
{ PRE (m != NULL && sender != NULL, "dbus_message_set_sender");
  G.set_sender_calls++;
  if (nondet_bool ()) return 0;                          /* OOM: header unchanged */
  TS_MSG (m)->sender_of = NULL;
  if (ts_streq (sender, DBUS_SERVICE_DBUS)) TS_MSG (m)->sender = TS_SND_DRIVER;
  else if (ts_streq (sender, ":not.active.yet")) TS_MSG (m)->sender = TS_SND_INACTIVE;
  else { TS_MSG (m)->sender = TS_SND_OTHER;
         for (int i = 0; i < TS_NCONN; i++) if (sender == ts_conns[i].name && ts_conns[i].name != NULL) { TS_MSG (m)->sender = TS_SND_UNIQUE; TS_MSG (m)->sender_of = &ts_conns[i]; } }
  return 1; }
dbus_bool_t dbus_message_set_destination (DBusMessage *m, const char *dest)
{ PRE (m != NULL && dest != NULL, "dbus_message_set_destination");
  if (nondet_bool ()) return 0;
  TS_MSG (m)->dest = TS_DST_NAME; TS_MSG (m)->dest_of = NULL;
  for (int i = 0; i < TS_NCONN; i++) if (dest == ts_conns[i].name && ts_conns[i].name != NULL) { TS_MSG (m)->dest = TS_DST_UNIQUE; TS_MSG (m)->dest_of = &ts_conns[i]; }
  return 1; }
/* API dbus_message_set_serial (m, serial): !m->locked (a staged message is not locked yet).  _dbus_connection_get_next_client_serial: never 0 (C17) */
void dbus_message_set_serial (DBusMessage *m, dbus_uint32_t serial) { PRE (m != NULL, "dbus_message_set_serial"); TS_MSG (m)->serial = serial; }
dbus_uint32_t _dbus_connection_get_next_client_serial (DBusConnection *c) { PRE (c != NULL, "_dbus_connection_get_next_client_serial"); dbus_uint32_t s = nondet_uint (); __CPROVER_assume (s != 0); return s; }
void dbus_message_set_no_reply (DBusMessage *m, dbus_bool_t v) { PRE (m != NULL, "dbus_message_set_no_reply"); TS_MSG (m)->no_reply = (v != 0); }
void dbus_message_unref (DBusMessage *m) { PRE (m != NULL && TS_MSG (m)->refs > 0, "dbus_message_unref: holds a reference"); TS_MSG (m)->refs--; }
static DBusMessage *ts_new_reply (DBusMessage *to, int type)
{ if (nondet_bool () || ts_new_msgs_used >= TS_NMSG) return NULL;            /* OOM */
  struct ts_msg *r = &ts_new_msgs[ts_new_msgs_used++];
  r->serial = 0;                                   /* a new message has no serial until it is sent */
  r->reply_serial = TS_MSG (to)->serial; r->type = type; r->sender = TS_SND_CLIENT; r->sender_of = NULL;
  /* the reply is addressed to whoever the SENDER field of `to` names */
  r->dest = TS_MSG (to)->sender == TS_SND_UNIQUE ? TS_DST_UNIQUE : TS_MSG (to)->sender == TS_SND_CLIENT ? TS_DST_NONE : TS_DST_NAME;
  r->dest_of = TS_MSG (to)->sender == TS_SND_UNIQUE ? TS_MSG (to)->sender_of : NULL;
  r->unknown_stripped = 1; r->container_cleared = 1; r->local_disconnected = 0; r->auto_start = 0; r->no_reply = 1; r->has_fds = 0;
  r->error_name = TS_ERR_NONE; r->in_reply_to = TS_MSG (to); r->has_string_arg = 0; r->string_arg = NULL; r->n_string_args = 0; r->is_hello = 0; r->refs = 1;
  return (DBusMessage *) r; }
DBusMessage *dbus_message_new_error (DBusMessage *reply_to, const char *error_name, const char *error_message)
{ PRE (PRE_dbus_message_new_error (reply_to, error_name), "dbus_message_new_error: reply_to has a non-zero serial");
  DBusMessage *r = ts_new_reply (reply_to, DBUS_MESSAGE_TYPE_ERROR); if (r) TS_MSG (r)->error_name = ts_errkind (error_name); return r; }
DBusMessage *dbus_message_new_method_return (DBusMessage *call)
{ PRE (PRE_dbus_message_new_method_return (call), "dbus_message_new_method_return: call has a non-zero serial");
  return ts_new_reply (call, DBUS_MESSAGE_TYPE_METHOD_RETURN); }
/* dbus_message_append_args (m, DBUS_TYPE_STRING, &s, [DBUS_TYPE_STRING, &s, DBUS_TYPE_STRING, &s,] DBUS_TYPE_INVALID): the shapes used here */
dbus_bool_t dbus_message_append_args (DBusMessage *m, int first_arg_type, ...)
{ PRE (m != NULL && first_arg_type == DBUS_TYPE_STRING, "dbus_message_append_args (STRING, ...)");
  va_list ap; va_start (ap, first_arg_type); int type = first_arg_type; int n = 0; const char *first = NULL;
  for (int i = 0; i < 4 && type != DBUS_TYPE_INVALID; i++)
    { PRE (type == DBUS_TYPE_STRING, "dbus_message_append_args: STRING arguments only");
      const char **sp = va_arg (ap, const char **); PRE (sp != NULL && *sp != NULL, "dbus_message_append_args: non-NULL string"); if (n == 0) first = *sp; n++;
      type = va_arg (ap, int); }
  va_end (ap);
  PRE (type == DBUS_TYPE_INVALID, "dbus_message_append_args: terminated by DBUS_TYPE_INVALID");
  if (nondet_bool ()) return 0;
  TS_MSG (m)->has_string_arg = 1; TS_MSG (m)->string_arg = first; TS_MSG (m)->n_string_args = n; return 1; }
dbus_bool_t dbus_message_has_signature (DBusMessage *m, const char *sig)
{ PRE (m != NULL && sig != NULL, "dbus_message_has_signature");
  int n = 0; for (int i = 0; i < 8 && sig[i] == 's'; i++) n++;
  return sig[n] == 0 && TS_MSG (m)->n_string_args == n; }
/* API dbus_message_new_signal (path, iface, name): all non-NULL and valid; the new message has no serial yet */
DBusMessage *dbus_message_new_signal (const char *path, const char *iface, const char *name)
{ PRE (path != NULL && iface != NULL && name != NULL, "dbus_message_new_signal");
  if (nondet_bool () || ts_new_msgs_used >= TS_NMSG) return NULL;
  struct ts_msg *r = &ts_new_msgs[ts_new_msgs_used++];
  r->serial = 0; r->reply_serial = 0; r->type = DBUS_MESSAGE_TYPE_SIGNAL; r->sender = TS_SND_CLIENT; r->sender_of = NULL; r->dest = TS_DST_NONE; r->dest_of = NULL;
  r->unknown_stripped = 1; r->container_cleared = 1; r->local_disconnected = 0; r->auto_start = 0; r->no_reply = 0; r->has_fds = 0; r->is_hello = 0;
  r->error_name = TS_ERR_NONE; r->in_reply_to = NULL; r->has_string_arg = 0; r->string_arg = NULL; r->n_string_args = 0; r->refs = 1;
  return (DBusMessage *) r; }

/* DBusList links handed out by the matchmaker (dbus-list.c): only read access by the code under verification */
DBusList *_dbus_list_get_first_link (DBusList **list) { PRE (list != NULL, "_dbus_list_get_first_link"); return *list; }
void _dbus_list_clear (DBusList **list) { PRE (list != NULL, "_dbus_list_clear"); *list = NULL; ts_list_clears++; }
void _dbus_string_init_const (DBusString *str, const char *value) { PRE (str != NULL && value != NULL, "_dbus_string_init_const"); }
void _dbus_wait_for_memory (void) { ts_waited = 1; }

/* DBusString as used by the unique-name mint (dbus-string.c): the public struct's dummy2 field mirrors DBusRealString.len (the
 * _dbus_string_get_length macro of assertion-free builds reads it); it is used here as the ghost length; the appended text is recorded as tokens  ":" INT "." INT  */
int _dbus_string_get_length (const DBusString *str) { PRE (str != NULL, "_dbus_string_get_length"); return str->dummy2; }
dbus_bool_t _dbus_string_append (DBusString *str, const char *text)
{ PRE (str != NULL && text != NULL && text[0] != 0 && text[1] == 0, "_dbus_string_append: one-character literal");
  PRE (verif_mint_tok_n == 0 || verif_mint_tok_n == 2, "_dbus_string_append: token order ':' INT '.' INT");
  if (nondet_bool ()) return 0;
  if (verif_mint_tok_n == 0) verif_mint_tok_colon = (text[0] == ':'); else verif_mint_tok_dot = (text[0] == '.');
  verif_mint_tok_n++; str->dummy2 += 1; return 1; }
dbus_bool_t _dbus_string_append_int (DBusString *str, long value)
{ PRE (str != NULL, "_dbus_string_append_int"); PRE (verif_mint_tok_n == 1 || verif_mint_tok_n == 3, "_dbus_string_append_int: token order ':' INT '.' INT");
  if (nondet_bool ()) return 0;
  if (verif_mint_tok_n == 1) verif_mint_tok_major = (int) value; else verif_mint_tok_minor = (int) value;
  int digits = nondet_int (); __CPROVER_assume (1 <= digits && digits <= 11);
  verif_mint_tok_n++; str->dummy2 += digits; return 1; }
dbus_bool_t _dbus_string_set_length (DBusString *str, int length)
{ PRE (str != NULL && 0 <= length && length <= str->dummy2, "_dbus_string_set_length: shrinking");
  str->dummy2 = length; verif_mint_tok_n = 0; verif_mint_retried = 1; return 1; }

/* ------------------------------------------------------------------ (C) bus-level contracts -- */
BusContext *verif_stub_bus_connection_get_context (DBusConnection *c) { PRE (c != NULL, "bus_connection_get_context"); return (BusContext *) &ts_context_obj; }
BusContext *verif_stub_bus_transaction_get_context (BusTransaction *t) { PRE (t != NULL, "bus_transaction_get_context"); return (BusContext *) &ts_context_obj; }
BusConnections *verif_stub_bus_context_get_connections (BusContext *ctx) { PRE (ctx != NULL, "bus_context_get_connections"); return (BusConnections *) ts_bus_connections; }
BusConnections *verif_stub_bus_connection_get_connections (DBusConnection *c) { PRE (c != NULL, "bus_connection_get_connections"); return (BusConnections *) ts_bus_connections; }
BusMatchmaker *verif_stub_bus_context_get_matchmaker (BusContext *ctx) { PRE (ctx != NULL, "bus_context_get_matchmaker"); return (BusMatchmaker *) &ts_matchmaker_obj; }
BusRegistry *verif_stub_bus_connection_get_registry (DBusConnection *c) { PRE (c != NULL, "bus_connection_get_registry"); return (BusRegistry *) &ts_registry_obj; }
BusActivation *verif_stub_bus_connection_get_activation (DBusConnection *c) { PRE (c != NULL, "bus_connection_get_activation"); return (BusActivation *) &ts_activation_obj; }
dbus_bool_t verif_stub_bus_connection_is_active (DBusConnection *c) { PRE (c != NULL, "bus_connection_is_active"); return TS_CONN (c)->active; }
dbus_bool_t verif_stub_bus_connection_is_monitor (DBusConnection *c) { PRE (c != NULL, "bus_connection_is_monitor"); return TS_CONN (c)->monitor; }
const char *verif_stub_bus_connection_get_name (DBusConnection *c) { PRE (c != NULL, "bus_connection_get_name"); return TS_CONN (c)->name; }
const char *verif_stub_bus_connection_get_loginfo (DBusConnection *c) { PRE (c != NULL, "bus_connection_get_loginfo"); return ts_s_text; }
void ts_log (BusContext *ctx, DBusSystemLogSeverity sev, const char *msg) { PRE (ctx != NULL && msg != NULL, "bus_context_log"); if (G.logs < 100) G.logs++; }
#ifndef C03_REMAP_VARIADIC
void verif_stub_bus_context_log (BusContext *ctx, DBusSystemLogSeverity sev, const char *msg, ...) { ts_log (ctx, sev, msg); }
#endif
dbus_bool_t verif_stub_bus_connection_preallocate_oom_error (DBusConnection *c)
{ PRE (c != NULL, "bus_connection_preallocate_oom_error"); if (nondet_bool ()) return 0; ts_oom_preallocated = 1; return 1; }
void verif_stub_bus_connection_disconnected (DBusConnection *c) { PRE (c != NULL, "bus_connection_disconnected"); TS_CONN (c)->disconnected++; TS_CONN (c)->connected = 0; }
void verif_stub_bus_connection_send_oom_error (DBusConnection *c, DBusMessage *in_reply_to)
{ PRE (PRE_bus_connection_send_oom_error (c, in_reply_to), "bus_connection_send_oom_error: preallocated and in_reply_to has a serial");
  G.oom_errors++; TS_CONN (c)->oom_errors++; ts_oom_preallocated = 0; }

BusTransaction *verif_stub_bus_transaction_new (BusContext *ctx)
{ PRE (ctx != NULL, "bus_transaction_new"); PRE (G.transactions_new == 0, "bus_transaction_new: one transaction per dispatch step");
  if (nondet_bool ()) return NULL; G.transactions_new++; return (BusTransaction *) ts_transaction; }
void verif_stub_bus_transaction_execute_and_free (BusTransaction *t)
{ PRE (t != NULL && t == ts_transaction && G.executed + G.cancelled == 0, "bus_transaction_execute_and_free: live transaction, finished once"); G.executed++; }
void verif_stub_bus_transaction_cancel_and_free (BusTransaction *t)
{ PRE (t != NULL && t == ts_transaction && G.executed + G.cancelled == 0, "bus_transaction_cancel_and_free: live transaction, finished once"); G.cancelled++; }

/* contract of bus_transaction_send: stages m for dest (or nothing on OOM).  Enforced: not in this family (list code, C05 B unit). */
dbus_bool_t verif_stub_bus_transaction_send (BusTransaction *t, DBusConnection *sender, DBusConnection *dest, DBusMessage *m)
{ PRE (PRE_bus_transaction_send (t, sender, dest, m), "bus_transaction_send: message carries a bus-written sender");
  G.sends++; G.last_sent_msg = TS_MSG (m); G.last_sent_to = TS_CONN (dest); G.last_sent_from = TS_CONN (sender);
  if (nondet_bool ()) return 0;
  TS_CONN (dest)->staged++; if (TS_MSG (m)->has_fds) TS_CONN (dest)->staged_fd++;
  return 1; }

/* contract of bus_transaction_capture (enforced for <= 3 monitors in unit C18.capture) */
dbus_bool_t verif_stub_bus_transaction_capture (BusTransaction *t, DBusConnection *sender, DBusConnection *addressed, DBusMessage *m)
{ PRE (PRE_bus_transaction_capture (t, sender, addressed, m), "bus_transaction_capture: true sender stamped, unknown fields stripped, not yet captured, nothing decided yet");
  G.captures++; G.captured_msg = TS_MSG (m); G.captured_sender = TS_CONN (sender); G.captured_addressed = TS_CONN (addressed);
  G.capture_ok = nondet_bool (); return G.capture_ok; }
/* contract of bus_transaction_capture_error_reply (enforced in unit C18.capture_error) */
dbus_bool_t verif_stub_bus_transaction_capture_error_reply (BusTransaction *t, DBusConnection *addressed, const DBusError *error, DBusMessage *in_reply_to)
{ PRE (PRE_bus_transaction_capture_error_reply (t, addressed, error, in_reply_to), "bus_transaction_capture_error_reply: error set and in_reply_to has a non-zero serial");
  G.capture_errs++; G.capture_err_addressed = TS_CONN (addressed); G.capture_err_name = ts_errkind (error->name); G.capture_err_in_reply_to = TS_MSG (in_reply_to);
  return nondet_bool (); }
/* contract of the policy gate (enforced in unit C06.gate: "post2 refusal carries an error") */
dbus_bool_t verif_stub_bus_context_check_security_policy (BusContext *ctx, BusTransaction *t, DBusConnection *sender, DBusConnection *addressed,
                                                          DBusConnection *proposed, DBusMessage *m, BusActivationEntry *ae, DBusError *error)
{ PRE (ctx != NULL && PRE_bus_context_check_security_policy (t, sender, addressed, proposed, m, error), "bus_context_check_security_policy: message sanitized and already captured, error clear");
  G.policy_checks++; G.policy_sender = TS_CONN (sender); G.policy_addressed = TS_CONN (addressed); G.policy_proposed = TS_CONN (proposed);
  G.policy_allowed = nondet_bool ();
  /* C06.gate post5: "inactive sender only Hello to bus" */
  if (sender != NULL && !TS_CONN (sender)->active) __CPROVER_assume (IMP (G.policy_allowed, proposed == NULL && TS_MSG (m)->is_hello));
  if (!G.policy_allowed) { ts_raise (error, 1); G.policy_err = error ? ts_errkind (error->name) : TS_ERR_NONE; } return G.policy_allowed; }
/* contract of bus_driver_handle_message: the handler table is not in this family; for Hello it is bus_driver_handle_hello (unit C03.hello):
 * TRUE => the connection is now active and the message re-stamped with its new unique name; FALSE => error set. */
dbus_bool_t verif_stub_bus_driver_handle_message (DBusConnection *c, BusTransaction *t, DBusMessage *m, DBusError *error)
{ PRE (c != NULL && t != NULL && m != NULL && ERR_CLEAR (error) && TS_SANITIZED (m, c), "bus_driver_handle_message: message sanitized");
  PRE (G.captures == 1 && G.policy_checks == 1 && G.policy_allowed && G.policy_sender == TS_CONN (c) && G.policy_proposed == NULL,
       "bus_driver_handle_message: captured once and admitted by the policy gate");
  PRE (TS_CONN (c)->active || TS_MSG (m)->is_hello, "bus_driver_handle_message: an unregistered connection may only say Hello");
  G.driver_handled++; G.driver_ok = nondet_bool ();
  if (!TS_CONN (c)->active && (G.driver_ok || nondet_bool ()))
    { for (int i = 0; i < TS_NCONN; i++) if (TS_CONN (c) == &ts_conns[i]) TS_CONN (c)->name = ts_names[i];
      TS_CONN (c)->active = 1; TS_CONN (c)->completed++; TS_MSG (m)->sender = TS_SND_UNIQUE; TS_MSG (m)->sender_of = TS_CONN (c); }
  if (!G.driver_ok) ts_raise (error, 1);
  return G.driver_ok; }
dbus_bool_t verif_stub_bus_activation_activate_service (BusActivation *a, DBusConnection *c, BusTransaction *t, dbus_bool_t auto_activation,
                                                        DBusMessage *m, const char *service_name, DBusError *error)
{ PRE (a != NULL && c != NULL && t != NULL && m != NULL && service_name != NULL && ERR_CLEAR (error) && TS_SANITIZED (m, c), "bus_activation_activate_service: message sanitized");
  PRE (G.captures == 1 && TS_MSG (m)->auto_start && G.lookups == 1 && !G.lookup_found, "bus_activation_activate_service: captured, auto-start allowed, name has no owner");
  G.activations++; if (nondet_bool ()) return 1; ts_raise (error, 1); return 0; }
/* registry: ghost map with one entry: the destination name has an owner or not */
BusService *verif_stub_bus_registry_lookup (BusRegistry *r, const DBusString *name)
{ PRE (r != NULL && name != NULL, "bus_registry_lookup");
  if (ts_lookup_fresh)    /* the mint: every candidate name is looked up afresh; what is looked up is the complete candidate ":" major "." minor */
    { PRE (verif_mint_tok_n == 4, "bus_registry_lookup (mint): a complete candidate name");
      verif_mint_iter_major = verif_mint_tok_major; verif_mint_iter_minor = verif_mint_tok_minor;
      if (verif_mint_lookups < 1000) verif_mint_lookups++;
      verif_mint_last_lookup_null = nondet_bool (); return verif_mint_last_lookup_null ? NULL : (BusService *) &ts_service_obj; }
  G.lookups++; return G.lookup_found ? (BusService *) &ts_service_obj : NULL; }
DBusConnection *verif_stub_bus_service_get_primary_owners_connection (BusService *s)
{ PRE (s == (BusService *) &ts_service_obj, "bus_service_get_primary_owners_connection: the service found by this step's lookup"); G.owner_queries++; return (DBusConnection *) G.lookup_owner; }

/* contract of bus_dispatch_matches (enforced for <= 3 match recipients in unit C05.matches) */
#define POST_bus_dispatch_matches(ret, addressed, m, error, staged0) \
  (IMP ((ret), ERR_CLEAR (error) && IMP ((addressed) != NULL, TS_CONN (addressed)->staged == (staged0) + 1 && G.staged_addressed == 1)) && \
   IMP (!(ret), ERR_SET (error) && IMP (ts_errkind ((error)->name) != TS_ERR_NO_MEMORY, (addressed) == NULL || TS_CONN (addressed)->staged == (staged0))) && \
   IMP ((addressed) != NULL && TS_MSG (m)->has_fds && !TS_CONN (addressed)->can_unix_fd, TS_CONN (addressed)->staged == (staged0) && !(ret)))
dbus_bool_t verif_stub_bus_dispatch_matches (BusTransaction *t, DBusConnection *sender, DBusConnection *addressed, DBusMessage *m, DBusError *error)
{ PRE (m != NULL, "bus_dispatch_matches: message given");
  PRE (PRE_bus_dispatch_matches (t, sender, addressed, m, error), "bus_dispatch_matches: message sanitized, captured once, sender active, error clear");
  PRE (error != NULL, "bus_dispatch_matches: error out-parameter");
  G.routed++; G.routed_addressed = TS_CONN (addressed);
  dbus_bool_t ret = nondet_bool ();
  int staged0 = addressed ? TS_CONN (addressed)->staged : 0;
  if (addressed && nondet_bool ()) { TS_CONN (addressed)->staged++; G.staged_addressed++; }
  if (!ret) ts_raise (error, 1);
  __CPROVER_assume (POST_bus_dispatch_matches (ret, addressed, m, error, staged0));
  G.routed_ok = ret; return ret; }

/* contract of bus_transaction_send_error_reply (enforced in unit C05.error_reply) */
dbus_bool_t verif_stub_bus_transaction_send_error_reply (BusTransaction *t, DBusConnection *c, const DBusError *error, DBusMessage *in_reply_to)
{ PRE (PRE_bus_transaction_send_error_reply (t, c, error, in_reply_to), "bus_transaction_send_error_reply: error set, in_reply_to has a non-zero serial");
  G.error_replies++; G.error_reply_name = ts_errkind (error->name); G.error_reply_to = TS_CONN (c); G.error_reply_in_reply_to = TS_MSG (in_reply_to);
  G.error_reply_ok = nondet_bool (); return G.error_reply_ok; }
/* contract of bus_transaction_send_from_driver (enforced in unit C03.from_driver) */
dbus_bool_t verif_stub_bus_transaction_send_from_driver (BusTransaction *t, DBusConnection *c, DBusMessage *m)
{ PRE (PRE_bus_transaction_send_from_driver (t, c, m), "bus_transaction_send_from_driver");
  G.from_driver++; G.from_driver_msg = TS_MSG (m); G.from_driver_to = TS_CONN (c);
  if (nondet_bool ()) return 0;
  TS_MSG (m)->sender = TS_SND_DRIVER; TS_MSG (m)->sender_of = NULL; return 1; }

/* matchmaker (C07 units): up to 3 distinct connections, never the addressed recipient */
dbus_bool_t verif_stub_bus_matchmaker_get_recipients (BusMatchmaker *mm, BusConnections *cs, DBusConnection *sender, DBusConnection *addressed, DBusMessage *m, DBusList **recipients_p)
{ PRE (mm != NULL && cs != NULL && m != NULL && recipients_p != NULL && *recipients_p == NULL, "bus_matchmaker_get_recipients");
  PRE (TS_OBSERVABLE (m, sender), "bus_matchmaker_get_recipients: message sanitized");
  G.recipient_queries++; G.recipient_mm = mm; G.recipient_q_sender = TS_CONN (sender); G.recipient_q_addressed = TS_CONN (addressed); G.recipient_q_msg = TS_MSG (m);
  if (nondet_bool ()) return 0;
  int n = ts_n_recipients;
  for (int i = 0; i < 3; i++) { ts_links[i].data = ts_recipient[i]; ts_links[i].next = &ts_links[(i + 1) % (n ? n : 1)]; ts_links[i].prev = &ts_links[(i + (n ? n : 1) - 1) % (n ? n : 1)]; }
  *recipients_p = n > 0 ? &ts_links[0] : NULL;
  return 1; }

/* contract of send_one_message (static in dispatch.c; enforced in unit C15.send_one) */
dbus_bool_t verif_stub_send_one_message (DBusConnection *c, BusContext *ctx, DBusConnection *sender, DBusConnection *addressed, DBusMessage *m, BusTransaction *t, DBusError *error)
{ PRE (m != NULL, "send_one_message: message given");
  PRE (PRE_send_one_message (c, ctx, sender, addressed, m, t, error), "send_one_message: message sanitized, error clear");
  int k = nondet_int ();
  if (k == 0) { error->name = ts_e_nomem; error->message = ts_s_text; return 0; }                      /* OOM */
  if (k == 1 && IMP (TS_MSG (m)->has_fds, TS_CONN (c)->can_unix_fd)) { TS_CONN (c)->staged++; if (TS_MSG (m)->has_fds) TS_CONN (c)->staged_fd++; G.staged_others++; }
  return 1; }

/* Hello */
dbus_bool_t verif_stub_bus_connections_check_limits (BusConnections *cs, DBusConnection *c, const char **limit_name_out, int *limit_out, DBusError *error)
{ PRE (c != NULL && limit_name_out != NULL && limit_out != NULL && error != NULL && ERR_CLEAR (error), "bus_connections_check_limits");
  PRE (G.minted == 0 && G.completes == 0, "bus_connections_check_limits: limits are checked before a name is minted");
  G.limit_checks++; if (nondet_bool ()) return 1;
  *limit_name_out = ts_s_text; *limit_out = nondet_int (); error->name = ts_e_limits; error->message = ts_s_text; return 0; }
dbus_bool_t _dbus_string_init (DBusString *s) { PRE (s != NULL, "_dbus_string_init"); if (nondet_bool ()) return 0; ts_str_inits++; return 1; }
void _dbus_string_free (DBusString *s) { PRE (s != NULL && ts_str_frees < ts_str_inits, "_dbus_string_free: an initialised string, freed once"); ts_str_frees++; }
dbus_bool_t verif_stub_create_unique_client_name (BusRegistry *r, DBusString *str)
{ PRE (r != NULL && str != NULL, "create_unique_client_name"); PRE (G.limit_checks == 1 && G.minted == 0, "create_unique_client_name: after the limit check, once");
  if (nondet_bool ()) return 0; G.minted++; ts_minted_string = str; return 1; }
dbus_bool_t verif_stub_bus_connection_complete (DBusConnection *c, const DBusString *name, DBusError *error)
{ PRE (c != NULL && name != NULL && ERR_CLEAR (error) && !TS_CONN (c)->active, "bus_connection_complete: connection has no unique name yet");
  PRE (G.minted == 1 && name == ts_minted_string, "bus_connection_complete: the name is the freshly minted one");
  G.completes++; if (nondet_bool ()) { ts_raise (error, 1); return 0; }
  for (int i = 0; i < TS_NCONN; i++) if (TS_CONN (c) == &ts_conns[i]) TS_CONN (c)->name = ts_names[i];
  TS_CONN (c)->active = 1; TS_CONN (c)->completed++; return 1; }
dbus_bool_t verif_stub_bus_driver_send_welcome_message (DBusConnection *c, DBusMessage *hello, BusTransaction *t, DBusError *error)
{ PRE (c != NULL && hello != NULL && t != NULL && ERR_CLEAR (error) && TS_CONN (c)->active && TS_CONN (c)->name != NULL, "bus_driver_send_welcome_message: connection has its unique name");
  PRE (TS_MSG (hello)->sender == TS_SND_UNIQUE && TS_MSG (hello)->sender_of == TS_CONN (c), "bus_driver_send_welcome_message: Hello re-stamped with the new unique name (the reply is addressed to it)");
  G.welcomes++; if (nondet_bool ()) return 1; ts_raise (error, 1); return 0; }
BusService *verif_stub_bus_registry_ensure (BusRegistry *r, const DBusString *name, DBusConnection *owner, dbus_uint32_t flags, BusTransaction *t, DBusError *error)
{ PRE (r != NULL && name != NULL && owner != NULL && t != NULL && ERR_CLEAR (error), "bus_registry_ensure");
  PRE (name == ts_minted_string && TS_CONN (owner)->completed == 1, "bus_registry_ensure: the minted name, owned by the connection that was completed with it");
  G.ensures++; if (nondet_bool ()) return (BusService *) &ts_service_obj; ts_raise (error, 1); return NULL; }
#endif
