/* C07/C14: dbus-memory.c wrappers as CBMC's allocator (DESIGN section 2, "Stubs": the wrappers only add debugging;
 * with --malloc-may-fail --malloc-fail-null every allocation may fail independently).  dbus_free(NULL) is a no-op. */
#include <stdlib.h>
#include <config.h>
#include "dbus/dbus-memory.h"
void *dbus_malloc (size_t bytes) { if (bytes == 0) return NULL; return malloc (bytes); }
void *dbus_malloc0 (size_t bytes) { if (bytes == 0) return NULL; return calloc (bytes, 1); }
void *dbus_realloc (void *memory, size_t bytes) { if (bytes == 0) { free (memory); return NULL; } return realloc (memory, bytes); }
void dbus_free (void *memory) { if (memory) free (memory); }
