/* C15: callee contracts of the dbus-message.c units, written as stubs (assert requires / havoc /
 * assume ensures / update ghost record).  Textually included by harness/c15_*.c AFTER the real
 * translation unit (#include VERIF_TU), so the struct definitions are the real ones.
 * Every function here is an assumption unless a unit enforces it (see tool/units/c15.py). */
#ifndef C15_MSG_STUBS
#define C15_MSG_STUBS
_Bool nondet_bool(void); int nondet_int(void); unsigned nondet_unsigned(void); long nondet_long(void); void *nondet_ptr(void);
#define PRE(c, what) __CPROVER_assert((c), "precondition of " what)
#define IMP(a,b) (!(a) || (b))
#define REACH(tag) __CPROVER_assert(0, "REACH:" tag)
#define ERR_SET(e) ((e)->name != NULL)
/* ghost record */
struct c15_ghost {
  /* inputs (havocked by the harness) */
  _Bool header_ok, header_oom, body_ok, has_fds_field; dbus_uint32_t announced; int header_bad_code, body_bad_code;
  /* close log: contract of close_unix_fds as proved by unit C15.close_unix_fds */
  unsigned close_calls; int *closed_array; unsigned closed_n; unsigned closes_total;
  /* frees */
  unsigned frees; void *freed[4];
  /* list / string / callback events */
  unsigned appended, removed_last, change_cb, body_copied, data_deleted, dups; int dup_src;
} G;
void _dbus_real_assert (dbus_bool_t condition, const char *condition_text, const char *file, int line, const char *func)
{ __CPROVER_assert(condition, "dbus internal assertion"); __CPROVER_assume(condition); }
void _dbus_real_assert_not_reached (const char *explanation, const char *file, int line)
{ __CPROVER_assert(0, "dbus assert_not_reached"); __CPROVER_assume(0); }
void _dbus_verbose_real (const char *file, const int line, const char *function, const char *format, ...) {}
void _dbus_verbose_bytes_of_string (const DBusString *str, int start, int len) {}
void _dbus_warn (const char *format, ...) {}
void _dbus_warn_check_failed (const char *format, ...) { __CPROVER_assert(0, "libdbus API precondition (_dbus_return_if_fail) violated"); }
void _dbus_warn_return_if_fail (const char *function, const char *assertion, const char *file, int line) { __CPROVER_assert(0, "libdbus API precondition (_dbus_return_if_fail) violated"); }
/* memory: the dbus_malloc family is CBMC's allocator (DESIGN 2, stubs table) */
void *dbus_malloc (size_t n) { if (n == 0 || nondet_bool()) return NULL; return malloc(n); }
void *dbus_malloc0 (size_t n) { if (n == 0 || nondet_bool()) return NULL; return calloc(1, n); }
void dbus_free (void *p) { if (G.frees < 4) G.freed[G.frees] = p; G.frees++; free(p); }
/* Contracts of the two array movers, instantiated at the ghost index verif_gk (DESIGN 3.1): the result
 * equals the source at position verif_gk; every other position of the destination is havocked.  Since
 * verif_gk is arbitrary and never assigned this is the universally quantified contract
 *   forall i < n: dest[i] == old(src[i])
 * without a quantifier and without CBMC's byte-array models of memcpy/memmove (measured: solver
 * out of memory with the built-in models on symbolic sizes). Element type int (the only use here). */
extern long verif_gk;
void *_dbus_memdup (const void *mem, size_t n_bytes)
{ PRE(mem != NULL && n_bytes > 0 && n_bytes % sizeof(int) == 0 && __CPROVER_r_ok(mem, n_bytes), "_dbus_memdup (n_bytes readable at mem)");
  if (nondet_bool()) return NULL;
  int *c = malloc(n_bytes); __CPROVER_assume(c != NULL);      /* fresh, content arbitrary */
  if (verif_gk >= 0 && (size_t)verif_gk < n_bytes / sizeof(int)) c[verif_gk] = ((const int *)mem)[verif_gk];
  return c; }
void *memmove (void *dest, const void *src, size_t n_bytes)
{ PRE(n_bytes % sizeof(int) == 0 && (n_bytes == 0 || (__CPROVER_r_ok(src, n_bytes) && __CPROVER_w_ok(dest, n_bytes))), "memmove (source readable, destination writable for n_bytes)");
  _Bool in = verif_gk >= 0 && (size_t)verif_gk < n_bytes / sizeof(int);
  int keep = in ? ((const int *)src)[verif_gk] : 0;
  if (n_bytes > 0) __CPROVER_havoc_slice(dest, n_bytes);
  if (in) ((int *)dest)[verif_gk] = keep;
  return dest; }
#endif
