#!/usr/bin/env python3
"""Oracle self-test (setup time, not a verdict): the local predicates of spec/grammar.h, evaluated
natively over every position, against independently written regular expressions, on all strings
of length <= 5 over a class alphabet (and a few long ones around the 255 limit)."""
import itertools
import os
import re
import subprocess
import sys
import tempfile

VERIF = os.path.dirname(os.path.dirname(os.path.abspath(__file__)))
C = r'''
#include <stdio.h>
#include <string.h>
#include "grammar_ref.h"
int main(void){ static char line[4096]; static unsigned char b[2048];
 while (fgets(line,sizeof line,stdin)) { int n=0; char *h=line; while (h[0] && h[0] != '\n' && h[0] != '-') { unsigned v; sscanf(h,"%2x",&v); b[n++]=v; h+=2; } b[n]=0;
  printf("%d%d%d%d%d\n", ref_member(b,n), ref_interface(b,n), ref_bus_name_full(b,n,0), ref_bus_name_full(b,n,1), ref_path(b,n)); }
 return 0; }
'''
EL = rb'[A-Za-z_][A-Za-z0-9_]*'
BEL = rb'[A-Za-z_-][A-Za-z0-9_-]*'
UEL = rb'[A-Za-z0-9_-]+'
RX = [
    re.compile(rb'\A' + EL + rb'\Z'),
    re.compile(rb'\A' + EL + rb'(\.' + EL + rb')+\Z'),
    # well-known names need a dot; unique names: ':' then possibly-empty first element, non-empty later ones
    re.compile(rb'\A(' + BEL + rb'(\.' + BEL + rb')+|:(' + UEL + rb')?(\.' + UEL + rb')*)\Z'),
    re.compile(rb'\A(' + BEL + rb'(\.' + BEL + rb')*|:(' + UEL + rb')?(\.' + UEL + rb')*)\Z'),
    re.compile(rb'\A(/|(/[A-Za-z0-9_]+)+)\Z'),
]


def main():
    alpha = [b'a', b'Z', b'_', b'0', b'9', b'-', b'.', b'/', b':', b'\x00', b'\xc3', b' ']
    cases = [b'']
    for n in range(1, 6):
        for t in itertools.product(alpha, repeat=n):
            cases.append(b''.join(t))
    for n in (254, 255, 256):
        cases += [b'a' * n, b'a.' + b'b' * (n - 2), b'/' + b'a' * (n - 1), b':' + b'1' * (n - 1), b'a' * (n - 2) + b'.b']
    d = tempfile.mkdtemp(prefix='verif-self-')
    try:
        open(os.path.join(d, 't.c'), 'w').write(C)
        subprocess.run(['gcc', '-O1', '-w', '-I' + os.path.join(VERIF, 'spec'), os.path.join(d, 't.c'), '-o', os.path.join(d, 't')], check=True)
        inp = b''.join((c.hex().encode() or b'-') + b'\n' for c in cases)
        out = subprocess.run([os.path.join(d, 't')], input=inp, capture_output=True, check=True).stdout.split()
    finally:
        import shutil
        shutil.rmtree(d, ignore_errors=True)
    bad = 0
    for c, o in zip(cases, out):
        for i, rx in enumerate(RX):
            want = bool(rx.match(c)) and (i == 4 or len(c) <= 255)  # paths have no length limit of their own
            got = o[i:i + 1] == b'1'
            if want != got:
                bad += 1
                if bad < 20:
                    print('MISMATCH grammar %d on %r: local-predicate %s, regex %s' % (i, c, got, want))
    print('grammar self-test: %d strings x %d grammars, %d mismatches' % (len(cases), len(RX), bad))
    return 1 if bad else 0


if __name__ == '__main__':
    sys.exit(main())
