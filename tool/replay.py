"""Counterexample search and native replay (DESIGN.md section 4).

make_replay(): for a unit with unlisted failing obligations, try to get a *concrete* input
(from the unit's own trace if the run is a real execution, else from its finder unit), replay it
natively against the real code built from /repo's current tree, and write the replay file.
"""
import concurrent.futures as cf
import json
import os
import re
import shutil
import subprocess
import tempfile

from . import core

VERIF = core.VERIF


def ninja_sources(targets=('dbus-1', 'dbus-internal')):
    """(source, defines, includes) of the C files of the given CMake targets, from build.ninja."""
    bn = os.path.join(core.config_dir(), 'build.ninja')
    res = []
    if not os.path.exists(bn):
        return res
    txt = open(bn).read()
    for mo in re.finditer(r'^build (\S+)/CMakeFiles/([^/]+)\.dir/(\S+)\.o: C_COMPILER\S* (\S+)(.*?)\n((?:  .*\n)+)', txt, re.M):
        d, tgt, obj, src, _, body = mo.groups()
        if tgt not in targets:
            continue
        defs = re.search(r'DEFINES = (.*)', body)
        incs = re.search(r'INCLUDES = (.*)', body)
        src = src.replace('/repo/', core.REPO + '/') if src.startswith('/repo/') else src
        res.append((src, (defs.group(1) if defs else '').split(), (incs.group(1) if incs else '').split()))
    return res


def build_native_lib(outdir, targets=('dbus-1', 'dbus-internal'), san=True):
    """Compile the library sources of /repo's current tree natively into outdir/libverifdbus.a."""
    lib = os.path.join(outdir, 'libverifdbus.a')
    if os.path.exists(lib):
        return lib
    srcs = ninja_sources(targets)
    if not srcs:
        raise RuntimeError('cannot read source list from build.ninja')
    os.makedirs(outdir, exist_ok=True)
    objs = []

    def cc(item):
        src, defs, incs = item
        src = src.replace('/repo/', core.REPO + '/')
        o = os.path.join(outdir, os.path.basename(src) + '.o')
        incs2 = ['-I' + core.config_dir() if i.rstrip('/') == '-I/repo/_build' else i.replace('-I/repo/', '-I' + core.REPO + '/')
                 for i in incs]
        cmd = ['gcc', '-c', '-g', '-O1', '-w'] + (['-fsanitize=address,undefined', '-fno-omit-frame-pointer'] if san else []) \
            + [d for d in defs if 'dbus_1_EXPORTS' not in d] + incs2 + [src, '-o', o]
        p = subprocess.run(cmd, capture_output=True, text=True)
        if p.returncode != 0:
            raise RuntimeError('native compile failed: %s\n%s' % (src, p.stderr[-1500:]))
        return o
    with cf.ThreadPoolExecutor(max_workers=16) as ex:
        objs = list(ex.map(cc, srcs))
    subprocess.run(['ar', 'rcs', lib] + objs, check=True)
    return lib


def native_run(family, args, workdir):
    """Build replay/native_<family>.c against the current tree and run it. Returns (rc, output)."""
    src = os.path.join(VERIF, 'replay', 'native_%s.c' % family)
    if not os.path.exists(src):
        return None, 'no native replay program for family %s' % family
    lib = build_native_lib(os.path.join(workdir, 'nativelib'))
    exe = os.path.join(workdir, 'replay_%s' % family)
    cmd = ['gcc', '-g', '-O1', '-w', '-fsanitize=address,undefined', '-fno-omit-frame-pointer',
           '-DDBUS_COMPILATION', '-DHAVE_CONFIG_H', '-D_GNU_SOURCE', '-DDBUS_STATIC_BUILD',
           '-I' + core.REPO, '-I' + core.config_dir(), '-I' + os.path.join(core.REPO, 'bus'),
           '-I' + os.path.join(VERIF, 'spec'), '-I' + os.path.join(VERIF, 'include'),
           src, lib, '-lpthread', '-lexpat', '-lsystemd', '-lrt', '-o', exe]
    p = subprocess.run(cmd, capture_output=True, text=True)
    if p.returncode != 0:
        return None, 'native replay build failed: ' + p.stderr[-2000:]
    try:
        p = subprocess.run([exe] + [str(a) for a in args], capture_output=True, text=True, timeout=120,
                           env=dict(os.environ, DBUS_FATAL_WARNINGS='0', ASAN_OPTIONS='detect_leaks=0'))
    except subprocess.TimeoutExpired:
        return 124, 'native replay timed out (non-termination?)'
    return p.returncode, (p.stdout + p.stderr)[-6000:]


def inputs_to_args(u, inputs):
    """Turn the in_* variables of a CBMC trace into the argv of the native replay program."""
    fam = u.get('replay_family')
    if not inputs:
        return None
    # byte buffer in_buf[i], length in_len, further scalars in_<name>
    buf = {}
    scal = {}
    for k, v in inputs.items():
        mo = re.match(r'^(?:verif_)?in_buf\[(\d+)[lLuU]*\]$', k)
        if mo:
            try:
                buf[int(mo.group(1))] = int(v) & 0xff
            except (TypeError, ValueError):
                pass
        else:
            scal[re.sub(r'^(verif_)?in_', '', k)] = v
    n = 0
    try:
        n = int(scal.get('len', len(buf)))
    except (TypeError, ValueError):
        pass
    hexs = ''.join('%02x' % buf.get(i, 0) for i in range(max(n, 0))) or '-'
    args = [u.get('replay_fn', ''), hexs]
    for k in u.get('replay_scalars', []):
        args.append(scal.get(k, 0))
    return args


def make_replay(prop, u, r, byname, scratch, tier, log_dir, rdir, baseline):
    failure = r['failed_unlisted'][0]
    rec = {'property': prop, 'unit': r['name'], 'obligation': failure['description'],
           'obligation_id': failure['property'], 'location': failure.get('location'),
           'all_failed': [f['description'] + ' @' + str((f.get('location') or {}).get('line', '?')) for f in r['failed_unlisted']][:20],
           'confirmed': False, 'verifier_output': failure.get('trace_tail', []), 'checker_cmd': r.get('checker_cmd')}
    inputs = None
    finder_note = None
    if u.get('trace_is_execution') and failure.get('inputs'):
        inputs = failure['inputs']
        src_unit = u
    elif u.get('finder') and u['finder'] in byname:
        fu = byname[u['finder']]
        fr = core.run_unit(fu, scratch, tier, log_dir)
        if fr['status'] == core.VIOLATED and fr['failed'] and fr['failed'][0].get('inputs'):
            inputs = fr['failed'][0]['inputs']
            src_unit = fu
            rec['finder'] = {'unit': fu['name'], 'obligation': fr['failed'][0]['description'], 'bounds': fu.get('bounds')}
        else:
            finder_note = 'finder unit %s: %s %s' % (fu['name'], fr['status'], fr.get('reason') or '')
    if inputs:
        args = inputs_to_args(src_unit, inputs)
        rec['inputs'] = inputs
        rec['native_args'] = args
        rec['family'] = src_unit.get('replay_family')
        if args and src_unit.get('replay_family'):
            try:
                rc, out = native_run(src_unit['replay_family'], args, scratch)
            except RuntimeError as e:
                rc, out = None, str(e)
            rec['native_rc'] = rc
            rec['native_output'] = out
            rec['confirmed'] = (rc is not None and rc != 0)
    else:
        rec['note'] = finder_note or 'the failing obligation is a contract/induction obligation; CBMC gives no concrete reachable input for it'
    path = os.path.join(rdir, '%s-%s.json' % (prop, core.safe_name(r['name'])))
    rec['path'] = path
    rec['how_to'] = './verif replay %s' % path
    with open(path, 'w') as fh:
        json.dump(rec, fh, indent=1)
    return rec


def run_replay(path):
    rec = json.load(open(path))
    print('property   : %s' % rec['property'])
    print('unit       : %s' % rec['unit'])
    print('obligation : %s (%s)' % (rec['obligation'], rec.get('obligation_id')))
    if rec.get('native_args') and rec.get('family'):
        wd = tempfile.mkdtemp(prefix='verif-replay-')
        try:
            rc, out = native_run(rec['family'], rec['native_args'], wd)
        finally:
            shutil.rmtree(wd, ignore_errors=True)
        print(out)
        if rc:
            print('REPLAY: violation reproduced on the real code (rc=%s)' % rc)
            return 1
        print('REPLAY: not reproduced (rc=%s)' % rc)
        return 0
    print('no concrete input; verifier output follows')
    print('\n'.join(rec.get('verifier_output') or []))
    # re-run the unit itself
    from . import main as m
    return m.check(rec['property'], 'thorough', [rec['unit']])
