"""Unit runner: overlay -> goto-cc -> goto-instrument -> cbmc -> verdict.

A *unit* is one (function(s), contract, back-end invocation).  See DESIGN.md sections 2, 4, 5.
"""
import hashlib
import json
import os
import re
import resource
import shutil
import subprocess
import time

from . import overlay as ovl

VERIF = os.path.dirname(os.path.dirname(os.path.abspath(__file__)))
REPO = os.environ.get('VERIF_REPO', '/repo')

HOLDS, VIOLATED, UNDECIDED = 'holds', 'violated', 'undecided'


def safe_name(name):
    """File-system safe, collision-free form of a unit name (signatures contain brackets)."""
    for a, b in (('(', '_P'), (')', 'p_'), ('{', '_B'), ('}', 'b_')):
        name = name.replace(a, b)
    return re.sub(r'[^A-Za-z0-9_.-]', '_', name)


def config_dir():
    for d in (os.path.join(REPO, '_build'), '/repo/_build', os.path.join(VERIF, 'build', 'config')):
        if os.path.exists(os.path.join(d, 'config.h')):
            return d
    raise RuntimeError('config.h not found; run ./verif setup')


def base_flags(bus=False):
    f = ['-DDBUS_COMPILATION', '-DHAVE_CONFIG_H', '-D_GNU_SOURCE', '-DDBUS_VERIF_CBMC',
         '-I' + REPO, '-I' + config_dir(), '-I' + os.path.join(VERIF, 'include'),
         '-I' + os.path.join(VERIF, 'spec'), '-I' + os.path.join(VERIF, 'harness')]
    if bus:
        f += ['-DDBUS_STATIC_BUILD', '-I' + os.path.join(REPO, 'bus')]
    return f


def _limit(mem_gb):
    def fn():
        resource.setrlimit(resource.RLIMIT_AS, (mem_gb << 30, mem_gb << 30))
        os.setsid()
        try:        # die with the checker: no orphaned solver keeps running when a check is interrupted
            import ctypes, signal
            ctypes.CDLL('libc.so.6', use_errno=True).prctl(1, signal.SIGKILL)      # PR_SET_PDEATHSIG
            resource.setrlimit(resource.RLIMIT_CPU, (6 * 3600, 6 * 3600))
        except Exception:
            pass
    return fn


def run(cmd, timeout, mem_gb=16, cwd=None, log=None):
    """Run under timeout and address-space limit. Returns (rc, stdout, stderr, seconds, why)."""
    t0 = time.time()
    try:
        p = subprocess.Popen(cmd, stdout=subprocess.PIPE, stderr=subprocess.PIPE, cwd=cwd,
                             preexec_fn=_limit(mem_gb), text=True, errors='replace')
        try:
            out, err = p.communicate(timeout=timeout)
            why = None
        except subprocess.TimeoutExpired:
            try:
                os.killpg(p.pid, 9)
            except ProcessLookupError:
                pass
            out, err = p.communicate()
            why = 'timeout after %ds' % timeout
        rc = p.returncode
    except OSError as e:
        return 127, '', str(e), time.time() - t0, 'tool missing: %s' % e
    dt = time.time() - t0
    if log:
        with open(log, 'a') as fh:
            fh.write('$ ' + ' '.join(cmd) + '\n[rc=%s, %.1fs%s]\n' % (rc, dt, ', ' + why if why else ''))
            fh.write(err[-20000:] + '\n')
    return rc, out, err, dt, why


class UnitResult(dict):
    pass


def sha(path):
    return hashlib.sha256(open(path, 'rb').read()).hexdigest()


def prepare_sources(u, sdir, log):
    """Overlay + goto-cc compile of every source of the unit. Returns (list of .gb, report)."""
    rep = {'overlay': [], 'repo_inputs': {}}
    defs = []
    gbs = []
    bus = u.get('bus', False)
    flags = base_flags(bus) + ['-D' + d for d in u.get('defines', [])]
    # 1. overlays / include macros
    tu_paths = {}
    for tu in u.get('tus', []):
        rel = tu['file']
        src_path = os.path.join(REPO, rel)
        if not os.path.exists(src_path):
            raise ovl.OverlayError('source %s missing' % rel)
        rep['repo_inputs'][rel] = sha(src_path)
        path = src_path
        if tu.get('overlay'):
            spec = open(os.path.join(VERIF, 'contracts', tu['overlay'])).read()
            new, orep = ovl.apply_overlay(open(src_path).read(), spec)
            path = os.path.join(sdir, os.path.basename(rel).replace('.c', '.ovl.c'))
            with open(path, 'w') as fh:
                fh.write(new)
            orep['file'] = rel
            orep['spec'] = tu['overlay']
            rep['overlay'].append(orep)
        tu_paths[rel] = path
        if tu.get('include_as'):
            defs.append('-D%s="%s"' % (tu['include_as'], path))
            defs.append('-I' + os.path.dirname(src_path))   # relative includes of an overlay copy
    # 2. compile TUs that are linked separately (through the wrapper => prelude in force)
    for tu in u.get('tus', []):
        if tu.get('include_as'):
            continue
        out = os.path.join(sdir, os.path.basename(tu['file']) + '.gb')
        cmd = ['goto-cc'] + flags + ['-I' + os.path.dirname(os.path.join(REPO, tu['file'])),
                                     '-DVERIF_TU="%s"' % tu_paths[tu['file']]]
        if tu.get('extra_prelude'):
            cmd.append('-DVERIF_EXTRA_PRELUDE="%s"' % tu['extra_prelude'])
        if tu.get('raw'):
            cmd = ['goto-cc'] + flags + ['-c', tu_paths[tu['file']], '-o', out]
        else:
            cmd += ['-c', os.path.join(VERIF, 'include', 'tu_wrap.c'), '-o', out]
        if tu.get('export_statics'):
            cmd.insert(1, '--export-file-local-symbols')
        rc, o, e, dt, why = run(cmd, 300, log=log)
        if rc != 0:
            raise RuntimeError('goto-cc failed on %s: %s' % (tu['file'], e[-2000:]))
        gbs.append(out)
    # 3. harness + stub sources from /verif
    for i, src in enumerate([u['harness']] + u.get('extra_sources', [])):
        out = os.path.join(sdir, 'h%d.gb' % i)
        cmd = ['goto-cc'] + flags + defs + ['-c', os.path.join(VERIF, src), '-o', out]
        if u.get('export_statics'):
            cmd.insert(1, '--export-file-local-symbols')
        rc, o, e, dt, why = run(cmd, 300, log=log)
        if rc != 0:
            raise RuntimeError('goto-cc failed on %s: %s' % (src, e[-3000:]))
        gbs.append(out)
    return gbs, rep


def build_unit(u, sdir, log):
    """Returns (final goto binary, report dict). Raises on tool failure."""
    gbs, rep = prepare_sources(u, sdir, log)
    entry = u.get('entry', 'harness')
    linked = os.path.join(sdir, 'linked.gb')
    rc, o, e, dt, why = run(['goto-cc', '--function', entry] + gbs + ['-o', linked], 300, log=log)
    if rc != 0:
        raise RuntimeError('link failed: ' + e[-3000:])
    cur = linked
    instr_log = ''
    step = 0

    def gi(args):
        nonlocal cur, step, instr_log
        step += 1
        out = os.path.join(sdir, 'i%d.gb' % step)
        rc, o, e, dt, why = run(['goto-instrument'] + args + [cur, out], u.get('instr_timeout', 600),
                                mem_gb=u.get('mem_gb', 16), log=log)
        instr_log += o + e
        if rc != 0 or why:
            raise RuntimeError('goto-instrument %s failed: %s %s' % (' '.join(args), why or '', (o + e)[-3000:]))
        cur = out

    rc_map = u.get('replace_calls', {})
    if rc_map:
        args = []
        for k, v in rc_map.items():
            args += ['--replace-calls', '%s:%s' % (k, v)]
        gi(args)
    route = u['route']
    if u.get('unwindset_pre'):
        gi(['--unwindset', ','.join(u['unwindset_pre']), '--unwinding-assertions'])
    if route in ('dfcc', 'hybrid'):
        args = ['--dfcc', entry]
        if route == 'dfcc':
            for f in u['enforce']:
                args += ['--enforce-contract-rec' if u.get('rec') else '--enforce-contract', f]
        for k, v in u.get('dfcc_replace', {}).items():
            args += ['--replace-call-with-contract', k if v is None else '%s/%s' % (k, v)]
        if u.get('loop_contracts', True):
            args += ['--apply-loop-contracts']
        gi(args)
        if re.search(r'does not have a contract|skipping', instr_log) and not u.get('allow_skip_msg'):
            rep['instr_warning'] = [l for l in instr_log.split('\n') if 'skipping' in l or 'does not have' in l][:5]
    rep['instr_log_tail'] = instr_log[-1500:]
    return cur, rep


SAFETY_CLASSES = ('pointer_dereference', 'array_bounds', 'overflow', 'division-by-zero', 'undefined-shift',
                  'pointer_arithmetic', 'pointer_primitives', 'pointer', 'bounds')


def cbmc_cmd(u, gb):
    cmd = ['cbmc', '--bounds-check', '--pointer-check', '--signed-overflow-check', '--div-by-zero-check',
           '--undefined-shift-check', '--drop-unused-functions', '--json-ui']
    if u.get('solver', 'cadical') == 'cadical':
        cmd += ['--sat-solver', 'cadical']
    if u.get('kind') in ('B', 'W') or u.get('unwind'):
        if u.get('unwind'):
            cmd += ['--unwind', str(u['unwind'])]
        cmd += ['--unwinding-assertions']
    if u.get('unwindset'):
        cmd += ['--unwindset', ','.join(u['unwindset'])]
    cmd += u.get('cbmc_flags', [])
    return cmd + [gb]


def parse_cbmc_json(out):
    """Returns (results list, messages list, overall status text)."""
    try:
        data = json.loads(out)
    except ValueError:
        # cbmc killed mid-way: try to salvage
        return None, [], None
    results, msgs, status = [], [], None
    for item in data:
        if 'result' in item:
            results = item['result']
        if 'messageText' in item:
            msgs.append(item['messageText'])
        if 'cProverStatus' in item:
            status = item['cProverStatus']
    return results, msgs, status


def classify(res):
    """contract-level obligations (named) vs generated safety checks."""
    prop = res.get('property', '')
    desc = res.get('description', '')
    return prop, desc


def extract_trace_inputs(res):
    """Assignments of harness-level variables from a CBMC trace (for replay)."""
    vals = {}
    for st in res.get('trace', []):
        if st.get('stepType') == 'assignment' and not st.get('hidden'):
            lhs = st.get('lhs', '')
            v = st.get('value', {})
            if re.match(r'^(verif_in_|in_)[A-Za-z0-9_\[\]\.]*$', lhs):
                vals[lhs] = v.get('data', v.get('binary'))
    return vals


def run_unit(u, scratch_root, tier, log_dir):
    """Run one unit. Returns UnitResult."""
    name = u['name']
    sdir = os.path.join(scratch_root, safe_name(name))
    os.makedirs(sdir, exist_ok=True)
    log = os.path.join(log_dir, safe_name(name) + '.log')
    open(log, 'w').close()
    r = UnitResult(name=name, kind=u['kind'], route=u['route'], status=UNDECIDED, reason=None, seconds=0.0,
                   obligations=0, discharged=0, failed=[], reach_ok=None, functions=u.get('functions', []),
                   solver='cbmc 6.11 SAT/' + u.get('solver', 'cadical'), props=u['props'], bounds=u.get('bounds'),
                   assumptions=u.get('assumptions', []), log=log)
    t0 = time.time()
    try:
        gb, rep = build_unit(u, sdir, log)
        r['build'] = rep
        if rep.get('instr_warning'):
            r['reason'] = 'contract dropped by goto-instrument: %s' % rep['instr_warning']
            return r
        cmd = cbmc_cmd(u, gb)
        r['checker_cmd'] = ' '.join(cmd)
        rc, out, err, dt, why = run(cmd, u.get('timeout', 600), mem_gb=u.get('mem_gb', 16), log=log)
        if why and 'timeout' in why and u['route'] in ('stub', 'plain') and not u.get('unwind'):
            # A loop-free function under contract that no longer terminates in symbolic execution has usually grown a loop.
            # Retry with a small unwinding bound: real obligations that fail are reported; if only the unwinding
            # assertions fail the unit stays undecided.
            u = dict(u, unwind=16)
            cmd = cbmc_cmd(u, gb)
            r['checker_cmd'] = ' '.join(cmd)
            r['retry'] = 'timeout without unwinding bound; retried with --unwind 16 --unwinding-assertions'
            rc, out, err, dt, why = run(cmd, u.get('timeout', 600), mem_gb=u.get('mem_gb', 16), log=log)
        if why:
            r['reason'] = why
            return r
        results, msgs, status = parse_cbmc_json(out)
        with open(log, 'a') as fh:
            fh.write('\n'.join(msgs[-60:]) + '\n')
        if results is None or not results:
            oom = 'bad_alloc' in (out + err) or 'Out of memory' in (out + err) or rc in (-9, -6, 134, 137)
            r['reason'] = ('memory limit' if oom else 'cbmc gave no result (rc=%s): %s' % (rc, (err or '\n'.join(msgs))[-800:]))
            return r
        for m in msgs:
            if 'ignoring forall' in m or 'ignoring exists' in m:
                r['reason'] = 'quantifier ignored by back end'
                return r
            if 'ran out of memory' in m or 'Solver ran out' in m or 'VERIFICATION ERROR' in m:
                r['reason'] = 'memory limit (solver ran out of memory): no verdict'
                return r
        # CBMC 6 marks properties downstream of a failed check as UNKNOWN: with at least one FAILURE the verdict stands
        # (FAILUREs are reported, UNKNOWNs ignored); without any FAILURE an UNKNOWN/ERROR status means no verdict.
        n_fail = sum(1 for res in results if res.get('status') == 'FAILURE' and not res.get('description', '').startswith('REACH:'))
        if status not in (None, 'success', 'failure') or (n_fail == 0 and any(res.get('status') not in ('SUCCESS', 'FAILURE') for res in results)):
            r['reason'] = 'cbmc ended without a verdict (status %s)' % status
            return r
        reach, reach_failed = [], []
        failed, n, ok = [], 0, 0
        named = []
        for res in results:
            prop, desc = classify(res)
            st = res.get('status')
            if desc.startswith('REACH:'):
                reach.append(desc)
                if st != 'FAILURE':
                    reach_failed.append(desc)
                continue
            n += 1
            if st == 'SUCCESS':
                ok += 1
            elif st != 'FAILURE':
                pass        # UNKNOWN behind a FAILURE: neither discharged nor reported
            else:
                failed.append({'property': prop, 'description': desc, 'status': st,
                               'location': res.get('sourceLocation', {})})
            cls = prop.rsplit('.', 1)[0].split('.')[-1] if '.' in prop else prop
            if not any(cls.startswith(c) for c in SAFETY_CLASSES):
                named.append(desc)
        r['obligations'], r['discharged'], r['failed'] = n, ok, failed
        r['named'] = sorted(set(named))
        r['reach'] = reach
        r['reach_ok'] = (not reach_failed)
        # undefined callee guard
        for f in failed:
            if 'undefined function should be unreachable' in f['description'] or 'no body for' in f['description']:
                r['reason'] = 'unspecified callee: %s [%s / %s]' % (f['description'], f['property'], (f.get('location') or {}).get('function', '?'))
                return r
        if failed and all('unwinding assertion' in f['description'] for f in failed):
            r['failed'] = []
            r['reason'] = 'unwinding bound too small (only unwinding assertions fail): no verdict'
            return r
        if failed:
            r['status'] = VIOLATED
            # second run with traces for the failed obligations
            if u.get('want_trace', True):
                cmd2 = cbmc_cmd(u, gb)
                cmd2.insert(-1, '--trace')
                rc, out2, err2, dt2, why2 = run(cmd2, u.get('timeout', 600), mem_gb=u.get('mem_gb', 16), log=log)
                res2, _, _ = parse_cbmc_json(out2) if not why2 else (None, None, None)
                if res2:
                    for res in res2:
                        if res.get('status') == 'FAILURE' and not res.get('description', '').startswith('REACH:'):
                            for f in failed:
                                if f['property'] == res.get('property'):
                                    f['inputs'] = extract_trace_inputs(res)
                                    f['trace_tail'] = [
                                        '%s:%s %s=%s' % (s.get('sourceLocation', {}).get('file', '?').split('/')[-1],
                                                         s.get('sourceLocation', {}).get('line', '?'), s.get('lhs'),
                                                         (s.get('value') or {}).get('data'))
                                        for s in res.get('trace', []) if s.get('stepType') == 'assignment' and not s.get('hidden')][-40:]
            return r
        if n == 0:
            r['reason'] = 'zero obligations generated'
            return r
        if u.get('reach_required', True) and not reach:
            r['reason'] = 'unit has no reachability (must-fail) guard'
            return r
        if reach_failed:
            r['reason'] = 'vacuity: not reachable under the precondition: %s' % reach_failed
            return r
        missing = [d for d in u.get('must_have', []) if not any(d in x for x in named)]
        if missing:
            r['reason'] = 'expected contract obligations absent (dropped contract?): %s' % missing
            return r
        r['status'] = HOLDS
        return r
    except ovl.OverlayError as e:
        r['reason'] = 'extraction break: %s' % e
        return r
    except RuntimeError as e:
        r['reason'] = 'tool failure: %s' % str(e)[-1500:]
        return r
    finally:
        r['seconds'] = round(time.time() - t0, 1)
        if not os.environ.get('VERIF_KEEP'):
            shutil.rmtree(sdir, ignore_errors=True)
