"""C02 — built messages serialise validly and round-trip (reader/byteswap side; the writer side is not decided)."""
VAL = 'dbus/dbus-marshal-validate.c'
STR = 'dbus/dbus-string.c'
REC = 'dbus/dbus-marshal-recursive.c'
BASIC = 'dbus/dbus-marshal-basic.c'
SWAP = 'dbus/dbus-marshal-byteswap.c'
ASSERT = 'stubs/assert_stubs.c'
UNITS = [
    dict(name='C02.basics', props=['C02', 'C01'], kind='P', route='plain',
         tus=[dict(file=BASIC, include_as='VERIF_TU')], harness='harness/c02_basics.c', unwind=9, timeout=600, expect_s=20,
         must_have=['pack_4_octets', 'swap_8_octets is an involution'],
         functions=[dict(name='pack_2_octets/pack_4_octets/pack_8_octets/_dbus_pack_uint32/_dbus_unpack_uint16/_dbus_unpack_uint32/swap_8_octets/_dbus_type_get_alignment',
                         file=BASIC, status='enforced', contract='wire byte order per specification; inverse pairs; alignment table; all values (loop-free, the harness loops over <= 8 byte positions)')],
         assumptions=[]),
]
# byteswap: every type code the validator accepts, arrays of every alignment, nesting
SWAP_CATALOGUE = ['y', 'b', 'n', 'q', 'i', 'u', 'x', 't', 'd', 'h', 's', 'g', 'ay', 'an', 'au', 'ax', 'ah', 'ab', 'yu', 'yx',
                  '(yu)', '(yx)', 'a(yu)', 'a{yu}',   # 'aau' runs out of 16 GB: not decided
                  '(y(yu))', 'yh', 'a(yy)u', 'a(yy)y', 'a{yy}u']   # the last three: a container array followed by another value
BODYTUS = [dict(file=f) for f in (VAL, STR, REC, BASIC, SWAP, 'dbus/dbus-signature.c')]
for _i, _sig in enumerate(SWAP_CATALOGUE):
    _n = 6 if 'g' in _sig else (12 if (any(c in _sig for c in 'so') or _sig in ('a(yu)', 'a{yu}')) else 16)   # signature-typed content is validated by the (costly) signature validator
    for _le, _tier in (((_i % 2, 'quick'), (1 - _i % 2, 'thorough')) if _sig != 'aau' else ((0, 'thorough'), (1, 'thorough'))):   # aau: > 16 GB at any useful bound, thorough tier only
        UNITS.append(dict(name='C02.swap.%s.%s%d' % (_sig, 'le' if _le else 'be', _n), props=['C02'], kind='B', route='plain',
                          tus=BODYTUS, harness='harness/c02_byteswap.c', extra_sources=[ASSERT, 'stubs/list_as_stack.c'],
                          defines=['VERIF_N=%d' % _n, 'VERIF_LE=%d' % _le, 'VERIF_SIG="%s"' % _sig], unwind=_n + 3, timeout=1800, tier=_tier, cbmc_flags=['--object-bits', '10'],
                          expect_s=30, trace_is_execution=True, replay_family='swap', replay_fn='%s:%d' % (_sig, _le),
                          bounds={'signature': _sig, 'body_bytes': _n, 'from_byte_order': 'little' if _le else 'big'},
                          functions=[dict(name='_dbus_marshal_byteswap / byteswap_body_helper', file=SWAP, status='bounded'),
                                     dict(name='_dbus_validate_body_with_reason', file=VAL, status='bounded', note='used as the precondition "valid body" and as post-check')],
                          assumptions=['dbus-list behaves as a LIFO stack of integers in the signature validator (stub, not verified)']))

# variants as array elements / top-level values through the WHOLE-BODY swap harness were tried and are NOT registered: even with a fully
# concrete skeleton (array length, contained signature, padding) 'v' over 8 bytes and 'av' over 12 bytes did not finish in 600 s / 1800 s
# (the validator run on the swapped buffer explores every type case of the contained signature).  The dispatch on the element type,
# including arrays of variants, is decided by C02.swap.array_dispatch below instead.
UNITS.append(dict(name='C02.swap.array_dispatch', props=['C02', 'C01'], kind='B', route='stub', entry='harness',
    tus=[dict(file=SWAP, include_as='VERIF_TU'), dict(file=BASIC), dict(file='dbus/dbus-signature.c')], harness='harness/c02_swaparray.c', extra_sources=[ASSERT],
    replace_calls={'_dbus_swap_array': 'verif_stub_swap_array'}, unwind=42, timeout=900, expect_s=60, bounds={'array data bytes': '<= 16', 'element type': 'every type code'},
    must_have=['swaparr.len', 'swaparr.end', 'swaparr.fixed', 'swaparr.rec2'],
    functions=[dict(name='byteswap_body_helper (ARRAY case)', file=SWAP, status='bounded', contract='length word reversed, old-order length; fixed elements > 1 byte block-reversed once; BYTE untouched; every other element type converted element by element by recursion up to exactly the array end'),
               dict(name='byteswap_body_helper (recursive calls)', file=SWAP, status='replaced', note='lexical renaming; contract of one element conversion: ends after its start, inside the array'),
               dict(name='_dbus_swap_array', file=BASIC, status='replaced', note='arguments logged (its effect: C02.basics)'),
               dict(name='_dbus_type_reader_get_current_type/_get_element_type/_recurse', file='dbus/dbus-marshal-recursive.c', status='stub', note='abstract reader positioned on an array of the chosen element type'),
               dict(name='_dbus_unpack_uint32, _dbus_type_get_alignment, dbus_type_is_fixed', file=BASIC + ', dbus/dbus-signature.c', status='inlined', note='real code')],
    assumptions=['array data <= 16 bytes (bound); the array is validated: length a multiple of the fixed element size, elements fill it exactly']))

UNITS.append(dict(name='C02.header_copy', props=['C02', 'C12'], kind='P', route='stub', entry='harness',
    tus=[dict(file='dbus/dbus-marshal-header.c', include_as='VERIF_TU')], harness='harness/c02_hdrcopy.c', unwind=13,
    replace_calls={'_dbus_string_get_length': 'verif_stub_get_length', '_dbus_string_init_preallocated': 'verif_stub_init_preallocated', '_dbus_string_copy': 'verif_stub_string_copy',
                   '_dbus_string_free': 'verif_stub_string_free', '_dbus_header_set_serial': 'verif_stub_set_serial'},
    timeout=300, expect_s=5, must_have=['hcopy.post2', 'hcopy.post4'],
    functions=[dict(name='_dbus_header_copy', file='dbus/dbus-marshal-header.c', status='enforced', contract='TRUE => own string with the source bytes, every cached field position, padding and byte order equal, serial reset to 0; FALSE => string released; source untouched'),
               dict(name='_dbus_string_init_preallocated/_copy/_free', file='dbus/dbus-string.c', status='stub', note='may fail (OOM); copy contract enforced by C14.str.copy'),
               dict(name='_dbus_header_set_serial', file='dbus/dbus-marshal-header.c', status='replaced', note='contract enforced by C12.serial')],
    assumptions=['loops only over the constant DBUS_HEADER_FIELD_LAST + 1 cache entries (unwound completely: not a bound on the input)']))

UNITS.append(dict(name='C02.iter_init_order', props=['C02', 'C01'], kind='P', route='stub', entry='harness',
    tus=[dict(file='dbus/dbus-message.c', include_as='VERIF_TU')], harness='harness/c02_iterinit.c',
    replace_calls={'_dbus_header_get_byte_order': 'verif_stub_header_get_byte_order', '_dbus_message_byteswap': 'verif_stub_ensure_byte_order', 'get_const_signature': 'verif_stub_get_const_signature'},
    timeout=300, expect_s=5, must_have=['iinit.post2', 'iinit.post3'],
    functions=[dict(name='dbus_message_iter_init, dbus_message_iter_init_append, _dbus_message_iter_init_common', file='dbus/dbus-message.c', status='enforced', contract='reader/writer initialised with the byte order the message has after the in-place conversion, over its own body and signature'),
               dict(name='_dbus_message_byteswap (ensure_byte_order)', file='dbus/dbus-message.c', status='replaced', note='converts a foreign-order message to native order (conversion itself: C02.swap.*)'),
               dict(name='_dbus_type_reader_init, _dbus_type_writer_init_types_delayed, _dbus_header_get_byte_order, get_const_signature', file='dbus/*.c', status='stub', note='arguments logged')],
    assumptions=[]))
