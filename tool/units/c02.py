"""C02 — built messages serialise validly and round-trip (reader/byteswap side; the writer side is not decided)."""
VAL = 'dbus/dbus-marshal-validate.c'
STR = 'dbus/dbus-string.c'
REC = 'dbus/dbus-marshal-recursive.c'
BASIC = 'dbus/dbus-marshal-basic.c'
SWAP = 'dbus/dbus-marshal-byteswap.c'
ASSERT = 'stubs/assert_stubs.c'
UNITS = [
    dict(name='C02.basics', props=['C02', 'C01'], kind='P', route='plain',
         tus=[dict(file=BASIC, include_as='VERIF_TU')], harness='harness/c02_basics.c', unwind=9, timeout=600, expect_s=20,
         must_have=['pack_4_octets', 'swap_8_octets is an involution'],
         functions=[dict(name='pack_2_octets/pack_4_octets/pack_8_octets/_dbus_pack_uint32/_dbus_unpack_uint16/_dbus_unpack_uint32/swap_8_octets/_dbus_type_get_alignment',
                         file=BASIC, status='enforced', contract='wire byte order per specification; inverse pairs; alignment table; all values (loop-free, the harness loops over <= 8 byte positions)')],
         assumptions=[]),
]
# byteswap: every type code the validator accepts, arrays of every alignment, nesting
SWAP_CATALOGUE = ['y', 'b', 'n', 'q', 'i', 'u', 'x', 't', 'd', 'h', 's', 'g', 'ay', 'an', 'au', 'ax', 'ah', 'ab', 'yu', 'yx',
                  '(yu)', '(yx)', 'a(yu)', 'a{yu}',   # 'aau' runs out of 16 GB: not decided
                  '(y(yu))', 'yh', 'a(yy)u', 'a(yy)y', 'a{yy}u']   # the last three: a container array followed by another value
BODYTUS = [dict(file=f) for f in (VAL, STR, REC, BASIC, SWAP, 'dbus/dbus-signature.c')]
for _i, _sig in enumerate(SWAP_CATALOGUE):
    _n = 6 if 'g' in _sig else (12 if (any(c in _sig for c in 'so') or _sig in ('a(yu)', 'a{yu}')) else 16)   # signature-typed content is validated by the (costly) signature validator
    for _le, _tier in (((_i % 2, 'quick'), (1 - _i % 2, 'thorough')) if _sig != 'aau' else ((0, 'thorough'), (1, 'thorough'))):   # aau: > 16 GB at any useful bound, thorough tier only
        UNITS.append(dict(name='C02.swap.%s.%s%d' % (_sig, 'le' if _le else 'be', _n), props=['C02'], kind='B', route='plain',
                          tus=BODYTUS, harness='harness/c02_byteswap.c', extra_sources=[ASSERT, 'stubs/list_as_stack.c'],
                          defines=['VERIF_N=%d' % _n, 'VERIF_LE=%d' % _le, 'VERIF_SIG="%s"' % _sig], unwind=_n + 3, timeout=1800, tier=_tier, cbmc_flags=['--object-bits', '10'],
                          expect_s=30, trace_is_execution=True, replay_family='swap', replay_fn='%s:%d' % (_sig, _le),
                          bounds={'signature': _sig, 'body_bytes': _n, 'from_byte_order': 'little' if _le else 'big'},
                          functions=[dict(name='_dbus_marshal_byteswap / byteswap_body_helper', file=SWAP, status='bounded'),
                                     dict(name='_dbus_validate_body_with_reason', file=VAL, status='bounded', note='used as the precondition "valid body" and as post-check')],
                          assumptions=['dbus-list behaves as a LIFO stack of integers in the signature validator (stub, not verified)']))
