"""C02 — built messages serialise validly and round-trip (reader/byteswap side; the writer side is not decided)."""
VAL = 'dbus/dbus-marshal-validate.c'
STR = 'dbus/dbus-string.c'
REC = 'dbus/dbus-marshal-recursive.c'
BASIC = 'dbus/dbus-marshal-basic.c'
SWAP = 'dbus/dbus-marshal-byteswap.c'
ASSERT = 'stubs/assert_stubs.c'
UNITS = [
    dict(name='C02.basics', props=['C02', 'C01'], kind='P', route='plain',
         tus=[dict(file=BASIC, include_as='VERIF_TU')], harness='harness/c02_basics.c', unwind=9, timeout=600, expect_s=20,
         must_have=['pack_4_octets', 'swap_8_octets is an involution'],
         functions=[dict(name='pack_2_octets/pack_4_octets/pack_8_octets/_dbus_pack_uint32/_dbus_unpack_uint16/_dbus_unpack_uint32/swap_8_octets/_dbus_type_get_alignment',
                         file=BASIC, status='enforced', contract='wire byte order per specification; inverse pairs; alignment table; all values (loop-free, the harness loops over <= 8 byte positions)')],
         assumptions=[]),
]
# byteswap: every type code the validator accepts, arrays of every alignment, nesting
SWAP_CATALOGUE = ['y', 'b', 'n', 'q', 'i', 'u', 'x', 't', 'd', 'h', 's', 'g', 'ay', 'an', 'au', 'ax', 'ah', 'ab', 'yu', 'yx',
                  '(yu)', '(yx)', 'a(yu)', 'a{yu}',   # 'aau' runs out of 16 GB: not decided
                  '(y(yu))', 'yh', 'a(yy)u', 'a(yy)y', 'a{yy}u']   # the last three: a container array followed by another value
BODYTUS = [dict(file=f) for f in (VAL, STR, REC, BASIC, SWAP, 'dbus/dbus-signature.c')]
for _i, _sig in enumerate(SWAP_CATALOGUE):
    _n = 6 if 'g' in _sig else (12 if (any(c in _sig for c in 'so') or _sig in ('a(yu)', 'a{yu}')) else 16)   # signature-typed content is validated by the (costly) signature validator
    for _le, _tier in (((_i % 2, 'quick'), (1 - _i % 2, 'thorough')) if _sig != 'aau' else ((0, 'thorough'), (1, 'thorough'))):   # aau: > 16 GB at any useful bound, thorough tier only
        UNITS.append(dict(name='C02.swap.%s.%s%d' % (_sig, 'le' if _le else 'be', _n), props=['C02'], kind='B', route='plain',
                          tus=BODYTUS, harness='harness/c02_byteswap.c', extra_sources=[ASSERT, 'stubs/list_as_stack.c'],
                          defines=['VERIF_N=%d' % _n, 'VERIF_LE=%d' % _le, 'VERIF_SIG="%s"' % _sig], unwind=_n + 3, timeout=1800, tier=_tier, cbmc_flags=['--object-bits', '10'],
                          expect_s=30, trace_is_execution=True, replay_family='swap', replay_fn='%s:%d' % (_sig, _le),
                          bounds={'signature': _sig, 'body_bytes': _n, 'from_byte_order': 'little' if _le else 'big'},
                          functions=[dict(name='_dbus_marshal_byteswap / byteswap_body_helper', file=SWAP, status='bounded'),
                                     dict(name='_dbus_validate_body_with_reason', file=VAL, status='bounded', note='used as the precondition "valid body" and as post-check')],
                          assumptions=['dbus-list behaves as a LIFO stack of integers in the signature validator (stub, not verified)']))

# variants as array elements / top-level values through the WHOLE-BODY swap harness were tried and are NOT registered: even with a fully
# concrete skeleton (array length, contained signature, padding) 'v' over 8 bytes and 'av' over 12 bytes did not finish in 600 s / 1800 s
# (the validator run on the swapped buffer explores every type case of the contained signature).  The dispatch on the element type,
# including arrays of variants, is decided by C02.swap.array_dispatch below instead.
UNITS.append(dict(name='C02.swap.array_dispatch', props=['C02', 'C01'], kind='B', route='stub', entry='harness',
    tus=[dict(file=SWAP, include_as='VERIF_TU'), dict(file=BASIC), dict(file='dbus/dbus-signature.c')], harness='harness/c02_swaparray.c', extra_sources=[ASSERT],
    replace_calls={'_dbus_swap_array': 'verif_stub_swap_array'}, unwind=42, timeout=900, expect_s=60, bounds={'array data bytes': '<= 16', 'element type': 'every type code'},
    must_have=['swaparr.len', 'swaparr.end', 'swaparr.fixed', 'swaparr.rec2'],
    functions=[dict(name='byteswap_body_helper (ARRAY case)', file=SWAP, status='bounded', contract='length word reversed, old-order length; fixed elements > 1 byte block-reversed once; BYTE untouched; every other element type converted element by element by recursion up to exactly the array end'),
               dict(name='byteswap_body_helper (recursive calls)', file=SWAP, status='replaced', note='lexical renaming; contract of one element conversion: ends after its start, inside the array'),
               dict(name='_dbus_swap_array', file=BASIC, status='replaced', note='arguments logged (its effect: C02.basics)'),
               dict(name='_dbus_type_reader_get_current_type/_get_element_type/_recurse', file='dbus/dbus-marshal-recursive.c', status='stub', note='abstract reader positioned on an array of the chosen element type'),
               dict(name='_dbus_unpack_uint32, _dbus_type_get_alignment, dbus_type_is_fixed', file=BASIC + ', dbus/dbus-signature.c', status='inlined', note='real code')],
    assumptions=['array data <= 16 bytes (bound); the array is validated: length a multiple of the fixed element size, elements fill it exactly']))
