"""C04 — name ownership follows the specification's state machine (+ C13 names limit, C14 queue atomicity)."""
SVC = 'bus/services.c'
DRV = 'bus/driver.c'

OWN_INV = 'OWN_INV (precondition, kept per operation by the C04 B units): a registered name has a non-empty owner queue whose head is the primary; no connection is twice in one queue'

UNITS = []

# ---------------------------------------------------------------- decision tables (P-stub)
SAME_TU = ['bus_registry_lookup', 'bus_registry_ensure', 'bus_service_get_primary_owner', 'bus_service_get_allow_replacement',
           '_bus_service_find_owner_link', 'bus_owner_unref', 'bus_service_add_owner', 'bus_service_remove_owner',
           'bus_service_swap_owner']
UNITS.append(dict(
    name='C04.acquire_table', props=['C04', 'C13'], kind='P', route='stub', bus=True,
    tus=[dict(file=SVC, include_as='VERIF_TU')], harness='harness/c04_acquire.c',
    replace_calls={f: 'verif_stub_' + f for f in SAME_TU},
    timeout=300, expect_s=5,
    must_have=['acq.post1a', 'acq.post3b', 'acq.post5', 'acq.post6c', 'acq.post7a'],
    functions=[dict(name='bus_registry_acquire_service', file=SVC, status='enforced',
                    contract='reply code and queue operation = RequestName table of the specification for all 2^32 flag words; refused names / policy / limit => error and no operation'),
               dict(name='bus_owner_set_flags', file=SVC, status='inlined', note='real code, loop-free'),
               dict(name='_dbus_validate_bus_name', file='dbus/dbus-marshal-validate.c', status='replaced', note='arbitrary verdict; exactness is C16.bus_name'),
               dict(name='bus_service_add_owner / remove_owner / swap_owner', file=SVC, status='replaced', note='contract: counts the call, arbitrary success, second entry becomes primary; enforced by the B units C04.add_owner / remove_owner / swap_owner (queues <= 3)'),
               dict(name='bus_registry_lookup / bus_registry_ensure / bus_service_get_primary_owner / get_allow_replacement / _bus_service_find_owner_link', file=SVC, status='stub', note='deliver the abstract owner state (hash table never executed)'),
               dict(name='bus_selinux_allows_acquire_service / bus_apparmor_allows_acquire_service / bus_client_policy_check_can_own', file='bus/selinux.c, bus/apparmor.c, bus/policy.c', status='assumed', note='arbitrary verdict; AppArmor sets the error when denying, SELinux only on OOM'),
               dict(name='bus_activation_send_pending_auto_activation_messages', file='bus/activation.c', status='assumed', note='arbitrary success; counted'),
               dict(name='dbus_set_error / dbus_move_error / dbus_error_*', file='dbus/dbus-errors.c', status='stub', note='name field semantics only')],
    assumptions=[OWN_INV, 'n_services_owned >= 0 (C13.counters)',
                 'callees that fail report NoMemory or a non-limit error']))
import copy
_atomic = copy.deepcopy(UNITS[0])
_atomic.update(name='C04.acquire_atomic', props=['C14'], defines=['VERIF_C14'], must_have=['acq.c14a', 'acq.c14b', 'acq.c14c'],
               trace_is_execution=True, replay_family='c04_own', replay_fn='atomic')
_atomic['functions'][0] = dict(name='bus_registry_acquire_service', file=SVC, status='enforced',
                               contract='FALSE => nothing changed that the transaction cannot undo (primary flags, requester entry)')
UNITS.append(_atomic)
UNITS.append(dict(
    name='C04.release_table', props=['C04'], kind='P', route='stub', bus=True,
    tus=[dict(file=SVC, include_as='VERIF_TU')], harness='harness/c04_release.c',
    replace_calls={f: 'verif_stub_' + f for f in ['bus_registry_lookup', 'bus_service_owner_in_queue', 'bus_service_remove_owner']},
    timeout=300, expect_s=5, must_have=['rel.post1', 'rel.post3', 'rel.post4'],
    functions=[dict(name='bus_registry_release_service', file=SVC, status='enforced',
                    contract='RELEASED / NON_EXISTENT / NOT_OWNER = ReleaseName table of the specification; refused names => InvalidArgs and nothing touched'),
               dict(name='_dbus_validate_bus_name', file='dbus/dbus-marshal-validate.c', status='replaced', note='arbitrary verdict; exactness is C16.bus_name'),
               dict(name='bus_service_remove_owner', file=SVC, status='replaced', note='contract: arbitrary success; on success the requester is no longer in the queue; enforced by C04.remove_owner (queues <= 3)'),
               dict(name='bus_registry_lookup / bus_service_owner_in_queue', file=SVC, status='stub', note='deliver the abstract owner state')],
    assumptions=[OWN_INV]))

# ---------------------------------------------------------------- owner queue on the real list code (B)
LIST = 'dbus/dbus-list.c'
QUEUE_STUBS = [dict(name='alloc_link / free_link', file=LIST, status='stub', note='links from a static pool, every allocation may fail (dbus-mempool.c not verified)'),
               dict(name='_dbus_mem_pool_alloc/_dealloc, dbus_malloc/dbus_free', file='dbus/dbus-mempool.c, dbus/dbus-memory.c', status='stub', note='static pools, every allocation may fail; free is a ghost counter'),
               dict(name='bus_driver_send_service_lost/acquired/owner_changed', file=DRV, status='stub', note='ghost event log (kind, addressee, old, new); arbitrary failure with error set'),
               dict(name='bus_connection_add_owned_service[_link]/remove_owned_service', file='bus/connection.c', status='stub', note='ghost counter per connection (+-1 is C13.counters)'),
               dict(name='bus_transaction_add_cancel_hook', file='bus/connection.c', status='stub', note='records the hook; arbitrary failure'),
               dict(name='_dbus_hash_table_remove_string/preallocate_entry/insert_string_preallocated', file='dbus/dbus-hash.c', status='stub', note='ghost counters; hash tables are never executed')]


def queue_unit(name, op, fn, maxq, must, contract, defines=(), props=('C04', 'C14'), tier='quick', expect_s=60, timeout=900, replay=None):
    UNITS.append(dict(
        trace_is_execution=True, replay_family='c04_own' if replay else None, replay_fn=replay,
        name='C04.' + name, props=list(props), kind='B', route='plain', bus=True, tier=tier,
        tus=[dict(file=SVC, include_as='VERIF_TU'), dict(file=LIST)], harness='harness/c04_queue.c',
        defines=['VERIF_OP=%d' % op, 'VERIF_MAXQ=%d' % maxq] + list(defines),
        replace_calls={'alloc_link': 'verif_alloc_link', 'free_link': 'verif_free_link'},
        unwind=maxq + 5, timeout=timeout, expect_s=expect_s, must_have=must,
        bounds={'owners_queue_before_call': '<= %d' % maxq, 'requester': 'any of %d connections' % (maxq + 1), 'flags': 'all 2^32 words',
                'allocation': 'every link / owner / hook allocation may fail independently'},
        functions=[dict(name=fn, file=SVC, status='bounded', contract=contract),
                   dict(name='_dbus_list_append/insert_after/unlink/insert_after_link/insert_before_link/remove_last/find_last', file=LIST, status='bounded', note='real pointer code')] + QUEUE_STUBS,
        assumptions=[OWN_INV + ' (built by the harness: LIST_OK(owners, n))']))


queue_unit('add_owner', 1, 'bus_service_add_owner', 2, ['add.others', 'add.flags', 'add.pos', 'add.fail'],
           'queue after = array model of the specification (position, flag refresh, no duplicate, head kept); FALSE => queue, counters unchanged and error set')
queue_unit('add_owner.specpos', 1, 'bus_service_add_owner', 2, ['add.specpos'],
           'position of a waiting requester strictly by the specification text (REPLACE_EXISTING given but replacement not possible: appended / unchanged)',
           defines=['VERIF_STRICT'], props=('C04',), replay='queuepos', expect_s=140)
queue_unit('add_owner.cancel', 1, 'bus_service_add_owner + cancel_ownership', 2, ['add.cancel'],
           'transaction cancel after a successful add_owner: queue, counters and registry as before', defines=['VERIF_HOOK', 'VERIF_ASSERT_NO_ASSUME'], props=('C14', 'C04'), tier='thorough', expect_s=140)
REM = 'queue after = old queue without the requester; NameLost -> NameOwnerChanged -> NameAcquired with the specified addressees; FALSE => nothing changed, error set'
queue_unit('remove_owner', 2, 'bus_service_remove_owner', 2, ['rem.queue', 'rem.sig', 'rem.fail'], REM)
queue_unit('remove_owner.n3', 2, 'bus_service_remove_owner', 3, ['rem.queue', 'rem.sig', 'rem.fail'], REM, tier='thorough', expect_s=230)
queue_unit('remove_owner.restore', 2, 'bus_service_remove_owner + restore_ownership', 2, ['rem.restore'],
           'transaction cancel after a successful removal of the primary: owner back at its place, not deallocated', defines=['VERIF_HOOK', 'VERIF_ASSERT_NO_ASSUME'], props=('C14', 'C04'), replay='remove', expect_s=330, tier='thorough')
queue_unit('swap_owner', 3, 'bus_service_swap_owner', 3, ['swap.queue', 'swap.sig', 'swap.fail'],
           'second entry becomes primary, old primary second; NameLost -> NameOwnerChanged -> NameAcquired; FALSE => nothing changed, error set')
queue_unit('swap_owner.restore', 3, 'bus_service_swap_owner + restore_ownership', 2, ['swap.restore'],
           'transaction cancel after a successful swap: old primary back at the head, nobody twice in the queue', defines=['VERIF_HOOK', 'VERIF_ASSERT_NO_ASSUME'], props=('C14', 'C04'), replay='swap', expect_s=150, tier='thorough')

# ---------------------------------------------------------------- driver methods around the registry
DRV_STUBS = [dict(name='dbus_message_get_args / dbus_message_append_args / dbus_message_new_method_return / dbus_message_iter_*', file='dbus/dbus-message.c', status='stub',
                  note='contract: out-parameters hold the arguments of this message; appended value recorded; arbitrary OOM failure'),
             dict(name='bus_transaction_send_from_driver', file='bus/connection.c', status='stub', note='counts the reply staged for the caller; arbitrary failure (its own typestate is C03)')]


def driver_unit(name, h, fn, must, contract, extra_fns, kind='P', **kw):
    u = dict(name='C04.' + name, props=['C04'], kind=kind, route='stub' if kind == 'P' else 'plain', bus=True,
             tus=[dict(file=DRV, include_as='VERIF_TU')], harness='harness/c04_driver.c', defines=['VERIF_H=%d' % h],
             timeout=300, expect_s=5, must_have=must,
             functions=[dict(name=fn, file=DRV, status='enforced' if kind == 'P' else 'bounded', contract=contract)] + extra_fns + DRV_STUBS,
             assumptions=[])
    u.update(kw)
    UNITS.append(u)


driver_unit('driver_request_name', 1, 'bus_driver_handle_acquire_service', ['drv.post4', 'drv.post5'],
            'RequestName: (name, flags) of the message passed to the registry once; the reply carries the registry code; refusal => error, no reply',
            [dict(name='bus_registry_acquire_service', file=SVC, status='replaced', note='arbitrary code / refusal; enforced by C04.acquire_table')])
driver_unit('driver_release_name', 2, 'bus_driver_handle_release_service', ['drv.post4', 'drv.post5'],
            'ReleaseName: name of the message passed to the registry once; the reply carries the registry code',
            [dict(name='bus_registry_release_service', file=SVC, status='replaced', note='arbitrary code / refusal; enforced by C04.release_table')])
driver_unit('driver_name_has_owner', 3, 'bus_driver_handle_service_exists', ['drv.exists'],
            'NameHasOwner: answer = bus name or found by the one registry lookup',
            [dict(name='bus_registry_lookup', file=SVC, status='stub', note='abstract: name exists or not'),
             dict(name='strcmp', file='libc', status='stub', note='compared strings checked, arbitrary verdict')],
            replace_calls={'strcmp': 'verif_stub_strcmp'})
driver_unit('driver_get_name_owner', 4, 'bus_driver_handle_get_service_owner', ['drv.owner'],
            'GetNameOwner: unique name of the primary owner of the service found by the one lookup; bus name owned by the bus; else NameHasNoOwner',
            [dict(name='bus_registry_lookup / bus_service_get_primary_owners_connection / bus_connection_get_name', file='bus/services.c, bus/connection.c', status='stub', note='abstract owner state')])
driver_unit('driver_list_queued_owners', 5, 'bus_driver_handle_list_queued_owners', ['drv.queued'],
            'ListQueuedOwners: reply array = queue listing of the service found by the one lookup, same order',
            [dict(name='bus_service_list_queued_owners', file=SVC, status='replaced', note='delivers <= 3 names; enforced (B) by C04.list_queued'),
             dict(name='_dbus_list_append/_dbus_list_get_first_link/_dbus_list_clear', file=LIST, status='stub', note='one-element list from a static link')],
            kind='B', unwind=66, bounds={'queued owners': '<= 3'})
driver_unit('driver_list_names', 6, 'bus_driver_handle_list_services', ['drv.names'],
            'ListNames: reply array = the bus name followed by the registry listing (each registered name once, same order); listing released once on every path',
            [dict(name='bus_registry_list_services', file=SVC, status='replaced', note='delivers <= 3 names; enforced (B) by C04.registry_list'),
             dict(name='dbus_message_iter_*', file='dbus/dbus-message.c', status='stub', note='appended strings logged; each may fail (OOM)')],
            kind='B', unwind=66, bounds={'registered names': '<= 3'})
queue_unit('list_queued', 4, 'bus_service_list_queued_owners', 3, ['listq.names', 'listq.fail'],
           'returned list = unique names of the queue entries in queue order (primary first); FALSE => empty list; queue untouched', props=('C04',), expect_s=30)

UNITS.append(dict(name='C04.registry_list', props=['C04', 'C14'], kind='B', route='plain', bus=True, entry='harness',
    tus=[dict(file=SVC, include_as='VERIF_TU')], harness='harness/c04_reglist.c', unwind=6, timeout=300, expect_s=10,
    must_have=['rl.post1', 'rl.post4', 'rl.post6'], bounds={'registered names': '<= 3'},
    functions=[dict(name='bus_registry_list_services', file=SVC, status='bounded', contract='TRUE => NULL-terminated array with exactly one copy of every registered name; FALSE => all copies and the array freed, nothing returned; registry unchanged'),
               dict(name='_dbus_hash_table_get_n_entries/_dbus_hash_iter_*', file='dbus/dbus-hash.c', status='stub', note='ghost table of <= 3 services'),
               dict(name='dbus_malloc/_dbus_strdup/dbus_free', file='dbus/dbus-memory.c', status='stub', note='each allocation may fail; frees logged')],
    assumptions=['<= 3 registered names (bound)']))
