"""C06 — configuration side: <allow>/<deny> element + enclosing <policy> context -> rule in the right list (B: concrete elements)."""
CFG = 'bus/config-parser.c'
ELEMS = {0: 'own="a.b"', 1: 'own_prefix="a.b"', 2: 'own="*"', 3: 'send_interface="a.b"',
         4: 'send_destination_prefix + send_type/path/interface/member + send_broadcast=false + eavesdrop + send_requested_reply=false + max_fds/min_fds + log',
         5: 'send_destination + send_error + send_type=error + send_path="*" + send_requested_reply=true', 6: 'send_destination="*" min_fds="1"',
         7: 'send_broadcast="true" send_type="signal"', 8: 'receive_sender/type/path/interface/member + eavesdrop + receive_requested_reply=false + max_fds="0"',
         9: 'eavesdrop="true" alone', 10: 'receive_sender="*" receive_error', 11: 'user="*" (bus-global rule)'}
UNITS = []
for k, what in ELEMS.items():
    UNITS.append(dict(
        name='C06.cfg_e%d' % k, props=['C06'], kind='B', route='plain', bus=True,
        tus=[dict(file=CFG, include_as='VERIF_TU'), dict(file='bus/policy.c'), dict(file='dbus/dbus-list.c'), dict(file='dbus/dbus-string.c'),
             dict(file='dbus/dbus-internals.c'), dict(file='dbus/dbus-message.c')],
        harness='harness/c06_cfg.c', defines=['VERIF_ELEM=%d' % k], unwind=50, cbmc_flags=['--malloc-may-fail', '--malloc-fail-null'],
        replace_calls={'bus_policy_append_default_rule': 'verif_stub_append_default', 'bus_policy_append_mandatory_rule': 'verif_stub_append_mandatory',
                       'bus_policy_append_user_rule': 'verif_stub_append_user', 'bus_policy_append_group_rule': 'verif_stub_append_group',
                       'bus_policy_append_console_rule': 'verif_stub_append_console', 'dbus_set_error': 'verif_stub_dbus_set_error', 'locate_attributes': 'verif_stub_locate_attributes'},
        timeout=600, expect_s=15, must_have=['post3', 'post5', 'post6', 'post8'],
        bounds={'element': 'concrete: <allow|deny %s/> (allow/deny symbolic)' % what,
                'enclosing_policy': 'symbolic: ignored / default / mandatory / user(uid) / group(gid) / at_console(0|1); uid, gid arbitrary',
                'note': 'every allocation may fail'},
        functions=[dict(name='start_policy_child, append_rule_from_element, parse_int_attribute, peek_element, push_element', file=CFG, status='bounded',
                        contract='exactly one rule, appended to the list of the enclosing policy context with its uid/gid/at_console; rule kind, allow/deny and every attribute field as dbus-daemon(1) describes the attribute (defaults included); user/group rules refused in per-user/per-group policies'),
                   dict(name='locate_attributes', file=CFG, status='stub', note='contract: each (name, location) pair gets the attribute value or NULL; unknown or repeated attribute => FALSE + error; no allocation. The real function reads one va_arg past the terminating NULL (config-parser.c:658; observation, harmless in practice) and is therefore not executed'),
                   dict(name='bus_policy_rule_new, bus_policy_rule_unref', file='bus/policy.c', status='inlined', note='real code'),
                   dict(name='_dbus_strdup, dbus_message_type_from_string, _dbus_list_get_last/_append, _dbus_string_init_const', file='dbus/', status='inlined', note='real code'),
                   dict(name='bus_policy_append_default/_mandatory/_user/_group/_console_rule', file='bus/policy.c', status='stub', note='record (which list, id, rule), take a reference, may fail (OOM)'),
                   dict(name='_dbus_string_parse_int', file='dbus/dbus-sysdeps.c', status='stub', note='value of a one-digit decimal literal'),
                   dict(name='dbus_malloc*, _dbus_mem_pool_*', file='dbus/', status='stub', note='CBMC allocator, may fail')],
        assumptions=['the enclosing Element is an ELEMENT_POLICY whose type/id were set by start_busconfig_child (policy attribute parsing: user/group name lookup is outside)',
                     'elements are the concrete ones listed in bounds; other attribute combinations only through these representatives']))
