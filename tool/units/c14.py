"""C14 — out-of-memory at any point leaves state unchanged: DBusString primitives and DBusList primitives.

(The bus-side C14 units live with their properties: C14.hello_atomic in c03.py, C04.acquire_atomic in c04.py, ...)
"""
STR = 'dbus/dbus-string.c'
LIST = 'dbus/dbus-list.c'
OOM = ['--malloc-may-fail', '--malloc-fail-null']
N = None     # None: every size up to _DBUS_STRING_MAX_LENGTH (kind P); a number: buffers capped (kind B)

A_MEM = ('dbus_malloc/dbus_realloc/dbus_free are the allocator (stubs/c14_mem.c): realloc = new block + copy of min(old,new) bytes + '
         'release of the old block, always moving; every allocation may fail independently (--malloc-may-fail --malloc-fail-null)')
A_ALIGN = ('platform fact (DESIGN 3.5): allocator blocks are 8-aligned, so fixup_alignment never shifts the text (align_offset == 0); '
           'the static function is bound to that statement with --replace-calls, its own assertions are kept')
A_PRE = 'precondition STR_OK: DBUS_GENERIC_STRING_PREAMBLE + not constant/locked + str is the start of a live heap block of `allocated` bytes + str[len] == 0'
A_MEMOPS = ('memmove/memcpy/memset by their ISO C contracts instantiated at the ghost positions the postconditions read; every other byte of the '
            'destination object is havocked (over-approximation, stubs/c14_memops.c); CBMC\'s built-in models do not terminate on symbolic sizes')
F_MEM = [dict(name='dbus_malloc/dbus_realloc/dbus_free', file='dbus/dbus-memory.c', status='stub', note='allocator, may fail at every call; realloc always moves'),
         dict(name='fixup_alignment', file=STR, status='stub', note='align_offset stays 0 (8-aligned allocator blocks)'),
         dict(name='memmove/memcpy/memset', file='libc', status='stub', note='ISO C contract at ghost instantiation points, rest of the destination object havocked')]

UNITS = []


def s_unit(fn_no, name, fns, contract, must, expect=20, npts=3, unwindset=(), heavy=False, extra_defines=(), variants=None, bound_note=None):
    """One function of dbus-string.c.  Cheap units: one P unit (every size) in the quick tier.  heavy=True (two strings / alignment):
    a size-capped B unit (<= 64 bytes) in the quick tier and the uncapped P unit in the thorough tier."""
    variants = variants or ([(None, 'thorough', '', expect * 8), (64, 'quick', '.n64', expect)] if heavy else [(None, 'quick', '', expect)])
    for n, tier, suffix, exp in variants:
        UNITS.append(dict(
            name='C14.str.' + name + suffix, props=['C14'], kind='B' if (n or bound_note) else 'P', route='stub', entry='harness',
            tus=[dict(file=STR, include_as='VERIF_TU')], harness='harness/c14_str.c', extra_sources=['stubs/c14_mem.c', 'stubs/c14_memops.c'],
            defines=['VERIF_FN=%d' % fn_no, 'VERIF_NPTS=%d' % npts] + (['VERIF_N=%d' % n] if n else []) + list(extra_defines),
            replace_calls={'fixup_alignment': 'verif_stub_fixup_alignment', 'memmove': 'verif_stub_memmove', 'memcpy': 'verif_stub_memcpy', 'memset': 'verif_stub_memset'},
            cbmc_flags=OOM, unwindset=list(unwindset), timeout=3000 if not n else 1200, expect_s=exp, tier=tier,
            must_have=list(must) + ([] if fn_no == 17 else ['STR_OK re-established']),
            bounds=({'string_bytes_before': n, 'bytes_added': n,
                     'note': 'no loop is unwound (the functions are loop-free); only the buffer sizes are capped, for the quick tier; the thorough-tier unit of the same name without .n64 has no cap'} if n
                    else (bound_note or None)),
            functions=[dict(name=f, file=STR, status='bounded' if n else 'enforced', contract=contract) for f in fns] + F_MEM,
            assumptions=[A_PRE, A_MEM, A_ALIGN, A_MEMOPS]))


FALSE_UNCH = 'FALSE => length and every byte unchanged'
s_unit(1, 'reallocate', ['reallocate_for_length'], 'both outcomes: len and every byte unchanged (ghost index); TRUE => allocated >= new_length + 8; FALSE => block untouched; STR_OK',
       ['reallocate_for_length: length and every byte unchanged', 'reallocate_for_length: FALSE'])
s_unit(2, 'set_length', ['set_length'], 'TRUE => len == new_length, bytes below min(old,new) unchanged, NUL; FALSE => unchanged; > MAX => FALSE; no growth => TRUE',
       ['set_length: ' + FALSE_UNCH, 'set_length: TRUE => len == new_length'])
s_unit(4, 'set_length_pub', ['_dbus_string_set_length', 'set_length'], 'as set_length, through the public entry point',
       ['set_length: ' + FALSE_UNCH])
s_unit(3, 'lengthen', ['_dbus_string_lengthen', 'set_length', 'reallocate_for_length'], 'TRUE => len += n, old bytes unchanged, NUL; FALSE => unchanged; overflow => FALSE',
       ['_dbus_string_lengthen: ' + FALSE_UNCH])
s_unit(5, 'append_byte', ['_dbus_string_append_byte'], 'TRUE => old text + byte; FALSE => unchanged', ['_dbus_string_append_byte: ' + FALSE_UNCH])
s_unit(6, 'append_len', ['_dbus_string_append_len', 'append'], 'TRUE => old text followed by buffer[0..len) (ghost index); FALSE => unchanged; buffer untouched',
       ['_dbus_string_append_len: ' + FALSE_UNCH, 'appended bytes are the buffer'], npts=4)
s_unit(8, 'append_cstr', ['_dbus_string_append', 'append'], 'TRUE => old text followed by the C string (<= 16 bytes); FALSE => unchanged',
       ['_dbus_string_append: ' + FALSE_UNCH], unwindset=['harness.1:18', 'harness.2:18', 'strlen.0:18'],
       bound_note={'c_string_bytes': 16, 'note': 'the DBusString is of any size; the appended C string has <= 16 bytes (strlen and the reference loop are completely unwound)'})
s_unit(9, 'open_gap', ['open_gap'], 'TRUE => len += n, bytes before insert_at unchanged, bytes from insert_at on shifted up by n (ghost index); FALSE => unchanged',
       ['open_gap: ' + FALSE_UNCH, 'open_gap: TRUE => bytes from the insertion point on'])
s_unit(10, 'insert_bytes', ['_dbus_string_insert_bytes', 'open_gap'], 'as open_gap + the n inserted bytes have the given value',
       ['_dbus_string_insert_bytes: ' + FALSE_UNCH, 'inserted bytes all have the given value'])
s_unit(11, 'insert_byte', ['_dbus_string_insert_byte'], 'as insert_bytes with n == 1', ['_dbus_string_insert_byte: ' + FALSE_UNCH])
s_unit(12, 'copy_len', ['_dbus_string_copy_len', 'copy', 'open_gap'], 'source never modified; TRUE => dest = prefix + source[start..start+len) + shifted rest; FALSE => dest unchanged',
       ['_dbus_string_copy_len: FALSE => dest', '_dbus_string_copy_len: the source is never modified'], expect=120, npts=7, heavy=True)
s_unit(13, 'move_len', ['_dbus_string_move_len', 'copy', 'delete'], 'TRUE => dest as copy_len and the segment removed from the source (rest shifted down); FALSE => both unchanged; buffer-swap shortcut included',
       ['_dbus_string_move_len: FALSE => dest', '_dbus_string_move_len: FALSE => source'], expect=180, npts=7, heavy=True)
s_unit(14, 'copy', ['_dbus_string_copy'], 'copy_len with len = rest of the source', ['_dbus_string_copy: FALSE => dest'], expect=120, npts=7, heavy=True)
s_unit(15, 'move', ['_dbus_string_move'], 'move_len with len = rest of the source', ['_dbus_string_move: FALSE => dest', '_dbus_string_move: FALSE => source'], expect=180, npts=7, heavy=True)
s_unit(16, 'delete', ['_dbus_string_delete', 'delete'], 'len -= n, bytes before start unchanged, bytes behind the segment shifted down; no allocation', ['_dbus_string_delete: bytes behind'])
s_unit(17, 'init_free', ['_dbus_string_init', '_dbus_string_init_preallocated', '_dbus_string_free'],
       'init: TRUE => STR_OK empty string with one fresh block, FALSE => only real->str touched; free: _DBUS_STRING_INIT_INVALID contents, block released once, idempotent on the invalid pattern',
       ['_dbus_string_init: FALSE', '_dbus_string_free: the block is released exactly once'])
ALIGN_C = 'TRUE => *insert_at = smallest multiple of the alignment >= insert_at, padding bytes nul, len += padding + gap, bytes before unchanged, bytes behind shifted; FALSE => string and *insert_at unchanged'
s_unit(18, 'align_gap', ['align_insert_point_then_open_gap'], ALIGN_C, ['align_insert_point_then_open_gap: ' + FALSE_UNCH, 'alignment padding is nul bytes'],
       expect=60, npts=4, heavy=True)
for no, w in ((19, 8), (20, 4), (21, 2)):
    s_unit(no, 'insert_%d_aligned' % w, ['_dbus_string_insert_%d_aligned' % w, 'align_insert_point_then_open_gap'], ALIGN_C + '; the %d value bytes at the aligned position' % w,
           ['_dbus_string_insert_%d_aligned: ' % w + FALSE_UNCH, 'the value bytes sit at the aligned position'], expect=60, npts=4, heavy=True)
s_unit(22, 'insert_alignment', ['_dbus_string_insert_alignment'], ALIGN_C + ' (gap 0)', ['_dbus_string_insert_alignment: ' + FALSE_UNCH], expect=60, npts=4, heavy=True)
s_unit(23, 'align_length', ['_dbus_string_align_length', 'align_length_then_lengthen'], 'TRUE => len rounded up to the alignment with nul bytes appended, old bytes unchanged; FALSE => unchanged',
       ['_dbus_string_align_length: ' + FALSE_UNCH], expect=60, npts=4, heavy=True)
REPL_C = ('TRUE => dest[replace_at..+replace_len) replaced by source[start..+len), bytes before kept, bytes behind shifted by len - replace_len; '
          'FALSE => dest unchanged, also inside the segment; never fails when len <= replace_len; source untouched')
for br, nm in ((1, 'grow'), (2, 'shrink'), (3, 'same')):
    # only the growing branch allocates: it is in the quick tier (capped) and in the thorough tier (uncapped); the two branches that
    # cannot fail are checked capped in the thorough tier (measured 4-6 min each at <= 64 bytes on a loaded machine)
    s_unit(25, 'replace_len.' + nm, ['_dbus_string_replace_len', 'copy', 'delete'], REPL_C + ' [branch len %s replace_len]' % {1: '>', 2: '<', 3: '=='}[br],
           ['_dbus_string_replace_len: FALSE => dest length and every byte unchanged', '_dbus_string_replace_len: TRUE => the replaced segment now reads', '_dbus_string_replace_len: the source is never modified'],
           expect=300, npts=5, extra_defines=['VERIF_BRANCH=%d' % br],
           variants=([(64, 'quick', '.n64', 300), (None, 'thorough', '', 2400)] if br == 1 else [(64, 'thorough', '.n64', 300)]))
s_unit(24, 'alloc_space', ['_dbus_string_alloc_space', '_dbus_string_shorten'], 'both outcomes: len and bytes unchanged; TRUE => capacity for extra_bytes', ['_dbus_string_alloc_space: length and every byte unchanged'])

# ---- dbus-list.c on lists <= 3, link pool = failing allocator (B) ----
A_POOL = ('_dbus_mem_pool_* is an allocator of zeroed sizeof(DBusList) blocks that may fail at every call and reports "pool empty" on the last release '
          '(documented semantics of dbus-mempool.c, which is not verified); _dbus_lock(list) may fail only before the global locks exist')
F_POOL = [dict(name='_dbus_mem_pool_new/_alloc/_dealloc/_free', file='dbus/dbus-mempool.c', status='stub', note='calloc/free with live count; may fail at every call'),
          dict(name='_dbus_lock/_dbus_unlock', file='dbus/dbus-threads.c', status='stub', note='list lock held around every pool call (asserted); may fail only at first initialisation')]


def l_unit(op, name, fns, contract, must, expect=30, justification=None):
    u = dict(name='C14.list.' + name, props=['C14'] + (['C16'] if justification else []), kind='B', route='stub', entry='harness',
             tus=[dict(file=LIST, include_as='VERIF_TU')], harness='harness/c14_list.c', defines=['VERIF_OP=%d' % op, 'VERIF_LN=3'],
             cbmc_flags=OOM, unwind=6, timeout=900, expect_s=expect, must_have=list(must),
             bounds={'list_length': 3, 'note': 'lists of 0..3 elements built by the harness (data values may repeat), 0..2 further links of other lists in the pool; '
                                               'loops of dbus-list.c completely unwound (unwinding assertions)'},
             functions=[dict(name=f, file=LIST, status='bounded', contract=contract) for f in fns] +
                       [dict(name='alloc_link/free_link/link_before/link_after/_dbus_list_unlink/_dbus_list_remove_link', file=LIST, status='inlined', note='real code')] + F_POOL,
             assumptions=[A_POOL, 'LIST_OK(head, n <= 3): circular doubly linked list of heap links, built by the harness'])
    if justification:
        u['justifies'] = justification
    UNITS.append(u)


L_FALSE = 'FALSE => same head, same links'
l_unit(1, 'append', ['_dbus_list_append', '_dbus_list_prepend'], 'TRUE => seq ++ [data], old links keep identity/order/data; FALSE => list identical, pool balanced (nothing leaked)',
       ['_dbus_list_append: ' + L_FALSE, '_dbus_list_append: FALSE => nothing leaked', '_dbus_list_append: TRUE => old elements'])
l_unit(2, 'prepend', ['_dbus_list_prepend'], 'TRUE => [data] ++ seq; FALSE => list identical, pool balanced',
       ['_dbus_list_prepend: ' + L_FALSE, '_dbus_list_prepend: TRUE => the new datum is first'])
l_unit(3, 'insert_after', ['_dbus_list_insert_after'], 'TRUE => new datum directly behind the given link (NULL: first); FALSE => list identical, pool balanced',
       ['_dbus_list_insert_after: ' + L_FALSE, '_dbus_list_insert_after: TRUE => one link more'])
for op, nm in ((4, 'append_link'), (5, 'prepend_link'), (6, 'insert_before_link'), (7, 'insert_after_link')):
    l_unit(op, nm, ['_dbus_list_' + nm], 'the given link sits at the documented position, old elements keep relative order; no allocation (cannot fail)',
           ['_dbus_list_%s: the given link sits at the documented position' % nm])
l_unit(8, 'remove', ['_dbus_list_remove'], 'TRUE iff present; the FIRST matching link released once, others keep order; FALSE => unchanged',
       ['_dbus_list_remove: TRUE iff', '_dbus_list_remove: FALSE => list unchanged'])
l_unit(9, 'remove_last', ['_dbus_list_remove_last', '_dbus_list_find_last'], 'TRUE iff present; the LAST matching link released once, others keep order; FALSE => unchanged',
       ['_dbus_list_remove_last: TRUE iff', '_dbus_list_remove_last: FALSE => list unchanged'])
l_unit(10, 'pop_first', ['_dbus_list_pop_first'], 'returns data of the first element and releases exactly that link; NULL on the empty list', ['_dbus_list_pop_first: returns the data'])
l_unit(11, 'pop_last', ['_dbus_list_pop_last'], 'returns data of the last element and releases exactly that link; NULL on the empty list', ['_dbus_list_pop_last: returns the data'])
l_unit(12, 'clear', ['_dbus_list_clear'], 'head NULL; every link released exactly once; links of other lists untouched', ['_dbus_list_clear: every link of the list is released exactly once'])
l_unit(20, 'stack_contract', ['_dbus_list_append', '_dbus_list_pop_last', '_dbus_list_clear'],
       'exactly the contract of stubs/list_as_stack.c: append pushes (or fails leaving the stack), pop_last returns the most recent datum / NULL when empty, *list == NULL iff empty, clear empties',
       ['stack contract: append pushes', 'stack contract: pop_last returns the most recently appended datum', 'stack contract: clear empties'],
       justification='stubs/list_as_stack.c (assumption "dbus-list behaves as a LIFO stack" of C16.sig.* / C01 signature units), for depth <= 3 (+1)')

# ---- in-place edit of a marshalled string value: nothing is written unless the fallible replace succeeded ----
for fn_no, nm, fn in ((1, 'set_string', 'set_string'), (2, 'set_basic_string', '_dbus_marshal_set_basic (STRING / OBJECT_PATH)')):
    UNITS.append(dict(
        name='C14.marshal.' + nm, props=['C14', 'C12'], kind='P', route='stub', entry='harness',
        tus=[dict(file='dbus/dbus-marshal-basic.c', include_as='VERIF_TU')], harness='harness/c14_setstring.c', defines=['VERIF_FN=%d' % fn_no],
        replace_calls={'_dbus_marshal_set_uint32': 'verif_stub_marshal_set_uint32'}, timeout=300, expect_s=5,
        must_have=['set_string: FALSE => nothing written', 'set_string: the fallible replace runs exactly once and before anything is written', '_dbus_marshal_set_uint32: the string is written only after'],
        functions=[dict(name=fn, file='dbus/dbus-marshal-basic.c', status='enforced', contract='replace_len once, first, with (whole new value, pos+4, old length); FALSE => nothing written; TRUE => length word and end positions as documented'),
                   dict(name='_dbus_string_replace_len', file=STR, status='replaced', note='contract enforced by C14.str.replace_len.grow / .shrink / .same: FALSE => dest byte-for-byte unchanged'),
                   dict(name='_dbus_marshal_set_uint32', file='dbus/dbus-marshal-basic.c', status='replaced', note='call log (its packing: C02 basics)'),
                   dict(name='_dbus_string_init_const/_get_length/_get_const_data_len', file=STR, status='stub', note='constant string over the new value (length = strlen, ghost); pointer to the 4-byte length word')],
        assumptions=['old and new string lengths below 2^28 (validated messages: < 128 MiB), pos 4-aligned (asserted by the code)']))

UNITS.append(dict(name='C14.hash.rebuild', props=['C14', 'C04', 'C13'], kind='B', route='plain', entry='harness',
    tus=[dict(file='dbus/dbus-hash.c', include_as='VERIF_TU')], harness='harness/c14_hash.c', unwind=8, timeout=600, expect_s=30,
    bounds={'table': 'initial 4 static buckets, <= 3 integer-keyed entries, growing'}, must_have=['rebuild.post1', 'rebuild.post5', 'rebuild.post7'],
    functions=[dict(name='rebuild_table', file='dbus/dbus-hash.c', status='bounded', contract='FALSE => every field of the table as before (array and recorded size consistent); TRUE => fresh array of exactly n_buckets slots, every entry once in the chain its key hashes to'),
               dict(name='dbus_malloc0/dbus_free', file='dbus/dbus-memory.c', status='stub', note='allocation may fail; size logged')],
    assumptions=['table in its initial size with <= 3 entries (bound); integer keys 7, 14, 21 (concrete: the multiplicative hash of a symbolic key exhausted 16 GB)']))
