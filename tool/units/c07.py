"""C07 — broadcasts reach exactly the connections whose match rules match (bus/signals.c, bus/driver.c)."""
SIG = 'bus/signals.c'
ASSERT = 'stubs/assert_stubs.c'

UNITS = []

# ------------------------------------------------------------------------------------------------------------
# 1. match_rule_matches: hybrid (loop contract on the args loop + contract stubs for the message accessors)
MATCH_STUBS = {
    'dbus_message_get_type': 'verif_stub_get_type',
    'dbus_message_get_interface': 'verif_stub_get_interface',
    'dbus_message_get_member': 'verif_stub_get_member',
    'dbus_message_get_path': 'verif_stub_get_path',
    'dbus_message_get_destination': 'verif_stub_get_destination',
    'connection_is_primary_owner': 'verif_stub_is_primary_owner',
    'dbus_message_iter_init': 'verif_stub_iter_init',
    'dbus_message_iter_get_arg_type': 'verif_stub_iter_get_arg_type',
    'dbus_message_iter_get_basic': 'verif_stub_iter_get_basic',
    'dbus_message_iter_next': 'verif_stub_iter_next',
    'strlen': 'verif_strlen', 'strcmp': 'verif_strcmp', 'strncmp': 'verif_strncmp', 'memcmp': 'verif_memcmp',
}
MATCH_FUNCS = [
    dict(name='match_rule_matches', file=SIG, status='enforced',
         contract='result == specification match predicate for every key (spec/match_ref.h); args loop closed by a loop contract (no unwinding); memory safety'),
    dict(name='dbus_message_get_type/_interface/_member/_path/_destination', file='dbus/dbus-message.c', status='stub',
         note='contract: return the corresponding field of the symbolic message-facts record (string fields NULL or NUL-terminated, <= 8 bytes)'),
    dict(name='dbus_message_iter_init/_get_arg_type/_get_basic/_next', file='dbus/dbus-message.c', status='stub',
         note='contract: sequential iterator over an arbitrary argument list; INVALID at and after the end; string / object-path arguments are NUL-terminated, preceded by their 4-byte length word (wire format), <= 8 bytes'),
    dict(name='connection_is_primary_owner', file=SIG, status='stub',
         note='contract: name-registry fact; may only be asked about (sender, rule.sender) or (addressed recipient, rule.destination)'),
    dict(name='strlen/strcmp/strncmp/memcmp', file='libc', status='stub', note='loop-free models (harness/c07_common.h) reading exactly the bytes the real functions read, for strings up to 24 bytes (asserted)'),
]
MATCH_ASSUME = [
    'RULE_OK (precondition): flags within the 9 BusMatchFlags bits; not both PATH and PATH_NAMESPACE; MESSAGE_TYPE => message_type != INVALID; '
    'a string field is a NUL-terminated heap block iff its flag is set (destination NULL otherwise); ARGS => 1 <= args_len <= 64, args/arg_lens have args_len+1 slots, '
    'slot k is NULL/0 or a NUL-terminated block of exactly (arg_lens[k] & ~FLAGS)+1 bytes, never both IS_PATH and NAMESPACE (established by bus_match_rule_set_* / the parser: units C07.setters, C07.parse, C07.parse_arg)',
    'RULE_OK: a path / path_namespace value is not empty and begins with \'/\' (the parser admits it only through _dbus_validate_path: C07.parse + C16.path)',
    'the rule sender, the rule destination and the message DESTINATION are each a symbolic string of <= 8 bytes or the literal org.freedesktop.DBus (the one longer name the matcher compares against)',
    'already_matched is a subset of MESSAGE_TYPE|INTERFACE and those keys do match (get_recipients_from_list: pools are indexed by type and interface)',
    'strings of the message and of the rule have symbolic content of at most 8 bytes (the args loop itself is not unwound)',
    'string-like message arguments point into the message body behind their 4-byte length word (wire format); the iterator contract delivers one arbitrary argument per index (arbitrary type code; STRING / OBJECT_PATH content <= 8 bytes without NUL) and DBUS_TYPE_INVALID from the end on',
    'all set slots of rule->args share one symbolic block (the matcher only reads; the loop contract leaves one arbitrary iteration)',
]
for variant, defs in (('match', []), ('match.nonempty', ['VERIF_ASSUME_NONEMPTY_PATHARG'])):
    UNITS.append(dict(
        name='C07.' + variant, props=['C07', 'C10', 'C18'], kind='P', route='hybrid', bus=True,
        tus=[dict(file=SIG, overlay='c07_signals.ovl', include_as='VERIF_TU')], harness='harness/c07_match.c',
        defines=defs, replace_calls=MATCH_STUBS, allow_skip_msg=True, unwind=10, unwindset=['harness.0:66'],
        timeout=900, expect_s=60, replay_family='match',
        must_have=['post1g.conn', 'post1g.name', 'post2', 'post3', 'post4', 'Check invariant after step for loop'],
        bounds={'string_bytes': 8, 'args_len': 'any value the parser can build (1..64); the loop over it is closed by a loop contract, not unwound'},
        functions=MATCH_FUNCS,
        assumptions=MATCH_ASSUME + (['argNpath value is not empty (TEMPORARY: the parser accepts the empty value; C07.match is the unit without this assumption)'] if defs else [])))

# ------------------------------------------------------------------------------------------------------------
# 2. the setters: establish RULE_OK, atomic under allocation failure (serves C14)
MEM = 'stubs/c07_mem.c'
SETTER_TUS = [dict(file=SIG, include_as='VERIF_TU'), dict(file='dbus/dbus-internals.c'), dict(file='dbus/dbus-string.c')]
MEM_FUNCS = [dict(name='dbus_malloc/dbus_malloc0/dbus_realloc/dbus_free', file='dbus/dbus-memory.c', status='stub',
                  note='CBMC allocator; --malloc-may-fail --malloc-fail-null: every allocation may fail independently; size 0 => NULL as in dbus-memory.c'),
             dict(name='_dbus_strdup, _dbus_string_copy_data, _dbus_string_init_const_len, _dbus_string_get_length', file='dbus/dbus-internals.c, dbus/dbus-string.c', status='inlined', note='real code')]
UNITS.append(dict(
    name='C07.setters', props=['C07', 'C14'], kind='P', route='plain', bus=True, tus=SETTER_TUS, harness='harness/c07_setters.c', extra_sources=[MEM],
    unwind=12, cbmc_flags=['--malloc-may-fail', '--malloc-fail-null'], timeout=600, expect_s=30,
    must_have=['post1 FALSE => rule unchanged', 'post3 TRUE'],
    bounds={'string_bytes': 8, 'note': 'the setters are loop-free; only strlen inside the real _dbus_strdup is unwound (strings <= 8 bytes)'},
    functions=[dict(name='bus_match_rule_set_interface/_member/_sender/_destination/_path/_message_type/_client_is_eavesdropping', file=SIG, status='enforced',
                    contract='TRUE => flag set, field is a fresh exact-size NUL-terminated copy, everything else unchanged; FALSE => rule unchanged, nothing freed')] + MEM_FUNCS,
    assumptions=['before the call each string field of the rule is NULL or a heap block (what the setters themselves produce)']))
for n0, arg in ((0, 0), (0, 3), (2, 1), (2, 3)):
    UNITS.append(dict(
        name='C07.set_arg.n%da%d' % (n0, arg), props=['C07', 'C14'], kind='B', route='plain', bus=True, tus=SETTER_TUS, harness='harness/c07_setters.c', extra_sources=[MEM],
        defines=['VERIF_SET_ARG', 'C07_MAXA=4', 'C07_N0=%d' % n0, 'C07_ARG=%d' % arg], unwind=12, cbmc_flags=['--malloc-may-fail', '--malloc-fail-null'], timeout=600, expect_s=10,
        must_have=['post4 TRUE', 'post9 FALSE'],
        bounds={'args_len_before': n0, 'arg_index': arg, 'string_bytes': 8,
                'note': 'concrete array sizes (symbolic realloc sizes run the SAT back end out of memory); the four instances cover first use, growth from empty, replacement without growth, growth of a non-empty array'},
        functions=[dict(name='bus_match_rule_set_arg', file=SIG, status='bounded',
                        contract='TRUE => RULE_OK for the arrays (args_len = max(old, arg+1), terminator, args[arg] fresh exact-size copy, lens = length|flags, other slots unchanged / NULL); FALSE => argument matches unchanged, flags unchanged, arrays still terminated, nothing freed')] + MEM_FUNCS,
        assumptions=['before the call the rule satisfies RULE_OK (ARGS flag iff args_len > 0; arrays of args_len+1 slots; terminator)']))

# ------------------------------------------------------------------------------------------------------------
# 3. tokenizer: find_key, find_value, tokenize_rule (P, hybrid: loop contracts + DBusString / DBusError contract stubs)
TOK_STUBS = {
    'dbus_error_is_set': 'verif_stub_error_is_set', 'dbus_set_error_const': 'verif_stub_set_error_const',
    '_dbus_string_get_const_data': 'verif_stub_get_const_data', '_dbus_string_get_length': 'verif_stub_get_length',
    '_dbus_string_append_len': 'verif_stub_append_len', '_dbus_string_append_byte': 'verif_stub_append_byte',
    '_dbus_string_set_length': 'verif_stub_set_length',
}
TOK3_STUBS = dict(TOK_STUBS, **{'_dbus_string_init': 'verif_stub_string_init', '_dbus_string_free': 'verif_stub_string_free',
                                '_dbus_string_steal_data': 'verif_stub_steal_data', 'dbus_free': 'verif_stub_dbus_free',
                                'find_key': 'verif_stub_find_key', 'find_value': 'verif_stub_find_value'})
STR_STUB_FUNCS = [
    dict(name='_dbus_string_get_const_data/_get_length', file='dbus/dbus-string.c', status='stub', note='contract: ghost view of the rule text: verif_len bytes + NUL in an exact-size block (DBusString representation invariant)'),
    dict(name='_dbus_string_append_len/_append_byte/_set_length', file='dbus/dbus-string.c', status='stub', note='contract: may fail (OOM) without effect; source range must lie inside the rule text; ghost length bookkeeping (C14 units cover the real functions)'),
    dict(name='dbus_set_error (variadic, macro-remapped to fixed arity; message text dropped), dbus_set_error_const, dbus_error_is_set', file='dbus/dbus-errors.c', status='stub', note='contract: error must be clear before it is set; set <=> name != NULL'),
]
TOK_ASSUME = ['the rule text is a DBusString satisfying its representation invariant: len >= 0 bytes (any content, any length up to the DBusString maximum) followed by a NUL',
              'error points to a clear DBusError (callers: bus_match_rule_parse)']
for fn_no, fn, must, extra_assume in (
        (1, 'find_key', ['post2', 'post4', 'Check invariant after step for loop find_key.0', 'Check invariant after step for loop find_key.2'], ['the key work string is empty at the call (tokenize_rule steals it after every token)']),
        (2, 'find_value', ['post2', 'post5', 'Check invariant after step for loop find_value.0'], [])):
    UNITS.append(dict(
        name='C07.' + fn, props=['C07', 'C10'], kind='P', route='hybrid', bus=True,
        tus=[dict(file=SIG, overlay='c07_signals.ovl', include_as='VERIF_TU')], harness='harness/c07_token.c', defines=['VERIF_FN=%d' % fn_no],
        replace_calls=TOK_STUBS, allow_skip_msg=True, timeout=600, expect_s=20, must_have=must,
        functions=[dict(name=fn, file=SIG, status='enforced', contract='memory safety for every rule text; cursor result inside the text; FALSE <=> error set; outputs untouched / restored on failure')] + STR_STUB_FUNCS,
        assumptions=TOK_ASSUME + extra_assume))
for variant, defs in (('tokenize', ['VERIF_POST_CONSUMED']), ('tokenize.safety', [])):
    UNITS.append(dict(
        name='C07.' + variant, props=['C07', 'C10'], kind='P', route='hybrid', bus=True,
        tus=[dict(file=SIG, overlay='c07_signals.ovl', include_as='VERIF_TU')], harness='harness/c07_token.c', defines=['VERIF_FN=3'] + defs,
        replace_calls=TOK3_STUBS, allow_skip_msg=True, unwindset=['harness.0:19'], timeout=600, expect_s=20,
        must_have=['post2 the sentinel', 'post4', 'Check invariant after step for loop tokenize_rule.0', 'Check invariant after step for loop tokenize_rule.1'],
        functions=[dict(name='tokenize_rule', file=SIG, status='enforced',
                        contract='memory safety; <= MAX_RULE_TOKENS tokens; sentinel slot never written; FALSE <=> error set and every slot NULL again; work strings freed'
                                 + ('; TRUE => whole rule text tokenized' if defs else '')),
                   dict(name='find_key/find_value', file=SIG, status='replaced', note='contracts enforced by units C07.find_key / C07.find_value'),
                   dict(name='_dbus_string_init/_free/_steal_data, dbus_free', file='dbus/dbus-string.c', status='stub', note='contract: init may fail; steal_data returns a fresh non-NULL block or fails without effect; dbus_free takes NULL or such a block')] + STR_STUB_FUNCS,
        assumptions=TOK_ASSUME + ['all MAX_RULE_TOKENS+1 token slots are NULL at the call (memset in bus_match_rule_parse)']))

# ------------------------------------------------------------------------------------------------------------
# 4. bus_match_rule_parse (hybrid) / bus_match_rule_parse_arg_match (P-stub): typestate contracts
ERR_STUBS = {'dbus_error_is_set': 'verif_stub_error_is_set', 'dbus_set_error_const': 'verif_stub_set_error_const'}
PARSE_STUBS = dict(ERR_STUBS, **{
    '_dbus_string_get_length': 'verif_stub_get_length', 'bus_match_rule_new': 'verif_stub_rule_new', 'bus_match_rule_unref': 'verif_stub_rule_unref',
    'tokenize_rule': 'verif_stub_tokenize', '_dbus_string_init_const': 'verif_stub_init_const', 'dbus_message_type_from_string': 'verif_stub_type_from_string',
    '_dbus_validate_bus_name': 'verif_stub_validate_bus_name', '_dbus_validate_interface': 'verif_stub_validate_interface',
    '_dbus_validate_member': 'verif_stub_validate_member', '_dbus_validate_path': 'verif_stub_validate_path',
    'bus_match_rule_set_sender': 'verif_stub_set_sender', 'bus_match_rule_set_interface': 'verif_stub_set_interface', 'bus_match_rule_set_member': 'verif_stub_set_member',
    'bus_match_rule_set_destination': 'verif_stub_set_destination', 'bus_match_rule_set_path': 'verif_stub_set_path',
    'bus_match_rule_set_message_type': 'verif_stub_set_message_type', 'bus_match_rule_set_client_is_eavesdropping': 'verif_stub_set_eavesdropping',
    'bus_match_rule_parse_arg_match': 'verif_stub_parse_arg_match', 'dbus_free': 'verif_stub_dbus_free',
    'strcmp': 'verif_strcmp', 'strncmp': 'verif_strncmp'})
UNITS.append(dict(
    name='C07.parse', props=['C07', 'C13'], kind='P', route='hybrid', bus=True,
    tus=[dict(file=SIG, overlay='c07_signals.ovl', include_as='VERIF_TU')], harness='harness/c07_parse.c', defines=['VERIF_FN=1'],
    replace_calls=PARSE_STUBS, allow_skip_msg=True, unwindset=['verif_stub_tokenize.0:18'], timeout=600, expect_s=30,
    must_have=['post2', 'post3', 'the validator the specification names', 'the key was not given before', 'Check invariant after step for loop bus_match_rule_parse.0'],
    functions=[dict(name='bus_match_rule_parse', file=SIG, status='enforced',
                    contract='> 1024 bytes => LimitsExceeded first; every token handled by exactly one setter whose precondition is "validated by the validator the key table names, key not given before"; unknown key / bad value / duplicate => MatchRuleInvalid; NULL <=> error set; rule released once on failure; token strings freed once'),
               dict(name='tokenize_rule', file=SIG, status='replaced', note='contract enforced by C07.tokenize.safety: <= MAX_RULE_TOKENS (key, value) pairs or FALSE with error; keys drawn from a literal pool covering every table key, arg keys, unknown keys'),
               dict(name='bus_match_rule_set_*', file=SIG, status='replaced', note='contracts enforced by C07.setters (functional part); here they carry the typestate preconditions'),
               dict(name='bus_match_rule_parse_arg_match', file=SIG, status='replaced', note='contract enforced by C07.parse_arg'),
               dict(name='_dbus_validate_bus_name/_interface/_member/_path', file='dbus/dbus-marshal-validate.c', status='replaced', note='exact grammars: units C16.*; here: arbitrary verdict, recorded'),
               dict(name='dbus_message_type_from_string, _dbus_string_init_const/_get_length, bus_match_rule_new/_unref, dbus_free, dbus_set_error*', file='dbus/*.c', status='stub', note='typestate contracts (see harness)'),
               dict(name='strcmp/strncmp', file='libc', status='stub', note='loop-free models on the literal key pool')],
    assumptions=['error points to a clear DBusError; the rule text is a valid DBusString of any length']))
PARG_STUBS = dict(ERR_STUBS, **{'_dbus_string_parse_uint': 'verif_stub_parse_uint', 'bus_match_rule_set_arg': 'verif_stub_set_arg',
                                '_dbus_validate_bus_namespace': 'verif_stub_validate_bus_namespace'})
UNITS.append(dict(
    name='C07.parse_arg', props=['C07'], kind='P', route='stub', bus=True,
    tus=[dict(file=SIG, include_as='VERIF_TU'), dict(file='dbus/dbus-string.c'), dict(file='dbus/dbus-string-util.c')], harness='harness/c07_parse.c', defines=['VERIF_FN=2'],
    extra_sources=[MEM], replace_calls=PARG_STUBS, unwind=20, timeout=600, expect_s=20,
    must_have=['post2', 'post3', 'post4'],
    bounds={'keys': '14 literal keys covering arg, argN, argNpath, arg0namespace, N in {0,7,12,63,64}, malformed suffixes'},
    functions=[dict(name='bus_match_rule_parse_arg_match', file=SIG, status='enforced', contract='accepts exactly argN / argNpath / arg0namespace with N <= 63 (oracle ref_key); one set_arg with that index and kind; occupied index refused; FALSE <=> error set; MatchRuleInvalid / NoMemory'),
               dict(name='_dbus_string_parse_uint', file='dbus/dbus-sysdeps.c', status='stub', note='contract for decimal digits without sign or leading zero (strtoul is outside; see findings: base-0 parsing accepts arg063 / arg+1 / arg0x1)'),
               dict(name='bus_match_rule_set_arg', file=SIG, status='replaced', note='C07.set_arg.*'),
               dict(name='_dbus_validate_bus_namespace', file='dbus/dbus-marshal-validate.c', status='replaced', note='C16.bus_namespace'),
               dict(name='_dbus_string_init_const/_get_length/_equal_c_str/_ends_with_c_str', file='dbus/dbus-string.c, dbus-string-util.c', status='inlined', note='real code on the literal keys')],
    assumptions=['keys are drawn from a pool of 14 literals; the argument number is written in decimal without sign or leading zero']))

# ------------------------------------------------------------------------------------------------------------
# 5. B: quoting and key scanning of the real tokenizer vs the reference written from the specification
for part, nm, fn, family in ((1, 'value', 'find_value', 'a backslash directly followed by a comma or a backslash'), (2, 'key', 'find_key', 'a pair without a key, e.g. "="')):
    for excl in (False, True):
        for n, tier in ((10, 'quick'),) + (((12, 'thorough'),) if excl else ()):
            UNITS.append(dict(
                name='C07.grammar.%s%s.b%d' % (nm, '.known_excluded' if excl else '', n), props=['C07'], kind='B', route='plain', bus=True,
                tus=[dict(file=SIG, include_as='VERIF_TU')], harness='harness/c07_grammar.c',
                defines=['C07_N=%d' % n, 'VERIF_PART=%d' % part] + (['VERIF_EXCLUDE_KNOWN'] if excl else []),
                unwind=2 * n + 4, timeout=900, expect_s=40 if n == 10 else 150, tier=tier,
                trace_is_execution=True, replay_family='match', replay_fn=nm,
                must_have=['post1', 'post2', 'post3'],
                bounds={'text_bytes': n, 'alphabet': "a = ' \\ , space"},
                functions=[dict(name=fn, file=SIG, status='bounded', contract='equals the reference (%s) on every text of <= %d bytes over the alphabet' % ('ref_value: quoting paragraph of the specification' if part == 1 else 'key scan: [white] key [white] =', n)),
                           dict(name='_dbus_string_* / dbus_set_error*', file='dbus/dbus-string.c, dbus-errors.c', status='stub', note='functional model: fixed-capacity byte buffers, no allocation failure')],
                assumptions=(['TEMPORARY exclusion of the family of texts on which the unchanged tree deviates from the specification: ' + family] if excl else [])))

# ------------------------------------------------------------------------------------------------------------
# 6. B: recipients of a broadcast; removal by value; disconnect
CONN = 'bus/connection.c'
RECIP_TUS = [dict(file=SIG, include_as='VERIF_TU'), dict(file=CONN, include_as='VERIF_TU2'), dict(file='dbus/dbus-list.c')]
RECIP_COMMON = {'alloc_link': 'verif_alloc_link', 'free_link': 'verif_free_link', 'match_rule_to_string': 'verif_stub_to_string', 'dbus_connection_get_data': 'verif_stub_connection_get_data'}
LIST_FUNCS = [dict(name='_dbus_list_append/_remove_link/_clear/_get_first_link/_get_last_link', file='dbus/dbus-list.c', status='inlined', note='real pointer code'),
              dict(name='alloc_link/free_link', file='dbus/dbus-list.c', status='stub', note='static pool of links instead of mempool + global lock; allocation may fail'),
              dict(name='match_rule_to_string', file=SIG, status='stub', note='feeds _dbus_verbose only (logging is dropped)')]
for _nr, _tier, _exp in ((2, 'quick', 60), (3, 'thorough', 330)):
  UNITS.append(dict(
      name='C07.recipients.r%dc3' % _nr, tier=_tier, props=['C07', 'C05'], kind='B', route='plain', bus=True, tus=RECIP_TUS, harness='harness/c07_recip.c', extra_sources=[MEM], defines=['VERIF_PART=1', 'C07_NR=%d' % _nr],
      replace_calls=dict(RECIP_COMMON, **{'match_rule_matches': 'verif_stub_match_rule_matches', 'dbus_message_get_type': 'verif_stub_get_type',
                                         'dbus_message_get_interface': 'verif_stub_get_interface', '_dbus_hash_table_lookup_string': 'verif_stub_hash_lookup_string'}),
      unwind=6, timeout=900, expect_s=_exp, must_have=['post1', 'post2', 'post3', 'post5'],
      bounds={'rules': _nr, 'connections': 3, 'lists': 'the four lists a message selects out of 5 type pools x (no interface | one interface bucket)'},
      functions=[dict(name='bus_matchmaker_get_recipients, get_recipients_from_list, bus_matchmaker_get_rules', file=SIG, status='bounded', contract='each connection listed exactly once iff one of its rules in a selected list matches and it is not the addressed recipient; OOM => FALSE, empty list'),
                 dict(name='bus_connection_mark_stamp, bus_connections_increment_stamp', file=CONN, status='bounded', note='real code'),
                 dict(name='match_rule_matches', file=SIG, status='replaced', note='contract of C07.match: arbitrary verdict per rule; must be asked with already_matched = TYPE|INTERFACE'),
                 dict(name='_dbus_hash_table_lookup_string', file='dbus/dbus-hash.c', status='stub', note='ghost map: at most one interface bucket per type pool'),
                 dict(name='dbus_connection_get_data', file='dbus/dbus-connection.c', status='stub', note='returns the BusConnectionData of that connection'),
                 dict(name='dbus_message_get_type/_get_interface', file='dbus/dbus-message.c', status='stub', note='message facts')] + LIST_FUNCS,
      assumptions=['connection stamps are not ahead of the global stamp (they were written in earlier rounds; wrap-around after INT_MAX rounds is excluded, as the code comment says)']))
UNITS.append(dict(
    name='C07.remove_by_value.r3', props=['C07'], kind='B', route='plain', bus=True, tus=RECIP_TUS, harness='harness/c07_recip.c', extra_sources=[MEM], defines=['VERIF_PART=2'],
    replace_calls=dict(RECIP_COMMON, **{'bus_connection_remove_match_rule': 'verif_stub_connection_remove_match_rule', 'bus_match_rule_unref': 'verif_stub_rule_unref', 'dbus_set_error': 'verif_stub_set_error'}),
    unwind=6, timeout=600, expect_s=30, must_have=['post1', 'post2', 'post3', 'post4'],
    bounds={'rules': 3, 'owners': 2, 'rule_shapes': "member='x' / member='y'"},
    functions=[dict(name='bus_matchmaker_remove_rule_by_value, bus_matchmaker_remove_rule_link, match_rule_equal', file=SIG, status='bounded', contract='removes exactly the most recently added rule equal to the argument, or MatchRuleNotFound and no change'),
               dict(name='bus_connection_remove_match_rule, bus_match_rule_unref, dbus_set_error', file='bus/connection.c, bus/signals.c, dbus/dbus-errors.c', status='stub', note='counted per rule / error name recorded')] + LIST_FUNCS,
    assumptions=[]))
UNITS.append(dict(
    name='C07.disconnected.r3', props=['C07'], kind='B', route='plain', bus=True, tus=RECIP_TUS, harness='harness/c07_recip.c', extra_sources=[MEM], defines=['VERIF_PART=3'],
    replace_calls=dict(RECIP_COMMON, **{'bus_connection_remove_match_rule': 'verif_stub_connection_remove_match_rule', 'bus_match_rule_unref': 'verif_stub_rule_unref', 'bus_connection_get_name': 'verif_stub_connection_get_name'}),
    unwind=6, timeout=600, expect_s=30, must_have=['post1', 'post2', 'post3'],
    bounds={'rules': 3, 'owners': 2, 'note': 'one rule list; the loop over pools and hash buckets in bus_matchmaker_disconnected is not executed (hash iteration)'},
    functions=[dict(name='rule_list_remove_by_connection, bus_matchmaker_remove_rule_link', file=SIG, status='bounded', contract='removes every rule owned by the connection or naming its unique name as sender; the others stay; each removed rule leaves its owner list and is released once'),
               dict(name='bus_matchmaker_disconnected', file=SIG, status='assumed', note='applies rule_list_remove_by_connection to every list of every pool (hash iteration not executed)')] + LIST_FUNCS,
    assumptions=['bus_matchmaker_disconnected visits every rule list (loop over 5 pools x hash buckets: read, not executed)']))

# ------------------------------------------------------------------------------------------------------------
# 7. T: the AddMatch / RemoveMatch method handlers of the bus driver
DRV = 'bus/driver.c'
DRV_STUBS = {
    'bus_transaction_get_context': 'verif_stub_transaction_get_context', 'bus_context_get_max_match_rules_per_connection': 'verif_stub_get_max_match_rules',
    'bus_connection_get_n_match_rules': 'verif_stub_get_n_match_rules', 'dbus_error_init': 'verif_stub_error_init', 'dbus_error_is_set': 'verif_stub_error_is_set',
    'dbus_set_error': 'verif_stub_set_error', 'dbus_set_error_const': 'verif_stub_set_error_const', 'dbus_move_error': 'verif_stub_move_error',
    'bus_connection_is_active': 'verif_stub_connection_is_active', 'bus_connection_get_name': 'verif_stub_connection_get_name', 'bus_context_log': 'verif_stub_context_log',
    'bus_context_get_type': 'verif_stub_context_get_type', 'dbus_message_get_args': 'verif_stub_message_get_args', '_dbus_string_init_const': 'verif_stub_init_const',
    'bus_match_rule_parse': 'verif_stub_rule_parse', 'bus_match_rule_get_client_is_eavesdropping': 'verif_stub_rule_get_eaves',
    'bus_driver_check_caller_is_privileged': 'verif_stub_check_privileged', 'bus_apparmor_allows_eavesdropping': 'verif_stub_aa_allows_eavesdropping',
    'bus_connection_get_matchmaker': 'verif_stub_get_matchmaker', 'bus_matchmaker_add_rule': 'verif_stub_add_rule', 'bus_matchmaker_remove_rule': 'verif_stub_remove_rule',
    'bus_driver_send_ack_reply': 'verif_stub_send_ack', 'bus_matchmaker_remove_rule_by_value': 'verif_stub_remove_by_value', 'bus_match_rule_unref': 'verif_stub_rule_unref'}
for fn_no, nm, fn in ((1, 'add_match', 'bus_driver_handle_add_match'), (2, 'remove_match', 'bus_driver_handle_remove_match')):
    UNITS.append(dict(
        name='C07.driver.' + nm, props=['C07', 'C13'], kind='P', route='stub', bus=True, tus=[dict(file=DRV, include_as='VERIF_TU')], harness='harness/c07_driver.c',
        defines=['VERIF_FN=%d' % fn_no], replace_calls=DRV_STUBS, timeout=300, expect_s=10, must_have=['post1', 'post2', 'post3', 'post4'],
        functions=[dict(name=fn, file=DRV, status='enforced', contract='typestate postconditions (see harness header): limit before mutation, error names passed on, rule in the matchmaker iff TRUE, references released once' if fn_no == 1 else 'typestate postconditions: TRUE <=> one successful removal by value after the ack; MatchRuleNotFound passed on; references released once'),
                   dict(name='bus_match_rule_parse', file=SIG, status='replaced', note='C07.parse: rule or NULL with MatchRuleInvalid / LimitsExceeded / NoMemory'),
                   dict(name='bus_matchmaker_remove_rule_by_value', file=SIG, status='replaced', note='C07.remove_by_value.r3 (B): TRUE or MatchRuleNotFound'),
                   dict(name='bus_matchmaker_add_rule/_remove_rule, bus_match_rule_unref', file=SIG, status='stub', note='counted; add may fail (OOM)'),
                   dict(name='bus_driver_check_caller_is_privileged, bus_apparmor_allows_eavesdropping', file='bus/driver.c, bus/apparmor.c', status='assumed', note='arbitrary verdict; error set on refusal'),
                   dict(name='dbus_message_get_args, bus_driver_send_ack_reply, bus_context_*, bus_connection_*, dbus_*error*', file='dbus/*.c, bus/*.c', status='stub', note='typestate contracts (see harness)')],
        assumptions=['error points to a clear DBusError (bus_driver_handle_message)']))

# ------------------------------------------------------------------------------------------------------------
# lemma: macro forms of the oracle == plain C forms (no dbus code)
UNITS.append(dict(
    name='C07.ref_lemma', props=['C07'], kind='B', route='plain', bus=True, tus=[], harness='harness/c07_lemma.c', unwind=12, timeout=600, expect_s=30,
    must_have=['lemma1', 'lemma2', 'lemma3', 'lemma4'], bounds={'string_bytes': 8},
    functions=[dict(name='REF_ARGM / REF_STREQ_N / REF_PATH_IN_NS_N / header conjuncts (spec/match_ref.h, harness/c07_match.c)', file='spec/match_ref.h', status='bounded', contract='equal to ref_arg_matches / ref_streq / ref_path_in_namespace / ref_header_matches on strings <= 8 bytes')],
    assumptions=[]))

# finder for the matcher (role finder: only run to search a concrete input after C07.match / C07.match.nonempty turned red)
UNITS.append(dict(
    name='C07.find.match', props=['C07'], kind='B', route='plain', role='finder', bus=True,
    tus=[dict(file=SIG, overlay='c07_signals.ovl', include_as='VERIF_TU')], harness='harness/c07_match.c', defines=['VERIF_FINDER'],
    replace_calls=MATCH_STUBS, unwind=12, unwindset=['harness.0:66'], timeout=600, expect_s=60,
    trace_is_execution=True, replay_family='match', replay_fn='argmatch', replay_scalars=['kind', 'atype', 'alen', 'a0', 'a1', 'a2', 'a3', 'a4', 'a5', 'a6', 'a7'],
    bounds={'rule': 'one argument match on index 0, no other key', 'string_bytes': 8},
    functions=[dict(name='match_rule_matches', file=SIG, status='bounded', note='finder only: same harness and postconditions as C07.match, args loop unwound for one argument')], assumptions=[]))
for _u in UNITS:
    if _u['name'] in ('C07.match', 'C07.match.nonempty'):
        _u['finder'] = 'C07.find.match'

UNITS.append(dict(name='C07.rule_equal', props=['C07'], kind='B', route='plain', bus=True,
    tus=[dict(file='bus/signals.c', include_as='VERIF_TU')], harness='harness/c07_equal.c', unwind=5, timeout=900, expect_s=30,
    trace_is_execution=False, must_have=['equal.post1'],
    bounds={'key_string_bytes': 2, 'argument_matches': 2},
    functions=[dict(name='match_rule_equal', file='bus/signals.c', status='bounded', note='every key symbolic; strings <= 2 bytes; <= 2 argument matches')],
    assumptions=['RULE_OK as established by the bus_match_rule_set_* setters (units C07.setters / C07.set_arg.*)']))

# RemoveMatch: a failing call must not also be acknowledged (red on the unchanged tree: known finding KF-C07-removematch-double-reply)
import copy as _copy
_u = _copy.deepcopy([u for u in UNITS if u['name'] == 'C07.driver.remove_match'][0])
_u['name'] = 'C07.driver.remove_match.noack'
_u['props'] = ['C07', 'C05']
_u['defines'] = _u['defines'] + ['VERIF_NO_ACK_ON_FAILURE=1']
_u['must_have'] = ['post8']
UNITS.append(_u)

_u = _copy.deepcopy([u for u in UNITS if u['name'] == 'C07.parse_arg'][0])
_u['name'] = 'C07.parse_arg.anynum'
_u['props'] = ['C07', 'C10']
_u['defines'] = _u['defines'] + ['VERIF_ANYNUM=1']
_u['must_have'] = ['anynum.post']
_u['bounds'] = {'keys': 'the 14 literal keys; the NUMBER their digits spell is an arbitrary unsigned long'}
_u['assumptions'] = ['keys are drawn from a pool of 14 literals; _dbus_string_parse_uint may return any unsigned long for the digits']
UNITS.append(_u)

UNITS.append(dict(name='C07.is_primary_owner', props=['C07', 'C18'], kind='P', route='stub', bus=True, entry='harness',
    tus=[dict(file='bus/signals.c', include_as='VERIF_TU')], harness='harness/c07_primary.c', timeout=300, expect_s=5, must_have=['owner.post'],
    functions=[dict(name='connection_is_primary_owner', file='bus/signals.c', status='enforced', contract='TRUE iff the name is registered and the connection is its primary owner (queued waiters do not stand for the name)'),
               dict(name='bus_registry_lookup, bus_service_get_primary_owners_connection, bus_service_owner_in_queue', file='bus/services.c', status='stub', note='abstract owner state: exists / primary / queued')],
    assumptions=['the primary owner is the head of the owner queue (C04)']))
