"""C07 — broadcasts reach exactly the connections whose match rules match (bus/signals.c, bus/driver.c)."""
SIG = 'bus/signals.c'
ASSERT = 'stubs/assert_stubs.c'

UNITS = []

# ------------------------------------------------------------------------------------------------------------
# 1. match_rule_matches: hybrid (loop contract on the args loop + contract stubs for the message accessors)
MATCH_STUBS = {
    'dbus_message_get_type': 'verif_stub_get_type',
    'dbus_message_get_interface': 'verif_stub_get_interface',
    'dbus_message_get_member': 'verif_stub_get_member',
    'dbus_message_get_path': 'verif_stub_get_path',
    'dbus_message_get_destination': 'verif_stub_get_destination',
    'connection_is_primary_owner': 'verif_stub_is_primary_owner',
    'dbus_message_iter_init': 'verif_stub_iter_init',
    'dbus_message_iter_get_arg_type': 'verif_stub_iter_get_arg_type',
    'dbus_message_iter_get_basic': 'verif_stub_iter_get_basic',
    'dbus_message_iter_next': 'verif_stub_iter_next',
}
MATCH_FUNCS = [
    dict(name='match_rule_matches', file=SIG, status='enforced',
         contract='result == specification match predicate for every key (spec/match_ref.h); args loop closed by a loop contract (no unwinding); memory safety'),
    dict(name='dbus_message_get_type/_interface/_member/_path/_destination', file='dbus/dbus-message.c', status='stub',
         note='contract: return the corresponding field of the symbolic message-facts record (string fields NULL or NUL-terminated, <= 8 bytes)'),
    dict(name='dbus_message_iter_init/_get_arg_type/_get_basic/_next', file='dbus/dbus-message.c', status='stub',
         note='contract: sequential iterator over an arbitrary argument list; INVALID at and after the end; string / object-path arguments are NUL-terminated, preceded by their 4-byte length word (wire format), <= 8 bytes'),
    dict(name='connection_is_primary_owner', file=SIG, status='stub',
         note='contract: name-registry fact; may only be asked about (sender, rule.sender) or (addressed recipient, rule.destination)'),
    dict(name='strlen/strcmp/strncmp/memcmp', file='libc', status='inlined', note='CBMC library models; their loops are unwound to the 8-byte string bound'),
]
MATCH_ASSUME = [
    'RULE_OK (precondition): flags within the 9 BusMatchFlags bits; not both PATH and PATH_NAMESPACE; MESSAGE_TYPE => message_type != INVALID; '
    'a string field is a NUL-terminated heap block iff its flag is set (destination NULL otherwise); ARGS => 1 <= args_len <= 64, args/arg_lens have args_len+1 slots, '
    'slot k is NULL/0 or a NUL-terminated block of exactly (arg_lens[k] & ~FLAGS)+1 bytes, never both IS_PATH and NAMESPACE (established by bus_match_rule_set_* / the parser: units C07.setters, C07.parse, C07.parse_arg)',
    'already_matched is a subset of MESSAGE_TYPE|INTERFACE and those keys do match (get_recipients_from_list: pools are indexed by type and interface)',
    'strings of the message and of the rule have symbolic content of at most 8 bytes (the args loop itself is not unwound)',
    'string-like message arguments point into the message body behind their 4-byte length word (wire format)',
]
for variant, defs in (('match', []), ('match.nonempty', ['VERIF_ASSUME_NONEMPTY_PATHARG'])):
    UNITS.append(dict(
        name='C07.' + variant, props=['C07', 'C10'], kind='P', route='hybrid', bus=True,
        tus=[dict(file=SIG, overlay='c07_signals.ovl', include_as='VERIF_TU')], harness='harness/c07_match.c',
        defines=defs, replace_calls=MATCH_STUBS, allow_skip_msg=True, unwind=10, unwindset=['harness.0:66'],
        timeout=900, expect_s=60, replay_family='match',
        must_have=['post1', 'post2', 'post3', 'post4', 'Check invariant after step for loop'],
        bounds={'string_bytes': 8, 'args_len': 'any value the parser can build (1..64); the loop over it is closed by a loop contract, not unwound'},
        functions=MATCH_FUNCS,
        assumptions=MATCH_ASSUME + (['argNpath value is not empty (TEMPORARY: the parser accepts the empty value; C07.match is the unit without this assumption)'] if defs else [])))
