"""C01 (header part) — header fields against the specification's "Header Fields" table, header load protocol, read-back (B)."""
HDR = 'dbus/dbus-marshal-header.c'
STR = 'dbus/dbus-string.c'
BASIC = 'dbus/dbus-marshal-basic.c'
VAL = 'dbus/dbus-marshal-validate.c'
REC = 'dbus/dbus-marshal-recursive.c'
SIG = 'dbus/dbus-signature.c'
ASSERT = 'stubs/assert_stubs.c'
UNITS = []

UNITS.append(dict(
    name='C01.hdr.field', props=['C01', 'C10', 'C16'], kind='P', route='stub',
    tus=[dict(file=HDR, include_as='VERIF_TU'), dict(file=STR), dict(file=BASIC), dict(file=SIG)], harness='harness/c01h_field.c', extra_sources=[ASSERT],
    replace_calls={'_dbus_header_cache_revalidate': 'verif_stub_cache_revalidate'},
    unwindset=['_dbus_string_equal_substring.0:29'], cbmc_flags=['--unwinding-assertions'], timeout=900, expect_s=30,
    must_have=['field.type', 'field.twice', 'field.validator', 'field.local', 'field.verdict'],
    functions=[dict(name='load_and_validate_field', file=HDR, status='enforced',
                    contract='type = "Header Fields" table else HAS_WRONG_TYPE; duplicate => APPEARS_TWICE; the table\'s name grammar on exactly the value\'s string content; REPLY_SERIAL != 0; Local interface/path refused iff equal; cache frame'),
               dict(name='_dbus_header_get_field_basic/_raw, _dbus_header_cache_check, _dbus_marshal_read_basic/_uint32, _dbus_string_get_*', file=HDR, status='inlined', note='real code, loop-free'),
               dict(name='_dbus_string_equal_substring', file=STR, status='inlined', note='real code; its loop is completely unwound for the 26/27-byte literal (unwinding assertion)'),
               dict(name='_dbus_validate_interface/_member/_error_name/_bus_name', file=VAL, status='replaced', note='arbitrary verdict, call recorded; exact grammar enforced in C16.interface/member/error_name/bus_name'),
               dict(name='_dbus_type_reader_get_current_type/_get_value_pos', file=REC, status='stub', note='the variant reader yields (type code, aligned value position) of a value the body validator accepted')],
    assumptions=['the field value is a well-formed marshalled value of its type inside the header (established by the body validation of "yyyyuua(yv)" that precedes the field loop in _dbus_header_load)',
                 'DBUS_HEADER_FIELD_CONTAINER_INSTANCE (10, OBJECT_PATH) is taken from dbus-protocol.h; the specification text of this tree stops at UNIX_FDS (9)']))

UNITS.append(dict(
    name='C01.hdr.mandatory', props=['C01', 'C10'], kind='P', route='plain',
    tus=[dict(file=HDR, include_as='VERIF_TU'), dict(file=STR)], harness='harness/c01h_mandatory.c', extra_sources=[ASSERT],
    timeout=300, expect_s=5, must_have=['mandatory.table', 'mandatory.reason'],
    functions=[dict(name='check_mandatory_fields', file=HDR, status='enforced', contract='VALID iff the fields required by the specification\'s "Header Fields" table for the message type are cached; reason names a required absent field; all 255 type bytes x all presence patterns'),
               dict(name='_dbus_header_get_message_type/_dbus_string_get_byte', file=HDR, status='inlined', note='real code, loop-free')],
    assumptions=['message type byte != 0 (checked by _dbus_header_load before the call: C01.hdr.load)']))

LOAD_STUBS = {
    '_dbus_string_get_length': 'verif_stub_string_get_length', '_dbus_string_copy_len': 'verif_stub_string_copy_len',
    '_dbus_validate_body_with_reason': 'verif_stub_validate_body', '_dbus_string_validate_nul': 'verif_stub_validate_nul',
    '_dbus_type_reader_init': 'verif_stub_reader_init', '_dbus_type_reader_get_current_type': 'verif_stub_reader_get_current_type',
    '_dbus_type_reader_get_value_pos': 'verif_stub_reader_get_value_pos', '_dbus_type_reader_read_basic': 'verif_stub_reader_read_basic',
    '_dbus_type_reader_next': 'verif_stub_reader_next', '_dbus_type_reader_recurse': 'verif_stub_reader_recurse',
    'load_and_validate_field': 'verif_stub_load_and_validate_field', 'check_mandatory_fields': 'verif_stub_check_mandatory',
    '_dbus_string_set_length': 'verif_stub_string_set_length'}
UNITS.append(dict(
    name='C01.hdr.load', props=['C01', 'C11', 'C10'], kind='P', route='hybrid',
    tus=[dict(file=HDR, include_as='VERIF_TU', overlay='c01h_load.ovl')], harness='harness/c01h_load.c', replace_calls=LOAD_STUBS,
    allow_skip_msg=True, timeout=900, expect_s=20,
    must_have=['Check invariant after step for loop _dbus_header_load.0', 'Check invariant after step for loop _dbus_header_load.1',
               'load.caller TRUE', 'load.caller FALSE', 'load.fixed', 'load.fields', 'load.mandatory', 'load.cache'],
    functions=[dict(name='_dbus_header_load', file=HDR, status='enforced',
                    contract='order copy -> body-validate as yyyyuua(yv) -> NUL padding -> type != 0, version == 1, serial != 0 -> per element: code != 0, known => accepted by load_and_validate_field, unknown ignored -> no UNKNOWN left -> mandatory fields; TRUE => VALID, header_len bytes; FALSE => != VALID, header emptied. Implies the stub contract used by C11.F2.load_message'),
               dict(name='load_and_validate_field', file=HDR, status='replaced', note='by its contract (enforced in C01.hdr.field): VALID => field was not cached before and is cached now'),
               dict(name='check_mandatory_fields', file=HDR, status='replaced', note='by its contract (enforced in C01.hdr.mandatory)'),
               dict(name='_dbus_validate_body_with_reason', file=VAL, status='stub', note='arbitrary verdict; VALID => 0 <= leftover <= len - 16 (exactness: C01.body.*, C01.hdr.exact.*)'),
               dict(name='_dbus_string_validate_nul', file=STR, status='replaced', note='arbitrary verdict (exact: C16.nul)'),
               dict(name='_dbus_string_copy_len/_set_length/_get_length', file=STR, status='stub', note='length-only model; copy may fail and then changes nothing'),
               dict(name='_dbus_type_reader_init/_get_current_type/_get_value_pos/_read_basic/_next/_recurse', file=REC, status='stub',
                    note='values reader as an automaton: seven top-level values of yyyyuua(yv) at offsets 0,1,2,3,4,8,12, then `remaining` array elements (code byte, variant); exact decoding is the B unit C01.hdr.exact.*')],
    assumptions=['precondition: byte_order / fields_array_len / header_len / body_len are the outputs of _dbus_header_have_message_untrusted on the same bytes (C01.have_message), header is fresh (all cache entries UNKNOWN, length 0)',
                 'the values reader yields the values of a block that the body validator accepted (reader stubs); checked on real code only within the bound of C01.hdr.exact.*']))

# ---- bounded exactness + read-back on the real loader (B) ---------------------------------------------------
EXACT_TUS = [dict(file=f) for f in (HDR, VAL, STR, REC, BASIC, SIG)]


def exact_unit(nm, n, assume, tier, reval=0, expect=120, note=''):
    defs = ['VERIF_N=%d' % n]
    if assume:
        defs.append('VERIF_HDR_ASSUME=%s' % assume)
    UNITS.append(dict(name='C01.hdr.exact.%s' % nm, props=['C01', 'C10', 'C12'] if reval else ['C01', 'C10'], kind='B', route='stub', tus=EXACT_TUS, replace_calls={'_dbus_validate_body_with_reason': 'verif_stub_validate_body', '_dbus_header_cache_revalidate': 'verif_stub_cache_revalidate',
                                     '_dbus_string_copy_len': 'verif_stub_string_copy_len'},
                      harness='harness/c01h_exact.c', extra_sources=[ASSERT, 'stubs/list_as_stack.c', 'stubs/c07_mem.c'], defines=defs,
                      unwind=n + 3, timeout=3000, tier=tier, expect_s=expect, trace_is_execution=True, replay_family='header', replay_fn='load',
                      bounds={'header_bytes': n, 'skeleton': note or 'none (every byte symbolic)', 'byte_order': 'both',
                              'excluded': 'field values containing a nested variant (the reference decoder does not decode them)'},
                      functions=[dict(name='_dbus_header_have_message_untrusted / _dbus_header_load / load_and_validate_field / check_mandatory_fields', file=HDR, status='bounded'),
                                 dict(name='_dbus_header_get_field_raw/_basic/_get_serial/_get_message_type/_get_flag' + ('/_dbus_header_cache_revalidate' if reval else ''), file=HDR, status='bounded'),
                                 dict(name='_dbus_validate_interface/_member/_error_name/_bus_name', file=VAL, status='bounded'),
                                 dict(name='_dbus_validate_body_with_reason (on the header signature)', file=VAL, status='stub', note='answers as the reference decoder (marshalling well-formedness of yyyyuua(yv)); the real validator on variant signatures is out of reach of symbolic execution (pointer alignment)'),
                                 dict(name='_dbus_type_reader_* (values reader)', file=REC, status='bounded'),
                                 dict(name='_dbus_list_* in the signature validator', file='dbus/dbus-list.c', status='assumed', note='LIFO stack stub')],
                      assumptions=['dbus-list behaves as a LIFO stack of integers in the signature validator (stub, not verified)',
                                   '_dbus_string_copy_len copies the byte range (stub with a byte loop; the OOM branch of _dbus_header_load is covered by C01.hdr.load)']))


# skeletons: byte order, total length, fields-array length and the variant signature bytes (length, type code, NUL) of each
# field are constants (ASSIGNED, not assumed: symbolic execution must see them as constants to follow the signature; with
# a symbolic array length the real reader is explored on garbage "elements" behind the array: no result in 10 min).
# Symbolic: message type, flags, version, body length, serial, every field code, every value, string lengths and contents.
def skel(le, n, fal, sigs):
    """sigs: list of (offset of the element, type code)"""
    w = [(fal or 0) & 255, ((fal or 0) >> 8) & 255, 0, 0]
    if not le:
        w.reverse()
    a = "in_len=%d;in_buf[0]='%s';" % (n, 'l' if le else 'B')
    if fal is not None:
        a += ''.join('in_buf[%d]=%d;' % (12 + i, w[i]) for i in range(4))
    for off, t in sigs:
        a += "in_buf[%d]=1;in_buf[%d]='%s';in_buf[%d]=0;" % (off + 1, off + 2, t, off + 3)
    return a


def u32(le, v):
    w = [v & 255, (v >> 8) & 255, (v >> 16) & 255, (v >> 24) & 255]
    if not le:
        w.reverse()
    return w


def skel_str(le, t, L, extra_u=False):
    """one field with variant signature t in 's','o' and a string of concrete length L (content, NUL and padding symbolic);
    optionally followed by a second field with signature 'u'"""
    fal = 8 + L + 1
    sigs = [(16, t)]
    if extra_u:
        off = (16 + fal + 7) & ~7
        sigs.append((off, 'u'))
        fal = off + 8 - 16
    n = (16 + fal + 7) & ~7
    a = skel(le, n, fal, sigs) + ''.join('in_buf[%d]=%d;' % (20 + i, b) for i, b in enumerate(u32(le, L)))
    return n, a


def skel_sig(le, L):
    fal = 4 + 1 + L + 1
    n = (16 + fal + 7) & ~7
    return n, skel(le, n, fal, [(16, 'g')]) + 'in_buf[20]=%d;' % L


for _i, (_nm, _mk) in enumerate([
        ('u', lambda le: (24, skel(le, 24, 8, [(16, 'u')]), 'one field (code symbolic) with variant signature "u"')),
        ('uu', lambda le: (32, skel(le, 32, 16, [(16, 'u'), (24, 'u')]), 'two fields (codes symbolic) with variant signature "u"')),
        ('s3', lambda le: skel_str(le, 's', 3) + ('one field (code symbolic), signature "s", 3 content bytes, 4 padding bytes, all symbolic',)),
        ('s7', lambda le: skel_str(le, 's', 7) + ('one field (code symbolic), signature "s", 7 content bytes symbolic',)),
        ('o3', lambda le: skel_str(le, 'o', 3) + ('one field (code symbolic), signature "o", 3 content bytes symbolic',)),
        ('s3u', lambda le: skel_str(le, 's', 3, True) + ('two fields (codes symbolic): "s" with 3 content bytes, then "u"',)),
        ('g2', lambda le: skel_sig(le, 2) + ('one field (code symbolic), signature "g" holding a 2-byte signature',))]):
    for _le, _tier in ((_i % 2, 'quick'), (1 - _i % 2, 'thorough')):
        _n, _a, _note = _mk(_le)
        exact_unit('%s.%s%d' % (_nm, 'le' if _le else 'be', _n), _n, _a, _tier, note=('little' if _le else 'big') + ' endian, %d bytes, ' % _n + _note)

# ---- iterator read-back on bodies (B): real validator + real values reader vs the independent value extractor ----
ITER_TUS = [dict(file=f) for f in (VAL, STR, REC, BASIC, SIG)]
def _w(le, off, v):
    return ''.join('in_buf[%d]=%d;' % (off + i, b) for i, b in enumerate(u32(le, v)))


# (signature, body bytes, [(offset, value) of the length words made constant], note)
ITER_CATALOGUE = [('y', 8, None), ('b', 8, None), ('n', 8, None), ('q', 8, None), ('i', 8, None), ('u', 8, None), ('x', 16, None), ('t', 16, None), ('d', 16, None), ('h', 8, None),
                  ('s', 10, None), ('o', 10, None), ('g', 6, None), ('yu', 12, None), ('yx', 16, None), ('ys', 12, None), ('sy', 12, None), ('(yu)', 12, None), ('(y(yu))', 16, None),
                  ('au', 12, [(0, 8)]), ('au', 4, [(0, 0)]), ('ay', 7, [(0, 3)]), ('an', 8, [(0, 4)]), ('ax', 24, [(0, 16)]), ('a(yu)', 24, [(0, 16)]), ('aau', 16, [(0, 12), (4, 8)]),
                  ('a{yu}', 16, [(0, 8)]), ('as', 10, [(0, 6), (4, 1)]), ('yau', 16, [(4, 8)]), ('auy', 13, [(0, 8)])]
for _i, (_sig, _n, _fix) in enumerate(ITER_CATALOGUE):
    for _le, _tier in ((_i % 2, 'quick'), (1 - _i % 2, 'thorough')):
        if _sig == 'as':
            _tier = 'thorough'      # ~3 min (UTF-8 validation of symbolic content inside the array)
        _asg = ('in_len=%d;' % _n + ''.join(_w(_le, o, v) for o, v in _fix)) if _fix is not None else None
        UNITS.append(dict(name='C01.iter.%s.%s%d' % (_sig, 'le' if _le else 'be', _n), props=['C01', 'C10'], kind='B', route='plain', tus=ITER_TUS,
                          harness='harness/c01h_iter.c', extra_sources=[ASSERT, 'stubs/list_as_stack.c'],
                          defines=['VERIF_N=%d' % _n, 'VERIF_LE=%d' % _le, 'VERIF_SIG="%s"' % _sig] + (['VERIF_BODY_ASSIGN=%s' % _asg] if _asg else []) + (['VERIF_NO_REJECT=1'] if _fix is not None and _sig in ('au', 'ay', 'an', 'aau', 'auy') else []), unwind=_n + 6, timeout=1800, tier=_tier, expect_s=30,
                          bounds={'signature': _sig, 'body_bytes': _n, 'byte_order': 'little' if _le else 'big',
                                  'constant_length_words': ('body length %d, array/string length words (offset, value): %s' % (_n, _fix)) if _fix is not None else 'none (every byte and the length symbolic)'},
                          functions=[dict(name='_dbus_type_reader_init/_get_current_type/_read_basic/_recurse/_next (values reader)', file=REC, status='bounded'),
                                     dict(name='_dbus_marshal_read_basic/_dbus_marshal_skip_basic/_skip_array', file=BASIC, status='bounded'),
                                     dict(name='_dbus_validate_body_with_reason', file=VAL, status='bounded', note='as the precondition "accepted body" (its exactness: C01.body.*)')],
                          assumptions=['dbus-list behaves as a LIFO stack of integers in the signature validator (stub, not verified)']))

UNITS.append(dict(
    name='C01.read_basic', props=['C01', 'C02'], kind='P', route='plain', tus=[dict(file=BASIC), dict(file=STR), dict(file=SIG)],
    harness='harness/c01h_readbasic.c', extra_sources=[ASSERT], timeout=600, expect_s=20, must_have=['read_basic: a fixed-size value', 'read_uint32'],
    functions=[dict(name='_dbus_marshal_read_basic/_dbus_marshal_read_uint32', file=BASIC, status='enforced',
                    contract='value = specification decoding of the bytes at the aligned position, both byte orders, all basic types; new_pos just behind the value; string of symbolic size')],
    assumptions=['the value lies inside the string (precondition; established by the body validator)']))

# ---- _dbus_type_reader_read_fixed_multi away from the array start (B) -------------------------------------------
FM_CATALOGUE = [('au', 16, [(0, 12)], 3), ('au', 4, [(0, 0)], 0), ('ax', 24, [(0, 16)], 2), ('ay', 7, [(0, 3)], 3), ('an', 10, [(0, 6)], 3), ('yau', 16, [(4, 8)], 2), ('ad', 16, [(0, 8)], 1)]
for _i, (_sig, _n, _fix, _ne) in enumerate(FM_CATALOGUE):
    for _le, _tier in ((_i % 2, 'quick'), (1 - _i % 2, 'thorough')):
        _asg = 'in_len=%d;' % _n + ''.join(_w(_le, o, v) for o, v in _fix)
        UNITS.append(dict(name='C01.fixed_multi.%s.%s%d' % (_sig, 'le' if _le else 'be', _n), props=['C01', 'C10'], kind='B', route='plain', tus=ITER_TUS,
                          harness='harness/c01h_fixedmulti.c', extra_sources=[ASSERT, 'stubs/list_as_stack.c'],
                          defines=['VERIF_N=%d' % _n, 'VERIF_LE=%d' % _le, 'VERIF_SIG="%s"' % _sig, 'VERIF_NELEMS=%d' % _ne, 'VERIF_BODY_ASSIGN=%s' % _asg], unwind=_n + 6, timeout=1800, tier=_tier, expect_s=20,
                          bounds={'signature': _sig, 'body_bytes': _n, 'byte_order': 'little' if _le else 'big', 'constant_length_words': 'body length %d, array length word (offset, value): %s' % (_n, _fix),
                                  'positions': 'after k = 0 .. n-1 calls of _dbus_type_reader_next (and k = 0 on the empty array)'},
                          functions=[dict(name='_dbus_type_reader_read_fixed_multi', file=REC, status='bounded'),
                                     dict(name='_dbus_type_reader_init/_recurse/_next/_get_current_type (array reader)', file=REC, status='bounded'),
                                     dict(name='_dbus_validate_body_with_reason', file=VAL, status='bounded', note='as the precondition "accepted body"')],
                          assumptions=['dbus-list behaves as a LIFO stack of integers in the signature validator (stub, not verified)']))
