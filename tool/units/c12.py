"""C12 — header edits (peripheral clauses; the realignment core of dbus-marshal-recursive.c is not decided) (+ C14 failure paths)."""
HDR = 'dbus/dbus-marshal-header.c'
STR = 'dbus/dbus-string.c'
BASIC = 'dbus/dbus-marshal-basic.c'
ASSERT = 'stubs/assert_stubs.c'
UNITS = []

EDIT_STUBS = {
    '_dbus_string_get_length': 'verif_stub_string_get_length', '_dbus_header_get_byte_order': 'verif_stub_get_byte_order',
    'reserve_header_padding': 'verif_stub_reserve', 'correct_header_padding': 'verif_stub_correct',
    '_dbus_header_cache_invalidate_all': 'verif_stub_invalidate_all', 'set_basic_field': 'verif_stub_set_basic_field',
    'write_basic_field': 'verif_stub_write_basic_field', '_dbus_type_reader_delete': 'verif_stub_reader_delete',
    '_dbus_header_cache_check': 'verif_stub_cache_check', 'find_field_for_modification': 'verif_stub_find_field',
    '_dbus_type_writer_init_values_only': 'verif_stub_writer_init_values_only', '_dbus_type_writer_append_array': 'verif_stub_writer_append_array',
    '_dbus_type_writer_unrecurse': 'verif_stub_writer_unrecurse', '_dbus_type_reader_init': 'verif_stub_reader_init',
    '_dbus_type_reader_recurse': 'verif_stub_reader_recurse', '_dbus_type_reader_get_current_type': 'verif_stub_reader_get_current_type',
    '_dbus_type_reader_read_basic': 'verif_stub_reader_read_basic', '_dbus_type_reader_next': 'verif_stub_reader_next'}
EDIT_FUNCS = [
    dict(name='reserve_header_padding / correct_header_padding / _dbus_header_cache_invalidate_all', file=HDR, status='replaced', note='typestate contracts; their own contracts are enforced in C12.padding.* / C12.cache.invalidate'),
    dict(name='set_basic_field -> _dbus_type_reader_set_basic, write_basic_field, _dbus_type_reader_delete', file='dbus/dbus-marshal-recursive.c', status='stub',
         note='realignment core: requires the reserved state, may fail, moves bytes; NOT verified (measured out of reach)'),
    dict(name='_dbus_header_cache_check / find_field_for_modification', file=HDR, status='stub', note='agree on whether the field exists (cache consistency)'),
    dict(name='_dbus_type_writer_init_values_only/_append_array/_unrecurse, _dbus_type_reader_init/_recurse/_get_current_type/_read_basic/_next', file='dbus/dbus-marshal-recursive.c', status='stub',
         note='append_array/unrecurse on a values-only array writer need no memory (assumed, as the code asserts); array reader = counter of remaining elements')]
EDIT_ASSUME = ['the realignment core (set_basic_field, write_basic_field, _dbus_type_reader_delete) is an assumed contract: it needs the reserved padding, may fail, and moves bytes on success',
               'a failing edit step may or may not have moved bytes (not known)',
               'known header fields occur at most once (established by _dbus_header_load: APPEARS_TWICE)']
for fn, nm, real in ((1, 'set_field', '_dbus_header_set_field_basic'), (2, 'delete_field', '_dbus_header_delete_field'), (3, 'remove_unknown', '_dbus_header_remove_unknown_fields')):
    for c14 in (0, 1):
        u = dict(name=('C14.hdr_edit.%s' if c14 else 'C12.edit.%s') % nm, props=(['C14', 'C12'] if c14 else ['C12']), kind='P',
                 route='hybrid' if fn == 3 else 'stub',
                 tus=[dict(file=HDR, include_as='VERIF_TU', **({'overlay': 'c12_edit.ovl'} if fn == 3 else {}))],
                 harness='harness/c12_edit.c', defines=['VERIF_FN=%d' % fn, 'VERIF_C14=%d' % c14], replace_calls=EDIT_STUBS,
                 allow_skip_msg=True, timeout=1500, expect_s=10,
                 # safety net for changed code: the functions are loop-free (fn 1, 2) / closed by a loop contract (fn 3); a loop added by an
                 # edit is unwound up to 13 times and then reported through an unwinding assertion instead of running into the timeout
                 **({'unwind': 13} if fn != 3 else {}),
                 must_have=(['post.C14 edit failure'] if c14 else ['edit success: cache invalidated after the last byte move']) +
                           (['Check invariant after step for loop _dbus_header_remove_unknown_fields'] if fn == 3 else []),
                 functions=[dict(name=real, file=HDR, status='enforced',
                                 contract=('FALSE => header length/padding as before the call (C14 atomicity)' if c14 else
                                           'success: reserve -> edit -> correct -> invalidate, each once per edit, in this order; failure: padding corrected (never left in the editing state), nothing moved if reserve failed'))] + EDIT_FUNCS,
                 assumptions=EDIT_ASSUME)
        UNITS.append(u)

# ---- small primitives: real code, loop-free, header byte string of symbolic size ------------------------------
SIG = 'dbus/dbus-signature.c'
BASIC_TUS = [dict(file=HDR, include_as='VERIF_TU'), dict(file=STR), dict(file=BASIC), dict(file=SIG)]
PAD_STUBS = {'_dbus_string_lengthen': 'verif_stub_string_lengthen', '_dbus_string_shorten': 'verif_stub_string_shorten',
             '_dbus_string_align_length': 'verif_stub_string_align_length', '_dbus_string_get_length': 'verif_stub_string_get_length'}
STR_ASSUME = 'DBusString length primitives follow their documented behaviour (stubs): lengthen may fail and then changes nothing, new bytes uninitialised; shorten keeps the allocation; align_length appends NUL bytes and cannot fail within the allocation'
for fn, nm, enforced, must, stubs, contract in (
        (1, 'flags', '_dbus_header_toggle_flag/_dbus_header_get_flag', ['flag.byte2', 'flag.frame', 'flag.readback', 'flag.others'], {},
         'only byte 2 changes, only the bits of the flag; the flag reads back; other flags keep their value'),
        (2, 'serial', '_dbus_header_set_serial/_dbus_header_get_serial', ['serial.readback', 'serial.order', 'serial.frame'], {},
         'only bytes 8..11 change; they are the serial in the byte order of byte 0; it reads back; all 2^32 values, both orders'),
        (3, 'lengths', '_dbus_header_update_lengths', ['lengths.body', 'lengths.frame'], {}, 'only bytes 4..7 change; they are the body length in the byte order of byte 0'),
        (4, 'cache.check', '_dbus_header_cache_check', ['cache.check'], {'_dbus_header_cache_revalidate': 'verif_stub_cache_revalidate'},
         'rebuilds the cache iff the entry is UNKNOWN; TRUE iff the field exists; known entries answered without touching the cache'),
        (5, 'padding.reserve', 'reserve_header_padding', ['reserve:', 'reserve.frame'], PAD_STUBS,
         'TRUE => padding == 7, length grown by 7 - old padding, allocation covers it; FALSE => nothing changed; existing bytes unchanged'),
        (6, 'padding.correct', 'correct_header_padding', ['correct:', 'correct.frame'], PAD_STUBS,
         'afterwards length % 8 == 0, padding <= 7 = minimum, every padding byte NUL, bytes before the padding unchanged; cannot fail (its assert_not_reached is unreachable)'),
        (7, 'getters', '_dbus_header_get_message_type/_dbus_header_get_byte_order', ['type.get', 'order.get'], {}, 'byte 1 / byte 0')):
    UNITS.append(dict(name='C12.' + nm, props=['C12', 'C02'] if fn in (2, 3, 6) else ['C12'], kind='P', route='stub' if stubs else 'plain', tus=BASIC_TUS,
                      harness='harness/c12_basic.c', extra_sources=[ASSERT], defines=['VERIF_FN=%d' % fn], replace_calls=stubs,
                      timeout=600, expect_s=20, must_have=must,
                      functions=[dict(name=enforced, file=HDR, status='enforced', contract=contract),
                                 dict(name='_dbus_marshal_set_uint32/_dbus_marshal_read_uint32/pack_4_octets/_dbus_string_get_udata_len/_dbus_string_get_byte', file=BASIC, status='inlined', note='real code, loop-free')] +
                                ([dict(name='_dbus_string_lengthen/_shorten/_align_length', file=STR, status='stub', note='documented behaviour; allocation tracked so that "cannot fail within the allocation" is checked, not assumed')] if stubs is PAD_STUBS else []) +
                                ([dict(name='_dbus_header_cache_revalidate', file=HDR, status='stub', note='afterwards no entry is UNKNOWN; positions checked in C12.cache.revalidate.* (B)')] if fn == 4 else []),
                      assumptions=[STR_ASSUME] if stubs is PAD_STUBS else []))

UNITS.append(dict(name='C12.cache.invalidate', props=['C12'], kind='P', route='dfcc', enforce=['_dbus_header_cache_invalidate_all'],
                  tus=[dict(file=HDR, include_as='VERIF_TU', overlay='c12_cache.ovl')], harness='harness/c12_invalidate.c', extra_sources=[ASSERT],
                  timeout=600, expect_s=10, must_have=['Check invariant after step for loop _dbus_header_cache_invalidate_all', 'Check ensures clause of contract'],
                  functions=[dict(name='_dbus_header_cache_invalidate_all', file=HDR, status='enforced', contract='every cache entry UNKNOWN afterwards (ghost index); writes only the fields array; terminates')],
                  assumptions=[]))

# ---- the rebuilt position cache against the reference decoding (B, real values reader) -------------------------
from .c01h import skel, skel_str   # noqa: E402  (same skeletons as C01.hdr.exact.*)
REC = 'dbus/dbus-marshal-recursive.c'
for _i, (_nm, _mk) in enumerate([
        ('uu', lambda le: (32, skel(le, 32, 16, [(16, 'u'), (24, 'u')]), 'two fields (codes symbolic) with variant signature "u"')),
        ('s3u', lambda le: skel_str(le, 's', 3, True) + ('two fields (codes symbolic): "s" with 3 content bytes, then "u"',)),
        ('o3', lambda le: skel_str(le, 'o', 3) + ('one field (code symbolic), signature "o", 3 content bytes',))]):
    for _le, _tier in ((_i % 2, 'quick'), (1 - _i % 2, 'thorough')):
        _n, _a, _note = _mk(_le)
        UNITS.append(dict(name='C12.cache.revalidate.%s.%s%d' % (_nm, 'le' if _le else 'be', _n), props=['C12', 'C01'], kind='B', route='plain',
                          tus=[dict(file=HDR, include_as='VERIF_TU'), dict(file=STR), dict(file=BASIC), dict(file=REC), dict(file=SIG)],
                          harness='harness/c12_revalidate.c', extra_sources=[ASSERT], defines=['VERIF_N=%d' % _n, 'VERIF_HDR_ASSUME=%s' % _a],
                          unwind=_n + 3, timeout=1800, tier=_tier, expect_s=60,
                          bounds={'header_bytes': _n, 'skeleton': ('little' if _le else 'big') + ' endian, %d bytes, ' % _n + _note, 'precondition': 'header image valid per the reference decoder'},
                          functions=[dict(name='_dbus_header_cache_revalidate', file=HDR, status='bounded'),
                                     dict(name='_dbus_type_reader_init/_recurse/_get_current_type/_read_basic/_next (values reader)', file=REC, status='bounded')],
                          assumptions=['the header image is a valid header (what _dbus_header_load accepts: C01.hdr.exact.*; what edits are supposed to keep: not decided, realignment core)']))

# ---- bounded "edited field reads back, others unchanged" through the real in-place set of a UINT32 field -------
for _le, _f, _codes, _tier in ((1, 5, (5, 9), 'quick'), (0, 9, (5, 9), 'quick'), (0, 5, (9, 5), 'thorough'), (1, 9, (9, 5), 'thorough'), (1, 5, (3, 5), 'quick'), (0, 9, (6, 9), 'thorough')):
    if _codes[0] in (3, 6):      # a string field (MEMBER / DESTINATION, 3 content bytes) in front of the UINT32 field
        _n, _a = skel_str(_le, 's', 3, True)
        _a += 'in_buf[16]=%d;in_buf[32]=%d;' % _codes
        _vat = 36
    else:
        _n, _a, _vat = 32, skel(_le, 32, 16, [(16, 'u'), (24, 'u')]) + 'in_buf[16]=%d;in_buf[24]=%d;' % _codes, 20 + 8 * _codes.index(_f)
    UNITS.append(dict(name='C12.set_fixed.f%d_in_%d_%d.%s%d' % (_f, _codes[0], _codes[1], 'le' if _le else 'be', _n), props=['C12', 'C14'], kind='B', route='stub',
                      tus=[dict(file=HDR, include_as='VERIF_TU'), dict(file=STR), dict(file=BASIC), dict(file=REC), dict(file=SIG)],
                      harness='harness/c12_setfixed.c', extra_sources=[ASSERT, 'stubs/c07_mem.c'], defines=['VERIF_N=%d' % _n, 'VERIF_FIELD=%d' % _f, 'VERIF_VAT=%d' % _vat, 'VERIF_HDR_ASSUME=%s' % _a],
                      replace_calls=dict(PAD_STUBS, write_basic_field='verif_nr_write_basic_field', _dbus_type_writer_init_values_only='verif_nr_writer_init_values_only',
                                         reader_set_basic_variable_length='verif_nr_set_basic_variable_length'), unwind=_n + 3, timeout=2400, tier=_tier, expect_s=30,
                      bounds={'header_bytes': _n, 'skeleton': ('little' if _le else 'big') + ' endian, two fields with codes %d,%d (first a 3-byte string if its code is 3 or 6, else UINT32; values, string content, message type, flags, serial symbolic)' % _codes,
                              'edit': 'set field %d (UINT32) that already exists: in-place branch only' % _f},
                      functions=[dict(name='_dbus_header_set_field_basic / find_field_for_modification / set_basic_field / reserve_header_padding / correct_header_padding / _dbus_header_cache_*', file=HDR, status='bounded'),
                                 dict(name='_dbus_type_reader_set_basic -> reader_set_basic_fixed_length, values reader', file=REC, status='bounded'),
                                 dict(name='_dbus_marshal_set_basic', file=BASIC, status='bounded'),
                                 dict(name='_dbus_string_lengthen/_shorten/_align_length', file=STR, status='stub', note='documented behaviour (same stubs as C12.padding.*)')],
                      assumptions=[STR_ASSUME, 'the header image is valid per the reference decoder and the cache is consistent with it (entries correct or UNKNOWN)']))


# ---- the REAL realignment core on a concrete skeleton, every allocation may fail (B): NOT REGISTERED ----------------
# Attempt of 2026-10-01 (time-boxed): C12.real_delete.* = real _dbus_header_delete_field -> _dbus_type_reader_delete ->
# replacement_block_replace -> _dbus_type_writer_write_reader_partial on a 40-byte two-field skeleton, real dbus-string.c, exact
# byte-loop memmove/memset, failing allocations (harness/c12_realdelete.c, harness/c12_realmem.h).  Measured: symbolic execution
# does not finish (200 s probe: 21 000 loop events, the typed writer re-enters writer_write_reader_helper on type codes that are
# no longer constants once an allocation may have failed: string lengths become ite(ok, new, old), block sizes symbolic, every
# memset/memmove runs its full bound).  Same obstacle as the design session's probe (DESIGN 6 C12).  C12.real_replace.* was not
# started.  The typestate units C12.block_replace.order / C12.reader_delete.result / C12.reader_set_varlen.result (c12r.py)
# cover the two seeded changes.  Set REGISTER_REAL_CORE = True to get the unit definitions back for further probing.
REGISTER_REAL_CORE = False
if REGISTER_REAL_CORE:
    LIST = 'dbus/dbus-list.c'
    REAL_REPLACE = {'memmove': 'verif_mem_memmove', 'memcpy': 'verif_mem_memcpy', 'memset': 'verif_mem_memset', 'dbus_malloc': 'verif_mem_malloc',
                    'dbus_malloc0': 'verif_mem_malloc0', 'dbus_realloc': 'verif_mem_realloc', 'dbus_free': 'verif_mem_free', 'fixup_alignment': 'verif_mem_fixup_alignment'}
    REAL_FUNCS = [dict(name='_dbus_type_reader_delete / reader_set_basic_variable_length / replacement_block_* / _dbus_type_writer_write_reader_partial / apply_and_free_fixups', file=REC, status='bounded'),
                  dict(name='_dbus_string_init/_lengthen/_replace_len/_insert_*/_delete/_free (real dbus-string.c)', file=STR, status='bounded'),
                  dict(name='_dbus_marshal_write_basic/_set_basic/_read_basic', file=BASIC, status='bounded'),
                  dict(name='memmove/memcpy/memset', file='libc', status='stub', note='exact byte loops'),
                  dict(name='dbus_malloc/dbus_realloc/dbus_free', file='dbus/dbus-memory.c', status='stub', note='each call may fail; a successful realloc grows in place (every block has room for header bytes + 24)'),
                  dict(name='fixup_alignment', file=STR, status='stub', note='align_offset stays 0 (8-aligned allocator)'),
                  dict(name='_dbus_list_append/_get_first_link/_free_link (array-length fixups)', file=LIST, status='stub', note='pool of 4 links, append may fail')]
    REAL_ASSUME = ['a successful dbus_realloc grows the block in place (every block has room for header bytes + 24); blocks are 8-aligned', 'DBusList for the fixups: pool model',
                   'the header image is valid per the reference decoder and the cache is consistent with it (entries correct or UNKNOWN)']


    def skel2(le, first, second):
        """two elements; each is (code, 'u') or (code, 's', text). Returns n, assignments, [(start, length incl. inner padding)]"""
        a = ''; off = 16; spans = []
        for code, t, *txt in (first, second):
            a += ''.join('in_buf[%d]=0;' % i for i in range(off, (off + 7) & ~7))
            off = (off + 7) & ~7
            start = off
            a += "in_buf[%d]=%d;in_buf[%d]=1;in_buf[%d]='%s';in_buf[%d]=0;" % (off, code, off + 1, off + 2, t, off + 3)
            if t == 'u':
                off += 8
            else:
                L = len(txt[0])
                a += ''.join('in_buf[%d]=%d;' % (off + 4 + i, b) for i, b in enumerate(u32(le, L)))
                a += ''.join("in_buf[%d]=%d;" % (off + 8 + i, ord(ch)) for i, ch in enumerate(txt[0])) + 'in_buf[%d]=0;' % (off + 8 + L)
                off += 8 + L + 1
            spans.append((start, off - start))
        fal = off - 16
        n = (off + 7) & ~7
        a = "in_len=%d;in_buf[0]='%s';" % (n, 'l' if le else 'B') + ''.join('in_buf[%d]=%d;' % (12 + i, b) for i, b in enumerate(u32(le, fal))) + a
        a += ''.join('in_buf[%d]=0;' % i for i in range(off, n))
        return n, a, spans


    from .c01h import u32   # noqa: E402
    for _le, _first, _second, _del, _tier in ((1, (6, 's', 'a.b'), (5, 'u'), 6, 'quick'), (0, (6, 's', 'a.b'), (5, 'u'), 5, 'quick'),
                                              (0, (5, 'u'), (6, 's', 'a.b'), 5, 'thorough'), (1, (7, 's', ':1.2'), (6, 's', 'a.b'), 7, 'thorough')):
        _n, _a, _spans = skel2(_le, _first, _second)
        _keep = 1 if _del == _first[0] else 0
        _other = (_first, _second)[_keep][0]
        UNITS.append(dict(name='C12.real_delete.f%d_in_%d_%d.%s%d' % (_del, _first[0], _second[0], 'le' if _le else 'be', _n), props=['C12', 'C14'], kind='B', route='stub',
                          tus=[dict(file=HDR, include_as='VERIF_TU'), dict(file=STR), dict(file=BASIC), dict(file=REC), dict(file=SIG)],
                          harness='harness/c12_realdelete.c', extra_sources=[ASSERT],
                          defines=['VERIF_N=%d' % _n, 'VERIF_FIELD=%d' % _del, 'VERIF_OTHER=%d' % _other, 'VERIF_KEEP_AT=%d' % _spans[_keep][0], 'VERIF_KEEP_LEN=%d' % _spans[_keep][1], 'VERIF_HDR_ASSUME=%s' % _a],
                          replace_calls=REAL_REPLACE, unwind=_n + 24 + 3, timeout=3000, tier=_tier, expect_s=300,
                          bounds={'header_bytes': _n, 'skeleton': ('little' if _le else 'big') + ' endian, fields %s then %s; field %d deleted' % (_first, _second, _del), 'allocations': 'each may fail; realloc in place'},
                          functions=[dict(name='_dbus_header_delete_field', file=HDR, status='bounded')] + REAL_FUNCS, assumptions=REAL_ASSUME))
