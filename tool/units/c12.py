"""C12 — header edits (peripheral clauses; the realignment core of dbus-marshal-recursive.c is not decided) (+ C14 failure paths)."""
HDR = 'dbus/dbus-marshal-header.c'
STR = 'dbus/dbus-string.c'
BASIC = 'dbus/dbus-marshal-basic.c'
ASSERT = 'stubs/assert_stubs.c'
UNITS = []

EDIT_STUBS = {
    '_dbus_string_get_length': 'verif_stub_string_get_length', '_dbus_header_get_byte_order': 'verif_stub_get_byte_order',
    'reserve_header_padding': 'verif_stub_reserve', 'correct_header_padding': 'verif_stub_correct',
    '_dbus_header_cache_invalidate_all': 'verif_stub_invalidate_all', 'set_basic_field': 'verif_stub_set_basic_field',
    'write_basic_field': 'verif_stub_write_basic_field', '_dbus_type_reader_delete': 'verif_stub_reader_delete',
    '_dbus_header_cache_check': 'verif_stub_cache_check', 'find_field_for_modification': 'verif_stub_find_field',
    '_dbus_type_writer_init_values_only': 'verif_stub_writer_init_values_only', '_dbus_type_writer_append_array': 'verif_stub_writer_append_array',
    '_dbus_type_writer_unrecurse': 'verif_stub_writer_unrecurse', '_dbus_type_reader_init': 'verif_stub_reader_init',
    '_dbus_type_reader_recurse': 'verif_stub_reader_recurse', '_dbus_type_reader_get_current_type': 'verif_stub_reader_get_current_type',
    '_dbus_type_reader_read_basic': 'verif_stub_reader_read_basic', '_dbus_type_reader_next': 'verif_stub_reader_next'}
EDIT_FUNCS = [
    dict(name='reserve_header_padding / correct_header_padding / _dbus_header_cache_invalidate_all', file=HDR, status='replaced', note='typestate contracts; their own contracts are enforced in C12.padding.* / C12.cache.invalidate'),
    dict(name='set_basic_field -> _dbus_type_reader_set_basic, write_basic_field, _dbus_type_reader_delete', file='dbus/dbus-marshal-recursive.c', status='stub',
         note='realignment core: requires the reserved state, may fail, moves bytes; NOT verified (measured out of reach)'),
    dict(name='_dbus_header_cache_check / find_field_for_modification', file=HDR, status='stub', note='agree on whether the field exists (cache consistency)'),
    dict(name='_dbus_type_writer_init_values_only/_append_array/_unrecurse, _dbus_type_reader_init/_recurse/_get_current_type/_read_basic/_next', file='dbus/dbus-marshal-recursive.c', status='stub',
         note='append_array/unrecurse on a values-only array writer need no memory (assumed, as the code asserts); array reader = counter of remaining elements')]
EDIT_ASSUME = ['the realignment core (set_basic_field, write_basic_field, _dbus_type_reader_delete) is an assumed contract: it needs the reserved padding, may fail, and moves bytes on success',
               'a failing edit step may or may not have moved bytes (not known)',
               'known header fields occur at most once (established by _dbus_header_load: APPEARS_TWICE)']
for fn, nm, real in ((1, 'set_field', '_dbus_header_set_field_basic'), (2, 'delete_field', '_dbus_header_delete_field'), (3, 'remove_unknown', '_dbus_header_remove_unknown_fields')):
    for c14 in (0, 1):
        u = dict(name=('C14.hdr_edit.%s' if c14 else 'C12.edit.%s') % nm, props=(['C14', 'C12'] if c14 else ['C12']), kind='P',
                 route='hybrid' if fn == 3 else 'stub',
                 tus=[dict(file=HDR, include_as='VERIF_TU', **({'overlay': 'c12_edit.ovl'} if fn == 3 else {}))],
                 harness='harness/c12_edit.c', defines=['VERIF_FN=%d' % fn, 'VERIF_C14=%d' % c14], replace_calls=EDIT_STUBS,
                 allow_skip_msg=True, timeout=600, expect_s=10,
                 must_have=(['post.C14 edit failure'] if c14 else ['edit success: cache invalidated after the last byte move']) +
                           (['Check invariant after step for loop _dbus_header_remove_unknown_fields'] if fn == 3 else []),
                 functions=[dict(name=real, file=HDR, status='enforced',
                                 contract=('FALSE => header length/padding as before the call (C14 atomicity)' if c14 else
                                           'success: reserve -> edit -> correct -> invalidate, each once per edit, in this order; failure: padding corrected (never left in the editing state), nothing moved if reserve failed'))] + EDIT_FUNCS,
                 assumptions=EDIT_ASSUME)
        UNITS.append(u)
