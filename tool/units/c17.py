"""C17 — every call awaiting a reply completes exactly once; serials non-zero and distinct until wrap (DESIGN 6 C17)."""
UNW = 'unwind 6 only covers the fixed-size loops of the ghost model (4 messages, 2 map entries) and the loop of _dbus_connection_unlock over the (empty) expired-messages list'
CONN = 'dbus/dbus-connection.c'
PC = 'dbus/dbus-pending-call.c'
SEQ = 'mutex/condvar primitives are no-ops and atomics are plain increments: sequential semantics only (no thread interleavings)'
UNITS = [
    dict(name='C17.serial', props=['C17'], kind='P', route='stub', entry='harness',
         tus=[dict(file=CONN, include_as='VERIF_TU')], harness='harness/c17_serial.c', timeout=300, expect_s=5,
         must_have=['post1 the serial handed out', 'post2 counter advances', 'lemma successive serials'],
         functions=[dict(name='_dbus_connection_get_next_client_serial', file=CONN, status='enforced', contract='old != 0 => ret == old != 0, new == (old == 0xFFFFFFFF ? 1 : old + 1); two-call lemma: distinct, increasing until wrap')],
         assumptions=['client_serial != 0 at entry (invariant; established by C17.init, preserved by post3)']),
]

RC_CONN = {'_dbus_connection_remove_timeout_unlocked': 'verif_stub_remove_timeout', '_dbus_connection_add_timeout_unlocked': 'verif_stub_add_timeout',
           '_dbus_connection_last_unref': 'verif_stub_connection_last_unref'}
F_MODEL = [dict(name='_dbus_hash_table_lookup_int/_insert_int/_remove_int/_get_n_entries', file='dbus/dbus-hash.c', status='stub', note='ghost map of <= 2 entries with the documented semantics; removal calls the REAL value free function free_pending_call_on_hash_removal'),
           dict(name='_dbus_connection_add/remove_timeout_unlocked', file=CONN, status='replaced', note='need the lock, keep it; counted'),
           dict(name='dbus_message_ref/unref/get_reply_serial/get_type', file='dbus/dbus-message.c', status='stub', note='messages are opaque objects with ghost attributes'),
           dict(name='_dbus_rmutex_*/_dbus_cmutex_*/_dbus_atomic_*', file='dbus/dbus-threads.c, dbus-sysdeps-unix.c', status='assumed', note='sequential')]
UNITS.append(dict(name='C17.complete', props=['C17'], kind='P', route='stub', entry='harness',
     tus=[dict(file=CONN, include_as='VERIF_TU'), dict(file=PC, include_as='VERIF_TU_PC')], harness='harness/c17_complete.c', extra_sources=['harness/c17_pc.c'],
     replace_calls=RC_CONN, unwind=6,
     timeout=300, expect_s=10, must_have=['post notify function called exactly once', 'post detached from pending_replies exactly once', 'dbus assertion: !pending->completed', 'dbus assertion: pending->reply == NULL'],
     functions=[dict(name='complete_pending_call_and_unlock', file=CONN, status='enforced', contract='requires lock, attached, !completed, reply == NULL, matching serial; ensures completed, detached, reply set, lock released, notified exactly once after completion+detach without the lock'),
                dict(name='_dbus_connection_detach_pending_call_and_unlock, free_pending_call_on_hash_removal, _dbus_connection_unlock, _dbus_connection_ref/unref_unlocked', file=CONN, status='inlined', note='real code'),
                dict(name='_dbus_pending_call_set_reply_unlocked/_ref_unlocked/_start_completion_unlocked/_unref_and_unlock/_finish_completion, dbus_pending_call_unref, _dbus_pending_call_last_unref', file=PC, status='inlined', note='real code; its assertions are obligations')] + F_MODEL,
     assumptions=[SEQ, 'expired_messages is empty at entry (the loop releasing expired messages in _dbus_connection_unlock is unwound completely under that precondition)']))

RC_DISPATCH = dict(RC_CONN)
RC_DISPATCH.update({'complete_pending_call_and_unlock': 'verif_stub_complete', '_dbus_connection_get_dispatch_status_unlocked': 'verif_stub_get_dispatch_status',
    '_dbus_connection_update_dispatch_status_and_unlock': 'verif_stub_update_status_and_unlock', '_dbus_connection_acquire_dispatch': 'verif_stub_acquire_dispatch',
    '_dbus_connection_release_dispatch': 'verif_stub_release_dispatch', '_dbus_connection_pop_message_link_unlocked': 'verif_stub_pop_message_link',
    '_dbus_connection_putback_message_link_unlocked': 'verif_stub_putback', '_dbus_connection_run_builtin_filters_unlocked_no_update': 'verif_stub_builtin_filters',
    '_dbus_string_append_printf': 'verif_stub_append_printf', '_dbus_connection_preallocate_send_unlocked': 'verif_stub_preallocate_send',
    '_dbus_connection_send_preallocated_unlocked_no_update': 'verif_stub_send_preallocated', 'dbus_connection_unref': 'verif_stub_connection_unref'})
F_COMPLETE_STUB = dict(name='complete_pending_call_and_unlock', file=CONN, status='replaced', note='contract enforced on the real code in C17.complete; its preconditions are obligations at this call site')
UNITS.append(dict(name='C17.dispatch', props=['C17', 'C20'], kind='B', route='stub', entry='harness',
     tus=[dict(file=CONN, include_as='VERIF_TU'), dict(file=PC, include_as='VERIF_TU_PC')], harness='harness/c17_dispatch.c', extra_sources=['harness/c17_pc.c'],
     replace_calls=RC_DISPATCH, unwind=6, unwindset=['name_is.0:62'], timeout=300, expect_s=20, bounds={'filters': 2, 'outstanding_calls': 1, 'note': UNW},
     must_have=['post1 a call is completed iff', 'post3 UnknownMethod if the object tree found the object', 'precondition of complete_pending_call_and_unlock: the call is still attached'],
     functions=[dict(name='dbus_connection_dispatch', file=CONN, status='bounded', contract='reply completes exactly the call attached under its reply serial, once, before all filters; otherwise builtin filters, filters (<= 2), object tree; untaken method call => one error: UnknownMethod iff found_object else UnknownObject; lock/dispatch typestate'),
                F_COMPLETE_STUB,
                dict(name='_dbus_object_tree_dispatch_and_unlock', file='dbus/dbus-object-tree.c', status='stub', note='needs the lock, releases it, arbitrary result and found_object (its own contract: C20.dispatch / C20.found)'),
                dict(name='_dbus_connection_get_dispatch_status_unlocked, _update_dispatch_status_and_unlock, _acquire/_release_dispatch, _pop_message_link_unlocked, _putback_message_link_unlocked, _run_builtin_filters_unlocked_no_update, _preallocate_send_unlocked, _send_preallocated_unlocked_no_update, dbus_connection_unref', file=CONN, status='replaced', note='lock / dispatch typestate contracts'),
                dict(name='_dbus_list_copy/_dbus_list_alloc_link/..., _dbus_string_*, dbus_message_new_error', file='dbus', status='stub', note='filter list copy of <= 2 built by the stub; error reply records its name')] + F_MODEL,
     assumptions=[SEQ, 'at most one outstanding call and two filters (bound)']))

RC_BLOCK = dict(RC_CONN)
RC_BLOCK.update({'complete_pending_call_and_unlock': 'verif_stub_complete', '_dbus_connection_get_dispatch_status_unlocked': 'verif_stub_get_dispatch_status',
    '_dbus_connection_update_dispatch_status_and_unlock': 'verif_stub_update_status_and_unlock', '_dbus_connection_flush_unlocked': 'verif_stub_flush',
    '_dbus_connection_do_iteration_unlocked': 'verif_stub_do_iteration', 'check_for_reply_unlocked': 'verif_stub_check_for_reply',
    '_dbus_connection_get_is_connected_unlocked': 'verif_stub_get_is_connected', 'generate_local_error_message': 'verif_stub_generate_local_error'})
F_BLOCK = [dict(name='_dbus_connection_block_pending_call', file=CONN, status='bounded', contract='returns unlocked; completed call: immediate return; outstanding call: completed exactly once (reply, timeout error or disconnect error), detached; own reference released'),
           dict(name='check_for_reply_and_update_dispatch_unlocked', file=CONN, status='inlined', note='real code'),
           F_COMPLETE_STUB,
           dict(name='check_for_reply_unlocked', file=CONN, status='replaced', note='the queued message with the given reply serial, removed from the queue, or NULL'),
           dict(name='_dbus_connection_do_iteration_unlocked', file=CONN, status='replaced', note='environment: nothing / reply queued / call completed by another dispatcher'),
           dict(name='_dbus_connection_get_dispatch_status_unlocked', file=CONN, status='replaced', note='arbitrary status; DATA_REMAINS if the reply is queued; its disconnect processing is assumed to keep calls attached (the contract that C17.disconnect enforces and finds violated)'),
           dict(name='_dbus_connection_flush_unlocked, _update_dispatch_status_and_unlock, _get_is_connected_unlocked, generate_local_error_message, _dbus_get_monotonic_time, dbus_timeout_get_interval', file=CONN, status='replaced', note='lock typestate / arbitrary values'),
           dict(name='_dbus_pending_call_* accessors, dbus_pending_call_ref/unref/get_completed', file=PC, status='inlined', note='real code')] + F_MODEL
for nm, defs, must in (('C17.block', [], ['post an outstanding call is completed exactly once']), ('C17.block_cancelled', ['VERIF_STATE_CANCELLED'], ['post a cancelled call is never completed nor notified'])):
    UNITS.append(dict(name=nm, props=['C17'], kind='B', route='stub', entry='harness', defines=defs,
         tus=[dict(file=CONN, include_as='VERIF_TU'), dict(file=PC, include_as='VERIF_TU_PC')], harness='harness/c17_block.c', extra_sources=['harness/c17_pc.c'],
         replace_calls=RC_BLOCK, unwind=6, timeout=600, expect_s=60, bounds={'blocking_iterations': 2, 'outstanding_calls': 1, 'note': 'the peer is reported disconnected at the latest at the third connectivity query; ' + UNW},
         must_have=must + ([] if defs else ['precondition of complete_pending_call_and_unlock: the call is still attached']),
         functions=F_BLOCK, assumptions=[SEQ, 'no other thread cancels the call while this one blocks (initial state cancelled is the separate unit C17.block_cancelled)',
                                        'bounded schedule: at most 2 blocking iterations']))

UNITS.append(dict(name='C17.disconnect', props=['C17'], kind='B', route='stub', entry='harness',
     tus=[dict(file=CONN, include_as='VERIF_TU'), dict(file=PC, include_as='VERIF_TU_PC')], harness='harness/c17_disconnect.c', extra_sources=['harness/c17_pc.c'],
     replace_calls=RC_CONN, unwind=6, timeout=300, expect_s=20, bounds={'outstanding_calls': 2, 'note': UNW},
     must_have=['postD after the connection closed every outstanding call'],
     functions=[dict(name='connection_timeout_and_complete_all_pending_calls_unlocked', file=CONN, status='bounded', contract='per outstanding call: timeout error queued once, timeout removed, and the call completed or still attached (completable); lock held on return'),
                dict(name='free_pending_call_on_hash_removal, _dbus_connection_queue_synthesized_message_link, _dbus_connection_lock/_unlock', file=CONN, status='inlined', note='real code'),
                dict(name='_dbus_pending_call_queue_timeout_error_unlocked/_ref_unlocked/_unref_and_unlock/...', file=PC, status='inlined', note='real code'),
                dict(name='_dbus_hash_iter_init/_next/_get_value/_remove_entry', file='dbus/dbus-hash.c', status='stub', note='iteration over the ghost map; removal calls the REAL value free function')] + F_MODEL,
     assumptions=[SEQ, 'at most two outstanding calls (bound)']))

RC_CANCEL = dict(RC_CONN)
RC_CANCEL.update({'_dbus_connection_get_dispatch_status_unlocked': 'verif_stub_get_dispatch_status', '_dbus_connection_update_dispatch_status_and_unlock': 'verif_stub_update_status_and_unlock',
                  'dbus_connection_unref': 'verif_stub_connection_unref'})
UNITS.append(dict(name='C17.cancel', props=['C17'], kind='P', route='stub', entry='harness', defines=['VERIF_FN_CANCEL'],
     tus=[dict(file=CONN, include_as='VERIF_TU'), dict(file=PC, include_as='VERIF_TU_PC')], harness='harness/c17_cancel.c', extra_sources=['harness/c17_pc.c'],
     replace_calls=RC_CONN, unwind=6, timeout=300, expect_s=10, must_have=['post a cancelled call is not notified', 'post cancelling does not complete the call'],
     functions=[dict(name='dbus_pending_call_cancel', file=PC, status='enforced', contract='detached once, not completed, no reply, never notified, timeout removed iff added, table reference dropped, other calls untouched'),
                dict(name='_dbus_connection_remove_pending_call, _dbus_connection_detach_pending_call_and_unlock, free_pending_call_on_hash_removal, _dbus_connection_lock/_unlock', file=CONN, status='inlined', note='real code')] + F_MODEL,
     assumptions=[SEQ, UNW]))
UNITS.append(dict(name='C17.timeout', props=['C17'], kind='P', route='stub', entry='harness', defines=['VERIF_FN_TIMEOUT'],
     tus=[dict(file=CONN, include_as='VERIF_TU'), dict(file=PC, include_as='VERIF_TU_PC')], harness='harness/c17_cancel.c', extra_sources=['harness/c17_pc.c'],
     replace_calls=RC_CANCEL, unwind=6, timeout=300, expect_s=10, must_have=['post the preallocated timeout error is queued exactly once', 'post the call stays attached'],
     functions=[dict(name='reply_handler_timeout', file=CONN, status='enforced', contract='timeout error queued once, call stays attached and uncompleted, timeout removed, lock and references balanced'),
                dict(name='_dbus_pending_call_get_connection_and_lock, _dbus_pending_call_queue_timeout_error_unlocked, ...', file=PC, status='inlined', note='real code'),
                dict(name='_dbus_connection_get_dispatch_status_unlocked/_update_dispatch_status_and_unlock/dbus_connection_unref', file=CONN, status='replaced', note='lock typestate')] + F_MODEL,
     assumptions=[SEQ, UNW, 'the handler runs only for an added timeout of an attached call (timeouts are removed on detach: C17.complete, C17.cancel)']))

UNITS.append(dict(name='C17.init', props=['C17'], kind='P', route='stub', entry='harness',
     tus=[dict(file=CONN, include_as='VERIF_TU')], harness='harness/c17_init.c', replace_calls={'_dbus_connection_last_unref': 'verif_stub_connection_last_unref'}, timeout=300, expect_s=10,
     must_have=['post a new connection starts with client_serial == 1'],
     functions=[dict(name='_dbus_connection_new_for_transport', file=CONN, status='enforced', contract='success => client_serial == 1, int-keyed pending_replies with free_pending_call_on_hash_removal, unlocked, refcount 1, empty queues'),
                dict(name='_dbus_watch_list_new, _dbus_timeout_list_new, _dbus_hash_table_new, dbus_malloc0, mutex/condvar constructors, dbus_message_new_signal, _dbus_list_alloc_link, _dbus_counter_new, _dbus_object_tree_new, _dbus_transport_set_connection', file='dbus', status='stub', note='each may fail independently')],
     assumptions=[SEQ]))

RC_SEND = dict(RC_CONN)
RC_SEND.update({'_dbus_connection_get_dispatch_status_unlocked': 'verif_stub_get_dispatch_status', '_dbus_connection_update_dispatch_status_and_unlock': 'verif_stub_update_status_and_unlock',
                '_dbus_connection_get_is_connected_unlocked': 'verif_stub_get_is_connected', '_dbus_connection_send_unlocked_no_update': 'verif_stub_send_unlocked_no_update'})
UNITS.append(dict(name='C17.send', props=['C17'], kind='P', route='stub', entry='harness',
     tus=[dict(file=CONN, include_as='VERIF_TU'), dict(file=PC, include_as='VERIF_TU_PC')], harness='harness/c17_send.c', extra_sources=['harness/c17_pc.c'],
     replace_calls=RC_SEND, unwind=6, timeout=300, expect_s=10, must_have=['post1 the message carries a non-zero serial', 'post1 the call is attached under', 'dbus assertion: reply_serial != 0'],
     functions=[dict(name='dbus_connection_send_with_reply', file=CONN, status='enforced', contract='success => non-zero message serial (own or minted), call attached under exactly that serial, timeout added iff present; failure => nothing attached'),
                dict(name='_dbus_connection_get_next_client_serial, _dbus_connection_attach_pending_call_unlocked, _dbus_connection_detach_pending_call_*', file=CONN, status='inlined', note='real code'),
                dict(name='_dbus_pending_call_new_unlocked, _dbus_pending_call_set_timeout_error_unlocked, ...', file=PC, status='inlined', note='real code'),
                dict(name='_dbus_connection_send_unlocked_no_update, _get_is_connected_unlocked, dispatch-status pair', file=CONN, status='replaced', note='lock typestate; send requires the serial to be set'),
                dict(name='dbus_message_get_serial/set_serial/new_error, _dbus_timeout_new, allocators', file='dbus', status='stub', note='ghost serial of the message; each allocation may fail')] + F_MODEL,
     assumptions=[SEQ, UNW, 'client_serial != 0 (invariant)', 'no other outstanding call uses the serial being assigned (distinctness until wrap: C17.serial)']))

UNITS.append(dict(name='C17.queue_received', props=['C17'], kind='P', route='stub', entry='harness',
     tus=[dict(file=CONN, include_as='VERIF_TU'), dict(file=PC, include_as='VERIF_TU_PC')], harness='harness/c17_queue.c', extra_sources=['harness/c17_pc.c'],
     replace_calls=RC_CONN, unwind=6, timeout=300, expect_s=10,
     must_have=['post pending calls are looked up under the message', 'post exactly the answered call', 'post the link is appended'],
     functions=[dict(name='_dbus_connection_queue_received_message_link', file=CONN, status='enforced', contract='appended once, n_incoming+1; lookup key is the REPLY serial (none for 0, never the own serial); only the answered call loses its timeout; nothing detached/completed/notified'),
                dict(name='_dbus_pending_call_is_timeout_added_unlocked/_get_timeout_unlocked/_set_timeout_added_unlocked', file=PC, status='inlined', note='real code'),
                dict(name='dbus_message_get_serial', file='dbus/dbus-message.c', status='stub', note='ghost own serial, different from the ghost reply serial'),
                dict(name='_dbus_transport_peek_is_authenticated, _dbus_list_append_link', file='dbus', status='stub', note='precondition TRUE; append counted')] + F_MODEL,
     assumptions=[SEQ, UNW, 'connection lock held and transport authenticated (precondition)', 'two outstanding calls with distinct non-zero serials']))
UNITS.append(dict(name='C17.pcnew', props=['C17'], kind='P', route='stub', entry='harness',
     tus=[dict(file=PC, include_as='VERIF_TU_PC')], harness='harness/c17_pcnew.c', timeout=300, expect_s=5,
     must_have=['post1 DBUS_TIMEOUT_INFINITE creates no timeout', 'post4 any other value is used as the interval EXACTLY', 'post3 -1 selects the default'],
     functions=[dict(name='_dbus_pending_call_new_unlocked', file=PC, status='enforced', contract='INFINITE => no timeout; -1 => default interval; other >= 0 => exactly that interval, given handler, call as data; fields initialised; OOM => NULL, nothing leaked'),
                dict(name='dbus_pending_call_allocate_data_slot/free_data_slot', file=PC, status='inlined', note='real wrappers'),
                dict(name='_dbus_timeout_new, _dbus_data_slot_allocator_alloc/_free, dbus_malloc0/dbus_free, _dbus_connection_ref_unlocked', file='dbus', status='stub', note='record interval/handler/data; each allocation may fail; counted')],
     assumptions=[SEQ, 'timeout_milliseconds >= 0 or == -1 (the function\'s entry assertion, precondition)']))

UNITS.append(dict(name='C17.do_iteration', props=['C17'], kind='P', route='stub', entry='harness',
     tus=[dict(file=CONN, include_as='VERIF_TU')], harness='harness/c17_doiter.c',
     replace_calls={'_dbus_connection_last_unref': 'verif_stub_connection_last_unref', '_dbus_pending_call_get_completed_unlocked': 'verif_stub_pc_completed',
                    '_dbus_pending_call_get_reply_serial_unlocked': 'verif_stub_pc_serial', '_dbus_connection_peek_for_reply_unlocked': 'verif_stub_peek_for_reply',
                    '_dbus_transport_do_iteration': 'verif_stub_transport_do_iteration'},
     unwind=6, timeout=300, expect_s=10, must_have=['post1', 'post2', 'post3', 'post5'],
     functions=[dict(name='_dbus_connection_do_iteration_unlocked', file=CONN, status='enforced', contract='transport entered only by the I/O-path holder and only if, after the lock was last re-acquired, the awaited call is neither completed nor has its reply queued; path released; lock held at exit'),
                dict(name='_dbus_connection_acquire_io_path, _dbus_connection_release_io_path, _dbus_connection_unlock, _dbus_connection_ref/unref_unlocked', file=CONN, status='inlined', note='real code'),
                dict(name='_dbus_rmutex_lock', file='dbus/dbus-threads.c', status='stub', note='environment step (rely): other threads may have completed the call / queued or taken the reply while the lock was not held'),
                dict(name='_dbus_condvar_wait, _dbus_condvar_wait_timeout', file='dbus/dbus-threads.c', status='stub', note='I/O path state arbitrary on return; the untimed wait loop is closed by an invariant cut (partial correctness)'),
                dict(name='_dbus_pending_call_get_completed_unlocked/_get_reply_serial_unlocked, _dbus_connection_peek_for_reply_unlocked, _dbus_transport_do_iteration', file='dbus/dbus-pending-call.c, ' + CONN + ', dbus/dbus-transport.c', status='stub', note='ghost shared state; lock-held preconditions checked')],
     assumptions=['rely condition on other threads: they change the awaited call only from not-completed to completed, queue or take its reply, and take or free the I/O path, and only while this thread does not hold the connection lock',
                  'termination of the untimed wait for the I/O path is not proved', 'expired_messages is empty at entry (loop of _dbus_connection_unlock unwound completely under that precondition)']))

UNITS.append(dict(name='C17.outgoing_queue', props=['C17', 'C05', 'C03'], kind='P', route='stub', entry='harness',
     tus=[dict(file=CONN, include_as='VERIF_TU')], harness='harness/c17_outq.c',
     replace_calls={'_dbus_connection_do_iteration_unlocked': 'verif_stub_do_iteration', '_dbus_connection_wakeup_mainloop': 'verif_stub_wakeup'},
     timeout=300, expect_s=10, must_have=['outq.in1', 'outq.in3', 'outq.ser1', 'outq.ord', 'outq.out2', 'outq.out4'],
     functions=[dict(name='_dbus_connection_send_preallocated_unlocked_no_update, _dbus_connection_get_message_to_send, _dbus_connection_message_sent_unlocked', file=CONN, status='enforced', contract='FIFO by construction: in at the head only, out from the end only; serial non-zero (own or next client serial), reported; locked with final serial before the write-only iteration; wake-up iff still queued'),
                dict(name='_dbus_connection_get_next_client_serial', file=CONN, status='inlined', note='real code (contract: C17.serial)'),
                dict(name='_dbus_list_prepend_link/_append_link/_get_last(_link)/_get_first(_link)/_unlink', file='dbus/dbus-list.c', status='stub', note='which end of which list is used is the obligation'),
                dict(name='_dbus_connection_do_iteration_unlocked, _dbus_connection_wakeup_mainloop', file=CONN, status='replaced', note='arguments logged; the iteration may drain the queue (contract: C17.do_iteration)'),
                dict(name='dbus_message_ref/get_serial/set_serial/lock, _dbus_message_add_counter_link/_remove_counter, dbus_free', file='dbus/dbus-message.c', status='stub', note='ghost serial; counted and ordered')],
     assumptions=[SEQ, 'client_serial != 0 (invariant)']))

UNITS.append(dict(name='C17.incoming_queue', props=['C17', 'C05', 'C11'], kind='P', route='stub', entry='harness',
     tus=[dict(file=CONN, include_as='VERIF_TU')], harness='harness/c17_inq.c',
     replace_calls={'_dbus_connection_wakeup_mainloop': 'verif_stub_wakeup', 'check_disconnected_message_arrived_unlocked': 'verif_stub_check_disconnected_arrived'},
     timeout=300, expect_s=10, must_have=['inq.out2', 'inq.back', 'inq.in'],
     functions=[dict(name='_dbus_connection_pop_message_link_unlocked, _dbus_connection_putback_message_link_unlocked, _dbus_connection_queue_synthesized_message_link', file=CONN, status='enforced', contract='in at the end only, out from the front only, put back to the front; n_incoming counts'),
                dict(name='_dbus_list_pop_first_link/_prepend_link/_append_link/...', file='dbus/dbus-list.c', status='stub', note='which end of the incoming queue is used is the obligation'),
                dict(name='check_disconnected_message_arrived_unlocked, _dbus_connection_wakeup_mainloop', file=CONN, status='replaced', note='no effect on the queue')],
     assumptions=[SEQ]))
