"""Cross-property wiring (loaded last): units written for one property that also decide a clause of another.
Each entry was added because an independently seeded change to that other property is caught by the unit
(see seeded/RESULTS.md)."""
import importlib
import pkgutil
import os

UNITS = []
EXTRA_PROPS = {
    'C07.recipients.r2c3': ['C05'],        # addressed recipient listed twice = duplicate delivery (seed C05-2)
    'C07.recipients.r3c3': ['C05'],
    'C13.complete': ['C10'],               # accept gate not re-evaluated after Hello = bus stops accepting (seed C10-1 / C13-2)
    'C07.tokenize.safety': ['C10'],        # token array overrun = daemon abort from one AddMatch (seed C10-2)
    'C12.edit.remove_unknown': ['C03'],    # unknown header fields really removed (seed C03-1)
    'C12.edit.delete_field': ['C02'],      # stale header cache after deleting a field (seed C02-2)
    'C12.edit.set_field': ['C02', 'C05', 'C03'],   # the bus stamps the sender and then routes on DESTINATION read through the field cache (seed3 C05-2)
    'C07.match': ['C18'],                  # a monitor's destination= filter (seed C18-2)
    'C07.match.nonempty': ['C18'],
    'C04.swap_owner.restore': ['C14'],
    'C04.remove_owner.restore': ['C14'],
    'C04.driver_list_queued_owners': ['C10'],   # a client must not be able to grow the bus (defect fixed in /repo: ListQueuedOwners leak)
    'C06.cfg_e3': ['C09'], 'C06.cfg_e9': ['C09'],   # the parser keeps the default "allow rules admit only requested replies" (seed3 C09-1)
    'C19.service_created_n3': ['C10'], 'C19.try_send_failure_n3': ['C10'],   # nothing is sent to a requester that hung up: its connection data is gone (seed3 C10-2: abort)
    'C04.acquire_table': ['C03'],          # a unique name can never be requested, whether or not it currently exists (seed3 C03-5)
    'C05.matches': ['C09'],                # no pending-reply slot for a call refused for lack of fd passing (defect fixed in /repo)
    'C15.load_message_fds': ['C14', 'C01'],    # validator OOM is not corruption (defect 45e1f98)
    'C06.reload': ['C14', 'C19'],            # reload must keep the activation object with its pending activations (seed3 C19-1)
    'C01.hdr.load': ['C03', 'C12'],               # a known field code treated as unknown is never stripped (seed2 C03-2)
    'C06.gate': ['C05', 'C10', 'C13', 'C09'],            # C10: outgoing-queue limit not applied to match-rule recipients (seed2 C10-3)                   # refused call leaves a reply slot -> second error reply later (seed2 C05-1)
    'C12.lengths': ['C05', 'C02'],         # body length rewritten in the wrong byte order when the bus re-locks a forwarded message (seed2 C05-2)
    'C09.expect_reply': ['C13', 'C14'],    # pending-reply limit counted per callee (seed2 C13-2)
    'C09.check_reply': ['C14'],            # slot unlinked before the fallible hook allocations (seed2 C14-2)
    'C07.driver.remove_match': ['C14'],
    'C12.flags': ['C02'],                  # clearing one header flag clears the others (seed2 C02-4)
    'C01.hdr.field': ['C09'],              # REPLY_SERIAL 0 accepted: a reply that the gate does not recognise as one (seed2 C09-4)
    'C15.load_message_fds': ['C10', 'C11'],  # fd count compared with the wrong quantity: daemon crash / chunk-dependent corruption (seed2 C10-4, C11-3)
    'C15.load_message_fds_atomic': ['C10', 'C11'],
    'C10.do_reading.bytes': ['C11'],
    'C07.parse': ['C16'],                  # each match-rule key validated by the grammar the specification names (seed2 C16-4)
    'C11.F4.loader_buffer': ['C15'],       # read-size hint while fds are pending (seed2 C15-4)
    'C11.F4.loader_buffer_full': ['C15'],       # read-size hint ignored (seed2 C11-4)    # rule removed before the ack is staged (seed2 C14-1)
}
# loop-free units that take ~1 s: a short timeout so that the 'function grew a loop' retry (tool/core.py) starts early
TIMEOUT = {'C12.edit.set_field': 120, 'C14.hdr_edit.set_field': 120, 'C12.edit.delete_field': 120, 'C14.hdr_edit.delete_field': 120}
# C07.tokenize carries the grammar clause post6 (known finding of C07); its safety obligations are those of C07.tokenize.safety
REMOVE_PROPS = {'C07.tokenize': ['C10']}
QUICK = ['C04.swap_owner.restore']          # moved to the quick tier (95 s): rollback of a replacement (seed C14-2)

_here = os.path.dirname(__file__)
for _m in sorted(f[:-3] for f in os.listdir(_here) if f.endswith('.py') and not f.startswith('_') and f != 'zz_cross.py'):
    _mod = importlib.import_module('tool.units.' + _m)
    for _u in _mod.UNITS:
        for _p in EXTRA_PROPS.get(_u['name'], []):
            if _p not in _u['props']:
                _u['props'] = list(_u['props']) + [_p]
        for _p in REMOVE_PROPS.get(_u['name'], []):
            _u['props'] = [x for x in _u['props'] if x != _p]
        if _u['name'] in QUICK:
            _u['tier'] = 'quick'
        if _u['name'] in TIMEOUT:
            _u['timeout'] = TIMEOUT[_u['name']]
