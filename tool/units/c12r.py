"""C12/C14 — typestate contracts on the realignment core of header edits (dbus-marshal-recursive.c): order of the writes
into the message relative to the fallible steps, and truthful out-of-memory reporting."""
REC = 'dbus/dbus-marshal-recursive.c'
UNITS = []
_F_STUBS = [dict(name='_dbus_type_writer_write_reader_partial', file=REC, status='stub', note='may fail part-way (fixups possibly already recorded); on success the realign reader stands at the end of the copied region'),
            dict(name='_dbus_string_replace_len, _dbus_string_set_length, _dbus_string_get_length', file='dbus/dbus-string.c', status='stub', note='replace may fail leaving the destination unchanged (enforced on the real code by C14.str.replace_len.*)'),
            dict(name='apply_and_free_fixups, free_fixups', file=REC, status='replaced', note='counted and ordered')]
UNITS.append(dict(name='C12.block_replace.order', props=['C12', 'C14'], kind='P', route='stub', entry='harness', defines=['VERIF_MODE=1'],
    tus=[dict(file=REC, include_as='VERIF_TU')], harness='harness/c12r_block.c',
    replace_calls={'_dbus_string_get_length': 'verif_stub_get_length', '_dbus_type_writer_init_values_only': 'verif_stub_writer_init_values_only',
                   '_dbus_type_writer_write_reader_partial': 'verif_stub_write_reader_partial', '_dbus_string_replace_len': 'verif_stub_replace_len',
                   'apply_and_free_fixups': 'verif_stub_apply_fixups', 'free_fixups': 'verif_stub_free_fixups', '_dbus_string_set_length': 'verif_stub_set_length'},
    timeout=300, expect_s=5, must_have=['blk.post1', 'blk.post3', 'blk.post4', 'blk.post7'],
    functions=[dict(name='replacement_block_replace', file=REC, status='enforced', contract='one replace of exactly the realigned region, fixups applied once and only after every fallible step succeeded; FALSE => message untouched, fixups released, block cut back')] + _F_STUBS,
    assumptions=[]))
_RC23 = {'replacement_block_init': 'verif_stub_block_init', 'replacement_block_replace': 'verif_stub_block_replace', 'replacement_block_free': 'verif_stub_block_free',
         '_dbus_type_writer_init_values_only': 'verif_stub_writer_init_values_only', '_dbus_string_get_length': 'verif_stub_get_length', '_dbus_type_writer_write_basic': 'verif_stub_write_basic'}
for _m, _nm, _fn, _must in ((2, 'reader_delete.result', '_dbus_type_reader_delete', ['del.post1']), (3, 'reader_set_varlen.result', 'reader_set_basic_variable_length', ['set.post1', 'set.post2'])):
    UNITS.append(dict(name='C12.' + _nm, props=['C12', 'C14'], kind='P', route='stub', entry='harness', defines=['VERIF_MODE=%d' % _m],
        tus=[dict(file=REC, include_as='VERIF_TU')], harness='harness/c12r_block.c', replace_calls=_RC23,
        timeout=300, expect_s=5, must_have=_must,
        functions=[dict(name=_fn, file=REC, status='enforced', contract='TRUE iff every fallible step succeeded; block initialised once, freed exactly once iff initialised'),
                   dict(name='replacement_block_init/_replace/_free', file=REC, status='replaced', note='each may fail (OOM); replace contract enforced by C12.block_replace.order'),
                   dict(name='_dbus_type_writer_write_basic, _dbus_type_writer_init_values_only', file=REC, status='stub', note='may fail; arguments checked')],
        assumptions=[]))
UNITS.append(dict(name='C12.writer_append_array', props=['C12', 'C02'], kind='P', route='plain', entry='harness',
    tus=[dict(file=REC, include_as='VERIF_TU'), dict(file='dbus/dbus-string.c'), dict(file='dbus/dbus-marshal-basic.c'), dict(file='dbus/dbus-signature.c')],
    harness='harness/c12r_append.c', extra_sources=['stubs/assert_stubs.c', 'stubs/c07_mem.c'], unwind=26, timeout=600, expect_s=20,
    must_have=['app.post1', 'app.post2', 'app.post4'],
    functions=[dict(name='_dbus_type_writer_append_array, writer_recurse_init_and_check, writer_recurse_array (append branch), _dbus_type_writer_init_values_only', file=REC, status='enforced', contract='sub-writer at start + length word decoded in the header byte order; header bytes untouched'),
               dict(name='_dbus_string_get_const_udata_len/_get_byte, _dbus_unpack_uint32, _dbus_type_get_alignment, _dbus_first_type_in_signature', file='dbus/dbus-string.c, dbus/dbus-marshal-basic.c', status='inlined', note='real code')],
    assumptions=['loops only over the constant 24-byte image and the 11-byte signature (unwound completely: not a bound on the input)']))
