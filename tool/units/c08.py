"""C08 — a server-side peer counts as authenticated only after a valid SASL exchange (also C10, C11 parts).

Layout (harness/c08_*.c, spec/auth_states.h):
  P-stub units on dbus/dbus-auth.c   state handlers == specification's server state diagram; reply writers; parsers; the three
                                     mechanisms; process_command; _dbus_auth_do_work (induction carried by the callee contract)
  P-stub units on dbus-transport*.c  admission (_dbus_transport_try_to_authenticate), hand-over of leftover bytes, I/O guards
  B units on real dbus-string.c / dbus-credentials.c   byte-exact line framing, hex decoder, credential set semantics
Every static callee replaced in one unit is the function under contract of another unit (see `functions` notes).
"""
AUTH = 'dbus/dbus-auth.c'
TU = [dict(file=AUTH, include_as='VERIF_TU')]

A_STR = 'DBusString functions are replaced by their documented contracts on a length-only model (harness/c08_model.h); dbus-string.c itself is exercised by the B units C08.b_*'
A_CRED = 'DBusCredentials functions are replaced by the set semantics of their doc comments (harness/c08_model.h): add_credential(s) merge, are_superset, are_anonymous, same_user, clear'
A_RETRY = ('A-retry: while an out-of-memory return has left verified partial results behind (ghost g_dirty), the next command handled is the '
           'same command again (C08.process_command proves that a FALSE return leaves the incoming buffer untouched)')
A_SELF = 'the server process has a user identity (_dbus_credentials_new_from_current_process is never anonymous)'

UNITS = []


def stub_unit(name, harness, fn, replace, contract, defines=None, props=('C08', 'C10'), must=(), extra_fn=(), assumptions=(), expect_s=10, **kw):
    u = dict(name='C08.' + name, props=list(props), kind='P', route='stub', tus=TU, harness=harness,
             replace_calls={k: 'verif_stub_' + v for k, v in replace.items()},
             defines=list(defines or []), timeout=600, expect_s=expect_s, must_have=list(must),
             functions=[dict(name=fn, file=AUTH, status='enforced', contract=contract)] + list(extra_fn),
             assumptions=[A_STR] + list(assumptions))
    u.update(kw)
    UNITS.append(u)


SEND_STUBS = [dict(name='send_error / send_rejected / send_agree_unix_fd', file=AUTH, status='replaced', note='contracts proved in C08.send_error, C08.send_rejected, C08.send_agree'),
              dict(name='handle_auth / process_data', file=AUTH, status='replaced', note='contracts proved in C08.handle_auth, C08.process_data')]
HANDLER_REPL = {'send_error': 'send_error', 'send_rejected': 'send_rejected', 'handle_auth': 'handle_auth',
                'process_data': 'process_data', 'send_agree_unix_fd': 'send_agree_unix_fd'}
HANDLER_CONTRACT = ('for every command value: (next state, reply) == specification server state diagram (spec/auth_states.h); AUTH_INV kept; '
                    'FALSE (OOM) changes nothing; failures+1 exactly on REJECTED; WaitingForBegin only via OK; Authenticated only via BEGIN in WaitingForBegin')
for n, st, fn in ((1, 'st_auth', 'handle_server_state_waiting_for_auth'), (2, 'st_data', 'handle_server_state_waiting_for_data'),
                  (3, 'st_begin', 'handle_server_state_waiting_for_begin')):
    stub_unit(st, 'harness/c08_states.c', fn, HANDLER_REPL, HANDLER_CONTRACT, defines=['VERIF_STATE=%d' % n],
              must=['next state is the one the specification', 'reply is the one the specification', 'AUTH_INV preserved'],
              extra_fn=SEND_STUBS, assumptions=[A_CRED, A_RETRY, A_SELF])

# ---- reply writers (real code on the DBusString contract model) ----
SEND = [
    (1, 'send_error', 'send_error', 'P', 'TRUE => exactly one ERROR line appended; FALSE => nothing; conversation state untouched'),
    (2, 'send_ok', 'send_ok', 'P', 'TRUE => one OK line and state WaitingForBegin (the only writer of that state besides send_agree_unix_fd, which keeps it); FALSE => outgoing restored'),
    (3, 'send_data', 'send_data', 'P', 'TRUE => exactly one DATA line; FALSE => outgoing restored; state untouched'),
    (4, 'send_agree', 'send_agree_unix_fd', 'P', 'requires WaitingForBegin and fd passing possible; one AGREE_UNIX_FD line; state stays WaitingForBegin'),
    (5, 'send_rejected', 'send_rejected', 'W', 'TRUE => one REJECTED line with the allowed mechanisms, failures+1, identity and mechanism cleared, WaitingForAuth or NeedDisconnect at the maximum; FALSE => nothing changed'),
    (6, 'shutdown_mech', 'shutdown_mech', 'P', 'identity string, authorized and desired credentials cleared; mechanism shutdown hook run; mech = NULL'),
]
for n, nm, fn, kind, contract in SEND:
    stub_unit(nm, 'harness/c08_send.c', fn, {}, contract, defines=['VERIF_FN=%d' % n], must=[fn + ':'],
              assumptions=[A_CRED], kind=kind,
              **(dict(unwindset=['send_rejected.0:5'], bounds={'mechanism_table_entries': 3, 'note': 'the only loop runs over the constant 3-entry table all_mechanisms[]; complete unwinding, unwinding assertion checked'}) if kind == 'W' else {}))

# ---- parsers ----
stub_unit('handle_auth', 'harness/c08_parse.c', 'handle_auth',
          {'send_rejected': 'send_rejected', 'process_data': 'process_data_counted', 'find_mech': 'find_mech'},
          'AUTH without arguments / with a name that is not a valid mechanism => REJECTED and no mechanism consulted; valid mechanism => its data function gets the initial response once; FALSE changes nothing; AUTH_INV',
          defines=['VERIF_FN=1'], must=['handle_auth:', 'AUTH_INV preserved'], assumptions=[A_CRED, A_RETRY, A_SELF],
          extra_fn=[dict(name='find_mech', file=AUTH, status='replaced', note='contract proved in C08.find_mech'),
                    dict(name='process_data / send_rejected', file=AUTH, status='replaced', note='contracts proved in C08.process_data, C08.send_rejected')])
stub_unit('process_data', 'harness/c08_parse.c', 'process_data', {'send_error': 'send_error'},
          'argument not entirely hex => ERROR, mechanism not consulted, conversation unchanged; hex => mechanism data function called exactly once on the decoded bytes; FALSE changes nothing',
          defines=['VERIF_FN=2'], must=['process_data:', 'AUTH_INV preserved'], assumptions=[A_CRED, A_RETRY, A_SELF],
          extra_fn=[dict(name='<mechanism>.server_data_func', file=AUTH, status='replaced', note='generic MECH(RESP) contract c08_mech_contract, proved per mechanism in C08.ext / C08.anon / C08.sha1_*'),
                    dict(name='_dbus_string_hex_decode', file='dbus/dbus-string.c', status='stub', note='contract; the real decoder is the B unit C08.b_hex')])
stub_unit('find_mech', 'harness/c08_parse.c', 'find_mech', {},
          'NULL if the allowed list exists and lacks the name; else the table entry whose name equals the argument; else NULL',
          defines=['VERIF_FN=3'], must=['find_mech:'], kind='W', unwindset=['find_mech.0:5'],
          bounds={'mechanism_table_entries': 3, 'note': 'loop over the constant table all_mechanisms[]; complete unwinding'})
stub_unit('lookup_command', 'harness/c08_parse.c', 'lookup_command_from_name', {},
          'returns the enum member whose protocol name in the specification equals the word, UNKNOWN iff none does',
          defines=['VERIF_FN=4'], must=['lookup:'], kind='W', unwindset=['lookup_command_from_name.0:11'],
          bounds={'command_table_entries': 9, 'note': 'loop over the constant table auth_command_names[]; complete unwinding'})

# ---- mechanisms ----
A_KEYRING = 'keyring functions (_dbus_keyring_new_for_credentials, _get_best_key, _get_hex_key, _is_for_credentials): arbitrary results of the documented shape; cookie files are not modelled'
A_SHA = '_dbus_sha_compute is SHA-1 (returns a 40-character digest); _dbus_generate_random_bytes is random'
A_USERDB = '_dbus_credentials_add_from_user: parses a uid / looks up a login name; adds some uid or fails'
MECH_REPL = {'send_ok': 'send_ok_ev', 'send_rejected': 'send_rejected', 'send_data': 'send_data'}
MECH_FN = [dict(name='send_ok / send_rejected / send_data', file=AUTH, status='replaced', note='contracts proved in C08.send_ok, C08.send_rejected, C08.send_data; send_ok requires the evidence ghost of the success site')]
stub_unit('ext', 'harness/c08_mech.c', 'handle_server_data_external_mech', MECH_REPL,
          'MECH(RESP) contract; OK only under _dbus_credentials_are_superset(socket, desired)==TRUE with an unchanged desired identity; granted identity names a user and lies within the socket credentials; anonymous socket => REJECTED',
          defines=['VERIF_FN=1'], must=['EXTERNAL:', 'mechanism:', 'AUTH_INV preserved'], assumptions=[A_CRED, A_RETRY, A_SELF, A_USERDB], extra_fn=MECH_FN)
stub_unit('anon', 'harness/c08_mech.c', 'handle_server_data_anonymous_mech', MECH_REPL,
          'MECH(RESP) contract; never CONTINUE; OK grants an identity without any user identity (so the transport admits it only under allow_anonymous, C08.try_auth); invalid UTF-8 trace => REJECTED',
          defines=['VERIF_FN=2'], must=['ANONYMOUS:', 'mechanism:', 'AUTH_INV preserved'], assumptions=[A_CRED, A_RETRY, A_SELF], extra_fn=MECH_FN)
stub_unit('sha1_first', 'harness/c08_mech.c', 'handle_server_data_cookie_sha1_mech + sha1_handle_first_client_response', MECH_REPL,
          'MECH(RESP) contract; never OK; CONTINUE only for the user owning the server process with keyring, cookie id >= 0 and a fresh 16-byte random challenge',
          defines=['VERIF_FN=3'], must=['DBUS_COOKIE_SHA1 step 1:', 'mechanism:', 'AUTH_INV preserved'], assumptions=[A_CRED, A_RETRY, A_SELF, A_USERDB, A_KEYRING, A_SHA], extra_fn=MECH_FN)
stub_unit('sha1_second', 'harness/c08_mech.c', 'handle_server_data_cookie_sha1_mech + sha1_handle_second_client_response',
          dict(MECH_REPL, sha1_compute_hash='sha1_compute_hash'),
          'MECH(RESP) contract; never CONTINUE; OK only if _dbus_string_equal(client hash, correct non-empty hash)==TRUE with the hash of (cookie_id, our challenge, client challenge); granted user = user of step 1',
          defines=['VERIF_FN=4'], must=['DBUS_COOKIE_SHA1 step 2:', 'mechanism:', 'AUTH_INV preserved'], assumptions=[A_CRED, A_RETRY, A_SELF, A_KEYRING, A_SHA],
          extra_fn=MECH_FN + [dict(name='sha1_compute_hash', file=AUTH, status='replaced', note='contract proved in C08.sha1_hash')])
stub_unit('sha1_hash', 'harness/c08_mech.c', 'sha1_compute_hash', {},
          'text handed to _dbus_sha_compute is server challenge ":" client challenge ":" cookie; unknown cookie id => TRUE with empty hash; temporaries freed',
          defines=['VERIF_FN=5'], must=['sha1_compute_hash:'], assumptions=[A_KEYRING, A_SHA], props=('C08',))

# ---- line framing ----
ALL_HANDLERS = ['handle_server_state_waiting_for_auth', 'handle_server_state_waiting_for_data', 'handle_server_state_waiting_for_begin',
                'handle_client_state_waiting_for_data', 'handle_client_state_waiting_for_ok', 'handle_client_state_waiting_for_reject',
                'handle_client_state_waiting_for_agree_unix_fd']
stub_unit('process_command', 'harness/c08_cmd.c', 'process_command',
          dict({h: 'state_handler' for h in ALL_HANDLERS}, send_error='send_error', lookup_command_from_name='lookup_command'),
          'no CRLF => FALSE, nothing changes; TRUE => exactly line+CRLF consumed from the front; FALSE => buffer untouched, needed_memory; non-ASCII => ERROR and no handler; handler at most once with looked-up command; AUTH_INV',
          defines=['VERIF_FN=1'], props=('C08', 'C10', 'C11'), must=['process_command:', 'AUTH_INV preserved'], assumptions=[A_CRED, A_SELF],
          extra_fn=[dict(name='auth->state->handler (7 state handlers)', file=AUTH, status='replaced', note='generic handler contract c08_handler_contract = what C08.st_auth/st_data/st_begin prove; client handlers unreachable on the server side'),
                    dict(name='lookup_command_from_name', file=AUTH, status='replaced', note='contract proved in C08.lookup_command')])
stub_unit('unused', 'harness/c08_cmd.c', '_dbus_auth_get_unused_bytes / _dbus_auth_delete_unused_bytes / _dbus_auth_get_bytes_to_send / _dbus_auth_bytes_sent', {},
          'leftover bytes are handed out / dropped only in a terminal state and are the incoming buffer itself; outgoing loses exactly the written prefix; conversation state untouched',
          defines=['VERIF_FN=3'], props=('C08', 'C11'), must=['get_unused_bytes:', 'delete_unused_bytes:'], assumptions=[A_CRED, A_SELF])
stub_unit('do_work', 'harness/c08_cmd.c', '_dbus_auth_do_work', {'process_command': 'process_command_ind'},
          'loop invariant AUTH_INV + buffer accounting (base and inductive step asserted in the callee contract); AUTHENTICATED only in state Authenticated with nothing left to send; >16384 buffered => NeedDisconnect, nothing processed; terminal state => nothing processed; bytes leave incoming only as whole lines; nothing processed after BEGIN',
          defines=['VERIF_FN=2'], props=('C08', 'C10', 'C11'),
          must=['do_work:', 'AUTH_INV preserved', 'loop invariant holds after the first command', 'loop invariant is preserved by one more command'],
          assumptions=[A_CRED, A_SELF], unwindset=['_dbus_auth_do_work.0:3'], cbmc_flags=['--unwinding-assertions'],
          extra_fn=[dict(name='process_command', file=AUTH, status='replaced', note='contract proved in C08.process_command; the induction over loop iterations is carried by verif_stub_process_command_ind (havoc to LOOP_INV, step check, assume false), because CBMC loop contracts cannot dereference the havocked auth->state')])

# ---- transport: admission and hand-over of leftover bytes ----
TR = [dict(file='dbus/dbus-transport.c', include_as='VERIF_TU')]
A_AUTHOBJ = ('the DBusAuth object is seen through its contracts: _dbus_auth_do_work returns AUTHENTICATED only in state Authenticated (C08.do_work), '
             '_dbus_auth_get_identity returns the authorized identity, which is empty before authentication (AUTH_INV 3), unused-bytes accessors as in C08.unused')


def tr_unit(name, fn, n, contract, props, must, extra_assume=()):
    UNITS.append(dict(name='C08.' + name, props=list(props), kind='P', route='stub', tus=TR, harness='harness/c08_transport.c', defines=['VERIF_FN=%d' % n],
                      replace_calls={'_dbus_transport_disconnect': 'verif_stub_transport_disconnect'}, timeout=600, expect_s=10, must_have=list(must),
                      functions=[dict(name=fn, file='dbus/dbus-transport.c', status='enforced', contract=contract),
                                 dict(name='_dbus_transport_disconnect', file='dbus/dbus-transport.c', status='replaced', note='contract: afterwards transport->disconnected; the vtable hook is not modelled'),
                                 dict(name='_dbus_auth_*', file=AUTH, status='stub', note=A_AUTHOBJ)],
                      assumptions=[A_STR, A_CRED, A_SELF, A_AUTHOBJ] + list(extra_assume)))


tr_unit('try_auth', '_dbus_transport_try_to_authenticate + auth_via_unix_user_function + auth_via_windows_user_function + auth_via_default_rules', 1,
        'authenticated set only after do_work==AUTHENTICATED and, on the server, after the user function or the default rule (root / same user / allow_anonymous) admitted the authorized identity; anonymous identity only under allow_anonymous; refusal => disconnect; ref/lock balanced',
        ('C08',), ['try_to_authenticate:'], ['the application callbacks return an arbitrary verdict'])
tr_unit('identity', '_dbus_transport_get_credentials + _dbus_transport_get_unix_user + _dbus_transport_get_unix_process_id', 4,
        'answers come from the authorized identity of the auth conversation only, and only after authentication',
        ('C08',), ['identity:'])
tr_unit('recover', 'recover_unused_bytes', 2,
        'TRUE => the unused handshake bytes were appended to the end of the loader buffer and then deleted from the auth object, once; FALSE => they stay where they were',
        ('C08', 'C11'), ['recover_unused_bytes:'])
tr_unit('dispatch_status', '_dbus_transport_get_dispatch_status', 3,
        'the loader frames messages only when authenticated and after the unused bytes were recovered; recovery at most once per transport',
        ('C08', 'C11'), ['get_dispatch_status:'])

# ---- socket transport: no message I/O before authentication; handshake bytes go to the auth conversation only ----
SOCK = [dict(file='dbus/dbus-transport-socket.c', include_as='VERIF_TU')]
A_TRYAUTH = '_dbus_transport_try_to_authenticate is replaced by its result (contract proved in C08.try_auth); socket and errno functions return arbitrary results of the documented shape'
for n, nm, fn, contract, must in (
        (1, 'io_guard.read', 'do_reading', 'try_to_authenticate == FALSE => TRUE, no loader buffer, no socket read, no decode, no buffer changes', ['unauthenticated:']),
        (2, 'io_guard.write', 'do_writing', 'try_to_authenticate == FALSE => TRUE, no message taken from the queue, no socket write, no encode', ['unauthenticated:']),
        (3, 'auth_io.read', 'read_data_into_auth', 'one socket read of at most max_bytes_read_per_iteration into the auth buffer (get/return paired), never the loader; EOF/hard error => disconnect; ENOMEM => *oom', ['read_data_into_auth:']),
        (4, 'auth_io.write', 'write_data_from_auth', 'exactly the pending auth bytes are offered; exactly the written count is removed', ['write_data_from_auth:'])):
    UNITS.append(dict(name='C08.' + nm, props=['C08', 'C10'] if n <= 2 else ['C08', 'C11'], kind='P', route='stub', tus=SOCK, harness='harness/c08_socket.c',
                      defines=['VERIF_FN=%d' % n], timeout=600, expect_s=10, must_have=must,
                      functions=[dict(name=fn, file='dbus/dbus-transport-socket.c', status='enforced', contract=contract),
                                 dict(name='_dbus_transport_try_to_authenticate', file='dbus/dbus-transport.c', status='stub', note='result only; contract proved in C08.try_auth'),
                                 dict(name='_dbus_read_socket / _dbus_write_socket* / errno predicates', file='dbus/dbus-sysdeps-unix.c', status='assumed', note='kernel I/O: arbitrary result in range')],
                      assumptions=[A_STR, A_TRYAUTH] + (['only the unauthenticated case is the subject: the loops behind the guard are unreachable then (their unwinding assertions hold vacuously); '
                                                          '--unwind 2 is given only so that a removed guard yields a violation instead of a non-terminating run'] if n <= 2 else []),
                      **(dict(unwind=2) if n <= 2 else {})))

# ---- bounded stand-ins on the REAL dbus-string.c ----
STRTU = dict(file='dbus/dbus-string.c')
B_HANDLERS = dict({h: 'verif_stub_handler_b' for h in ALL_HANDLERS}, send_error='verif_stub_send_error_b', fixup_alignment='verif_stub_fixup_alignment')
A_ALIGN = 'platform fact (DESIGN 3.5): allocator blocks are 8-aligned, so fixup_alignment of dbus-string.c never shifts the text (bound to that statement with --replace-calls)'


def bline(name, n, defines, tier, extra_assume, expect):
    UNITS.append(dict(name='C08.' + name, props=['C08', 'C10', 'C11'], kind='B', route='stub', tus=[dict(file=AUTH, include_as='VERIF_TU'), STRTU],
                      harness='harness/c08_bline.c', extra_sources=['stubs/c08_mem.c'], defines=['VERIF_N=%d' % n, 'VERIF_MEM_CAP=%d' % (n + 8)] + defines,
                      replace_calls=B_HANDLERS, unwind=max(n + 3, 20), timeout=1500, expect_s=expect, tier=tier,
                      must_have=['b_cmdline:'], bounds={'incoming_bytes': n, 'note': 'all byte contents and lengths 0..%d of the incoming buffer; loops of dbus-string.c and of the command table completely unwound' % n},
                      functions=[dict(name='process_command + lookup_command_from_name', file=AUTH, status='bounded', contract='byte-exact line framing against a reference splitter written from the specification'),
                                 dict(name='_dbus_string_find/_copy_len/_validate_ascii/_find_blank/_skip_blank/_delete/_move/_equal_c_str/...', file='dbus/dbus-string.c', status='bounded', note='real code, no assertion of the library may fail'),
                                 dict(name='state handlers, send_error', file=AUTH, status='replaced', note='record what they are given; covered by the P units')],
                      assumptions=['dbus_malloc family = CBMC allocator with constant block capacity, never failing in this unit (stubs/c08_mem.c)', A_ALIGN] + extra_assume))


bline('b_cmdline', 8, [], 'quick', [], 120)
UNITS.append(dict(name='C08.b_hex', props=['C08', 'C10'], kind='B', route='stub', tus=[STRTU], harness='harness/c08_bhex.c', extra_sources=['stubs/c08_mem.c'],
                  defines=['VERIF_N=8', 'VERIF_MEM_CAP=16'], replace_calls={'fixup_alignment': 'verif_stub_fixup_alignment'}, unwind=12, timeout=1500, expect_s=60,
                  must_have=['hex_decode:'], bounds={'source_bytes': 8, 'note': 'every content of 0..8 source bytes; all loops completely unwound'},
                  functions=[dict(name='_dbus_string_hex_decode', file='dbus/dbus-string.c', status='bounded', contract='end = first non-hex byte; byte k = 16*digit(2k)+digit(2k+1); source untouched; no library assertion fails')],
                  assumptions=['dbus_malloc family = CBMC allocator with constant block capacity, never failing in this unit (stubs/c08_mem.c)', A_ALIGN]))
for ngb in (-1, 1, 2):
    UNITS.append(dict(name='C08.cred.g%d' % max(ngb, 0), props=['C08'], kind='B', route='plain', tus=[dict(file='dbus/dbus-credentials.c', include_as='VERIF_TU')], harness='harness/c08_cred.c', defines=['VERIF_NGB=%d' % ngb],
                      unwind=20, timeout=900, expect_s=60, must_have=['cred:'],
                      bounds={'group_ids_of_the_merged_object': max(ngb, 0), 'label_and_sid_chars': 2, 'note': 'all values of uid/pid, <= 2 group ids, <= 2-character label and SID, no ADT audit data; allocation may fail at every call'},
                      functions=[dict(name='_dbus_credentials_are_superset/_are_anonymous/_are_empty/_same_user/_include/_get_unix_uid/_add_credential/_add_credentials/_clear', file='dbus/dbus-credentials.c', status='bounded',
                                      contract='the set semantics of the doc comments = the contracts the C08 P units assume for these functions (harness/c08_model.h)')],
                      assumptions=['Solaris ADT audit data is never set on this platform (field stays NULL)', 'qsort sorts (stub for <= 2 elements)']))
