"""C18 / C14 — becoming a monitor: bus_connection_be_monitor (B, real dbus-list.c) and bus_driver_handle_become_monitor (T)."""
CONN = 'bus/connection.c'
DRV = 'bus/driver.c'
LIST = 'dbus/dbus-list.c'

UNITS = []

UNITS.append(dict(
    name='C18m.be_monitor', props=['C18', 'C14'], kind='B', route='plain', bus=True,
    tus=[dict(file=CONN, include_as='VERIF_TU'), dict(file=LIST)], harness='harness/c18m_bemonitor.c',
    replace_calls={'alloc_link': 'verif_alloc_link', 'free_link': 'verif_free_link',
                   'bus_connection_drop_pending_replies': 'verif_stub_bus_connection_drop_pending_replies'},
    unwind=6, timeout=600, expect_s=30,
    must_have=['mon.true1', 'mon.true3', 'mon.true6', 'mon.false1', 'mon.false2', 'mon.false6'],
    bounds={'rules in the given list': '<= 2', 'owned names': '<= 2', 'other monitors': '<= 1',
            'allocation': 'every list link, bus_matchmaker_new, bus_matchmaker_add_rule and bus_service_remove_owner may fail independently'},
    functions=[dict(name='bus_connection_be_monitor', file=CONN, status='bounded',
                    contract='TRUE: in monitors once, all given rules in the MONITOR rule set, ordinary rules dropped iff any, pending replies dropped, every name released through the given transaction; '
                             'FALSE: not in monitors, no rule of the connection in the monitor rule set, ordinary rules and pending replies kept, all links released, error set'),
               dict(name='bcd_add_monitor_rules / bcd_drop_monitor_rules', file=CONN, status='bounded', note='real code, inlined'),
               dict(name='_dbus_list_alloc_link/_free_link/_copy/_clear/_append_link/_get_first_link', file=LIST, status='bounded', note='real pointer code'),
               dict(name='alloc_link / free_link', file=LIST, status='stub', note='links from a static pool, every allocation may fail (dbus-mempool.c not verified)'),
               dict(name='bus_matchmaker_new / bus_matchmaker_add_rule / bus_matchmaker_disconnected', file='bus/signals.c', status='stub',
                    note='ghost rule set per (matchmaker, connection): add +1 (may fail), disconnected removes all of the connection; semantics of the real matchmaker are C07'),
               dict(name='bus_service_remove_owner', file='bus/services.c', status='replaced', note='arbitrary failure with error set; transactional (C04.remove_owner, C04.remove_owner.restore)'),
               dict(name='bus_connection_drop_pending_replies', file=CONN, status='stub', note='counted (C09.drop)')],
    assumptions=['requires: the connection is not a monitor yet and the monitor rule set holds no rule of it',
                 'BusConnections invariant on entry: monitors != NULL => monitor_matchmaker != NULL (re-established: mon.true2)']))
UNITS.append(dict(
    name='C18m.become_monitor', props=['C18', 'C14'], kind='B', route='plain', bus=True,
    tus=[dict(file=DRV, include_as='VERIF_TU'), dict(file=LIST)], harness='harness/c18m_driver.c',
    replace_calls={'alloc_link': 'verif_alloc_link', 'free_link': 'verif_free_link', 'bus_driver_send_ack_reply': 'verif_stub_bus_driver_send_ack_reply'},
    unwind=5, unwindset=['verif_streq.0:66'], timeout=300, expect_s=15,
    must_have=['bm.post1', 'bm.post4', 'bm.post7', 'bm.post8', 'bm.post10', 'bm.post12'],
    bounds={'rule strings in the message': '<= 2', 'allocation': 'every list link, the replacement array and its string may fail'},
    functions=[dict(name='bus_driver_handle_become_monitor', file=DRV, status='bounded',
                    contract='permission check first; every rule string parsed for the caller and marked eavesdropping; parse error / bad flags / OOM => no ack after, not a monitor; ack before be_monitor; be_monitor gets exactly the parsed rules; every rule reference dropped once'),
               dict(name='_dbus_list_append/_dbus_list_clear/_dbus_list_get_first_link', file=LIST, status='bounded', note='real pointer code; links from a failing static pool'),
               dict(name='bus_connection_be_monitor', file=CONN, status='replaced', note='records the rule list it is given; arbitrary failure; enforced (B) by C18m.be_monitor'),
               dict(name='bus_match_rule_parse / bus_match_rule_set_client_is_eavesdropping / bus_match_rule_unref', file='bus/signals.c', status='stub', note='arbitrary parse failure (grammar: C07), per-rule ghost counters'),
               dict(name='bus_apparmor_allows_eavesdropping', file='bus/apparmor.c', status='assumed', note='arbitrary verdict, AccessDenied on refusal'),
               dict(name='dbus_message_get_args / bus_driver_send_ack_reply / dbus_malloc / _dbus_strdup', file='dbus/dbus-message.c, bus/driver.c, dbus/dbus-memory.c', status='stub', note='deliver <= 2 rule strings and the flags; arbitrary failure')],
    assumptions=['bus_driver_check_caller_is_privileged is run by bus_driver_handle_message for table entries flagged METHOD_FLAG_PRIVILEGED (the flag itself is checked: bm.post12)']))

UNITS.append(dict(name='C18m.send_or_activate', props=['C18', 'C19'], kind='P', route='stub', bus=True, entry='harness',
    tus=[dict(file='bus/driver.c', include_as='VERIF_TU')], harness='harness/c18_sendoract.c', timeout=300, expect_s=5, must_have=['soa.post1', 'soa.post2'],
    functions=[dict(name='bus_driver_send_or_activate', file='bus/driver.c', status='enforced', contract='success => the bus-originated message is captured for monitors exactly once and sent or held exactly once'),
               dict(name='bus_transaction_send_from_driver', file='bus/connection.c', status='stub', note='TRUE => captured once and staged (contract enforced by C03.from_driver / C18.capture)'),
               dict(name='bus_transaction_capture, bus_activation_activate_service, bus_registry_lookup', file='bus/*.c', status='stub', note='counted; may fail (OOM)')],
    assumptions=[]))
