"""C11 — framing independent of chunking: lemmas F1 (C01.have_message), F2, F3 (+ auth unused bytes in c08)."""
MSG = 'dbus/dbus-message.c'
STUBS_F2 = {
    '_dbus_string_get_length': 'verif_stub_string_get_length', '_dbus_header_load': 'verif_stub_header_load',
    'get_const_signature': 'verif_stub_get_const_signature', '_dbus_validate_body_with_reason': 'verif_stub_validate_body',
    '_dbus_header_get_field_basic': 'verif_stub_header_get_field_basic', 'dbus_free': 'verif_stub_dbus_free',
    '_dbus_memdup': 'verif_stub_memdup', 'memmove': 'verif_stub_memmove', '_dbus_list_append': 'verif_stub_list_append',
    '_dbus_list_remove_last': 'verif_stub_list_remove_last', '_dbus_list_find_last': 'verif_stub_list_find_last',
    '_dbus_string_copy_len': 'verif_stub_string_copy_len', '_dbus_string_delete': 'verif_stub_string_delete',
    '_dbus_string_compact': 'verif_stub_string_compact', '_dbus_verbose_bytes_of_string': 'verif_stub_verbose_bytes'}
UNITS = [
    dict(name='C11.F2.load_message', props=['C11', 'C01', 'C10'], kind='P', route='stub',
         tus=[dict(file=MSG, include_as='VERIF_TU')], harness='harness/c11_load_message.c', replace_calls=STUBS_F2,
         timeout=600, expect_s=10, must_have=['F2 success consumes exactly', 'F2 failure leaves the loader buffer untouched'],
         functions=[dict(name='load_message', file=MSG, status='enforced', contract='lemma F2 (frame consumption, order validate -> queue -> copy -> delete, failure atomicity)'),
                    dict(name='_dbus_header_load', file='dbus/dbus-marshal-header.c', status='stub', note='contract: TRUE => VALID and header holds header_len bytes; FALSE => validity != VALID'),
                    dict(name='_dbus_validate_body_with_reason', file='dbus/dbus-marshal-validate.c', status='stub', note='arbitrary verdict; exactness is C01.body.* (B)'),
                    dict(name='_dbus_string_copy_len/_delete/_compact/_get_length', file='dbus/dbus-string.c', status='stub', note='length-only ghost model'),
                    dict(name='_dbus_list_append/_remove_last/_find_last', file='dbus/dbus-list.c', status='stub', note='append may fail; remove_last undoes it')],
         assumptions=['DBusString and DBusList callees follow their length-only / append-remove contracts (stubs)']),
    dict(name='C11.F3.loader_loop', props=['C11', 'C01', 'C10'], kind='P', route='hybrid',
         tus=[dict(file=MSG, include_as='VERIF_TU', overlay='message_loader.ovl')], harness='harness/c11_loader_loop.c',
         replace_calls={'_dbus_string_get_length': 'verif_stub_string_get_length', '_dbus_header_have_message_untrusted': 'verif_stub_have_message',
                        'dbus_message_new_empty_header': 'verif_stub_new_empty_header', 'dbus_message_unref': 'verif_stub_message_unref',
                        'load_message': 'verif_stub_load_message', '_dbus_list_find_last': 'verif_stub_list_find_last'},
         allow_skip_msg=True, timeout=600, expect_s=10,
         must_have=['Check invariant after step for loop _dbus_message_loader_queue_messages', 'F3 no message is produced after corruption'],
         functions=[dict(name='_dbus_message_loader_queue_messages', file=MSG, status='enforced', contract='lemma F3, loop contract (LOADER_INV)'),
                    dict(name='load_message', file=MSG, status='replaced', note='by its lemma-F2 contract (enforced in C11.F2.load_message)'),
                    dict(name='_dbus_header_have_message_untrusted', file='dbus/dbus-marshal-header.c', status='replaced', note='by its contract (enforced in C01.have_message)')],
         assumptions=['the stub contracts of load_message and _dbus_header_have_message_untrusted are the ones enforced in C11.F2 / C01.have_message (kept in sync by hand)']),
]

UNITS.append(dict(name='C11.loader_queue', props=['C11', 'C05'], kind='P', route='stub', entry='harness',
     tus=[dict(file='dbus/dbus-message.c', include_as='VERIF_TU')], harness='harness/c11_loaderq.c', timeout=300, expect_s=10,
     must_have=['ldq.peek', 'ldq.pop', 'ldq.poplink', 'ldq.putback'],
     functions=[dict(name='_dbus_message_loader_peek_message/_pop_message/_pop_message_link/_putback_message_link', file='dbus/dbus-message.c', status='enforced', contract='the transport sees and takes only the oldest loaded message; an undone pop is the first again'),
                dict(name='_dbus_list_pop_first(_link)/_prepend_link', file='dbus/dbus-list.c', status='stub', note='which end of the loader queue is used is the obligation')],
     assumptions=[]))

UNITS.append(dict(name='C11.counter_notify', props=['C11', 'C13', 'C10'], kind='P', route='plain', entry='harness',
     tus=[dict(file='dbus/dbus-resources.c', include_as='VERIF_TU')], harness='harness/c11_counter.c', timeout=300, expect_s=10,
     must_have=['ctr.post2', 'ctr.post5'],
     functions=[dict(name='_dbus_counter_adjust_size, _dbus_counter_adjust_unix_fd, _dbus_counter_notify', file='dbus/dbus-resources.c', status='enforced', contract='pending exactly when "value >= guard" changes truth; notify once per pending mark, outside the lock'),
                dict(name='_dbus_rmutex_lock/_unlock', file='dbus/dbus-threads.c', status='assumed', note='sequential; lock depth counted')],
     assumptions=['values are non-negative sums below 2^47 (no overflow of the long counter: machine arithmetic otherwise exact)']))
