"""C09 — pending replies: slot recorded / consumed / dropped / expired (B, real expire list <= 3 entries, failing malloc)."""
CONN = 'bus/connection.c'
XL = 'bus/expirelist.c'
LIST = 'dbus/dbus-list.c'

COMMON_STUBS = [
    dict(name='dbus_malloc/dbus_malloc0/dbus_free, _dbus_mem_pool_*', file='dbus/dbus-memory.c, dbus/dbus-mempool.c', status='stub', note='bound to CBMC malloc/calloc/free; every allocation may fail (--malloc-may-fail --malloc-fail-null)'),
    dict(name='bus_expire_list_add/_add_link/_remove/_remove_link/_unlink/_get_first_link/_get_next_link/_contains_item/_recheck_immediately', file=XL, status='inlined', note='real code'),
    dict(name='_dbus_list_prepend/_prepend_link/_remove/_remove_link/_unlink/_find_last/_get_first_link', file=LIST, status='inlined', note='real code'),
    dict(name='dbus_timeout_get_enabled/_dbus_timeout_restart/_dbus_timeout_disable', file='dbus/dbus-timeout.c', status='stub', note='ghost timer state'),
    dict(name='_dbus_lock/_dbus_unlock', file='dbus/dbus-threads.c', status='assumed', note='sequential'),
]
COMMON_ASSUME = ['pending list has no two entries with the same (serial, caller, callee) (established by bus_connections_expect_reply: C09.expect_reply post11)',
                 'entries hold will_get_reply != NULL; will_send_reply may be NULL (callee gone)']
FLAGS = ['--malloc-may-fail', '--malloc-fail-null']
RC = {'bus_transaction_add_cancel_hook': 'verif_stub_add_cancel_hook', 'dbus_set_error': 'verif_stub_dbus_set_error',
      'bus_context_log': 'verif_stub_bus_context_log', 'bus_connection_get_name': 'verif_stub_bus_connection_get_name',
      'bus_connection_get_loginfo': 'verif_stub_bus_connection_get_loginfo'}

UNITS = []


def unit(name, harness, fns, extra_stubs, must, expect_s=30, rc=None, **kw):
    u = dict(name='C09.' + name, props=['C09'], kind='B', route='plain', bus=True,
             tus=[dict(file=CONN, include_as='VERIF_TU'), dict(file=XL, include_as='VERIF_TU2'), dict(file=LIST)],
             harness=harness, defines=['VERIF_N=3'], unwind=6, unwindset=['verif_name_is.0:64'], cbmc_flags=FLAGS,
             replace_calls=dict(RC, **(rc or {})), timeout=900, expect_s=expect_s, must_have=must,
             bounds={'pending_entries': 3, 'connections': 3, 'note': 'serials, limit and clock symbolic; every allocation may fail independently'},
             functions=fns + extra_stubs + COMMON_STUBS, assumptions=COMMON_ASSUME)
    u.update(kw)
    UNITS.append(u)


unit('expect_reply', 'harness/c09_expect.c',
     [dict(name='bus_connections_expect_reply', file=CONN, status='bounded',
           contract='no_reply => TRUE, unchanged; duplicate triple => AccessDenied, unchanged; count(caller) >= limit => LimitsExceeded, unchanged; OOM => NoMemory, unchanged; else exactly one slot (serial, caller, callee) added, timer armed, one cancel hook'),
      dict(name='cancel_pending_reply, cancel_pending_reply_data_free', file=CONN, status='bounded', contract='run after a successful call: removes exactly the new slot / frees only the hook data')],
     [dict(name='bus_transaction_add_cancel_hook', file=CONN, status='stub', note='registers (f, data, free) or fails without calling free'),
      dict(name='dbus_message_get_no_reply/_get_serial, bus_context_get_max_replies_per_connection, _dbus_get_monotonic_time', file='dbus/, bus/bus.c', status='stub', note='return ghost inputs'),
      dict(name='dbus_set_error, dbus_set_error_const, bus_context_log', file='dbus/dbus-errors.c, bus/bus.c', status='stub', note='record the error name; logging dropped')],
     ['post2', 'post3', 'post4', 'post5', 'post6', 'post13'])

unit('check_reply', 'harness/c09_check.c',
     [dict(name='bus_connections_check_reply', file=CONN, status='bounded',
           contract='TRUE iff a slot (reply serial, receiver, replier) exists (and no OOM); then exactly that slot is unlinked; FALSE => list unchanged, error only for OOM; a second identical reply is refused'),
      dict(name='cancel_check_pending_reply, check_pending_reply_data_free', file=CONN, status='bounded', contract='cancel puts exactly that slot back; execute releases slot and link')],
     [dict(name='bus_transaction_add_cancel_hook', file=CONN, status='stub', note='registers (f, data, free) or fails without calling free'),
      dict(name='dbus_message_get_reply_serial', file='dbus/dbus-message.c', status='stub', note='returns the ghost reply serial'),
      dict(name='dbus_set_error_const', file='dbus/dbus-errors.c', status='stub', note='records the error name')],
     ['post1', 'post3', 'post4', 'post5', 'post8', 'post9'])

unit('drop_pending_replies', 'harness/c09_drop.c',
     [dict(name='bus_connection_drop_pending_replies', file=CONN, status='bounded',
           contract='slots whose caller vanished are removed; slots whose callee vanished stay with will_send_reply=NULL, clock 0/0 and the timer re-armed for now; all other slots untouched, order kept')],
     [], ['post1', 'post2', 'post3'], expect_s=15, defines=['VERIF_N=3', 'VERIF_PART=0'])
unit('expired', 'harness/c09_drop.c',
     [dict(name='bus_pending_reply_expired + bus_pending_reply_send_no_reply', file=CONN, status='bounded',
           contract='TRUE => exactly one org.freedesktop.DBus.Error.NoReply (reply_serial = the call\'s serial) staged from the driver to will_get_reply, slot removed, transaction executed once; FALSE (OOM) => list unchanged, nothing sent, transaction cancelled')],
     [dict(name='bus_transaction_new/_cancel_and_free/_execute_and_free/_send_from_driver', file=CONN, status='stub', note='typestate: live transaction, counts; send_from_driver records the recipient, may fail'),
      dict(name='dbus_message_new/_set_no_reply/_set_reply_serial/_set_error_name/_iter_init_append/_iter_append_basic/_unref', file='dbus/dbus-message.c', status='stub', note='ghost message record; each builder step may fail (OOM); set_reply_serial requires serial != 0')],
     ['post1', 'post2', 'post4', 'post6'], expect_s=15, defines=['VERIF_N=3', 'VERIF_PART=1'],
     rc={'bus_transaction_new': 'verif_stub_bus_transaction_new', 'bus_transaction_cancel_and_free': 'verif_stub_bus_transaction_cancel_and_free',
         'bus_transaction_execute_and_free': 'verif_stub_bus_transaction_execute_and_free', 'bus_transaction_send_from_driver': 'verif_stub_bus_transaction_send_from_driver'},
     assumptions=COMMON_ASSUME + ['recorded call serials are non-zero (message validation, C01: serial 0 is rejected by the loader)'])

UNITS.append(dict(
    name='C09.policy_requested_only', props=['C09', 'C06'], kind='B', route='plain', bus=True,
    tus=[dict(file='bus/policy.c', include_as='VERIF_TU'), dict(file=LIST), dict(file='dbus/dbus-string.c')], harness='harness/c09_policy.c',
    defines=['VERIF_N=3', 'SPEC_STR_MAX=6'], unwind=10, timeout=600, expect_s=20, must_have=['post1', 'post2'],
    bounds={'rules': 'the 8 message rules of the system bus default context (bus/system.conf.in), concrete', 'message_facts': 'all symbolic'},
    functions=[dict(name='bus_client_policy_check_can_send, bus_client_policy_check_can_receive', file='bus/policy.c', status='bounded',
                    contract='on the system-bus default rule list a METHOD_RETURN/ERROR passes iff requested_reply; method calls are refused'),
               dict(name='message accessors, registry questions', file='dbus/dbus-message.c, bus/services.c', status='stub', note='as in the C06.*_n1 units (facts record)')],
    assumptions=['the rule list is what bus/system.conf.in default context parses to (config parser not under contract)',
                 'message facts: METHOD_RETURN/ERROR carry REPLY_SERIAL != 0 (C01)']))

unit('do_expiration', 'harness/c09_expire.c',
     [dict(name='do_expiration_with_monotonic_time', file=XL, status='bounded',
           contract='clock 0/0 entries are always handed to the expire function, running clocks never under an infinite timeout; once each, in order, nothing after the first failure; list afterwards = not-expired entries; return OOM wait after a failure, -1 for an infinite timeout')],
     [dict(name='BusExpireFunc (bus_pending_reply_expired)', file=CONN, status='stub', note='contract: FALSE and list unchanged, or TRUE and exactly that link removed (enforced by C09.expired)'),
      dict(name='_dbus_get_oom_wait', file='dbus/dbus-sysdeps.c', status='stub', note='arbitrary non-negative')],
     ['post1', 'post2'], expect_s=60,
     bounds={'pending_entries': 3, 'note': 'which running clocks are due under a finite timeout is left open (timing not claimed)'})
