"""C10 / C11 — transport layer: one misbehaving client cannot crash or corrupt; corrupted => that transport only is disconnected;
read throttling; leftover auth bytes moved once (lemmas F4, F5 of C11).

Already covered elsewhere (referenced, not duplicated):
  C08.io_guard.read / .write   do_reading/do_writing: no message I/O unless _dbus_transport_try_to_authenticate
  C08.recover, C08.dispatch_status  recover_unused_bytes (plain branch, lengths), recovery at most once per transport
  C15.do_reading / C15.do_writing   descriptor aspects of the socket transport
  C13.watches_gate             bus_context_check_all_watches
"""
TR = 'dbus/dbus-transport.c'
TS = 'dbus/dbus-transport-socket.c'
MSG = 'dbus/dbus-message.c'
UNITS = []

UNITS.append(dict(
    name='C10.queue_messages', props=['C10', 'C11'], kind='P', route='hybrid', entry='harness',
    tus=[dict(file=TR, overlay='c10_transport.ovl', include_as='VERIF_TU')], harness='harness/c10_queue.c',
    replace_calls={'_dbus_transport_get_dispatch_status': 'verif_stub_get_dispatch_status', '_dbus_transport_disconnect': 'verif_stub_transport_disconnect'},
    allow_skip_msg=True, timeout=600, expect_s=15,
    must_have=['Check invariant after step for loop _dbus_transport_queue_messages', 'queue_messages: loader corrupted <=>', 'queue_messages: it is THIS transport',
               'queue_messages: FALSE <=> out of memory', 'nothing is queued after the disconnect'],
    functions=[dict(name='_dbus_transport_queue_messages', file=TR, status='enforced',
                    contract='loop contract: every popped link queued on this connection (after counter + hook) or put back, one at a time; corrupted <=> disconnect of THIS transport once, after the last queue; FALSE <=> OOM'),
               dict(name='_dbus_transport_get_dispatch_status', file=TR, status='replaced', note='C08.dispatch_status + C11.F3: DATA_REMAINS only with a framed message waiting; corruption sticky; may report NEED_MEMORY'),
               dict(name='_dbus_transport_disconnect', file=TR, status='replaced', note='contract enforced by C10.disconnect'),
               dict(name='_dbus_message_loader_pop_message_link/_putback_message_link/_get_is_corrupted', file=MSG, status='stub', note='doc comments: pop = first framed message or NULL, putback undoes the pop'),
               dict(name='_dbus_message_add_counter', file=MSG, status='stub', note='may fail (OOM)'),
               dict(name='_dbus_connection_queue_received_message_link', file='dbus/dbus-connection.c', status='stub', note='appends to the incoming queue (ghost count)'),
               dict(name='vtable->live_messages_changed', file=TS, status='stub', note='hook present or NULL')],
    assumptions=['callee contracts as listed (stubs); _dbus_connection_queue_received_message_link appends at the tail, so "each popped link queued before the next pop" gives loader order on the connection',
                 'DATA_REMAINS from _dbus_transport_get_dispatch_status implies a framed message in the loader (its last statement; not enforced by C08.dispatch_status)']))

UNITS.append(dict(
    name='C10.disconnect', props=['C10'], kind='P', route='stub', entry='harness',
    tus=[dict(file=TR, include_as='VERIF_TU')], harness='harness/c10_disconnect.c', timeout=300, expect_s=5,
    must_have=['disconnect: only the first call has an effect', 'disconnect: the transport\'s disconnect hook runs iff'],
    functions=[dict(name='_dbus_transport_disconnect', file=TR, status='enforced', contract='afterwards disconnected; hook once iff it was connected; second call no effect; nothing else written'),
               dict(name='_dbus_transport_get_is_connected', file=TR, status='enforced', contract='== !disconnected'),
               dict(name='vtable->disconnect', file=TS, status='stub', note='the transport kind\'s hook (socket_disconnect): ghost call log only')],
    assumptions=['the transport kind\'s disconnect hook does not re-enter _dbus_transport_disconnect (socket_disconnect does not)']))

F4_FUNCS = [dict(name='_dbus_message_loader_get_buffer', file=MSG, status='enforced',
                 contract='lemma F4: loop contract (offset is a frame boundary); hint table by (descriptors pending, tail length, verdict on the frame at the boundary); buffer protocol'),
            dict(name='_dbus_message_loader_return_buffer', file=MSG, status='enforced', contract='takes the loader\'s own string back, clears buffer_outstanding'),
            dict(name='_dbus_header_have_message_untrusted', file='dbus/dbus-marshal-header.c', status='replaced', note='contract enforced by C01.have_message, INCLUDING its precondition start % 8 == 0'),
            dict(name='_dbus_string_get_length', file='dbus/dbus-string.c', status='stub', note='ghost length of loader->data')]
F4_ASSUME = ['the stub contract of _dbus_header_have_message_untrusted is the one enforced in C01.have_message (kept in sync by hand)',
             'loader->max_message_size within 0..DBUS_MAXIMUM_MESSAGE_LENGTH; buffered bytes < 2^30 (LOADER_INV: one incomplete frame plus later reads)']
for full in (0, 1):
    UNITS.append(dict(
        name='C11.F4.loader_buffer' + ('_full' if full else ''), props=['C11', 'C10'], kind='P', route='hybrid', entry='harness',
        tus=[dict(file=MSG, overlay='c10_loader_buffer.ovl', include_as='VERIF_TU')], harness='harness/c10_loader_buffer.c', defines=['VERIF_F4_FULL=%d' % full],
        replace_calls={'_dbus_string_get_length': 'verif_stub_string_get_length', '_dbus_header_have_message_untrusted': 'verif_stub_have_message'},
        allow_skip_msg=True, timeout=600, expect_s=15,
        must_have=['Check invariant after step for loop _dbus_message_loader_get_buffer', 'get_buffer (F4)', 'get_buffer: hands out the loader', 'return_buffer: the loader',
                   '_dbus_header_have_message_untrusted: start is 8-aligned'],
        functions=F4_FUNCS,
        assumptions=F4_ASSUME + ([] if full else ['complete frames still in the buffer have a length that is a multiple of 8 and > 16 bytes (always true when none is left, i.e. after a successful '
                                                  '_dbus_message_loader_queue_messages; the case without this assumption is C11.F4.loader_buffer_full, red on two replayed defects)'])))

RD_FUNCS = [dict(name='do_reading', file=TS, status='enforced', contract='no I/O unless authenticated; every read <= max_bytes_read_per_iteration and <= the loader hint; buffer protocol; FALSE <=> OOM; EOF/error => disconnect; read only while total <= max'),
            dict(name='_dbus_transport_try_to_authenticate', file=TR, status='stub', note='result only (contract: C08.try_auth)'),
            dict(name='_dbus_message_loader_get_buffer/_return_buffer', file=MSG, status='replaced', note='protocol + hint range as enforced by C11.F4.loader_buffer'),
            dict(name='_dbus_message_loader_get_unix_fds/_return_unix_fds', file=MSG, status='stub', note='paired (details: C15.do_reading)'),
            dict(name='_dbus_read_socket/_dbus_read_socket_with_unix_fds, errno predicates', file='dbus/dbus-sysdeps-unix.c', status='assumed', note='kernel: returns -1 or 0..count'),
            dict(name='_dbus_auth_decode_data, _dbus_string_get_length/_set_length/_compact (encoded_incoming)', file='dbus/dbus-auth.c, dbus/dbus-string.c', status='stub', note='length-only ghost; decode may fail (OOM)'),
            dict(name='_dbus_transport_queue_messages', file=TR, status='replaced', note='contract enforced by C10.queue_messages; here it asserts the loop invariant at the back edge'),
            dict(name='check_read_watch, do_io_error', file=TS, status='stub', note='do_io_error: disconnects')]
RD_RC = {'do_io_error': 'verif_stub_do_io_error', 'check_read_watch': 'verif_stub_check_read_watch'}
UNITS.append(dict(
    name='C10.do_reading.bytes', props=['C10'], kind='P', route='stub', entry='harness',
    tus=[dict(file=TS, include_as='VERIF_TU')], harness='harness/c10_reading.c', defines=['VERIF_MODE=1'], replace_calls=RD_RC, timeout=600, expect_s=10,
    must_have=['socket read: at most max_bytes_read_per_iteration', 'message I/O only after', 'loop invariant at the back edge', 'do_reading: FALSE <=> out of memory', 'do_reading: EOF or hard error'],
    functions=RD_FUNCS,
    assumptions=['backward goto closed by an invariant cut in the stub of _dbus_transport_queue_messages; the local `total` is not havocked, so the running-sum clause is proved here for the first iteration only (all iterations up to 3 reads: C10.do_reading.total_b3)',
                 '0 <= max_bytes_read_per_iteration <= 2^29 (it is 2048); decoding (SASL-wrapped) branch excluded: no mechanism has a decode function (C08.find_mech), see finder C10.do_reading.decode',
                 'kernel reads return -1 or 0..count']))
UNITS.append(dict(
    name='C10.do_reading.total_b3', props=['C10'], kind='B', route='stub', entry='harness',
    tus=[dict(file=TS, include_as='VERIF_TU')], harness='harness/c10_reading.c', defines=['VERIF_MODE=2', 'VERIF_READS=3'], replace_calls=RD_RC, unwind=5, timeout=600, expect_s=20,
    must_have=['socket read: started only while the bytes read so far', 'do_reading: one call reads at most 2 * max_bytes_read_per_iteration'],
    bounds={'socket_reads_per_call': 3, 'note': 'the goto loop is followed for the first 3 reads of a call with arbitrary read sizes and an arbitrary limit; `total` is computed by the real code'},
    functions=RD_FUNCS,
    assumptions=['as C10.do_reading.bytes; paths with more than 3 reads in one call are cut']))
UNITS.append(dict(
    name='C10.do_reading.decode', props=['C10'], kind='P', route='stub', entry='harness', role='finder',
    tus=[dict(file=TS, include_as='VERIF_TU')], harness='harness/c10_reading.c', defines=['VERIF_MODE=1', 'VERIF_DECODE=1'], replace_calls=RD_RC, timeout=600, expect_s=10,
    functions=RD_FUNCS,
    assumptions=['finder (not part of the check): the decoding branch of do_reading is dead code today; with a decoding mechanism it aborts on `_dbus_assert (length (encoded_incoming) == bytes_read)` when the socket read returns -1 (EAGAIN/error): bytes_read == -1, length == 0']))
for srt in (1, 0):
    UNITS.append(dict(
        name='C10.expire_incomplete_n3' + ('' if srt else '.unsorted'), props=['C10', 'C13'], kind='B', route='stub', entry='harness', bus=True,
        tus=[dict(file='bus/connection.c', include_as='VERIF_TU'), dict(file='dbus/dbus-list.c')], harness='harness/c10_expire.c', defines=['VERIF_SORTED=%d' % srt],
        unwind=5, timeout=600, expect_s=10,
        must_have=['expire_incomplete: only connections in the incomplete list whose age', 'expire_incomplete: oldest-first list => EVERY', 'expire_incomplete: the expiry timer is re-armed exactly once'],
        bounds={'incomplete_connections': 3,
                'note': 'list of 0..3 links built by the harness, loop completely unwound; auth_timeout: every non-negative int; connection ages from a fixed catalogue '
                        + ('(40 000 ms, exactly 30 000 ms, 29 999.999 ms: oldest first)' if srt else '(10 s, 40 s, 20 s: NOT oldest first)')
                        + '; the exact timer value only for 8 concrete limits (double -> int equivalence does not terminate for symbolic limits), bounded 0..auth_timeout otherwise'},
        functions=[dict(name='bus_connections_expire_incomplete', file='bus/connection.c', status='bounded',
                        contract='closed => in the list and age >= auth_timeout, at most once, logged; oldest-first list => all such closed; timer re-armed once (-1 / remaining whole ms of the oldest young one)'),
                   dict(name='_dbus_list_get_first_link', file='dbus/dbus-list.c', status='inlined', note='real code'),
                   dict(name='_dbus_get_monotonic_time', file='dbus/dbus-sysdeps-unix.c', status='assumed', note='fixed now >= every connection time (monotonic clock)'),
                   dict(name='bus_context_get_auth_timeout', file='bus/bus.c', status='stub', note='arbitrary non-negative limit'),
                   dict(name='dbus_connection_get_data', file='dbus/dbus-connection.c', status='stub', note='the BusConnectionData of that connection (ghost map of 4)'),
                   dict(name='dbus_connection_close', file='dbus/dbus-connection.c', status='stub', note='ghost count per connection; does not re-enter the list (removal happens on dispatch of Disconnected)'),
                   dict(name='bus_expire_timeout_set_interval, bus_context_log', file='bus/expirelist.c, bus/bus.c', status='stub', note='recorded / counted')],
        assumptions=['oracle: integer arithmetic on microseconds (expired <=> age_us >= auth_timeout * 1000), independent of the double expression of bus/expirelist.h',
                     'for the "every old connection is closed" clause: the incomplete list is in oldest-first order (appended with the monotonic time at accept)',
                     'dbus_connection_close does not modify the incomplete list synchronously']))
for strict in (0, 1):
    UNITS.append(dict(
        name='C11.F5.recover' + ('_strict' if strict else ''), props=['C11', 'C10'] if not strict else ['C11'], kind='P', route='stub', entry='harness', role='finder' if strict else 'check',
        tus=[dict(file=TR, include_as='VERIF_TU')], harness='harness/c10_recover.c', defines=['VERIF_STRICT=%d' % strict], timeout=300, expect_s=5,
        must_have=['recover_unused_bytes (F5): TRUE => the leftover bytes were appended exactly once', 'recover_unused_bytes (F5): FALSE => neither appended nor deleted',
                   '_dbus_string_copy: at the END of the loader', '_dbus_string_move: at the END of the loader'],
        functions=[dict(name='recover_unused_bytes', file=TR, status='enforced',
                        contract='lemma F5, both branches: TRUE => whole (decoded) unused bytes appended once at the end of the loader buffer, then deleted once; FALSE => neither; temporaries freed'),
                   dict(name='_dbus_string_copy/_dbus_string_move', file='dbus/dbus-string.c', status='replaced', note='contracts enforced by C14.str.copy / C14.str.move (byte level); here their arguments are checked'),
                   dict(name='_dbus_auth_get_unused_bytes/_delete_unused_bytes/_needs_decoding', file='dbus/dbus-auth.c', status='replaced', note='contracts of C08.unused'),
                   dict(name='_dbus_auth_decode_data', file='dbus/dbus-auth.c', status='assumed', note='appends the plaintext to the empty temporary or fails leaving it unchanged'),
                   dict(name='_dbus_message_loader_get_buffer/_return_buffer', file=MSG, status='replaced', note='protocol enforced by C11.F4.loader_buffer'),
                   dict(name='_dbus_string_init/_free/_get_length', file='dbus/dbus-string.c', status='stub', note='typestate + ghost lengths (C14.str.init_free)')],
        assumptions=['string lengths <= 2^28 in the harness (no int overflow of the ghost sum)']
        + (['finder (not part of the check): in the ENCODED branch a failing _dbus_string_move leaves the loader buffer outstanding (no _dbus_message_loader_return_buffer before `goto nomem`); '
            'the next _dbus_message_loader_get_buffer would abort on `!loader->buffer_outstanding`.  Dead code today: no mechanism has a decode function (C08.find_mech); not replayable natively']
           if strict else [])))
IT_RC = {'do_authentication': 'verif_stub_do_authentication', 'do_reading': 'verif_stub_do_reading', 'do_writing': 'verif_stub_do_writing',
         'check_write_watch': 'verif_stub_check_write_watch', 'do_io_error': 'verif_stub_do_io_error', 'unix_error_with_read_to_come': 'verif_stub_unix_error_with_read_to_come'}
for fn_no, nm, fn in ((1, 'do_iteration', 'socket_do_iteration'), (2, 'handle_watch', 'socket_handle_watch')):
    UNITS.append(dict(
        name='C11.auth_boundary.' + nm, props=['C11', 'C10'], kind='P', route='stub', entry='harness',
        tus=[dict(file=TS, include_as='VERIF_TU')], harness='harness/c10_iteration.c', defines=['VERIF_FN=%d' % fn_no], replace_calls=IT_RC, timeout=300, expect_s=5,
        must_have=['the handshake completed in this call => do_reading is NOT called'],
        functions=[dict(name=fn, file=TS, status='enforced', contract='handshake completed inside this call => no do_reading (do_iteration: no do_writing either) afterwards in the call; reads/writes only when asked, after the authentication step'),
                   dict(name='do_authentication', file=TS, status='replaced', note='*auth_completed == (authenticated flipped during the call); FALSE <=> OOM (its own last statements; handshake content: C08 units)'),
                   dict(name='do_reading, do_writing', file=TS, status='replaced', note='call log; contracts: C10.do_reading.bytes, C15.do_reading / C15.do_writing, C08.io_guard.*'),
                   dict(name='_dbus_transport_try_to_authenticate', file=TR, status='stub', note='cached state only: it does not itself complete the handshake at the top of the iteration'),
                   dict(name='_dbus_poll, errno predicates, check_write_watch, do_io_error, unix_error_with_read_to_come, _dbus_auth_do_work', file=TS, status='stub', note='arbitrary results (kernel / bookkeeping)')],
        assumptions=['the handshake completes only inside do_authentication during these calls (_dbus_transport_try_to_authenticate at the top of socket_do_iteration returns the cached state)',
                     'the EINTR retry of socket_do_iteration (backward goto, memoryless) is closed by an invariant cut in the stub of _dbus_get_is_errno_eintr (invariant TRUE); nothing is unwound']))
