"""C13 — configured resource limits are never exceeded (limit check precedes the mutation, refusal mutates nothing)."""
CONN = 'bus/connection.c'
DRV = 'bus/driver.c'
BUS = 'bus/bus.c'

UNITS = []

HASH_NOTE = dict(name='_dbus_hash_table_lookup/insert/remove_uintptr', file='dbus/dbus-hash.c', status='stub',
                 note='ghost map for one arbitrary uid; only inserting a new entry may fail')
DATA_NOTE = dict(name='dbus_connection_get_data', file='dbus/dbus-connection.c', status='stub', note='returns the BusConnectionData of the connection')


def conn_unit(name, op, fns, must, contract, extra=None, **kw):
    u = dict(name='C13.' + name, props=['C13'], kind='P', route='stub', bus=True,
             tus=[dict(file=CONN, include_as='VERIF_TU')], harness='harness/c13_conn.c', defines=['VERIF_OP=%d' % op],
             timeout=300, expect_s=5, must_have=must,
             functions=[dict(name=f, file=CONN, status='enforced', contract=contract) for f in fns] + [DATA_NOTE] + (extra or []),
             assumptions=['counters are non-negative on entry (kept by every operation: C13.counters, C13.complete)'])
    u.update(kw)
    UNITS.append(u)


conn_unit('check_limits', 1, ['bus_connections_check_limits', 'get_connections_for_uid'], ['lim.post1', 'lim.post2', 'lim.post5'],
          'n_completed >= max_completed_connections or per-uid count >= max_connections_per_user => LimitsExceeded naming the limit; otherwise admitted; mutates nothing',
          extra=[HASH_NOTE, dict(name='dbus_connection_get_unix_user', file='dbus/dbus-connection.c', status='assumed', note='arbitrary uid or none (kernel credentials)')])
conn_unit('complete', 2, ['bus_connection_complete', 'adjust_connections_for_uid', 'bus_connection_is_active'], ['cmp.post1', 'cmp.post2', 'cmp.post5', 'cmp.post6'],
          'success: n_completed +1, n_incomplete -1, per-uid count +1, accept gate re-evaluated after the decrement; failure: every counter unchanged, still inactive',
          extra=[HASH_NOTE, dict(name='cache_peer_loginfo_string / bus_context_create_client_policy / _dbus_string_copy_data', file=CONN + ', bus/bus.c, dbus/dbus-string.c', status='assumed', note='arbitrary failure (OOM)'),
                 dict(name='bus_context_check_all_watches', file=BUS, status='replaced', note='records n_incomplete at the call; enforced by C13.watches_gate'),
                 dict(name='_dbus_list_unlink/_dbus_list_append_link', file='dbus/dbus-list.c', status='stub', note='counted; list content is not modelled here')],
          trace_is_execution=True, replay_family='c13_complete', replay_fn='',
          replace_calls={'cache_peer_loginfo_string': 'verif_stub_cache_peer_loginfo_string', 'bus_connections_expire_incomplete': 'verif_stub_bus_connections_expire_incomplete'},
          assumptions=['requires: the connection is in the incomplete list (n_incomplete >= 1); n_completed and the per-uid count are below INT_MAX (bus_connections_check_limits ran before: C13.hello_limits)'])
conn_unit('counters', 3, ['bus_connection_add_match_rule_link', 'bus_connection_remove_match_rule', 'bus_connection_add_owned_service_link', 'bus_connection_remove_owned_service'],
          ['cnt.add_rule', 'cnt.remove_rule', 'cnt.add_name', 'cnt.remove_name'],
          'counter +-1 exactly, never negative, the other counters untouched',
          extra=[dict(name='_dbus_list_append_link/_dbus_list_remove_last', file='dbus/dbus-list.c', status='stub', note='counted; requires: the removed element is in the list (I: counter == list length, per operation)')],
          assumptions=['I (per operation): n_match_rules == length(match_rules) and n_services_owned == length(services_owned), the removed element is in its list; counters below INT_MAX on add (limit checked by the caller)'])


def drv_unit(name, h, fn, must, contract, extra, replace, **kw):
    u = dict(name='C13.' + name, props=['C13'], kind='P', route='stub', bus=True,
             tus=[dict(file=DRV, include_as='VERIF_TU')], harness='harness/c13_driver.c', defines=['VERIF_H=%d' % h],
             replace_calls=replace, timeout=300, expect_s=5, must_have=must,
             functions=[dict(name=fn, file=DRV, status='enforced', contract=contract)] + extra, assumptions=[])
    u.update(kw)
    UNITS.append(u)


drv_unit('hello_limits', 1, 'bus_driver_handle_hello', ['hello.post2', 'hello.post4', 'hello.post5'],
         'connection limits consulted once and before create_unique_client_name / bus_connection_complete; refusal => LimitsExceeded, nothing minted, completed or sent',
         [dict(name='bus_connections_check_limits', file=CONN, status='replaced', note='arbitrary verdict, LimitsExceeded on refusal; enforced by C13.check_limits'),
          dict(name='bus_connection_complete', file=CONN, status='replaced', note='requires limits admitted and name minted; enforced by C13.complete'),
          dict(name='create_unique_client_name / bus_driver_send_welcome_message / bus_registry_ensure / dbus_message_set_sender', file=DRV + ', bus/services.c', status='stub', note='counted, arbitrary failure; their typestate is C03')],
         {'create_unique_client_name': 'verif_stub_create_unique_client_name', 'bus_driver_send_welcome_message': 'verif_stub_bus_driver_send_welcome_message'})
drv_unit('add_match_limit', 2, 'bus_driver_handle_add_match', ['am.post1', 'am.post2', 'am.post4', 'am.post5'],
         'n_match_rules >= max_match_rules_per_connection => LimitsExceeded before the message is read / parsed / added; success adds exactly one rule; failure leaves none added',
         [dict(name='bus_match_rule_parse / bus_matchmaker_add_rule / bus_matchmaker_remove_rule', file='bus/signals.c', status='stub', note='counted, arbitrary failure; semantics are C07'),
          dict(name='bus_driver_check_caller_is_privileged / bus_apparmor_allows_eavesdropping / bus_driver_send_ack_reply', file=DRV + ', bus/apparmor.c', status='assumed', note='arbitrary verdict, error set on refusal')],
         {'bus_driver_check_caller_is_privileged': 'verif_stub_bus_driver_check_caller_is_privileged', 'bus_driver_send_ack_reply': 'verif_stub_bus_driver_send_ack_reply'})

UNITS.append(dict(
    name='C13.watches_gate', props=['C13'], kind='B', route='plain', bus=True,
    tus=[dict(file=BUS, include_as='VERIF_TU')], harness='harness/c13_bus.c', defines=['VERIF_OP=1'], unwind=5,
    timeout=300, expect_s=5, must_have=['gate.post1', 'gate.post3'], bounds={'listening servers': '<= 3'},
    functions=[dict(name='bus_context_check_all_watches', file=BUS, status='bounded', contract='watches_enabled == (n_incomplete < max_incomplete_connections); every server toggled once to the new state iff it changed'),
               dict(name='bus_context_get_max_incomplete_connections', file=BUS, status='inlined', note='real code'),
               dict(name='bus_connections_get_n_incomplete', file=CONN, status='stub', note='arbitrary counter'),
               dict(name='_dbus_server_toggle_all_watches', file='dbus/dbus-server.c', status='stub', note='ghost log per server')],
    assumptions=['watches_enabled on entry reflects the real state of the server watches (kept by this function, its only writer besides initialisation)']))
UNITS.append(dict(
    name='C13.incoming_limits', props=['C13'], kind='P', route='stub', bus=True,
    tus=[dict(file=BUS, include_as='VERIF_TU')], harness='harness/c13_bus.c', defines=['VERIF_OP=2'],
    timeout=300, expect_s=5, must_have=['inc.post2', 'inc.post4'],
    functions=[dict(name='bus_context_add_incoming_connection', file=BUS, status='enforced', contract='every accepted connection gets max_message_size, max_incoming_bytes and the two fd limits exactly once; a rejected one is closed'),
               dict(name='dbus_connection_set_max_message_size & co.', file='dbus/dbus-connection.c', status='stub', note='ghost: value recorded; that the loader then enforces it is C01.1 / C11'),
               dict(name='bus_connections_setup_connection', file=CONN, status='assumed', note='arbitrary result')],
    assumptions=[]))
UNITS.append(dict(
    name='C13.message_size_chain', props=['C13'], kind='P', route='stub',
    tus=[dict(file='dbus/dbus-connection.c', include_as='VERIF_TU'), dict(file='dbus/dbus-transport.c'), dict(file='dbus/dbus-message.c')],
    harness='harness/c13_msgsize.c', timeout=300, expect_s=10, must_have=['size.post1'],
    functions=[dict(name='dbus_connection_set_max_message_size', file='dbus/dbus-connection.c', status='enforced', contract='loader->max_message_size == min(size, 128 MiB)'),
               dict(name='_dbus_transport_set_max_message_size', file='dbus/dbus-transport.c', status='inlined', note='real code'),
               dict(name='_dbus_message_loader_set_max_message_size', file='dbus/dbus-message.c', status='inlined', note='real code'),
               dict(name='_dbus_connection_unlock', file='dbus/dbus-connection.c', status='inlined', note='real code; expired-message list empty (precondition)'),
               dict(name='_dbus_rmutex_lock/_unlock', file='dbus/dbus-threads.c', status='assumed', note='no-op (sequential contracts)')],
    assumptions=['no expired messages are pending on the connection (loop of _dbus_connection_unlock runs zero times)']))
conn_unit('disconnected', 4, ['bus_connection_disconnected', 'adjust_connections_for_uid'], ['disc.post1', 'disc.post3', 'disc.post4', 'disc.post5', 'disc.post6'],
          'every owned name released; completed: n_completed -1 and per-uid -1; incomplete: n_incomplete -1 and the accept gate re-evaluated; no counter negative',
          extra=[HASH_NOTE, dict(name='bus_service_remove_owner', file='bus/services.c', status='replaced', note='removes the entry and the owned-name link (C04.remove_owner, C13.counters); at most one NoMemory failure'),
                 dict(name='bus_transaction_new', file=CONN, status='assumed', note='memory eventually available (the code loops on _dbus_wait_for_memory otherwise)'),
                 dict(name='bus_connection_remove_transactions / bus_connection_drop_pending_replies', file=CONN, status='stub', note='counted (pending replies are C09)')],
          kind='B', route='plain', unwind=6, unwindset=['verif_streq.0:66'], bounds={'owned names': '<= 3', 'OOM retries': '<= 1'},
          replace_calls={f: 'verif_stub_' + f for f in ['bus_connection_remove_transactions', 'bus_connection_drop_pending_replies', 'bus_transaction_new',
                                                         'bus_transaction_cancel_and_free', 'bus_transaction_execute_and_free']},
          assumptions=['I (per operation): the connection is counted in the list its link is in; n_services_owned == length(services_owned)'])
conn_unit('counters_list', 5, ['bus_connection_add_match_rule_link', 'bus_connection_remove_match_rule', 'bus_connection_add_owned_service_link', 'bus_connection_remove_owned_service'],
          ['inv.len', 'inv.add', 'inv.remove'], 'I: counter == length of its list, kept by each operation (real dbus-list.c)',
          extra=[dict(name='_dbus_list_append_link/_dbus_list_remove_last/_dbus_list_find_last/_dbus_list_remove_link', file='dbus/dbus-list.c', status='bounded', note='real pointer code'),
                 dict(name='free_link', file='dbus/dbus-list.c', status='stub', note='counted (dbus-mempool.c not verified)')],
          kind='B', route='plain', unwind=7, bounds={'list length before the call': '<= 3'},
          tus=[dict(file=CONN, include_as='VERIF_TU'), dict(file='dbus/dbus-list.c')], replace_calls={'free_link': 'verif_free_link'},
          assumptions=['requires: the removed element is in the list'])
