"""C06 / C09 — security policy gate (P-stub) and rule semantics (B)."""
POL = 'bus/policy.c'
LIST = 'dbus/dbus-list.c'
STR = 'dbus/dbus-string.c'

UNITS = [
    dict(name='C06.gate', props=['C06', 'C09'], kind='P', route='stub', bus=True,
         tus=[dict(file='bus/bus.c', include_as='VERIF_TU')], harness='harness/c06_gate.c',
         replace_calls={'dbus_set_error': 'verif_stub_dbus_set_error', 'complain_about_message': 'verif_stub_complain_about_message'},
         timeout=300, expect_s=5,
         must_have=['post3', 'post6a', 'post7b'],
         functions=[dict(name='bus_context_check_security_policy', file='bus/bus.c', status='enforced', contract='11 typestate postconditions (DESIGN 6 C06)'),
                    dict(name='bus_client_policy_check_can_send/_can_receive', file='bus/policy.c', status='stub', note='contract: records policy used and requested_reply; verdict arbitrary (rule semantics are the C06 B units)'),
                    dict(name='bus_connections_check_reply/expect_reply', file='bus/connection.c', status='stub', note='contract: counts calls; semantics are the C09 B units'),
                    dict(name='bus_selinux_allows_send/bus_apparmor_allows_send', file='bus/selinux.c, bus/apparmor.c', status='assumed', note='arbitrary verdict; error set on denial')],
         assumptions=['LSM hooks (SELinux/AppArmor) return an arbitrary verdict and set the error when denying']),
]

# ---- rule semantics against dbus-daemon(1): spec/policy_ref.h ---------------------------------------------------
RULE_STUBS = [
    dict(name='dbus_message_get_type/_path/_interface/_member/_error_name/_destination/_reply_serial, _dbus_message_get_n_unix_fds',
         file='dbus/dbus-message.c', status='stub', note='contract: returns the corresponding field of the symbolic message-facts record (NULL = header field absent)'),
    dict(name='dbus_message_has_destination/_has_sender', file='dbus/dbus-message.c', status='stub', note='contract: field present and textually equal to the argument'),
    dict(name='bus_registry_lookup, bus_service_owner_in_queue', file='bus/services.c', status='stub',
         note='contract over a ghost map of 4 names -> (exists, peer is primary or queued owner); the hash table is never executed'),
    dict(name='bus_connection_is_queued_owner_by_prefix', file='bus/connection.c', status='stub',
         note='contract: peer owns (primary or queued) a name in the namespace of the prefix; enforced on the real function by C06.owner_by_prefix'),
    dict(name='_dbus_list_get_first_link', file=LIST, status='inlined', note='real code'),
    dict(name='_dbus_string_init_const, _dbus_string_equal_c_str, _dbus_string_starts_with_c_str, _dbus_string_starts_with_words_c_str', file=STR, status='inlined', note='real code'),
]
RULE_ASSUME = [
    'rule fields correspond to the config-file attributes as append_rule_from_element/bus_policy_rule_new set them ("*" or absent -> NULL / DBUS_MESSAGE_TYPE_INVALID / TRISTATE_ANY; min_fds,max_fds in [0, DBUS_MAXIMUM_MESSAGE_UNIX_FDS]; *_prefix implies a name) (config-parser.c is not under contract)',
    'message facts: n_fds <= DBUS_MAXIMUM_MESSAGE_UNIX_FDS, METHOD_RETURN/ERROR carry REPLY_SERIAL != 0 (message validation, C01)',
    'model M1: a peer that is not a connection (bus driver; service about to be activated) owns exactly the name written in the message',
    'ghost registry: at most 4 names matter; peer in queue implies the name exists',
]
WHAT = {0: ('send', 'bus_client_policy_check_can_send'), 1: ('recv', 'bus_client_policy_check_can_receive'), 2: ('own', 'bus_client_policy_check_can_own + bus_rules_check_can_own')}


def rules(what, n, gap=0, tier='quick', expect_s=30, timeout=900):
    nm, fn = WHAT[what]
    name = 'C06.%s_n%d' % (nm, n) + ('' if not gap else '.gapG%d' % gap)
    UNITS.append(dict(
        name=name, props=['C06'] + (['C09'] if what != 2 else []), kind='B', route='plain', bus=True, tier=tier,
        tus=[dict(file=POL, include_as='VERIF_TU'), dict(file=LIST), dict(file=STR)], harness='harness/c06_rules.c',
        defines=['VERIF_WHAT=%d' % what, 'VERIF_N=%d' % n, 'VERIF_GAP=%d' % gap, 'SPEC_STR_MAX=6'], unwind=7, timeout=timeout, expect_s=expect_s,
        must_have=(['post1', 'post3'] if not gap else ['gapG%d' % gap]),
        bounds={'rules': n, 'strings': 'attribute and header values drawn from the literals "a.b", "a.b.c", "a.bc", "a.c" or absent',
                'registry_names': 4, 'note': 'every rule attribute symbolic (type, allow/deny, 5 strings, prefix flag, broadcast tristate, eavesdrop, requested_reply, min/max fds); all message facts symbolic'},
        functions=[dict(name=fn, file=POL, status='bounded',
                        contract=('decision == last matching rule per dbus-daemon(1), default deny; toggles == number of matching rules; policy unchanged'
                                  if not gap else 'the man-page/code gap region G%d only (see spec/policy_ref.h); expected red until triaged' % gap))] + RULE_STUBS,
        assumptions=RULE_ASSUME))


rules(0, 1, expect_s=20)
rules(1, 1, expect_s=20)
rules(2, 1, expect_s=5)
rules(0, 3, expect_s=120, timeout=1500)
rules(1, 3, expect_s=120, timeout=1500)
rules(2, 3, expect_s=30)
rules(0, 1, gap=1)
rules(1, 1, gap=1)
rules(0, 1, gap=2)
rules(1, 1, gap=2)
