"""C06 / C09 — security policy gate (P-stub) and rule semantics (B)."""
import os

POL = 'bus/policy.c'
LIST = 'dbus/dbus-list.c'
STR = 'dbus/dbus-string.c'

UNITS = [
    dict(name='C06.gate', props=['C06', 'C09'], kind='P', route='stub', bus=True,
         tus=[dict(file='bus/bus.c', include_as='VERIF_TU')], harness='harness/c06_gate.c',
         replace_calls={'dbus_set_error': 'verif_stub_dbus_set_error', 'complain_about_message': 'verif_stub_complain_about_message'},
         timeout=300, expect_s=5, unwindset=['verif_name_is.0:64'],
         must_have=['post3', 'post6a', 'post7b', 'post8b', 'post8e', 'post9', 'post10'],
         functions=[dict(name='bus_context_check_security_policy', file='bus/bus.c', status='enforced', contract='11 typestate postconditions (DESIGN 6 C06) + denial => AccessDenied / LimitsExceeded (full queue) / callee error, no slot and nothing sent on refusal'),
                    dict(name='bus_client_policy_check_can_send/_can_receive', file='bus/policy.c', status='stub', note='contract: records policy used and requested_reply; verdict arbitrary (rule semantics are the C06 B units)'),
                    dict(name='bus_connections_check_reply/expect_reply', file='bus/connection.c', status='stub', note='contract: counts calls; semantics are the C09 B units'),
                    dict(name='bus_selinux_allows_send/bus_apparmor_allows_send', file='bus/selinux.c, bus/apparmor.c', status='assumed', note='arbitrary verdict; error set on denial')],
         assumptions=['LSM hooks (SELinux/AppArmor) return an arbitrary verdict and set the error when denying']),
]

# ---- rule semantics against dbus-daemon(1): spec/policy_ref.h ---------------------------------------------------
RULE_STUBS = [
    dict(name='dbus_message_get_type/_path/_interface/_member/_error_name/_destination/_reply_serial, _dbus_message_get_n_unix_fds',
         file='dbus/dbus-message.c', status='stub', note='contract: returns the corresponding field of the symbolic message-facts record (NULL = header field absent)'),
    dict(name='dbus_message_has_destination/_has_sender', file='dbus/dbus-message.c', status='stub', note='contract: field present and textually equal to the argument'),
    dict(name='bus_registry_lookup, bus_service_owner_in_queue', file='bus/services.c', status='stub',
         note='contract over a ghost map of 4 names -> (exists, peer is primary or queued owner); the hash table is never executed'),
    dict(name='bus_connection_is_queued_owner_by_prefix', file='bus/connection.c', status='stub',
         note='contract: peer owns (primary or queued) a name in the namespace of the prefix; enforced on the real function by C06.owner_by_prefix'),
    dict(name='_dbus_list_get_first_link', file=LIST, status='inlined', note='real code'),
    dict(name='_dbus_string_init_const, _dbus_string_equal_c_str, _dbus_string_starts_with_c_str, _dbus_string_starts_with_words_c_str', file=STR, status='inlined', note='real code'),
]
RULE_ASSUME = [
    'rule fields correspond to the config-file attributes as append_rule_from_element/bus_policy_rule_new set them ("*" or absent -> NULL / DBUS_MESSAGE_TYPE_INVALID / TRISTATE_ANY; min_fds,max_fds in [0, DBUS_MAXIMUM_MESSAGE_UNIX_FDS]; *_prefix implies a name) (config-parser.c is not under contract)',
    'message facts: n_fds <= DBUS_MAXIMUM_MESSAGE_UNIX_FDS, METHOD_RETURN/ERROR carry REPLY_SERIAL != 0 (message validation, C01)',
    'model M1: a peer that is not a connection (bus driver; service about to be activated) owns exactly the name written in the message',
    'ghost registry: at most 4 names matter; peer in queue implies the name exists',
]
WHAT = {0: ('send', 'bus_client_policy_check_can_send'), 1: ('recv', 'bus_client_policy_check_can_receive'), 2: ('own', 'bus_client_policy_check_can_own + bus_rules_check_can_own')}


def rules(what, n, gap=0, tier='quick', expect_s=30, timeout=900):
    nm, fn = WHAT[what]
    name = 'C06.%s_n%d' % (nm, n) + ('' if not gap else '.gapG%d' % gap)
    UNITS.append(dict(
        name=name, props=['C06'] + (['C09'] if what != 2 else []), kind='B', route='plain', bus=True, tier=tier,
        # gap units: man-page/code differences kept out of the check (role finder) until triaged; run them with
        # `VERIF_RUN_GAPS=1 ./verif check C06 --unit C06.send_n1.gapG1` ... (see spec/policy_ref.h, end)
        role=('check' if (not gap or os.environ.get('VERIF_RUN_GAPS')) else 'finder'),
        tus=[dict(file=POL, include_as='VERIF_TU'), dict(file=LIST), dict(file=STR)], harness='harness/c06_rules.c',
        defines=['VERIF_WHAT=%d' % what, 'VERIF_N=%d' % n, 'VERIF_GAP=%d' % gap, 'SPEC_STR_MAX=6'], unwind=7, timeout=timeout, expect_s=expect_s,
        must_have=(['post1', 'post3'] if not gap else ['gapG%d' % gap]),
        bounds={'rules': n, 'strings': 'attribute and header values drawn from the literals "a.b", "a.b.c", "a.bc", "a.c" or absent',
                'registry_names': 4, 'note': 'every rule attribute symbolic (type, allow/deny, 5 strings, prefix flag, broadcast tristate, eavesdrop, requested_reply, min/max fds); all message facts symbolic'},
        functions=[dict(name=fn, file=POL, status='bounded',
                        contract=('decision == last matching rule per dbus-daemon(1), default deny; toggles == number of matching rules; policy unchanged'
                                  if not gap else 'the man-page/code gap region G%d only (see spec/policy_ref.h); expected red until triaged' % gap))] + RULE_STUBS,
        assumptions=RULE_ASSUME))


rules(0, 1, expect_s=20)
rules(1, 1, expect_s=20)
rules(2, 1, expect_s=5)
rules(0, 3, expect_s=120, timeout=1500)
rules(1, 3, expect_s=120, timeout=1500)
rules(2, 3, expect_s=30)
rules(0, 1, gap=1)
rules(1, 1, gap=1)
rules(0, 1, gap=2)
rules(1, 1, gap=2)

UNITS.append(dict(
    name='C06.owner_by_prefix', props=['C06'], kind='B', route='plain', bus=True,
    tus=[dict(file='bus/connection.c', include_as='VERIF_TU'), dict(file=LIST), dict(file=STR)], harness='harness/c06_byprefix.c',
    defines=['VERIF_N=3', 'SPEC_STR_MAX=6'], unwind=7, timeout=600, expect_s=10, must_have=['post1'],
    bounds={'owned_names': 3, 'strings': 'names and prefix drawn from "a.b", "a.b.c", "a.bc", "a.c", "a"'},
    functions=[dict(name='bus_connection_is_queued_owner_by_prefix', file='bus/connection.c', status='bounded',
                    contract='TRUE iff some owned name equals the prefix or continues it with a "." (man page: send_destination_prefix / own_prefix matching)'),
               dict(name='dbus_connection_get_data', file='dbus/dbus-connection.c', status='stub', note='returns the BusConnectionData of the connection'),
               dict(name='bus_service_get_name', file='bus/services.c', status='stub', note='returns the name of the service'),
               dict(name='_dbus_string_starts_with_words_c_str, _dbus_string_init_const, _dbus_list_get_first_link', file=STR, status='inlined', note='real code')],
    assumptions=['services_owned holds exactly the services the connection is primary or queued owner of (bus_connection_add_owned_service*, C04 units)']))


def opt(q, tier='quick', expect_s=60, n=3):
    nm, fn = WHAT[q]
    UNITS.append(dict(
        name='C06.optimize_%s_n%d' % (nm, n), props=['C06'], kind='B', route='plain', bus=True, tier=tier,
        tus=[dict(file=POL, include_as='VERIF_TU'), dict(file=LIST), dict(file=STR)], harness='harness/c06_opt.c',
        defines=['VERIF_Q=%d' % q, 'VERIF_N=%d' % n, 'SPEC_STR_MAX=6'], unwind=7, timeout=1500, expect_s=expect_s, must_have=['post1', 'post2'],
        bounds={'rules': n, 'strings': 'as C06.*_n3', 'note': 'mixed send/receive/own lists, every attribute symbolic; decision compared through the real %s before and after' % fn},
        functions=[dict(name='bus_client_policy_optimize + remove_rules_by_type_up_to', file=POL, status='bounded',
                        contract='decision of %s unchanged for every message facts record; remaining rules are a subsequence; dropped rules released once' % fn),
                   dict(name=fn, file=POL, status='inlined', note='real code on both sides; its semantics is the C06.%s_n3 unit' % nm),
                   dict(name='_dbus_list_remove_link/_dbus_list_unlink', file=LIST, status='inlined', note='real code'),
                   dict(name='_dbus_mem_pool_dealloc, _dbus_lock/_dbus_unlock, dbus_free', file='dbus/dbus-mempool.c, dbus-memory.c', status='stub', note='record the release; pool semantics')] + RULE_STUBS,
        assumptions=RULE_ASSUME))


opt(2, expect_s=30)
opt(0, expect_s=400)     # 3-6 min each: kept in the quick tier because only they decide the optimiser for send/receive rules
opt(1, expect_s=300)

UNITS.append(dict(
    name='C06.create_client_policy', props=['C06'], kind='B', route='stub', bus=True,
    tus=[dict(file=POL, include_as='VERIF_TU')], harness='harness/c06_create.c', extra_sources=['stubs/assert_stubs.c'],
    defines=['VERIF_PART=0', 'VERIF_G=3'], unwind=5, timeout=600, expect_s=10,
    replace_calls={'add_list_to_client': 'verif_stub_add_list_to_client', 'bus_client_policy_new': 'verif_stub_bus_client_policy_new',
                   'bus_client_policy_unref': 'verif_stub_bus_client_policy_unref', 'bus_client_policy_optimize': 'verif_stub_bus_client_policy_optimize'},
    must_have=['post3', 'order default -> groups -> user -> console -> mandatory'],
    bounds={'groups_of_the_connection': 3, 'note': 'the only loop is the one over the connection\'s groups (unwound); everything else is loop-free typestate (T)'},
    functions=[dict(name='bus_policy_create_client_policy', file=POL, status='bounded',
                    contract='T: add_list_to_client called in the order default -> groups -> user -> console(true xor false) -> mandatory, each class the documented number of times, optimise last; NULL iff error; releases'),
               dict(name='add_list_to_client', file=POL, status='stub', note='typestate contract requiring the order; its own behaviour is unit C06.add_list_to_client'),
               dict(name='bus_client_policy_new/_unref/_optimize', file=POL, status='stub', note='count calls'),
               dict(name='_dbus_hash_table_get_n_entries/_lookup_uintptr', file='dbus/dbus-hash.c', status='stub', note='ghost map gid/uid -> rule list; the hash table is never executed'),
               dict(name='bus_connection_get_unix_groups, dbus_connection_get_unix_user, _dbus_unix_user_is_at_console, dbus_connection_get_is_authenticated', file='bus/connection.c, dbus/', status='assumed', note='credentials of the connection: arbitrary values; error set on failure')],
    assumptions=['group ids of a connection are pairwise distinct (ghost map is a function)']))
UNITS.append(dict(
    name='C06.add_list_to_client', props=['C06'], kind='B', route='plain', bus=True,
    tus=[dict(file=POL, include_as='VERIF_TU'), dict(file=LIST)], harness='harness/c06_create.c', extra_sources=['stubs/assert_stubs.c'],
    defines=['VERIF_PART=1'], unwind=5, replace_calls={'bus_client_policy_append_rule': 'verif_stub_bus_client_policy_append_rule'}, timeout=600, expect_s=10, must_have=['post1', 'post2'],
    bounds={'rules': 3},
    functions=[dict(name='add_list_to_client', file=POL, status='bounded', contract='appends exactly the send/receive/own rules in list order; user/group rules are not per-connection'),
               dict(name='bus_client_policy_append_rule', file=POL, status='stub', note='records the appended rule; may fail (OOM)')],
    assumptions=[]))

UNITS.append(dict(name='C06.reload', props=['C06', 'C13'], kind='B', route='stub', bus=True, unwindset=['process_config_every_time.0:4'],
    bounds={'listening_servers': 2, 'note': 'only the address-building loop is bounded; the policy/limits/activation order clauses do not depend on it'},
    tus=[dict(file='bus/bus.c', include_as='VERIF_TU')], harness='harness/c06_reload.c',
    replace_calls={'_dbus_string_init': 'verif_stub_string_init', '_dbus_string_free': 'verif_stub_string_free', '_dbus_string_get_length': 'verif_stub_string_get_length',
                   '_dbus_string_append': 'verif_stub_string_append', '_dbus_string_copy_data': 'verif_stub_string_copy_data',
                   'bus_config_parser_get_limits': 'verif_stub_get_limits', 'bus_policy_unref': 'verif_stub_policy_unref',
                   'bus_config_parser_steal_policy': 'verif_stub_steal_policy', 'bus_connections_reload_policy': 'verif_stub_reload_policy',
                   '_dbus_list_get_last_link': 'verif_stub_list_get_last_link',
                   'dbus_server_get_address': 'verif_stub_server_get_address', 'dbus_free': 'verif_stub_dbus_free', '_dbus_strdup': 'verif_stub_strdup',
                   'bus_config_parser_get_service_dirs': 'verif_stub_get_service_dirs', 'bus_config_parser_get_servicehelper': 'verif_stub_get_servicehelper',
                   'bus_activation_reload': 'verif_stub_activation_reload', 'bus_activation_new': 'verif_stub_activation_new', 'dbus_set_error': 'verif_stub_dbus_set_error'},
    allow_skip_msg=True, timeout=600, expect_s=10, must_have=['reload.post2'],
    functions=[dict(name='process_config_every_time', file='bus/bus.c', status='enforced', contract='new policy installed before existing connections are re-evaluated; old policy released once; limits/activation from this parser'),
               dict(name='bus_connections_reload_policy', file='bus/connection.c', status='stub', note='contract: rebuilds every completed connection\'s client policy from context->policy (the C06.create_client_policy unit covers the per-connection build)'),
               dict(name='bus_config_parser_*', file='bus/config-parser.c', status='assumed', note='config parsing is not under contract')],
    assumptions=['bus_connections_reload_policy rebuilds each client policy from context->policy as it is at the time of the call']))

UNITS.append(dict(name='C06.policy_merge', props=['C06'], kind='P', route='stub', bus=True, entry='harness', defines=['VERIF_MODE=1'],
    tus=[dict(file=POL, include_as='VERIF_TU')], harness='harness/c06_merge.c',
    replace_calls={'append_copy_of_policy_list': 'verif_stub_append_copy', 'merge_id_hash': 'verif_stub_merge_id_hash'}, timeout=300, expect_s=5,
    must_have=['merge.post1', 'merge.post2', 'merge.post3'],
    functions=[dict(name='bus_policy_merge', file=POL, status='enforced', contract='TRUE => all six contexts of the included policy absorbed, each once, into the same context; FALSE iff a step failed'),
               dict(name='append_copy_of_policy_list', file=POL, status='replaced', note='contract checked (B) by C06.policy_merge.list'),
               dict(name='merge_id_hash', file=POL, status='replaced', note='contract checked (B) by C06.policy_merge.idhash')],
    assumptions=[]))
UNITS.append(dict(name='C06.policy_merge.idhash', props=['C06'], kind='B', route='stub', bus=True, entry='harness', defines=['VERIF_MODE=2'],
    tus=[dict(file=POL, include_as='VERIF_TU')], harness='harness/c06_merge.c', unwind=4,
    replace_calls={'append_copy_of_policy_list': 'verif_stub_append_copy', 'get_list': 'verif_stub_get_list'}, timeout=300, expect_s=5, bounds={'ids in the absorbed table': 2},
    must_have=['idhash.post1', 'idhash.post3'],
    functions=[dict(name='merge_id_hash', file=POL, status='bounded', contract='every id of the absorbed table merged once into the destination list of the same id'),
               dict(name='get_list, _dbus_hash_iter_*', file=POL + ', dbus/dbus-hash.c', status='stub', note='ghost table of <= 2 ids; get_list may fail (OOM)')],
    assumptions=['<= 2 ids (bound)']))
for _ns, _nd in ((0, 1), (1, 0), (2, 1), (1, 2), (2, 2)):
    UNITS.append(dict(name='C06.policy_merge.list.s%d_d%d' % (_ns, _nd), props=['C06', 'C14'], kind='B', route='plain', bus=True, entry='harness', defines=['VERIF_MODE=3', 'VERIF_NS=%d' % _ns, 'VERIF_ND=%d' % _nd],
        tus=[dict(file=POL, include_as='VERIF_TU'), dict(file='dbus/dbus-list.c')], harness='harness/c06_merge.c', unwind=7,
        replace_calls={'alloc_link': 'verif_alloc_link', 'free_link': 'verif_free_link'}, timeout=600, expect_s=60, bounds={'source rules': _ns, 'destination rules': _nd},
        must_have=['copy.post1', 'copy.post3', 'copy.post5'],
        functions=[dict(name='append_copy_of_policy_list', file=POL, status='bounded', contract='TRUE => old destination + source rules in order, one more reference each; FALSE => nothing changed; source untouched'),
                   dict(name='_dbus_list_append/_pop_first_link/_append_link/_clear', file='dbus/dbus-list.c', status='bounded', note='real pointer code'),
                   dict(name='alloc_link/free_link', file='dbus/dbus-list.c', status='stub', note='pool, may fail')],
        assumptions=['source of %d and destination of %d rules (bound)' % (_ns, _nd)]))
