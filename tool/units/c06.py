"""C06 / C09 — security policy gate (P-stub) and rule semantics (B)."""
UNITS = [
    dict(name='C06.gate', props=['C06', 'C09'], kind='P', route='stub', bus=True,
         tus=[dict(file='bus/bus.c', include_as='VERIF_TU')], harness='harness/c06_gate.c',
         replace_calls={'dbus_set_error': 'verif_stub_dbus_set_error', 'complain_about_message': 'verif_stub_complain_about_message'},
         timeout=300, expect_s=5,
         must_have=['post3', 'post6a', 'post7b'],
         functions=[dict(name='bus_context_check_security_policy', file='bus/bus.c', status='enforced', contract='11 typestate postconditions (DESIGN 6 C06)'),
                    dict(name='bus_client_policy_check_can_send/_can_receive', file='bus/policy.c', status='stub', note='contract: records policy used and requested_reply; verdict arbitrary (rule semantics are the C06 B units)'),
                    dict(name='bus_connections_check_reply/expect_reply', file='bus/connection.c', status='stub', note='contract: counts calls; semantics are the C09 B units'),
                    dict(name='bus_selinux_allows_send/bus_apparmor_allows_send', file='bus/selinux.c, bus/apparmor.c', status='assumed', note='arbitrary verdict; error set on denial')],
         assumptions=['LSM hooks (SELinux/AppArmor) return an arbitrary verdict and set the error when denying']),
]
