"""C01 — untrusted bytes become a message only if spec-valid, and always safely (+ C11 lemmas, C13 size limit)."""
HDR = 'dbus/dbus-marshal-header.c'
STR = 'dbus/dbus-string.c'
BASIC = 'dbus/dbus-marshal-basic.c'
VAL = 'dbus/dbus-marshal-validate.c'
REC = 'dbus/dbus-marshal-recursive.c'
ASSERT = 'stubs/assert_stubs.c'
UNITS = [
    dict(name='C01.have_message', props=['C01', 'C11', 'C13', 'C10'], kind='P', route='dfcc', enforce=['_dbus_header_have_message_untrusted'],
         tus=[dict(file=HDR), dict(file=STR), dict(file=BASIC)], harness='harness/c01_have.c', extra_sources=[ASSERT],
         timeout=900, expect_s=30, must_have=['Check ensures clause of contract'],
         cbmc_flags=['--unsigned-overflow-check'],
         functions=[dict(name='_dbus_header_have_message_untrusted', file=HDR, status='enforced', contract='bit-exact: verdict/outputs = explicit function of the 16 fixed header bytes, max and len'),
                    dict(name='_dbus_marshal_read_uint32/_dbus_unpack_uint32/_dbus_string_get_byte', file=BASIC, status='inlined', note='real code, loop-free')],
         assumptions=['DBusString representation invariant (precondition); start 8-aligned and len >= 16 as established by the loader loop (C11.F3)']),
]
