"""C01 — untrusted bytes become a message only if spec-valid, and always safely (+ C11 lemmas, C13 size limit)."""
HDR = 'dbus/dbus-marshal-header.c'
STR = 'dbus/dbus-string.c'
BASIC = 'dbus/dbus-marshal-basic.c'
VAL = 'dbus/dbus-marshal-validate.c'
REC = 'dbus/dbus-marshal-recursive.c'
ASSERT = 'stubs/assert_stubs.c'
UNITS = [
    dict(name='C01.have_message', props=['C01', 'C11', 'C13', 'C10'], kind='P', route='dfcc', enforce=['_dbus_header_have_message_untrusted'],
         tus=[dict(file=HDR), dict(file=STR), dict(file=BASIC)], harness='harness/c01_have.c', extra_sources=[ASSERT],
         timeout=900, expect_s=30, must_have=['Check ensures clause of contract'],
         cbmc_flags=['--unsigned-overflow-check'],
         functions=[dict(name='_dbus_header_have_message_untrusted', file=HDR, status='enforced', contract='bit-exact: verdict/outputs = explicit function of the 16 fixed header bytes, max and len'),
                    dict(name='_dbus_marshal_read_uint32/_dbus_unpack_uint32/_dbus_string_get_byte', file=BASIC, status='inlined', note='real code, loop-free')],
         assumptions=['DBusString representation invariant (precondition); start 8-aligned and len >= 16 as established by the loader loop (C11.F3)']),
]

# ---- C01.5a: body validator == reference decoder, per constant signature (B) -------------------------
BODYTUS = [dict(file=f) for f in (VAL, STR, REC, BASIC, 'dbus/dbus-signature.c')]
# catalogue: every basic type; arrays of every element alignment; structs mixing alignments; nesting
CATALOGUE_QUICK = ['y', 'b', 'n', 'q', 'i', 'u', 'x', 't', 'd', 's', 'o', 'g', 'h',
                   'ay', 'ab', 'an', 'au', 'ax', 'ad', 'as', 'ao', 'ah',   # 'ag' (array of signatures) runs out of 16 GB at any useful bound: not decided
                  
                   'yu', 'yx', 'yn', 'sy', 'ys', 'gu', 'bb',
                   '(yu)', '(yx)', 'y(y)', '(y(yu))', 'a(yu)', 'a(yy)', 'aay', 'aau', 'a{ys}', 'a{uy}', 'a(y(y))', 'ayay']


def body_unit(sig, n, le, tier):
    nm = 'C01.body.%s.%s%d' % (sig, 'le' if le else 'be', n)
    UNITS.append(dict(name=nm, props=['C01'], kind='B', route='plain', entry='harness', tus=BODYTUS,
                      harness='harness/eq_body.c', extra_sources=[ASSERT, 'stubs/list_as_stack.c'],
                      defines=['VERIF_N=%d' % n, 'VERIF_LE=%d' % le, 'VERIF_SIG="%s"' % sig], unwind=n + 3, timeout=1800, tier=tier,
                      expect_s=30, trace_is_execution=True, replay_family='body', replay_fn='%s:%d' % (sig, le),
                      bounds={'signature': sig, 'body_bytes': n, 'byte_order': 'little' if le else 'big'},
                      functions=[dict(name='_dbus_validate_body_with_reason / validate_body_helper', file=VAL, status='bounded'),
                                 dict(name='_dbus_type_reader_* (types-only reader)', file=REC, status='bounded', note='real code inlined'),
                                 dict(name='_dbus_list_* in the signature validator', file='dbus/dbus-list.c', status='assumed', note='LIFO stack stub')],
                      assumptions=['dbus-list behaves as a LIFO stack of integers in the signature validator (stub, not verified)']))


# measured (16 cores, 10 jobs): string-typed content is validated byte by byte (UTF-8 / path / signature grammar) and dominates
# the cost; bounds per signature are chosen so that each quick unit stays under ~2 minutes.
QUICK_N = {'g': None, 'aau': None, 'a{ys}': None, 'aay': None, 'a(y(y))': None, 'gu': None, 'ag': None, 'as': None, 'ao': 10, 's': 12, 'o': 12, 'sy': 12, 'ys': 12}
THOROUGH_N = {'aau': 16, 'aay': 16, 'a(y(y))': 16, 'g': 8, 'gu': 12, 'ag': 10, 'as': 10, 'ao': 12, 'a{ys}': 10, 's': 16, 'o': 16, 'sy': 16, 'ys': 16}


for _i, _sig in enumerate(CATALOGUE_QUICK):
    _q = QUICK_N.get(_sig, 16)
    _t = THOROUGH_N.get(_sig, 24)
    if _q:
        body_unit(_sig, _q, _i % 2, 'quick')          # byte orders alternate in the quick tier
        body_unit(_sig, _q, 1 - _i % 2, 'thorough')
    if _t != _q:
        body_unit(_sig, _t, _i % 2, 'thorough')


# ---- nesting-depth bookkeeping of the body validator (B on a constant signature) ----------------------
for _nm, _sig, _exp, _n in (('struct3', '(((y)))', '{0, 1, 2, 3}', 8), ('arr_struct', 'a(y)', '{0, 1, 2}', 16), ('dict', 'a{y(y)}', '{0, 1, 2, 3}', 20), ('arr2', 'aay', '{0, 1}', 16)):
    UNITS.append(dict(name='C01.depth.' + _nm, props=['C01', 'C10'], kind='B', route='plain', entry='harness',
                      tus=[dict(file=VAL, overlay='validate_depth.ovl'), dict(file=STR), dict(file=REC), dict(file=BASIC), dict(file='dbus/dbus-signature.c')],
                      harness='harness/c01_depth.c', extra_sources=[ASSERT, 'stubs/list_as_stack.c'],
                      defines=['VERIF_N=%d' % _n, 'VERIF_SIG="%s"' % _sig, 'VERIF_EXPECT=%s' % _exp], unwind=_n + 3, timeout=900, expect_s=20,
                      cbmc_flags=['--object-bits', '10'], must_have=['depth.arg'],
                      bounds={'signature': _sig, 'body_bytes': _n},
                      functions=[dict(name='validate_body_helper', file=VAL, status='bounded', note='ghost log of the total_depth argument of every invocation')],
                      assumptions=['dbus-list behaves as a LIFO stack of integers in the signature validator (stub, not verified)']))


# ---- variants: the contained signature is part of the body. With a SYMBOLIC contained signature the unit does not finish
# (34 min, no verdict: control flow on type codes stored in the buffer); each unit therefore FIXES the contained signature bytes
# (concrete assignments) and leaves the rest of the body symbolic.
for _nm, _fix, _n in (('u', "in_buf[0] = 1; in_buf[1] = 'u'; in_buf[2] = 0;", 12), ('y', "in_buf[0] = 1; in_buf[1] = 'y'; in_buf[2] = 0;", 8),
                      ('s', "in_buf[0] = 1; in_buf[1] = 's'; in_buf[2] = 0;", 12), ('ay', "in_buf[0] = 2; in_buf[1] = 'a'; in_buf[2] = 'y'; in_buf[3] = 0;", 12),
                      ('_y_', "in_buf[0] = 3; in_buf[1] = '('; in_buf[2] = 'y'; in_buf[3] = ')'; in_buf[4] = 0;", 12)):
    for _le, _tier in ((1, 'quick'), (0, 'thorough')):
        _u = dict([u for u in UNITS if u['name'].startswith('C01.body.y.')][0])
        _u = dict(_u, name='C01.body.v_%s.%s%d' % (_nm, 'le' if _le else 'be', _n), tier=_tier, expect_s=60, timeout=1200,
                  defines=['VERIF_N=%d' % _n, 'VERIF_LE=%d' % _le, 'VERIF_SIG="v"', 'VERIF_BODY_ASSUME=' + _fix], unwind=_n + 3,
                  cbmc_flags=['--object-bits', '10'], replay_fn='v:%d' % _le,
                  bounds={'signature': 'v', 'body_bytes': _n, 'byte_order': 'little' if _le else 'big', 'variant_signature_fixed_to': _nm})
        UNITS.append(_u)
