"""C03 / C05 / C18 / C10 / C14 / C15 -- typestate (T) units for the message-routing core of dbus-daemon (P-stub route)."""
import os
import re

_VERIF = os.path.dirname(os.path.dirname(os.path.dirname(os.path.abspath(__file__))))
_STUBS = open(os.path.join(_VERIF, 'stubs', 'c03_stubs.c')).read()
ALL_STUBS = sorted(set(re.findall(r'\bverif_stub_([A-Za-z0-9_]+)\s*\(', _STUBS)))


def bind(real):
    """--replace-calls map: every bus-level callee contract of stubs/c03_stubs.c except the functions that stay real."""
    return {f: 'verif_stub_' + f for f in ALL_STUBS if f not in real}


LIBDBUS_MODEL = dict(name='dbus_message_* / dbus_connection_* / dbus_error_* accessors', file='dbus/dbus-message.c, dbus-connection.c, dbus-errors.c', status='stub',
                     note='ghost-definition: opaque libdbus objects are ghost records (spec/bus_typestate.h); public API preconditions (_dbus_return_if_fail) are asserted')
UNITS = []

# one line per callee contract (stubs/c03_stubs.c); 'replaced' = the contract is enforced by another unit of this family or of C06
NOTES = {
    'bus_dispatch_matches': ('bus/dispatch.c', 'replaced', 'contract POST_bus_dispatch_matches enforced (B <= 3 recipients) by unit C05.matches'),
    'send_one_message': ('bus/dispatch.c', 'replaced', 'contract enforced by unit C15.send_one'),
    'bus_transaction_capture': ('bus/connection.c', 'replaced', 'REQUIRES sanitized message, nothing decided yet, not captured before; enforced (B <= 3 monitors) by unit C18.capture'),
    'bus_transaction_capture_error_reply': ('bus/connection.c', 'replaced', 'REQUIRES error set and a non-zero serial of the refused message; enforced by unit C18.capture_error'),
    'bus_transaction_send_error_reply': ('bus/connection.c', 'replaced', 'enforced by unit C05.error_reply'),
    'bus_transaction_send_from_driver': ('bus/connection.c', 'replaced', 'enforced by unit C03.from_driver'),
    'bus_context_check_security_policy': ('bus/bus.c', 'replaced', 'REQUIRES sanitized and already captured message; refusal sets an error; inactive sender only Hello (enforced by unit C06.gate)'),
    'bus_driver_handle_message': ('bus/driver.c', 'stub', 'REQUIRES captured once and admitted by the gate; TRUE for an unregistered sender => it is Hello and the connection is now active with the message re-stamped (unit C03.hello); handler table itself not in this family'),
    'bus_activation_activate_service': ('bus/activation.c', 'stub', 'REQUIRES sanitized, captured, auto-start, ownerless name; arbitrary verdict, error on failure (C19)'),
    'bus_registry_lookup': ('bus/services.c', 'stub', 'ghost map with one entry (hash table never executed): the destination has an owner or not'),
    'bus_service_get_primary_owners_connection': ('bus/services.c', 'stub', 'returns the head of the owner queue of the service found by this step (non-NULL: OWN_INV, C04)'),
    'bus_transaction_new': ('bus/connection.c', 'stub', 'NULL (OOM) or the transaction of this step; at most one per step'),
    'bus_transaction_execute_and_free': ('bus/connection.c', 'stub', 'ghost-definition: counts; REQUIRES a live transaction not yet finished'),
    'bus_transaction_cancel_and_free': ('bus/connection.c', 'stub', 'ghost-definition: counts; REQUIRES a live transaction not yet finished'),
    'bus_transaction_send': ('bus/connection.c', 'stub', 'ghost-definition: stages one copy for the destination or fails (OOM); REQUIRES a bus-written sender'),
    'bus_connection_send_oom_error': ('bus/connection.c', 'stub', 'REQUIRES the preallocated error and a non-zero serial; consumes the preallocation'),
    'bus_connection_preallocate_oom_error': ('bus/connection.c', 'stub', 'may fail any number of times'),
    'bus_connection_disconnected': ('bus/connection.c', 'stub', 'ghost-definition: counts'),
    'bus_connection_is_active/is_monitor/get_name/get_context/get_registry/get_activation/get_loginfo': ('bus/connection.c', 'stub', 'accessors over the ghost connection record; active <=> has a unique name'),
    'bus_context_log': ('bus/bus.c', 'stub', 'logging only'),
    'bus_matchmaker_get_recipients': ('bus/signals.c', 'stub', '<= 3 distinct connections, never the addressed recipient (C07 B units)'),
}


def callee(*names):
    return [dict(name=n, file=NOTES[n][0], status=NOTES[n][1], note=NOTES[n][2]) for n in names]


UNITS.append(dict(
    name='C03.dispatch', props=['C03', 'C05', 'C18', 'C10', 'C14'], kind='P', route='hybrid', bus=True,
    tus=[dict(file='bus/dispatch.c', overlay='c03_dispatch.ovl', include_as='VERIF_TU')], harness='harness/c03_dispatch.c',
    replace_calls=bind(['bus_dispatch', 'bus_context_log']), timeout=600, expect_s=30,
    allow_skip_msg=True,   # constant-bound loops of the harness/stubs and libc strcmp carry no contract (they are not under contract); the guard for bus_dispatch's own loop is must_have
    must_have=['Check invariant after step for loop bus_dispatch.0', 'post.C03.stamped', 'post.C18.capture-once', 'post.C05.owner', 'post.C14.finish-once', 'precondition of bus_transaction_capture', 'precondition of bus_dispatch_matches'],
    functions=[dict(name='bus_dispatch', file='bus/dispatch.c', status='enforced', contract='typestate postconditions C03/C05/C18/C10/C14 (harness/c03_dispatch.c); wait-for-memory loop closed by a loop contract')]
    + callee('bus_transaction_capture', 'bus_context_check_security_policy', 'bus_driver_handle_message', 'bus_activation_activate_service', 'bus_dispatch_matches',
             'bus_transaction_send_error_reply', 'bus_registry_lookup', 'bus_service_get_primary_owners_connection', 'bus_transaction_new',
             'bus_transaction_execute_and_free', 'bus_transaction_cancel_and_free', 'bus_connection_send_oom_error', 'bus_connection_preallocate_oom_error',
             'bus_connection_disconnected', 'bus_connection_is_active/is_monitor/get_name/get_context/get_registry/get_activation/get_loginfo', 'bus_context_log')
    + [LIBDBUS_MODEL],
    assumptions=['precondition: the dispatched message has a non-zero serial (S: "This must not be zero"; enforced by the loader, C01)',
                 'the destination name, if owned, has a primary owner (OWN_INV, C04)',
                 'extraction drop (DFCC cannot handle variadic callees): format string and format arguments of 3 bus_context_log calls and 1 dbus_set_error call in bus_dispatch are not evaluated (harness/c03_dispatch.c)',
                 'documented exception of the code, not of the specification: a destination-less non-signal from an unregistered connection is left to libdbus (NOT_YET_HANDLED) instead of closing the connection; the literal reading is unit C03.dispatch.strict (red)']))

UNITS.append(dict(
    name='C15.send_one', props=['C15', 'C05', 'C18'], kind='P', route='stub', bus=True, entry='harness_send_one',
    tus=[dict(file='bus/dispatch.c', include_as='VERIF_TU')], harness='harness/c03_matches.c',
    replace_calls=bind(['send_one_message']), timeout=300, expect_s=5,
    must_have=['post.C15.no-fd-without-negotiation', 'post.C18.refusal-shown', 'precondition of bus_transaction_capture_error_reply'],
    functions=[dict(name='send_one_message', file='bus/dispatch.c', status='enforced', contract='gate once; staged iff allowed and fd-capable; refusal shown to monitors once; FALSE only on OOM'),
               dict(name='bus_context_check_security_policy', file='bus/bus.c', status='stub', note='contract enforced by unit C06.gate; verdict arbitrary here'),
               dict(name='bus_transaction_send', file='bus/connection.c', status='stub', note='ghost-definition: stages one copy for the destination or fails (OOM)'),
               dict(name='bus_transaction_capture_error_reply', file='bus/connection.c', status='stub', note='contract enforced by unit C18.capture_error'),
               LIBDBUS_MODEL],
    assumptions=['bus-made broadcasts arrive with serial 0; send_one_message assigns one before reporting a refusal (fix 281c87a), checked in C15.send_one']))

UNITS.append(dict(
    name='C05.matches', props=['C05', 'C15', 'C18'], kind='B', route='stub', bus=True, entry='harness_matches',
    tus=[dict(file='bus/dispatch.c', include_as='VERIF_TU')], harness='harness/c03_matches.c',
    replace_calls=bind(['bus_dispatch_matches']), unwindset=['bus_dispatch_matches.0:4'], timeout=300, expect_s=10,
    bounds={'match_recipients': 3, 'note': 'loop over the list returned by bus_matchmaker_get_recipients unwound 4 times with unwinding assertion'},
    must_have=['post.contract', 'post.C05.single-send', 'post.C05.nothing-after-denial'],
    functions=[dict(name='bus_dispatch_matches', file='bus/dispatch.c', status='bounded', contract='POST_bus_dispatch_matches + single send + fd capability + nothing after denial'),
               dict(name='send_one_message', file='bus/dispatch.c', status='replaced', note='contract enforced by unit C15.send_one'),
               dict(name='bus_matchmaker_get_recipients', file='bus/signals.c', status='stub', note='<= 3 distinct connections, never the addressed recipient (C07 B units)'),
               dict(name='bus_context_check_security_policy', file='bus/bus.c', status='stub', note='contract enforced by unit C06.gate'),
               dict(name='bus_transaction_send', file='bus/connection.c', status='stub', note='ghost-definition'),
               LIBDBUS_MODEL],
    assumptions=['precondition: routed message sanitized, captured, non-zero serial; sender NULL or active (what bus_dispatch establishes, unit C03.dispatch)']))

CONN = [dict(file='bus/connection.c', include_as='VERIF_TU')]
GATE = dict(name='bus_context_check_security_policy', file='bus/bus.c', status='stub', note='contract enforced by unit C06.gate; verdict arbitrary here')
SEND = dict(name='bus_transaction_send', file='bus/connection.c', status='stub', note='ghost-definition: stages one copy for the destination or fails (OOM); its list code is not in this family')

UNITS.append(dict(
    name='C03.from_driver', props=['C03', 'C18', 'C05', 'C10'], kind='P', route='stub', bus=True, entry='harness_from_driver',
    tus=CONN, harness='harness/c03_connection.c', replace_calls=bind(['bus_transaction_send_from_driver']), timeout=300, expect_s=5,
    must_have=['post.C03.driver-sender', 'post.C18.capture-first', 'precondition of bus_transaction_capture_error_reply'],
    functions=[dict(name='bus_transaction_send_from_driver', file='bus/connection.c', status='enforced', contract='sender = org.freedesktop.DBus before anything observes; capture once before the gate; staged once iff allowed; denial shown to monitors'),
               dict(name='bus_transaction_capture', file='bus/connection.c', status='replaced', note='contract enforced (B <= 3) by unit C18.capture'),
               dict(name='bus_transaction_capture_error_reply', file='bus/connection.c', status='replaced', note='contract enforced by unit C18.capture_error'),
               GATE, SEND, LIBDBUS_MODEL],
    assumptions=['input: a message freshly built by the bus, i.e. serial == 0 (dbus_message_new_* never assign a serial; dbus_connection_send does)']))

UNITS.append(dict(
    name='C05.error_reply', props=['C05', 'C14'], kind='P', route='stub', bus=True, entry='harness_error_reply',
    tus=CONN, harness='harness/c03_connection.c', replace_calls=bind(['bus_transaction_send_error_reply']), timeout=300, expect_s=5,
    must_have=['post.C05.reply-shape', 'post.unref'],
    functions=[dict(name='bus_transaction_send_error_reply', file='bus/connection.c', status='enforced', contract='one ERROR with the error name and the call serial, sent from the driver to the given connection, released once'),
               dict(name='bus_transaction_send_from_driver', file='bus/connection.c', status='replaced', note='contract enforced by unit C03.from_driver'),
               LIBDBUS_MODEL],
    assumptions=['precondition: error set; the answered message has a non-zero serial (established by bus_dispatch for wire messages, unit C03.dispatch)']))

UNITS.append(dict(
    name='C18.capture_error', props=['C18'], kind='P', route='stub', bus=True, entry='harness_capture_error',
    tus=CONN, harness='harness/c03_connection.c', replace_calls=bind(['bus_transaction_capture_error_reply']), timeout=300, expect_s=5,
    must_have=['post.C18.error-shape', 'post.unref', 'precondition of bus_transaction_capture'],
    functions=[dict(name='bus_transaction_capture_error_reply', file='bus/connection.c', status='enforced', contract='no monitors: nothing built; else one ERROR from the bus in reply to the refused message, captured once, released once'),
               dict(name='bus_transaction_capture', file='bus/connection.c', status='replaced', note='contract enforced (B <= 3) by unit C18.capture'),
               LIBDBUS_MODEL],
    assumptions=['precondition: error set and in_reply_to has a non-zero serial (this is what bus_transaction_send_from_driver fails to establish)',
                 'BusConnections invariant: monitors != NULL => monitor_matchmaker != NULL (bus_connection_be_monitor)']))

UNITS.append(dict(
    name='C18.capture', props=['C18'], kind='B', route='stub', bus=True, entry='harness_capture',
    tus=CONN, harness='harness/c03_connection.c', replace_calls=bind(['bus_transaction_capture']), unwindset=['bus_transaction_capture.0:4'], timeout=300, expect_s=10,
    bounds={'matching_monitors': 3, 'note': 'loop over the list returned by the monitor matchmaker unwound 4 times with unwinding assertion'},
    must_have=['post.C18.monitor-filter', 'post.C18.monitors-only', 'post.C18.every-monitor'],
    functions=[dict(name='bus_transaction_capture', file='bus/connection.c', status='bounded', contract='monitor matchmaker asked once; one copy to each returned monitor and to nobody else; list released'),
               dict(name='bus_matchmaker_get_recipients', file='bus/signals.c', status='stub', note='<= 3 distinct connections, never the addressed recipient (C07 B units)'),
               SEND, LIBDBUS_MODEL],
    assumptions=['BusConnections invariant: monitors != NULL => monitor_matchmaker != NULL (bus_connection_be_monitor)']))

DRV = [dict(file='bus/driver.c', include_as='VERIF_TU')]
UNITS.append(dict(
    name='C03.hello', props=['C03', 'C13'], kind='P', route='stub', bus=True, entry='harness_hello',
    tus=DRV, harness='harness/c03_driver.c', replace_calls=bind(['bus_driver_handle_hello']), timeout=300, expect_s=5,
    must_have=['post.C03.hello-once', 'post.C03.hello-complete', 'precondition of bus_connection_complete'],
    functions=[dict(name='bus_driver_handle_hello', file='bus/driver.c', status='enforced', contract='second Hello refused without effect; order limits -> mint -> complete(minted) -> restamp -> welcome -> register(minted); success => all of them'),
               dict(name='create_unique_client_name', file='bus/driver.c', status='replaced', note='contract enforced by unit C03.mint'),
               dict(name='bus_driver_send_welcome_message', file='bus/driver.c', status='replaced', note='contract enforced by unit C03.welcome'),
               dict(name='bus_connections_check_limits', file='bus/connection.c', status='stub', note='arbitrary verdict, LimitsExceeded on refusal (C13 units)'),
               dict(name='bus_connection_complete', file='bus/connection.c', status='stub', note='TRUE => connection active under the given name; FALSE => error set, nothing changed (its own code shows the undo)'),
               dict(name='bus_registry_ensure', file='bus/services.c', status='stub', note='arbitrary success (C04 units)'),
               LIBDBUS_MODEL],
    assumptions=[]))
UNITS.append(dict(
    name='C14.hello_atomic', props=['C14'], kind='P', route='stub', bus=True, entry='harness_hello', defines=['C03_HELLO_ATOMIC'],
    tus=DRV, harness='harness/c03_driver.c', replace_calls=bind(['bus_driver_handle_hello']), timeout=300, expect_s=5,
    must_have=['post.C14.hello-atomic'],
    functions=[dict(name='bus_driver_handle_hello', file='bus/driver.c', status='enforced', contract='C03.hello plus: a failed Hello leaves the connection without unique name')],
    assumptions=[]))
UNITS.append(dict(
    name='C03.welcome', props=['C03'], kind='P', route='stub', bus=True, entry='harness_welcome',
    tus=DRV, harness='harness/c03_driver.c', replace_calls=bind(['bus_driver_send_welcome_message']), timeout=300, expect_s=5,
    must_have=['post.C03.welcome-shape', 'precondition of dbus_message_new_method_return'],
    functions=[dict(name='bus_driver_send_welcome_message', file='bus/driver.c', status='enforced', contract='METHOD_RETURN to the Hello call carrying the unique name, through bus_transaction_send_from_driver, released once; FALSE only on OOM'),
               dict(name='bus_transaction_send_from_driver', file='bus/connection.c', status='stub', note='contract enforced by unit C03.from_driver'),
               LIBDBUS_MODEL],
    assumptions=['precondition: the connection was completed (has its unique name) and the Hello message has a non-zero serial']))
UNITS.append(dict(
    name='C03.mint', props=['C03'], kind='P', route='hybrid', bus=True, entry='harness_mint',
    tus=[dict(file='bus/driver.c', overlay='c03_driver.ovl', include_as='VERIF_TU')], harness='harness/c03_driver.c',
    replace_calls=bind(['create_unique_client_name', 'bus_context_log']), timeout=600, expect_s=60, allow_skip_msg=True,
    must_have=['Check invariant after step for loop create_unique_client_name.0', 'post.C03.counter-past', 'post.C03.colon-name'],
    functions=[dict(name='create_unique_client_name', file='bus/driver.c', status='enforced', contract='loop contract on the static counter pair: lexicographically increasing; minted name = ":" major "." minor, not registered, counter left strictly above it'),
               dict(name='_dbus_string_append/_append_int/_set_length', file='dbus/dbus-string.c', status='stub', note='ghost-definition: token log of the appended text; dummy2 is the length; any append may fail (OOM)'),
               dict(name='bus_registry_lookup', file='bus/services.c', status='stub', note='arbitrary answer per candidate (hash table never executed)')],
    assumptions=['precondition on the static counters (injected at function entry by contracts/c03_driver.ovl, the only way to name static locals): 0 <= major, 0 <= minor, major > 0 or minor == 0 (shown to be preserved)',
                 'no-wrap assumptions injected before the two increments: major < INT_MAX (the code\'s own "INT_MAX * INT_MAX clients were added") and minor < INT_MAX (the code relies on signed wrap-around of next_minor_number, undefined behaviour: see unit C03.mint.wrap)',
                 'injectivity of decimal printing (_dbus_string_append_int = snprintf("%d"))']))

UNITS.append(dict(
    name='C18.owner_changed', props=['C18', 'C10'], kind='P', route='stub', bus=True, entry='harness_owner_changed',
    tus=DRV, harness='harness/c03_driver.c', replace_calls=bind(['bus_driver_send_service_owner_changed']), timeout=300, expect_s=5,
    must_have=['post.C03.driver-signal', 'post.C18.capture-then-route', 'precondition of bus_dispatch_matches'],
    functions=[dict(name='bus_driver_send_service_owner_changed', file='bus/driver.c', status='enforced', contract='NameOwnerChanged: sender org.freedesktop.DBus, three strings, captured once then routed once as a broadcast, released once'),
               dict(name='bus_dispatch_matches', file='bus/dispatch.c', status='stub', note='contract enforced (B <= 3) by unit C05.matches; REQUIRES a non-zero serial (refusals are reported to monitors as error replies)'),
               dict(name='bus_transaction_capture', file='bus/connection.c', status='stub', note='contract enforced (B <= 3) by unit C18.capture'),
               LIBDBUS_MODEL],
    assumptions=[]))

# Diagnostic variants (role 'finder': never part of a check; run them with tool.core directly). They state the specification
# without a documented exception of the code and are RED on the unchanged tree -- see the helper's report.
UNITS.append(dict(UNITS[-1], name='C03.mint.wrap', role='finder', defines=['C03_MINT_WRAP'], must_have=[],
                  assumptions=['as C03.mint but WITHOUT the assumption minor < INT_MAX: names the signed overflow of next_minor_number']))
UNITS.append(dict(UNITS[0], name='C03.dispatch.strict', role='finder', defines=['C03_STRICT_UNREGISTERED'], must_have=[],
                  assumptions=['as C03.dispatch plus the literal reading of the specification: every message of an unregistered connection that is not addressed to the bus closes it']))

UNITS.append(dict(name='C03.header_setters', props=['C03', 'C12'], kind='P', route='stub', entry='harness',
    tus=[dict(file='dbus/dbus-message.c', include_as='VERIF_TU')], harness='harness/c03_setters.c',
    replace_calls={'_dbus_header_set_field_basic': 'verif_stub_set_field_basic', '_dbus_header_delete_field': 'verif_stub_delete_field', '_dbus_header_get_field_raw': 'verif_stub_get_field_raw'},
    timeout=300, expect_s=5, must_have=['setter.post1', 'setter.post2'],
    functions=[dict(name='dbus_message_set_sender/_destination/_path/_interface/_member/_error_name, set_or_delete_string_field', file='dbus/dbus-message.c', status='enforced', contract='value => one unconditional _dbus_header_set_field_basic (field, type, value); NULL => one _dbus_header_delete_field; result passed on'),
               dict(name='_dbus_header_set_field_basic, _dbus_header_delete_field', file='dbus/dbus-marshal-header.c', status='replaced', note='contracts enforced by C12.edit.set_field / C12.edit.delete_field'),
               dict(name='_dbus_check_is_valid_*', file='dbus/dbus-marshal-validate.c', status='stub', note='API precondition checks: TRUE (the argument is valid)')],
    assumptions=['the value passed is valid for the field (API precondition)']))
