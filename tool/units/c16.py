"""C16 — validity predicates accept exactly the specified grammars."""
VAL = 'dbus/dbus-marshal-validate.c'
STR = 'dbus/dbus-string.c'
ASSERT = 'stubs/assert_stubs.c'

COMMON_ASSUME = ['DBusString representation invariant (DBUS_GENERIC_STRING_PREAMBLE + str[len]==0) holds for the argument (precondition)']

UNITS = []


def scanner(name, fn, harness, must, expect_s=20, tier='quick', solver='cadical', extra=None, finder=None, timeout=600):
    u = dict(name='C16.' + name, props=['C16', 'C01', 'C10'], kind='P', route='dfcc', entry='harness', enforce=[fn],
             tus=[dict(file=VAL, overlay='validate_names.ovl'), dict(file=STR)],
             harness=harness, extra_sources=[ASSERT], timeout=timeout, expect_s=expect_s, tier=tier, solver=solver,
             must_have=must, finder=finder,
             functions=[dict(name=fn, file=VAL, status='enforced', contract='exact grammar, both directions, unbounded length'),
                        dict(name='_dbus_string_get_length/_dbus_string_get_const_data', file=STR, status='inlined', note='real code, loop-free')],
             assumptions=COMMON_ASSUME)
    if extra:
        u.update(extra)
    UNITS.append(u)


def eq(name, fn_no, fn, n, tier, role='check', expect_s=20):
    UNITS.append(dict(name='C16.%s' % name, props=['C16'], kind='W' if n >= 257 else 'B', route='plain', entry='harness',
                      tus=[dict(file=VAL), dict(file=STR)], harness='harness/eq_names.c', extra_sources=[ASSERT],
                      defines=['VERIF_FN=%d' % fn_no, 'VERIF_N=%d' % n], unwind=n + 2, timeout=900, tier=tier, role=role,
                      expect_s=expect_s, trace_is_execution=True, replay_family='validator', replay_fn=fn,
                      bounds={'buffer_bytes': n, 'note': 'names are capped at 255 bytes by the function itself' if n >= 257 else 'finder only'},
                      functions=[dict(name=fn, file=VAL, status='checked-by-complete-unwinding' if n >= 257 else 'bounded')],
                      assumptions=[]))


LOOPINV = ['Check invariant after step for loop', 'Check ensures clause of contract']
scanner('member', '_dbus_validate_member', 'harness/c16_member.c', LOOPINV, finder='C16.find.member')
eq('find.member', 1, '_dbus_validate_member', 12, 'quick', role='finder')
eq('w.member', 1, '_dbus_validate_member', 257, 'thorough', expect_s=30)

scanner('interface', '_dbus_validate_interface', 'harness/c16_iface.c', LOOPINV, finder='C16.find.interface', extra=dict(defines=['VERIF_FN=_dbus_validate_interface']))
scanner('error_name', '_dbus_validate_error_name', 'harness/c16_iface.c', LOOPINV, finder='C16.find.error_name', extra=dict(defines=['VERIF_FN=_dbus_validate_error_name']))
scanner('bus_name', '_dbus_validate_bus_name', 'harness/c16_bus.c', LOOPINV, finder='C16.find.bus_name', extra=dict(defines=['VERIF_NS=0']), expect_s=300, timeout=1500)
scanner('bus_namespace', '_dbus_validate_bus_namespace', 'harness/c16_bus.c', LOOPINV, finder='C16.find.bus_namespace', extra=dict(defines=['VERIF_NS=1']), expect_s=300, timeout=1500)
scanner('path', '_dbus_validate_path', 'harness/c16_path.c', LOOPINV, finder='C16.find.path', expect_s=60)
for i, (nm, fn) in enumerate([('interface', '_dbus_validate_interface'), ('error_name', '_dbus_validate_error_name'),
                              ('bus_name', '_dbus_validate_bus_name'), ('bus_namespace', '_dbus_validate_bus_namespace'),
                              ('path', '_dbus_validate_path')]):
    eq('find.' + nm, i + 2, fn, 12, 'quick', role='finder')
    # independent cross-check of the P units (thorough tier): complete unwinding on a 32-byte buffer
    eq('b32.' + nm, i + 2, fn, 32, 'thorough', expect_s=60)

# UTF-8: inner UTF8_GET for-loop (<= 6 iterations) is unwound before DFCC; the scanning loop has the contract.
for nm, maxlen, tier, exp, to in (('utf8.n64', 64, 'quick', 200, 1500), ('utf8', None, 'thorough', 400, 3000)):
    UNITS.append(dict(name='C16.' + nm, props=['C16', 'C01', 'C10'], kind='P', route='dfcc', entry='harness',
                      enforce=['_dbus_string_validate_utf8'], tus=[dict(file=STR, overlay='string_utf8.ovl')],
                      harness='harness/c16_utf8.c', extra_sources=[ASSERT], defines=(['VERIF_MAXLEN=%d' % maxlen] if maxlen else []),
                      unwindset_pre=['_dbus_string_validate_utf8.1:7'], timeout=to, expect_s=exp, tier=tier, must_have=LOOPINV,
                      bounds=({'string_bytes': maxlen, 'note': 'buffer size capped for the quick tier only; loops are NOT unwound; the thorough unit C16.utf8 has no cap'} if maxlen else None),
                      functions=[dict(name='_dbus_string_validate_utf8', file=STR, status='enforced', contract='exactly Unicode table 3-7 without NUL, both directions')],
                      assumptions=COMMON_ASSUME))

# ---- signatures (context-free: no ghost-index proof).  B: exact agreement with the reference recogniser.
SIGTUS = [dict(file=VAL), dict(file=STR), dict(file='dbus/dbus-signature.c')]


def sig_eq(name, n, alpha, tier, expect_s):
    UNITS.append(dict(name='C16.' + name, props=['C16', 'C01'], kind='B', route='plain', entry='harness', tus=SIGTUS,
                      harness='harness/eq_signature.c', extra_sources=[ASSERT, 'stubs/list_as_stack.c'],
                      defines=['VERIF_N=%d' % n, 'VERIF_ALPHA=%d' % alpha], unwind=n + 3, timeout=3000, tier=tier, expect_s=expect_s,
                      trace_is_execution=True, replay_family='validator', replay_fn='_dbus_validate_signature_with_reason',
                      bounds={'signature_bytes': n, 'alphabet': 'all 256 byte values' if alpha else 'class alphabet {s,v,a,(,),{,},Z}'},
                      functions=[dict(name='_dbus_validate_signature_with_reason', file=VAL, status='bounded'),
                                 dict(name='_dbus_list_append/_pop_last/_clear', file='dbus/dbus-list.c', status='assumed', note='LIFO stack contract (stubs/list_as_stack.c)')],
                      assumptions=['dbus-list behaves as a LIFO stack of integers in the signature validator (stub, not verified)']))


sig_eq('sig.full3', 3, 1, 'quick', 60)      # every byte value, <= 3 bytes
sig_eq('sig.class7', 7, 0, 'quick', 400)    # class alphabet, <= 7 bytes (shortest mis-nesting witness has 7)
sig_eq('sig.class8', 8, 0, 'thorough', 1200)

for nm, fn, d in (('ascii', '_dbus_string_validate_ascii', 1), ('nul', '_dbus_string_validate_nul', 0)):
    UNITS.append(dict(name='C16.' + nm, props=['C16', 'C01', 'C08' if d else 'C10'], kind='P', route='dfcc', entry='harness', enforce=[fn],
                      tus=[dict(file=STR, overlay='string_utf8.ovl')], harness='harness/c16_bytescan.c', extra_sources=[ASSERT],
                      defines=['VERIF_ASCII=%d' % d], timeout=600, expect_s=20, must_have=LOOPINV,
                      functions=[dict(name=fn, file=STR, status='enforced', contract='every byte satisfies the class, both directions, unbounded length')],
                      assumptions=COMMON_ASSUME))

UNITS.append(dict(name='C16.wrappers', props=['C16'], kind='P', route='stub', entry='harness',
                  tus=[dict(file='dbus/dbus-syntax.c', raw=True), dict(file='dbus/dbus-signature.c', raw=True)], harness='harness/c16_wrappers.c',
                  replace_calls={'dbus_set_error': 'verif_stub_dbus_set_error', '_dbus_string_init_const': 'verif_stub_string_init_const',
                                 '_dbus_string_get_length': 'verif_stub_string_get_length'},
                  unwind=64, timeout=300, expect_s=5, must_have=['public verdict == internal'],
                  functions=[dict(name='dbus_validate_path/_interface/_member/_error_name/_bus_name/_utf8', file='dbus/dbus-syntax.c', status='enforced'),
                             dict(name='dbus_signature_validate', file='dbus/dbus-signature.c', status='enforced'),
                             dict(name='_dbus_validate_* / _dbus_string_validate_utf8 / _dbus_validate_signature_with_reason', file=VAL, status='replaced', note='contracts enforced by the C16 scanner units'),
                             dict(name='_dbus_string_init_const/_get_length', file=STR, status='stub', note='const string over the C string, length = strlen (ghost)')],
                  assumptions=['_dbus_string_init_const makes a constant DBusString of strlen(value) bytes over value']))

for nm, n, tier, exp in (('sig.single6', 6, 'quick', 300), ('sig.single7', 7, 'thorough', 900)):
    UNITS.append(dict(name='C16.' + nm, props=['C16'], kind='B', route='plain', entry='harness', tus=SIGTUS + [dict(file='dbus/dbus-marshal-basic.c'), dict(file='dbus/dbus-marshal-recursive.c')],
                      harness='harness/eq_signature.c', extra_sources=[ASSERT, 'stubs/list_as_stack.c'],
                      defines=['VERIF_N=%d' % n, 'VERIF_ALPHA=0', 'VERIF_SINGLE=1'], unwind=n + 3, timeout=3000, tier=tier, expect_s=exp,
                      trace_is_execution=True,
                      bounds={'signature_bytes': n, 'alphabet': 'class alphabet {s,v,a,(,),{,},Z}'},
                      functions=[dict(name='dbus_signature_validate_single', file='dbus/dbus-signature.c', status='bounded'),
                                 dict(name='dbus_signature_iter_init/_get_current_type/_next', file='dbus/dbus-signature.c', status='bounded', note='real code inlined')],
                      assumptions=['dbus-list behaves as a LIFO stack of integers in the signature validator (stub, not verified)']))

UNITS.append(dict(name='C16.sig.depth', props=['C16', 'C01', 'C10'], kind='P', route='hybrid', entry='harness',
                  tus=[dict(file=VAL, include_as='VERIF_TU', overlay='validate_signature.ovl'), dict(file=STR), dict(file='dbus/dbus-signature.c')],
                  harness='harness/c16_sig_depth.c', extra_sources=[ASSERT],
                  replace_calls={'_dbus_list_append': 'verif_stub_list_append', '_dbus_list_pop_last': 'verif_stub_list_pop_last', '_dbus_list_clear': 'verif_stub_list_clear'},
                  allow_skip_msg=True, timeout=1200, expect_s=60,
                  must_have=['Check invariant after step for loop _dbus_validate_signature_with_reason', 'sig.alphabet'],
                  functions=[dict(name='_dbus_validate_signature_with_reason', file=VAL, status='enforced', contract='depth/stack arithmetic, alphabet, length limit, termination; any length (loop contract)'),
                             dict(name='_dbus_list_append/_pop_last/_clear', file='dbus/dbus-list.c', status='stub', note='counting stub: depth only, popped value arbitrary')],
                  assumptions=['element counts popped from the stack are arbitrary values in [0,255] (abstraction; a count grows by at most one per processed byte and at most 255 bytes are processed): acceptance of a signature is not decided by this unit']))

eq('find.utf8', 7, '_dbus_string_validate_utf8', 5, 'quick', role='finder')
for _u in UNITS:
    if _u['name'] in ('C16.utf8.n64', 'C16.utf8'):
        _u['finder'] = 'C16.find.utf8'
eq('b6.utf8', 7, '_dbus_string_validate_utf8', 6, 'thorough', expect_s=120)
