"""C16 — validity predicates accept exactly the specified grammars."""
VAL = 'dbus/dbus-marshal-validate.c'
STR = 'dbus/dbus-string.c'
ASSERT = 'stubs/assert_stubs.c'

COMMON_ASSUME = ['DBusString representation invariant (DBUS_GENERIC_STRING_PREAMBLE + str[len]==0) holds for the argument (precondition)']

UNITS = []


def scanner(name, fn, harness, must, expect_s=20, tier='quick', solver='cadical', extra=None, finder=None, timeout=600):
    u = dict(name='C16.' + name, props=['C16', 'C01', 'C10'], kind='P', route='dfcc', entry='harness', enforce=[fn],
             tus=[dict(file=VAL, overlay='validate_names.ovl'), dict(file=STR)],
             harness=harness, extra_sources=[ASSERT], timeout=timeout, expect_s=expect_s, tier=tier, solver=solver,
             must_have=must, finder=finder,
             functions=[dict(name=fn, file=VAL, status='enforced', contract='exact grammar, both directions, unbounded length'),
                        dict(name='_dbus_string_get_length/_dbus_string_get_const_data', file=STR, status='inlined', note='real code, loop-free')],
             assumptions=COMMON_ASSUME)
    if extra:
        u.update(extra)
    UNITS.append(u)


def eq(name, fn_no, fn, n, tier, role='check', expect_s=20):
    UNITS.append(dict(name='C16.%s' % name, props=['C16'], kind='W' if n >= 257 else 'B', route='plain', entry='harness',
                      tus=[dict(file=VAL), dict(file=STR)], harness='harness/eq_names.c', extra_sources=[ASSERT],
                      defines=['VERIF_FN=%d' % fn_no, 'VERIF_N=%d' % n], unwind=n + 2, timeout=900, tier=tier, role=role,
                      expect_s=expect_s, trace_is_execution=True, replay_family='validator', replay_fn=fn,
                      bounds={'buffer_bytes': n, 'note': 'names are capped at 255 bytes by the function itself' if n >= 257 else 'finder only'},
                      functions=[dict(name=fn, file=VAL, status='checked-by-complete-unwinding' if n >= 257 else 'bounded')],
                      assumptions=[]))


LOOPINV = ['Check invariant after step for loop', 'Check ensures clause of contract']
scanner('member', '_dbus_validate_member', 'harness/c16_member.c', LOOPINV, finder='C16.find.member')
eq('find.member', 1, '_dbus_validate_member', 12, 'quick', role='finder')
eq('w.member', 1, '_dbus_validate_member', 257, 'thorough', expect_s=30)

scanner('interface', '_dbus_validate_interface', 'harness/c16_iface.c', LOOPINV, finder='C16.find.interface', extra=dict(defines=['VERIF_FN=_dbus_validate_interface']))
scanner('error_name', '_dbus_validate_error_name', 'harness/c16_iface.c', LOOPINV, finder='C16.find.error_name', extra=dict(defines=['VERIF_FN=_dbus_validate_error_name']))
scanner('bus_name', '_dbus_validate_bus_name', 'harness/c16_bus.c', LOOPINV, finder='C16.find.bus_name', extra=dict(defines=['VERIF_NS=0']), expect_s=300, timeout=1500)
scanner('bus_namespace', '_dbus_validate_bus_namespace', 'harness/c16_bus.c', LOOPINV, finder='C16.find.bus_namespace', extra=dict(defines=['VERIF_NS=1']), expect_s=300, timeout=1500)
scanner('path', '_dbus_validate_path', 'harness/c16_path.c', LOOPINV, finder='C16.find.path', expect_s=60)
for i, (nm, fn) in enumerate([('interface', '_dbus_validate_interface'), ('error_name', '_dbus_validate_error_name'),
                              ('bus_name', '_dbus_validate_bus_name'), ('bus_namespace', '_dbus_validate_bus_namespace'),
                              ('path', '_dbus_validate_path')]):
    eq('find.' + nm, i + 2, fn, 12, 'quick', role='finder')
    # independent cross-check of the P units (thorough tier): complete unwinding on a 32-byte buffer
    eq('b32.' + nm, i + 2, fn, 32, 'thorough', expect_s=60)
