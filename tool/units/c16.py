"""C16 — validity predicates accept exactly the specified grammars."""
VAL = 'dbus/dbus-marshal-validate.c'
STR = 'dbus/dbus-string.c'
ASSERT = 'stubs/assert_stubs.c'

COMMON_ASSUME = ['DBusString representation invariant (DBUS_GENERIC_STRING_PREAMBLE + str[len]==0) holds for the argument (precondition)']

UNITS = []


def scanner(name, fn, harness, must, expect_s=20, tier='quick', solver='cadical', extra=None, finder=None, timeout=600):
    u = dict(name='C16.' + name, props=['C16', 'C01', 'C10'], kind='P', route='dfcc', entry='harness', enforce=[fn],
             tus=[dict(file=VAL, overlay='validate_names.ovl'), dict(file=STR)],
             harness=harness, extra_sources=[ASSERT], timeout=timeout, expect_s=expect_s, tier=tier, solver=solver,
             must_have=must, finder=finder,
             functions=[dict(name=fn, file=VAL, status='enforced', contract='exact grammar, both directions, unbounded length'),
                        dict(name='_dbus_string_get_length/_dbus_string_get_const_data', file=STR, status='inlined', note='real code, loop-free')],
             assumptions=COMMON_ASSUME)
    if extra:
        u.update(extra)
    UNITS.append(u)


def eq(name, fn_no, fn, n, tier, role='check', expect_s=20):
    UNITS.append(dict(name='C16.%s' % name, props=['C16'], kind='W' if n >= 257 else 'B', route='plain', entry='harness',
                      tus=[dict(file=VAL), dict(file=STR)], harness='harness/eq_names.c', extra_sources=[ASSERT],
                      defines=['VERIF_FN=%d' % fn_no, 'VERIF_N=%d' % n], unwind=n + 2, timeout=900, tier=tier, role=role,
                      expect_s=expect_s, trace_is_execution=True, replay_family='validator', replay_fn=fn,
                      bounds={'buffer_bytes': n, 'note': 'names are capped at 255 bytes by the function itself' if n >= 257 else 'finder only'},
                      functions=[dict(name=fn, file=VAL, status='checked-by-complete-unwinding' if n >= 257 else 'bounded')],
                      assumptions=[]))


LOOPINV = ['Check invariant after step for loop', 'Check ensures clause of contract']
scanner('member', '_dbus_validate_member', 'harness/c16_member.c', LOOPINV, finder='C16.find.member')
eq('find.member', 1, '_dbus_validate_member', 12, 'quick', role='finder')
eq('w.member', 1, '_dbus_validate_member', 257, 'thorough', expect_s=30)
