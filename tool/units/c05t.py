"""C05 / C14 — the bus transaction mechanism on the real list code (bounded)."""
UNITS = []
for _m, _nm, _must, _nt, _tier in ((1, 'send.n2', ['txn.send1', 'txn.send2', 'txn.send6'], 2, 'quick'), (1, 'send.n3', ['txn.send1', 'txn.send2', 'txn.send6'], 3, 'thorough'), (2, 'execute.n3', ['txn.exec1', 'txn.exec2', 'txn.rest2'], 3, 'quick'), (3, 'cancel.n3', ['txn.cancel1', 'txn.rest2'], 3, 'quick')):
  UNITS.append(dict(name='C05.transaction.' + _nm, tier=_tier, defines=['VERIF_MODE=%d' % _m, 'NT=%d' % _nt], props=['C05', 'C14', 'C04', 'C18'], kind='B', route='plain', bus=True, entry='harness',
    tus=[dict(file='bus/connection.c', include_as='VERIF_TU'), dict(file='dbus/dbus-list.c')], harness='harness/c05_txn.c',
    replace_calls={'alloc_link': 'verif_alloc_link', 'free_link': 'verif_free_link'}, unwind=8, timeout=900, expect_s=60,
    bounds={'entries already staged for the destination': '<= %d, each of this or another transaction' % _nt, 'allocation': 'record, send slot and list links may fail independently'},
    must_have=_must,
    functions=[dict(name='bus_transaction_send, connection_execute_transaction, connection_cancel_transaction, message_to_send_free', file='bus/connection.c', status='bounded',
                    contract='staging: one new entry in front, older entries unchanged, destination listed once; failure: nothing changed, everything released; execute: exactly this transaction\'s messages, each once with its own slot, oldest first; cancel: nothing sent, everything released; other transactions untouched'),
               dict(name='_dbus_list_prepend/_remove/_remove_link/_get_first_link/_get_last_link/...', file='dbus/dbus-list.c', status='bounded', note='real pointer code'),
               dict(name='alloc_link/free_link', file='dbus/dbus-list.c', status='stub', note='static pool, may fail at every call (dbus-mempool.c not verified)'),
               dict(name='dbus_connection_preallocate_send/_free_preallocated_send/_send_preallocated, dbus_message_ref/unref, dbus_malloc/dbus_free', file='dbus/*.c', status='stub', note='counted per entry; send order logged (queue behaviour: C17.outgoing_queue)')],
    assumptions=['<= %d entries staged before the call (bound)' % _nt, 'want_headers == 0 (container-instance stamping not exercised here)',
                 'T->connections lists the destination iff T has an entry staged for it (the invariant these functions maintain, assumed at entry)']))
