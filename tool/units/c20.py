"""C20 — object-path handlers: one-level contracts on the trie + typestate units (DESIGN 6 C20)."""
OT = 'dbus/dbus-object-tree.c'
OVL = 'c20_objtree.ovl'
LOOP = ['Check invariant after step for loop', 'Check invariant before entry for loop', 'Check variant decreases after step for loop']
MEM = 'dbus_malloc0/dbus_realloc/dbus_free are calloc/realloc/free of the CBMC library, each allocation may fail independently; _dbus_atomic_inc/dec are sequential'

UNITS = [
    dict(name='C20.find', props=['C20'], kind='P', route='hybrid', entry='harness',
         tus=[dict(file=OT, overlay=OVL, include_as='VERIF_TU')], harness='harness/c20_find.c',
         replace_calls={'allocate_subtree_object': 'verif_stub_allocate_subtree_object'},
         timeout=600, expect_s=30,
         must_have=LOOP + ['postA', 'postB recursion into exactly the child', 'postC no such child: this node iff', 'postE new child inserted at the sorted position'],
         functions=[dict(name='find_subtree_recurse', file=OT, status='enforced', contract='one trie level: binary search finds the child named path[0] iff present; recursion into exactly that child; fallback/exact rule; sorted insert; OOM leaves the node unchanged'),
                    dict(name='find_subtree_recurse (3 recursive calls)', file=OT, status='replaced', note='bound to the function\'s own one-level contract (arbitrary deeper result); the induction over the path length is a paper step'),
                    dict(name='strcmp', file='libc', status='stub', note='contract over an abstract strict total order: only the sign is specified; the sign for child k is fixed by the cut (c, present) of the strictly sorted array'),
                    dict(name='allocate_subtree_object', file=OT, status='replaced', note='NULL or a fresh zeroed node named path[0]; real body checked in C20.alloc (B)'),
                    dict(name='_dbus_object_subtree_new/_dbus_object_subtree_unref', file=OT, status='inlined', note='real code, loop-free'),
                    dict(name='memmove/realloc/calloc/free', file='CBMC library', status='assumed', note='built-in models on a children array of symbolic size (no unwinding)')],
         assumptions=['NODE_OK(node) (precondition): 0 <= n_subtrees <= max_subtrees, children strictly sorted by name (represented as cut position c and presence flag, spec/objtree_ref.h)',
                      'max_subtrees <= 2^28 (precondition; 2*max_subtrees and the byte size stay in int/size_t range)',
                      '!(exact_match != NULL && create_if_not_found) (the function\'s own entry assertion, precondition)',
                      'strcmp returns a value whose sign is the order of the two names (C standard), the order is a strict total order',
                      MEM]),
]
