"""C20 — object-path handlers: one-level contracts on the trie + typestate units (DESIGN 6 C20)."""
OT = 'dbus/dbus-object-tree.c'
OVL = 'c20_objtree.ovl'
LOOP = ['Check invariant after step for loop', 'Check invariant before entry for loop', 'Check variant decreases after step for loop']
MEM = 'dbus_malloc0/dbus_realloc/dbus_free are calloc/realloc/free of the CBMC library, each allocation may fail independently; _dbus_atomic_inc/dec are sequential'

UNITS = [
    dict(name='C20.find', props=['C20'], kind='P', route='hybrid', entry='harness',
         tus=[dict(file=OT, overlay=OVL, include_as='VERIF_TU')], harness='harness/c20_find.c',
         replace_calls={'allocate_subtree_object': 'verif_stub_allocate_subtree_object'},
         timeout=600, expect_s=30,
         must_have=LOOP + ['postA', 'postB recursion into exactly the child', 'postC no such child: this node iff', 'postE new child inserted at the sorted position'],
         functions=[dict(name='find_subtree_recurse', file=OT, status='enforced', contract='one trie level: binary search finds the child named path[0] iff present; recursion into exactly that child; fallback/exact rule; sorted insert; OOM leaves the node unchanged'),
                    dict(name='find_subtree_recurse (3 recursive calls)', file=OT, status='replaced', note='bound to the function\'s own one-level contract (arbitrary deeper result); the induction over the path length is a paper step'),
                    dict(name='strcmp', file='libc', status='stub', note='contract over an abstract strict total order: only the sign is specified; the sign for child k is fixed by the cut (c, present) of the strictly sorted array'),
                    dict(name='allocate_subtree_object', file=OT, status='replaced', note='NULL or a fresh zeroed node named path[0]; real body checked in C20.alloc (B)'),
                    dict(name='_dbus_object_subtree_new/_dbus_object_subtree_unref', file=OT, status='inlined', note='real code, loop-free'),
                    dict(name='memmove/realloc/calloc/free', file='CBMC library', status='assumed', note='built-in models on a children array of symbolic size (no unwinding)')],
         assumptions=['NODE_OK(node) (precondition): 0 <= n_subtrees <= max_subtrees, children strictly sorted by name (represented as cut position c and presence flag, spec/objtree_ref.h)',
                      'max_subtrees <= 2^28 (precondition; 2*max_subtrees and the byte size stay in int/size_t range)',
                      '!(exact_match != NULL && create_if_not_found) (the function\'s own entry assertion, precondition)',
                      'strcmp returns a value whose sign is the order of the two names (C standard), the order is a strict total order',
                      MEM]),
]

UNITS.append(dict(name='C20.alloc', props=['C20'], kind='B', route='plain', entry='harness',
     tus=[dict(file=OT, include_as='VERIF_TU')], harness='harness/c20_alloc.c', unwind=14, defines=['VERIF_NAME_MAX=11'], timeout=300, expect_s=10,
     bounds={'name_bytes': 11, 'note': 'strlen/memcpy of the CBMC library unwound; the functions themselves are loop-free'},
     must_have=['new node is named like the argument'],
     functions=[dict(name='allocate_subtree_object', file=OT, status='bounded', contract='NULL or fresh node named like the argument (assumed in C20.find)'),
                dict(name='_dbus_object_subtree_new', file=OT, status='bounded', contract='fields initialised: no parent, no children, refcount 1, not fallback, handler fields as given')],
     assumptions=[MEM]))

UNITS.append(dict(name='C20.register', props=['C20'], kind='P', route='stub', entry='harness',
     tus=[dict(file=OT, include_as='VERIF_TU')], harness='harness/c20_register.c', unwindset=['str_is.0:50'],
     replace_calls={'flatten_path': 'verif_stub_flatten_path', 'dbus_set_error': 'verif_stub_dbus_set_error'},
     timeout=300, expect_s=5, must_have=['post1 handler', 'post2 refusal changes no field', 'post3 an occupied path'],
     functions=[dict(name='_dbus_object_tree_register', file=OT, status='enforced', contract='occupied => FALSE + ObjectPathInUse, no field written; OOM => FALSE + NoMemory; else the four fields set, position untouched'),
                dict(name='ensure_subtree -> find_subtree_recurse', file=OT, status='replaced', note='whole-lookup contract (NULL or THE node of the path) = C20.find + induction on the path length (paper step)'),
                dict(name='flatten_path', file=OT, status='stub', note='only builds the error text'),
                dict(name='dbus_set_error/dbus_set_error_const', file='dbus/dbus-errors.c', status='stub', note='records the error name')],
     assumptions=['find_subtree_recurse(root, path, create) returns NULL or the unique node of `path` (C20.find one level + paper induction)']))

UNITS.append(dict(name='C20.list', props=['C20'], kind='P', route='hybrid', entry='harness',
     tus=[dict(file=OT, overlay=OVL, include_as='VERIF_TU')], harness='harness/c20_list.c',
     timeout=600, expect_s=20, must_have=LOOP + ['post1 entry k is the copy of child k', 'post1 NULL-terminated'],
     functions=[dict(name='_dbus_object_tree_list_registered_unlocked', file=OT, status='enforced', contract='copies the n_subtrees child names in order, NULL-terminated; OOM => NULL and the partial array released; no node => empty listing'),
                dict(name='_dbus_object_tree_list_registered_and_unlock', file=OT, status='enforced', contract='same result; connection unlocked exactly once after the listing'),
                dict(name='lookup_subtree -> find_subtree_recurse', file=OT, status='replaced', note='whole-lookup contract: NULL or THE node of parent_path (C20.find + paper induction)'),
                dict(name='_dbus_strdup', file='dbus/dbus-internals.c', status='stub', note='NULL or a fresh copy of its argument'),
                dict(name='dbus_free_string_array', file='dbus/dbus-memory.c', status='stub', note='frees strings and array'),
                dict(name='_dbus_connection_unlock', file='dbus/dbus-connection.c', status='stub', note='counts unlocks')],
     assumptions=['find_subtree_recurse(root, path, no-create, plain) returns NULL or the unique node of `path` (C20.find one level + paper induction)',
                  'n_subtrees <= max_subtrees <= 2^28 (NODE_OK, precondition)', MEM]))

UNITS.append(dict(name='C20.unreg', props=['C20'], kind='P', route='hybrid', entry='harness',
     tus=[dict(file=OT, overlay=OVL, include_as='VERIF_TU')], harness='harness/c20_unreg.c',
     replace_calls={'_dbus_object_subtree_unref': 'verif_stub_subtree_unref'},
     timeout=600, expect_s=60, must_have=LOOP + ['postA handler cleared', 'postB array compacted, order kept', 'postB childless unregistered child removed'],
     functions=[dict(name='unregister_and_free_path_recurse', file=OT, status='enforced', contract='one trie level: handler cleared at the end of the path; recursion into exactly the child named path[0]; child removed iff found below, pruning not stopped, child childless and unregistered; array compacted in order; not found => nothing changed'),
                dict(name='unregister_subtree, attempt_child_removal', file=OT, status='inlined', note='real code, loop-free'),
                dict(name='unregister_and_free_path_recurse (recursive call)', file=OT, status='replaced', note='own one-level contract; induction over the path length is a paper step'),
                dict(name='strcmp', file='libc', status='stub', note='abstract strict total order, sign fixed by the cut of the sorted array'),
                dict(name='memmove', file='libc', status='stub', note='contract stated for the ghost index (dest[k] == old src[k], rest of the array havocked)'),
                dict(name='_dbus_object_subtree_unref', file=OT, status='replaced', note='releases one reference; real body in C20.unref')],
     assumptions=['NODE_OK(node) (precondition), children strictly sorted by name (cut c / present), n_subtrees <= max_subtrees <= 2^28',
                  'tree invariant (precondition): an unregistered node other than the root has children; an unregistered node has no unregister function / user data; child.parent == node',
                  MEM]))

UNITS.append(dict(name='C20.unregtop', props=['C20'], kind='P', route='stub', entry='harness',
     tus=[dict(file=OT, include_as='VERIF_TU')], harness='harness/c20_unregtop.c', timeout=300, expect_s=5,
     must_have=['post the unregister function runs exactly once', 'post it runs after the unlock'],
     functions=[dict(name='_dbus_object_tree_unregister_and_unlock', file=OT, status='enforced', contract='one walk; unregister function exactly once iff found, after unlock, with its user data; ref/unlock/unref bracket'),
                dict(name='unregister_and_free_path_recurse', file=OT, status='replaced', note='found => outputs set (C20.unreg + paper induction)'),
                dict(name='_dbus_connection_ref_unlocked/_dbus_connection_unlock/dbus_connection_unref/_dbus_warn', file='dbus/dbus-connection.c', status='stub', note='lock/ref typestate counters')],
     assumptions=['unregister_and_free_path_recurse(root, path) returns whether a handler was registered at `path` and hands out its unregister function and user data (C20.unreg one level + paper induction)']))
UNITS.append(dict(name='C20.unref', props=['C20'], kind='P', route='stub', entry='harness',
     tus=[dict(file=OT, include_as='VERIF_TU')], harness='harness/c20_unref.c', timeout=300, expect_s=5,
     must_have=['one reference released'],
     functions=[dict(name='_dbus_object_subtree_unref/_dbus_object_subtree_ref', file=OT, status='enforced', contract='refcount +-1; last unref frees node and array; library assertions hold when a finalized node has no handler')],
     assumptions=['refcount >= 1; a node whose last reference is dropped has no handler (established by attempt_child_removal / free_subtree_recurse)', MEM]))

UNITS.append(dict(name='C20.dispatch', props=['C20'], kind='B', route='stub', entry='harness',
     tus=[dict(file=OT, include_as='VERIF_TU'), dict(file='dbus/dbus-list.c')], harness='harness/c20_dispatch.c',
     replace_calls={'handle_default_introspect_and_unlock': 'verif_stub_default_introspect'},
     unwind=5, timeout=600, expect_s=60, bounds={'chain_depth': 3, 'handler_list': 3, 'note': 'found node plus at most two ancestors; real dbus-list.c'},
     must_have=['postD exactly the expected handlers', 'postE found_object whenever'],
     functions=[dict(name='_dbus_object_tree_dispatch_and_unlock', file=OT, status='bounded', contract='handlers: exact node first, then fallback ancestors, deepest first, until one does not decline; result; found_object; lock alternation; references balanced'),
                dict(name='find_handler -> find_subtree_recurse', file=OT, status='replaced', note='whole deepest-match contract = C20.find + induction on the path length (paper step)'),
                dict(name='_dbus_object_subtree_ref/_unref', file=OT, status='inlined', note='real code'),
                dict(name='_dbus_list_append/_dbus_list_get_first_link/_dbus_list_remove_link', file='dbus/dbus-list.c', status='inlined', note='real code, lists <= 3'),
                dict(name='handle_default_introspect_and_unlock', file=OT, status='stub', note='needs the lock, releases it, arbitrary result ("built-in Introspect aside")'),
                dict(name='dbus_message_get_path_decomposed/dbus_free_string_array/_dbus_connection_lock/_unlock', file='dbus', status='stub', note='typestate'),
                dict(name='_dbus_mem_pool_*/_dbus_lock', file='dbus/dbus-mempool.c', status='assumed', note='pool = malloc of the element size; global lock always granted')],
     assumptions=['find_subtree_recurse(root, path, deepest-match) returns the node of the path (exact) or the nearest ancestor flagged invoke_as_fallback (C20.find + paper induction)',
                  'registered handlers return HANDLED, NOT_YET_HANDLED or NEED_MEMORY', MEM]))

_d = dict([u for u in UNITS if u['name'] == 'C20.dispatch'][0])
_d.update(name='C20.found', defines=['VERIF_CHECK_FOUND'], must_have=['postE found_object iff'], want_trace=False, expect_s=90,
          functions=[dict(name='_dbus_object_tree_dispatch_and_unlock', file=OT, status='bounded', contract='found_object iff the path is a node of the registered tree or lies below a REGISTERED fallback handler (property C20: UnknownMethod vs UnknownObject)')] + _d['functions'][1:])
UNITS.append(_d)

UNITS.append(dict(name='C20.list_lookup', props=['C20'], kind='P', route='stub', entry='harness',
    tus=[dict(file='dbus/dbus-object-tree.c', include_as='VERIF_TU')], harness='harness/c20_listlookup.c',
    replace_calls={'find_subtree_recurse': 'verif_stub_fsr'}, timeout=300, expect_s=5, must_have=['listlk.post1', 'listlk.post2'],
    functions=[dict(name='_dbus_object_tree_list_registered_unlocked (+ lookup_subtree)', file='dbus/dbus-object-tree.c', status='enforced', contract='the parent path is resolved by one exact lookup from the root; not a node => empty listing'),
               dict(name='find_subtree_recurse', file='dbus/dbus-object-tree.c', status='replaced', note='every call bound to a logging stub (its own contract: C20.find); this unit does not depend on the lexical renaming used by the other C20 units')],
    assumptions=[]))
