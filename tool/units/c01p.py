"""C01.5(b) / C10 -- unbounded memory-safety proof of the message body validator (validate_body_helper)."""
VAL = 'dbus/dbus-marshal-validate.c'
STR = 'dbus/dbus-string.c'
BASIC = 'dbus/dbus-marshal-basic.c'
SIG = 'dbus/dbus-signature.c'
REC = 'dbus/dbus-marshal-recursive.c'
ASSERT = 'stubs/assert_stubs.c'

READER_CALLS = {
    '_dbus_type_reader_get_current_type': 'verif_stub_reader_get_current_type',
    '_dbus_type_reader_get_element_type': 'verif_stub_reader_get_element_type',
    '_dbus_type_reader_recurse': 'verif_stub_reader_recurse',
    '_dbus_type_reader_next': 'verif_stub_reader_next',
    '_dbus_type_reader_init_types_only': 'verif_stub_reader_init_types_only',
    '_dbus_validate_signature_with_reason': 'verif_stub_validate_signature',
    '_dbus_validate_path': 'verif_stub_validate_path',
    '_dbus_string_validate_utf8': 'verif_stub_validate_utf8',
    '_dbus_warn_return_if_fail': 'verif_stub_warn_return_if_fail',
    '_dbus_string_init_const_len': 'verif_stub_string_init_const_len',
    '_dbus_string_get_length': 'verif_stub_string_get_length',
    '_dbus_first_type_in_signature': 'verif_stub_first_type_in_signature',
    '_dbus_unpack_uint32': 'verif_stub_unpack_uint32',
}

# the five alignment-padding loops of validate_body_helper (goto loop numbers; the function is compiled under the
# name verif_vbh_1, see harness/c01p_body.c): at most 7 iterations each
PAD_LOOPS = ['verif_vbh_1.0:8', 'verif_vbh_1.1:8', 'verif_vbh_1.2:8', 'verif_vbh_1.5:8', 'verif_vbh_1.6:8']

BODY_FUNCS = [
    dict(name='validate_body_helper', file=VAL, status='enforced',
         contract='memory safety for a buffer [p, end) of any length (<= _DBUS_STRING_MAX_LENGTH) at any alignment; no read at or after end; '
                  'VALID => p <= *new_p <= end, !VALID => *new_p untouched; depth > 64 => NESTED_TOO_DEEPLY; recursion with total_depth + 1, same end and byte order; '
                  'progress (one value >= 1 byte); termination of all 8 loops; all _dbus_asserts; '
                  '3 loop contracts + 5 padding loops unwound 8x (width-bounded: alignment <= 8, unwinding assertions proved); recursive calls bound to this contract'),
    dict(name='_dbus_type_get_alignment', file=BASIC, status='inlined', note='real code, loop-free, its assert_not_reached is an obligation'),
    dict(name='dbus_type_is_valid/dbus_type_is_fixed', file=SIG, status='inlined', note='real code, loop-free'),
    dict(name='_dbus_type_reader_get_current_type/_get_element_type/_recurse/_next/_init_types_only', file=REC, status='stub',
         note='abstract types-only reader (current type, element type) per the API documentation; assumed'),
    dict(name='_dbus_string_init_const_len/_dbus_string_get_length', file=STR, status='stub',
         note='ghost record (identity, data pointer, length) of the one constant string alive; preconditions = the functions own _dbus_asserts'),
    dict(name='_dbus_first_type_in_signature (+ _dbus_string_get_byte, map_type_char_to_type)', file=BASIC, status='stub',
         note='reads the byte through the ghost record, same mapping and the same two assertions as the real code'),
    dict(name='_dbus_unpack_uint32', file=BASIC, status='replaced',
         note='precondition: 4-aligned (its own assertion) and the 4 bytes inside [p, end); value arbitrary (value contract enforced in the C02 units)'),
    dict(name='_dbus_validate_path/_dbus_string_validate_utf8', file=VAL + ', ' + STR, status='replaced',
         note='result 0/1, TRUE => length facts; precondition only [start,start+len) readable: enforced under exactly that precondition by C01.p.range.path/.utf8 (grammar: C16)'),
    dict(name='_dbus_validate_signature_with_reason', file=VAL, status='replaced',
         note='VALID => len <= 255 and a first byte that opens a complete type; precondition len + 1 readable bytes (memory safety on such a string: C16.sig.depth, P; first-byte fact: C16.sig.* B up to 8 bytes)'),
    dict(name='_dbus_warn_return_if_fail', file='dbus/dbus-internals.c', status='stub', note='must be unreachable (asserted)'),
]
BODY_ASSUME = [
    'harness precondition: p and end in one heap object of (offset of end) + 7 bytes, 0 <= end - p <= _DBUS_STRING_MAX_LENGTH, offset of end <= 2^32, p at ANY offset, total_depth >= 0, new_p NULL or writable; nothing at or after end is assumed readable',
    '7 addressable bytes after end (DBusString allocation padding: allocated >= len + 8, align_offset 0) are needed for POINTER ARITHMETIC only: the function forms and compares pointers up to end + 7 (7 sites); none of these bytes is read',
    'reads below end: CBMC bounds every access by end + 7; "below end" is stated for the 10 byte-read sites of the function (injected ghost statements, post.noread), every _dbus_unpack_uint32 call and every validator call (stub preconditions)',
    'CBMC pointer model: _DBUS_ALIGN_ADDRESS aligns the offset inside the object, i.e. object base addresses are 8-aligned (malloc / DBusString)',
    'types-only DBusTypeReader behaves as documented (get_current_type pure and in the 16 type codes or INVALID; next returns FALSE exactly at the end; recurse into an array gives the element type); dbus-marshal-recursive.c is not verified here',
    'validated signatures have no empty struct / dict entry (a reader recursed into one starts at a type): used only for post.progress and the decreases clauses',
    'a VALID signature of positive length starts with one of y b n q i u x t d s o g h v a ( (C16: exact grammar enforced only up to 8 bytes, B)',
    'hybrid route: the frame (assigns) of validate_body_helper itself is checked inside its loops only (loop assigns clauses); outside the loops the function writes *new_p and locals only (by inspection)',
]

# The proof is split over the type code seen at the loop head (5 classes; obligation cases.cover in every unit shows that they
# cover all codes).  Measured: the unsplit unit (VERIF_CASE_ID 0, no VERIF_CASE) is green as well but needs 17-32 min (1.6 M
# variables, one 13-minute UNSAT call); it is not registered (see the end of this block).
CASES = [('fixed', 1, 'VERIF_CLASS_FIXED', 'y b n q i u h x t d'), ('string', 2, 'VERIF_CLASS_STRING', 's o g'),
         ('array', 3, 'VERIF_CLASS_ARRAY', 'a'), ('variant', 4, 'VERIF_CLASS_VARIANT', 'v'), ('struct', 5, 'VERIF_CLASS_STRUCT', 'r e (struct, dict entry)')]


def _head_calls():
    """Syntactic guard for the case split: the covering argument needs exactly one evaluation of
    _dbus_type_reader_get_current_type (reader) per loop iteration of validate_body_helper (the one in the loop head).
    The count goes into the harness as -DVERIF_HEAD_CALLS=<n>; anything but 1 is a compile error (tool failure -> undecided)."""
    import os
    import re
    try:
        src = open(os.path.join(os.environ.get('VERIF_REPO', '/repo'), VAL)).read()
        i = src.index('\nvalidate_body_helper (')
        j = src.index('\n}\n', i)
    except (OSError, ValueError):
        return -1
    body = re.sub(r'/\*.*?\*/', ' ', src[i:j], flags=re.S)
    return len(re.findall(r'_dbus_type_reader_get_current_type\s*\(\s*reader\s*\)', body))


def body_unit(suffix, case_id, case_macro, codes):
    u = dict(name='C01.p.body' + ('.' + suffix if suffix else '.all'), props=['C01', 'C10'], kind='P', route='hybrid', tier='thorough', entry='harness',
             tus=[dict(file=VAL, include_as='VERIF_TU', overlay='c01p_body.ovl'), dict(file=BASIC), dict(file=SIG)],
             harness='harness/c01p_body.c', extra_sources=['stubs/c01p_stubs.c', ASSERT],
             defines=(['VERIF_CASE_ID=%d' % case_id, 'VERIF_CASE=%s' % case_macro, 'VERIF_HEAD_CALLS=%d' % _head_calls()] if case_id else []),
             replace_calls=READER_CALLS, unwindset_pre=PAD_LOOPS, allow_skip_msg=True,
             timeout=2700, mem_gb=28, expect_s=(400 if case_id else 1500), want_trace=False,
             must_have=['Check invariant after step for loop verif_vbh_1', 'post.range', 'cases.cover', 'precondition of validate_body_helper (recursive call): total_depth + 1'],
             functions=BODY_FUNCS,
             assumptions=BODY_ASSUME + (['case split: this unit covers the executions in which the loop head of validate_body_helper sees one of the type codes %s (or the end of the signature); '
                                         'the units C01.p.body.fixed/.string/.array/.variant/.struct together cover all executions (cases.cover)' % codes] if case_id else []))
    if not case_id:
        u['role'] = 'finder'
    return u


UNITS = [body_unit(*c) for c in CASES]
# body_unit('', 0, None, 'all') gives the unsplit unit C01.p.body.all (green, 1652 obligations, 17-32 min); not registered: too slow to be useful

# ---- the two validators called before the terminating NUL has been checked stay inside [start, start+len) ----
RANGE_ASSUME = ['DBusString fields satisfy DBUS_GENERIC_STRING_PREAMBLE; the data object has EXACTLY len bytes (no terminator, nothing readable at str[len])']
UNITS.append(dict(name='C01.p.range.path', props=['C01', 'C10'], kind='P', route='dfcc', entry='harness', enforce=['_dbus_validate_path'],
                  tus=[dict(file=VAL, overlay='validate_names.ovl'), dict(file=STR)], harness='harness/c01p_range.c', extra_sources=[ASSERT],
                  timeout=900, expect_s=60, tier='thorough', must_have=['Check invariant after step for loop', 'Check ensures clause of contract'],
                  functions=[dict(name='_dbus_validate_path', file=VAL, status='enforced',
                                  contract='memory safety on a data object of exactly len bytes (no NUL terminator); TRUE => 1 <= len <= string length - start (what the C01.p.body stub assumes)')],
                  assumptions=RANGE_ASSUME))
UNITS.append(dict(name='C01.p.range.utf8', props=['C01', 'C10'], kind='P', route='dfcc', entry='harness', enforce=['_dbus_string_validate_utf8'],
                  tus=[dict(file=STR, overlay='string_utf8.ovl')], harness='harness/c01p_range.c', extra_sources=[ASSERT], defines=['VERIF_RANGE_UTF8=1'],
                  unwindset_pre=['_dbus_string_validate_utf8.1:7'], timeout=3000, expect_s=400, tier='thorough',
                  must_have=['Check invariant after step for loop', 'Check ensures clause of contract'],
                  functions=[dict(name='_dbus_string_validate_utf8', file=STR, status='enforced',
                                  contract='memory safety on a data object of exactly len bytes (no NUL terminator); TRUE => len <= string length - start (what the C01.p.body stub assumes)')],
                  assumptions=RANGE_ASSUME))
