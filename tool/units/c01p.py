"""C01.5(b) / C10 -- unbounded memory-safety proof of the message body validator (validate_body_helper)."""
VAL = 'dbus/dbus-marshal-validate.c'
STR = 'dbus/dbus-string.c'
BASIC = 'dbus/dbus-marshal-basic.c'
SIG = 'dbus/dbus-signature.c'
REC = 'dbus/dbus-marshal-recursive.c'
ASSERT = 'stubs/assert_stubs.c'

READER_CALLS = {
    '_dbus_type_reader_get_current_type': 'verif_stub_reader_get_current_type',
    '_dbus_type_reader_get_element_type': 'verif_stub_reader_get_element_type',
    '_dbus_type_reader_recurse': 'verif_stub_reader_recurse',
    '_dbus_type_reader_next': 'verif_stub_reader_next',
    '_dbus_type_reader_init_types_only': 'verif_stub_reader_init_types_only',
    '_dbus_validate_signature_with_reason': 'verif_stub_validate_signature',
    '_dbus_validate_path': 'verif_stub_validate_path',
    '_dbus_string_validate_utf8': 'verif_stub_validate_utf8',
    '_dbus_warn_return_if_fail': 'verif_stub_warn_return_if_fail',
    '_dbus_string_init_const_len': 'verif_stub_string_init_const_len',
    '_dbus_string_get_length': 'verif_stub_string_get_length',
    '_dbus_first_type_in_signature': 'verif_stub_first_type_in_signature',
    '_dbus_unpack_uint32': 'verif_stub_unpack_uint32',
}

# the five alignment-padding loops of validate_body_helper (goto loop numbers; the function is compiled under the
# name verif_vbh_1, see harness/c01p_body.c): at most 7 iterations each
PAD_LOOPS = ['verif_vbh_1.0:8', 'verif_vbh_1.1:8', 'verif_vbh_1.2:8', 'verif_vbh_1.5:8', 'verif_vbh_1.6:8']

BODY_FUNCS = [
    dict(name='validate_body_helper', file=VAL, status='enforced',
         contract='memory safety for a buffer of any length (<= _DBUS_STRING_MAX_LENGTH) with NOTHING readable at or after end; '
                  'VALID => p <= *new_p <= end; depth > 64 => NESTED_TOO_DEEPLY; recursion with total_depth + 1; progress; termination of all loops; '
                  '3 loop contracts + 5 padding loops unwound 8x (width-bounded: alignment <= 8); recursive calls bound to this contract'),
    dict(name='_dbus_type_get_alignment/_dbus_unpack_uint32/_dbus_first_type_in_signature/map_type_char_to_type', file=BASIC, status='inlined', note='real code, loop-free, own _dbus_asserts are obligations'),
    dict(name='_dbus_string_init_const_len/_dbus_string_get_length/_dbus_string_get_byte', file=STR, status='inlined', note='real code, loop-free, own _dbus_asserts are obligations'),
    dict(name='dbus_type_is_valid/dbus_type_is_fixed', file=SIG, status='inlined', note='real code, loop-free'),
    dict(name='_dbus_type_reader_get_current_type/_get_element_type/_recurse/_next/_init_types_only', file=REC, status='stub',
         note='abstract types-only reader (current type, element type) per the API documentation; assumed'),
    dict(name='_dbus_validate_path/_dbus_string_validate_utf8/_dbus_validate_signature_with_reason', file=VAL + ', ' + STR, status='replaced',
         note='C16 contracts (result range, accept => length facts, VALID signature starts with an opening type code); precondition weakened to '
              '[start,start+len) readable, see C01.p.range.*'),
    dict(name='_dbus_warn_return_if_fail', file='dbus/dbus-internals.c', status='stub', note='must be unreachable (asserted)'),
]
BODY_ASSUME = [
    'harness precondition: p and end in one heap object of exactly (offset of p) + (end - p) bytes, 0 <= end - p <= _DBUS_STRING_MAX_LENGTH, total_depth >= 0, new_p NULL or writable',
    'CBMC pointer model: _DBUS_ALIGN_ADDRESS aligns the offset inside the object, i.e. object base addresses are 8-aligned (malloc / DBusString)',
    'types-only DBusTypeReader behaves as documented (get_current_type pure and in the 16 type codes or INVALID; next returns FALSE exactly at the end; recurse into an array gives the element type); dbus-marshal-recursive.c is not verified here',
    'validated signatures have no empty struct / dict entry (a reader recursed into one starts at a type): used only for post.progress and the decreases clauses',
    'a VALID signature of positive length starts with one of y b n q i u x t d s o g h v a ( (C16: enforced only up to 8 bytes, B)',
    'the three string validators read only [start, start+len) (C16 enforces their memory safety with one more readable byte; C01.p.range.* close that gap for path and UTF-8)',
]

UNITS = [
    dict(name='C01.p.body', props=['C01', 'C10'], kind='P', route='hybrid', tier='thorough', entry='harness',
         tus=[dict(file=VAL, include_as='VERIF_TU', overlay='c01p_body.ovl'), dict(file=BASIC), dict(file=SIG)],
         harness='harness/c01p_body.c', extra_sources=['stubs/c01p_stubs.c', ASSERT],
         replace_calls=READER_CALLS, unwindset_pre=PAD_LOOPS, allow_skip_msg=True,
         timeout=2700, mem_gb=28, expect_s=900,
         must_have=['Check invariant after step for loop verif_vbh_1', 'post.range', 'precondition of validate_body_helper (recursive call): total_depth + 1'],
         functions=BODY_FUNCS, assumptions=BODY_ASSUME),
]
