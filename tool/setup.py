"""Setup: offline; checks the tools, makes sure a config.h is available, runs the oracle self-tests."""
import os
import shutil
import subprocess
import sys

from . import core


def main():
    ok = True
    for t in ('cbmc', 'goto-cc', 'goto-instrument', 'gcc', 'python3'):
        if not shutil.which(t):
            print('setup: missing tool %s' % t)
            ok = False
    try:
        d = core.config_dir()
        print('setup: config.h from %s' % d)
    except RuntimeError:
        d = os.path.join(core.VERIF, 'build', 'config')
        os.makedirs(d, exist_ok=True)
        print('setup: generating config.h with cmake into %s' % d)
        p = subprocess.run(['cmake', '-G', 'Ninja', '-S', core.REPO, '-B', d, '-DDBUS_BUILD_TESTS=ON',
                            '-DDBUS_ENABLE_VERBOSE_MODE=ON', '-DCMAKE_BUILD_TYPE=RelWithDebInfo'],
                           capture_output=True, text=True)
        if p.returncode != 0 or not os.path.exists(os.path.join(d, 'config.h')):
            print(p.stdout[-2000:], p.stderr[-2000:])
            ok = False
    st = os.path.join(core.VERIF, 'tool', 'selftest_grammar.py')
    if os.path.exists(st):
        p = subprocess.run([sys.executable, st], capture_output=True, text=True)
        print(p.stdout[-3000:], p.stderr[-2000:])
        if p.returncode != 0:
            print('setup: oracle self-test FAILED')
            ok = False
    os.makedirs(os.path.join(core.VERIF, 'evidence'), exist_ok=True)
    print('setup: %s' % ('ok' if ok else 'FAILED'))
    return 0 if ok else 1
