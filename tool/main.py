#!/usr/bin/env python3
"""verif driver.  Usage:
     verif check <Cxx> [--tier quick|thorough] [--unit NAME]...
     verif replay <path>
     verif setup
     verif baseline [<Cxx> ...]          (maintainer command: regenerate baseline_obligations.json)
     verif list
"""
import concurrent.futures as cf
import glob
import importlib
import json
import os
import re
import shutil
import sys
import tempfile
import time

sys.path.insert(0, os.path.dirname(os.path.dirname(os.path.abspath(__file__))))
from tool import core, replay  # noqa: E402

VERIF = core.VERIF


def load_units():
    units = []
    for f in sorted(glob.glob(os.path.join(VERIF, 'tool', 'units', '*.py'))):
        name = os.path.basename(f)[:-3]
        if name.startswith('_'):
            continue
        mod = importlib.import_module('tool.units.' + name)
        units += mod.UNITS
    names = [u['name'] for u in units]
    assert len(names) == len(set(names)), 'duplicate unit names'
    return units


def load_json(path, default):
    try:
        return json.load(open(path))
    except (OSError, ValueError):
        return default


def bfile(unit):
    return os.path.join(VERIF, 'baseline', core.safe_name(unit) + '.json')


def load_baseline():
    """baseline/<unit>.json: written only by `verif baseline` (maintainer command), one file per unit."""
    res = {}
    for f in glob.glob(os.path.join(VERIF, 'baseline', '*.json')):
        d = load_json(f, None)
        if d:
            res[d['unit']] = d
    return res


def match_known(kf, prop, unit, failure):
    """A known finding names property, unit and a substring of the failing obligation (and
    optionally of its source line).  Entries with state 'fixed' suppress nothing."""
    for e in kf.get('findings', []):
        if e.get('state') != 'open':
            continue
        if prop not in ([e['property']] + e.get('also_properties', [])) or e['unit'] != unit:
            continue
        if any(o in failure['description'] or o in failure['property'] for o in [e['obligation']] + e.get('also_obligations', [])):
            loc = failure.get('location', {})
            if e.get('line_text'):
                try:
                    src = open(loc.get('file', '')).read().split('\n')[int(loc.get('line', 0)) - 1]
                except (OSError, ValueError, IndexError):
                    src = ''
                if e['line_text'] not in src:
                    continue
            return e
    return None


def check(prop, tier, only_units=None, seed=0):
    t0 = time.time()
    all_units = load_units()
    byname = {u['name']: u for u in all_units}
    units = [u for u in all_units if prop in u['props'] and u.get('role', 'check') == 'check']
    if tier == 'quick':
        units = [u for u in units if u.get('tier', 'quick') == 'quick']
    if only_units:
        units = [u for u in units if u['name'] in only_units]
    if not units:
        print('no units for %s' % prop)
        return 2
    scratch = tempfile.mkdtemp(prefix='verif-%s-' % prop, dir=os.environ.get('VERIF_SCRATCH_ROOT', '/tmp'))
    log_dir = os.path.join(VERIF, 'build', 'logs', prop)
    os.makedirs(log_dir, exist_ok=True)
    baseline = load_baseline()
    known = load_json(os.path.join(VERIF, 'known-findings.json'), {'findings': []})
    results = []
    try:
        # heavy units first; weight = expected memory in "slots" out of 16
        units.sort(key=lambda u: -u.get('expect_s', 10))
        slots = int(os.environ.get('VERIF_JOBS', '12'))
        with cf.ThreadPoolExecutor(max_workers=slots) as ex:
            futs = {ex.submit(core.run_unit, u, scratch, tier, log_dir): u for u in units}
            for fu in cf.as_completed(futs):
                r = fu.result()
                results.append(r)
                print('  unit %-44s %-9s %4d/%-4d %6.1fs %s' % (r['name'], r['status'], r['discharged'], r['obligations'],
                                                                r['seconds'], r['reason'] or ''), flush=True)
        results.sort(key=lambda r: r['name'])
        violations, undecided, known_hits = [], [], []
        for r in results:
            u = byname[r['name']]
            if r['status'] == core.VIOLATED:
                rest = []
                for f in r['failed']:
                    e = match_known(known, prop, r['name'], f)
                    if e:
                        known_hits.append((e, r, f))
                    else:
                        rest.append(f)
                if rest:
                    base = baseline.get(r['name'])
                    r['failed_unlisted'] = rest
                    if base is None or not base.get('green'):
                        # never discharged on the unchanged tree: a violation only if a concrete input
                        # replays on the real code; otherwise undecided
                        r['needs_confirmation'] = True
                    violations.append(r)
                else:
                    r['status'] = core.HOLDS
                    r['known_only'] = True
            elif r['status'] == core.UNDECIDED:
                undecided.append(r)
            else:
                base = baseline.get(r['name'])
                if base and base.get('green'):
                    miss = [d for d in base.get('named', []) if d not in r.get('named', []) and not d.startswith('dbus assertion')]
                    if miss:
                        r['status'] = core.UNDECIDED
                        r['reason'] = 'contract obligations of the baseline are absent: %s' % miss[:4]
                        undecided.append(r)
        out_lines = []
        seen = set()
        for e, r, f in known_hits:
            if e['id'] in seen:
                continue
            seen.add(e['id'])
            out_lines.append('KNOWN-FINDING: property=%s %s' % (prop, e['what']))
        # replay files of runs against a scratch copy (VERIF_REPO: seeded changes) are not records about /repo: keep them out of replay/out
        rdir = os.path.join(VERIF, 'build', 'seed-replay') if os.environ.get('VERIF_REPO') else os.path.join(VERIF, 'replay', 'out')
        os.makedirs(rdir, exist_ok=True)
        viol_records = []
        for r in list(violations):
            u = byname[r['name']]
            rec = replay.make_replay(prop, u, r, byname, scratch, tier, log_dir, rdir, baseline)
            if r.get('needs_confirmation') and not rec.get('confirmed'):
                violations.remove(r)
                r['status'] = core.UNDECIDED
                r['reason'] = 'obligations fail, the unit has no green baseline and no concrete input replays: %s' % [
                    f['description'] for f in r['failed_unlisted'][:4]]
                undecided.append(r)
                continue
            viol_records.append(rec)
            r = next(x for x in violations if x['name'] == rec['unit'])
            line = 'VIOLATION property=%s replay=%s unit=%s obligation="%s"' % (
                prop, rec['path'], r['name'], rec['obligation'])
            if not rec.get('confirmed'):
                line += ' no-failing-input-found'
            out_lines.append(line)
        for r in undecided:
            out_lines.append('UNDECIDED property=%s unit=%s reason=%s' % (prop, r['name'], (r['reason'] or '')[:300]))
        write_evidence(prop, tier, seed, results, viol_records, known_hits, time.time() - t0, partial=bool(only_units))
        for l in out_lines:
            print(l)
        if violations:
            return 1
        if undecided:
            return 2
        print('OK property=%s tier=%s units=%d obligations=%d wall=%.0fs' % (
            prop, tier, len(results), sum(r['obligations'] for r in results), time.time() - t0))
        return 0
    finally:
        if not os.environ.get("VERIF_KEEP"): shutil.rmtree(scratch, ignore_errors=True)


PROOF_KINDS = ('P', 'W')


def write_evidence(prop, tier, seed, results, viol_records, known_hits, wall, partial=False):
    partial = partial or bool(os.environ.get('VERIF_REPO')) or bool(os.environ.get('VERIF_NO_EVIDENCE'))     # evidence is only about /repo itself
    meta = load_json(os.path.join(VERIF, 'tool', 'props.json'), {}).get(prop, {})
    p_units = [r for r in results if r['kind'] in PROOF_KINDS]
    b_units = [r for r in results if r['kind'] not in PROOF_KINDS]
    # obligations that fail only because of a recorded known finding are reported separately, not as proof obligations
    kf_per_unit = {}
    for e, r, f in known_hits:
        kf_per_unit[r['name']] = kf_per_unit.get(r['name'], 0) + 1
    ob = sum(r['obligations'] - kf_per_unit.get(r['name'], 0) for r in p_units if r['status'] == core.HOLDS or r['failed'])
    di = sum(r['discharged'] for r in p_units if r['status'] == core.HOLDS or r['failed'])
    funcs = []
    trusted = set(meta.get('trusted_base', []))
    assumptions = set(meta.get('assumptions', []))
    for r in results:
        for f in r['functions']:
            funcs.append(dict(f, unit=r['name'], kind=r['kind'], seconds=r['seconds'], unit_status=r['status'],
                              back_end=r['solver']))
            if f.get('status') in ('assumed', 'stub'):
                trusted.add('%s (%s): %s' % (f['name'], f.get('file', '?'), f.get('note', 'assumed contract')))
        for a in r['assumptions']:
            assumptions.add(a)
    samples = []
    for r in results[:]:
        for d in (r.get('named') or [])[:60]:
            if 'ensures' in d or 'post' in d.lower() or 'invariant' in d or d.startswith('dbus assertion'):
                samples.append('%s: %s' % (r['name'], d))
                break
    level = meta.get('level', 'proof' if p_units else 'other')
    cov = {
        'obligations': ob, 'discharged': di,
        'checker_cmd': (p_units or results)[0].get('checker_cmd', 'cbmc') if results else 'cbmc',
        'trusted_base': sorted(trusted),
        'samples': samples[:12] or ['(none)'],
        'explanation': meta.get('explanation', ''),
        'bounded_obligations': sum(r['obligations'] for r in b_units),
        'bounded_discharged': sum(r['discharged'] for r in b_units),
        'bounds': {r['name']: r['bounds'] for r in b_units if r.get('bounds')},
        'units': [{k: r.get(k) for k in ('name', 'kind', 'route', 'status', 'reason', 'obligations', 'discharged',
                                          'seconds', 'solver', 'reach', 'bounds')} for r in results],
        'functions_under_contract': funcs,
        'solver_seconds_total': round(sum(r['seconds'] for r in results), 1),
        'overlay': [o for r in results for o in (r.get('build') or {}).get('overlay', [])],
        'repo_inputs': {k: v for r in results for k, v in (r.get('build') or {}).get('repo_inputs', {}).items()},
        'extraction_drops': ['_dbus_assert(c) -> __CPROVER_assert(c) + __CPROVER_assume(c) (expression form)',
                             '_dbus_assert_not_reached -> __CPROVER_assert(0)',
                             '_dbus_verbose(...) -> nothing'] + meta.get('extraction_drops', []),
        'undecided': [{'unit': r['name'], 'reason': r['reason']} for r in results if r['status'] == core.UNDECIDED],
        'violations': viol_records,
        'known_findings_hit': sorted(set(e['id'] for e, _, _ in known_hits)),
        'known_finding_obligations': sum(kf_per_unit.values()),
        'not_decided_clauses': meta.get('not_decided', []),
        'machine_arithmetic': 'CBMC bit-precise: C integers are fixed-width bit vectors; no mathematical-integer abstraction',
    }
    if level != 'proof':
        cov['explanation'] = cov['explanation'] or 'bounded checks on the real code (CBMC, complete unwinding up to the stated bounds)'
    ev = {'property_id': prop, 'tier': tier, 'seed': seed, 'level': level, 'coverage': cov,
          'assumptions': sorted(assumptions), 'wall_s': round(wall, 1), 'violations': len(viol_records)}
    # a run restricted with --unit is a development run: it must not replace the property's evidence
    edir = os.path.join(VERIF, 'build', 'partial-evidence') if partial else os.path.join(VERIF, 'evidence')
    os.makedirs(edir, exist_ok=True)
    with open(os.path.join(edir, prop + '.json'), 'w') as fh:
        json.dump(ev, fh, indent=1, sort_keys=True)


def cmd_baseline(props):
    """Maintainer command (never run by a check): record which units are green and their named
    obligations on the tree as it is now."""
    all_units = load_units()
    os.makedirs(os.path.join(VERIF, 'baseline'), exist_ok=True)
    baseline = load_baseline()
    known = load_json(os.path.join(VERIF, 'known-findings.json'), {'findings': []})
    flags = [a for a in props if a.startswith('--')]
    props = [a for a in props if not a.startswith('--')]
    units = [u for u in all_units if (not props or set(props) & set(u['props']) or u['name'] in props)]
    if '--missing' in flags:
        units = [u for u in units if u['name'] not in baseline]
    if '--quick' in flags:
        units = [u for u in units if u.get('tier', 'quick') == 'quick']
    if '--thorough-only' in flags:
        units = [u for u in units if u.get('tier', 'quick') != 'quick']
    if '--checks' in flags:
        units = [u for u in units if u.get('role', 'check') == 'check']
    units.sort(key=lambda u: -u.get('expect_s', 10))
    print('baseline run over %d units' % len(units), flush=True)
    scratch = tempfile.mkdtemp(prefix='verif-base-')
    log_dir = os.path.join(VERIF, 'build', 'logs', 'baseline')
    os.makedirs(log_dir, exist_ok=True)
    try:
        with cf.ThreadPoolExecutor(max_workers=int(os.environ.get('VERIF_JOBS', '12'))) as ex:
            futs = {ex.submit(core.run_unit, u, scratch, 'thorough', log_dir): u for u in units}
            for fu in cf.as_completed(futs):
                r = fu.result()
                green = r['status'] == core.HOLDS
                if r['status'] == core.VIOLATED:
                    # green modulo known findings?
                    rest = [f for f in r['failed'] if not any(match_known(known, p, r['name'], f) for p in r['props'])]
                    green = not rest
                print('  %-44s %-9s green=%s %s %s' % (r['name'], r['status'], green, r['reason'] or '',
                                                      [f['description'] for f in r['failed'][:5]]), flush=True)
                if green:
                    with open(bfile(r['name']), 'w') as fh:
                        json.dump({'unit': r['name'], 'green': True, 'named': r.get('named', []), 'obligations': r['obligations'],
                                   'seconds': r['seconds']}, fh, indent=1, sort_keys=True)
                elif r['name'] in baseline:
                    print('    (kept previous baseline entry)')
    finally:
        shutil.rmtree(scratch, ignore_errors=True)


def main(argv):
    if len(argv) < 2:
        print(__doc__)
        return 2
    cmd = argv[1]
    if cmd == 'check':
        prop = argv[2]
        tier = os.environ.get('VERIF_TIER', 'quick')
        only = []
        i = 3
        while i < len(argv):
            if argv[i] == '--tier':
                tier = argv[i + 1]
                i += 2
            elif argv[i] == '--unit':
                only.append(argv[i + 1])
                i += 2
            else:
                i += 1
        seed = int(os.environ.get('VERIF_SEED', '0') or 0)
        return check(prop, tier, only or None, seed)
    if cmd == 'replay':
        return replay.run_replay(argv[2])
    if cmd == 'baseline':
        cmd_baseline(argv[2:])
        return 0
    if cmd == 'list':
        for u in load_units():
            print('%-46s %s %-6s %-8s %s' % (u['name'], u['kind'], u['route'], u.get('tier', 'quick'), ','.join(u['props'])))
        return 0
    if cmd == 'setup':
        from tool import setup
        return setup.main()
    print(__doc__)
    return 2


if __name__ == '__main__':
    sys.exit(main(sys.argv))
