#!/usr/bin/env python3
"""Generate MANIFEST.json from tool/props.json (single source for claims, notes, N/A reasons)."""
import json
import os
VERIF = os.path.dirname(os.path.dirname(os.path.abspath(__file__)))
props = json.load(open(os.path.join(VERIF, 'tool', 'props.json')))
ids = [json.loads(l)['id'] for l in open(os.path.join(VERIF, 'properties.jsonl'))]
m = {
    'version': 1,
    'setup_cmd': './verif setup',
    'hooks': {
        'guard': 'DBUS_VERIF_CBMC',
        'enable': 'no hook commits in /repo: contracts are overlaid on scratch copies of the real translation units at check time; -DDBUS_VERIF_CBMC is passed to goto-cc only',
        'baseline_off_cmd': 'cmake -G Ninja -S /repo -B /repo/_build -DDBUS_BUILD_TESTS=ON -DDBUS_ENABLE_VERBOSE_MODE=ON -DCMAKE_BUILD_TYPE=RelWithDebInfo && cmake --build /repo/_build && ctest --test-dir /repo/_build -j8 --timeout 900',
        'source_commits': [],
        'add_only': True,
    },
    'engines': [{'name': 'cbmc-contracts', 'path': '/verif/verif', 'serves_properties': [i for i in ids if props.get(i, {}).get('claimed')],
                 'kind_free_text': 'CBMC 6.11 code contracts on the real translation units (goto-instrument --dfcc / --replace-calls stubs), SAT back end cadical; bounded stand-ins labelled B'}],
    'checks': [],
    'not_applicable': [],
    'notes': 'See DESIGN.md. Exit codes of checks: 0 holds, 1 violation (VIOLATION line), 2 undecided (tool limit, timeout, extraction break) - never a false VIOLATION.',
}
for i in ids:
    p = props.get(i, {})
    if p.get('claimed'):
        m['checks'].append({
            'property_id': i,
            'quick_cmd': './verif check %s --tier quick' % i,
            'thorough_cmd': './verif check %s --tier thorough' % i,
            'evidence_file': '/verif/evidence/%s.json' % i,
            'replay_cmd_template': './verif replay {path}',
            'engine': 'cbmc-contracts',
            'level_claimed': {'category': p.get('level', 'proof'), 'text': p['level_text'], 'design_ref': p.get('design_ref', 'DESIGN.md section 6 ' + i)},
            'level_note': p['level_note'],
            'technique': p.get('technique', 'contract-based deductive verification with CBMC code contracts'),
        })
    else:
        m['not_applicable'].append({'property_id': i, 'reason': p.get('na_reason', 'check not built yet in this session (work in progress; see DESIGN.md section 6 for the plan)')})
json.dump(m, open(os.path.join(VERIF, 'MANIFEST.json'), 'w'), indent=1)
print('MANIFEST.json: %d checks, %d not_applicable' % (len(m['checks']), len(m['not_applicable'])))
