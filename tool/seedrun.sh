#!/bin/bash
# usage: tool/seedrun.sh <patch.diff> <Cxx> [more verif check args...]
# Applies a seeded change to a scratch worktree of /repo HEAD and runs a property check against it
# (VERIF_REPO); used while other work is using /repo itself.  The final confirmation of each seeded
# change is done by applying it to /repo (git -C /repo apply; check; git -C /repo checkout -- .).
set -u
patch=$(readlink -f "$1"); shift
wt=$(mktemp -d /tmp/seedrun.XXXXXX); rmdir $wt
git -C /repo worktree add -f $wt HEAD -q || exit 3
git -C $wt apply $patch || { echo "patch does not apply"; git -C /repo worktree remove --force $wt; exit 3; }
cd /verif && VERIF_REPO=$wt ./verif check "$@"; rc=$?
git -C /repo worktree remove --force $wt
exit $rc
