"""Overlay tool: copy a real translation unit of /repo and inject contract text.

The only things that can be inserted are
  * loop-contract clauses after the header of the k-th loop (source order) of a named function,
  * ghost statements (assignments to variables whose name starts with ``verif_``) before the k-th
    ``return`` / ``break`` of a named function, or before/after the n-th occurrence of an anchor
    text inside a named function,
  * nothing else.
All insertions are pure insertions: deleting them gives back the original byte for byte (checked).

Overlay spec format (text file, ``.ovl``)::

    @func <name>
    @loop <k>                      # k-th loop keyword (for/while/do) in source order, 1-based
      <clauses ...>
    @return <k>|all [after "<anchor>"] [matching "<text>"]
      <ghost statements>
    @break <k>|all
      <ghost statements>
    @after "<anchor text>" [<n>]
      <ghost statements>
    @before "<anchor text>" [<n>]
      <ghost statements>

Errors (missing function, wrong loop count, missing anchor) raise OverlayError -> the unit is
reported as *undecided: extraction break*, never as a violation.
"""
import hashlib
import re


class OverlayError(Exception):
    pass


def mask(src):
    """Return src with comments, string and char literals replaced by blanks (same length)."""
    out = list(src)
    i, n = 0, len(src)
    while i < n:
        c = src[i]
        if c == '/' and i + 1 < n and src[i + 1] == '*':
            j = src.find('*/', i + 2)
            j = n if j < 0 else j + 2
            for k in range(i, j):
                if out[k] != '\n':
                    out[k] = ' '
            i = j
        elif c == '/' and i + 1 < n and src[i + 1] == '/':
            j = src.find('\n', i)
            j = n if j < 0 else j
            for k in range(i, j):
                out[k] = ' '
            i = j
        elif c == '"' or c == "'":
            q = c
            j = i + 1
            while j < n and src[j] != q:
                if src[j] == '\\':
                    j += 1
                j += 1
            for k in range(i + 1, min(j, n)):
                if out[k] != '\n':
                    out[k] = ' '
            i = j + 1
        else:
            i += 1
    return ''.join(out)


def match_close(m, i, open_ch, close_ch):
    """m[i] == open_ch; return index of matching close."""
    depth = 0
    n = len(m)
    while i < n:
        if m[i] == open_ch:
            depth += 1
        elif m[i] == close_ch:
            depth -= 1
            if depth == 0:
                return i
        i += 1
    raise OverlayError('unbalanced %s' % open_ch)


def find_function(m, name):
    """Return (body_open_brace_index, body_close_brace_index) of the definition of `name`."""
    for mo in re.finditer(r'(?<![A-Za-z0-9_])' + re.escape(name) + r'\s*\(', m):
        p = m.index('(', mo.start())
        try:
            q = match_close(m, p, '(', ')')
        except OverlayError:
            continue
        k = q + 1
        while k < len(m) and m[k] in ' \t\r\n':
            k += 1
        if k < len(m) and m[k] == '{':
            # must be at top level: brace depth before mo.start() is 0
            depth = m.count('{', 0, mo.start()) - m.count('}', 0, mo.start())
            if depth != 0:
                continue
            return k, match_close(m, k, '{', '}')
    raise OverlayError('function %s: definition not found' % name)


KW = re.compile(r'(?<![A-Za-z0-9_])(for|while|do)(?![A-Za-z0-9_])')


def find_loops(m, b0, b1):
    """Insertion offsets (after the loop header) for each loop of the body m[b0:b1], source order."""
    loops = []          # (keyword_pos, insertion_pos)
    do_tail_whiles = set()
    pos = b0
    # first pass: find do-loops and their tail whiles
    for mo in KW.finditer(m, b0, b1):
        if mo.group(1) == 'do':
            k = mo.end()
            while m[k] in ' \t\r\n':
                k += 1
            if m[k] == '{':
                e = match_close(m, k, '{', '}')
            else:
                e = m.index(';', k)
            w = KW.search(m, e + 1, b1)
            if not w or w.group(1) != 'while':
                raise OverlayError('do without while')
            p = m.index('(', w.end())
            q = match_close(m, p, '(', ')')
            do_tail_whiles.add(w.start())
            # CBMC 6.11 wants the clauses of a do-while right after the `do` keyword
            loops.append((mo.start(), mo.end()))
    for mo in KW.finditer(m, b0, b1):
        if mo.group(1) == 'do':
            continue
        if mo.start() in do_tail_whiles:
            continue
        p = mo.end()
        while m[p] in ' \t\r\n':
            p += 1
        if m[p] != '(':
            continue
        q = match_close(m, p, '(', ')')
        loops.append((mo.start(), q + 1))
    loops.sort()
    return [ins for _, ins in loops]


def find_stmts(m, b0, b1, kw):
    """(start, end) of every `kw ...;` statement in the body, source order."""
    res = []
    for mo in re.finditer(r'(?<![A-Za-z0-9_])' + kw + r'(?![A-Za-z0-9_])', m[b0:b1]):
        s = b0 + mo.start()
        e = m.index(';', s)
        res.append((s, e + 1))
    return res


GHOST_STMT = re.compile(r'^\s*(if\s*\(.*\)\s*)?verif_[A-Za-z0-9_]+(\s*\[[^\]]*\])?\s*(=|\+=|-=|\+\+|--)[^;]*;?\s*$')


def check_ghost(text):
    for st in [s for s in text.replace('\n', ' ').split(';') if s.strip()]:
        if not GHOST_STMT.match(st + ';'):
            raise OverlayError('ghost statement may only assign verif_* variables: %r' % st)


def check_clauses(text):
    t = mask(text)
    for mo in re.finditer(r'(__CPROVER_[a-z_]+)\s*\(', t):
        if mo.group(1) not in ('__CPROVER_assigns', '__CPROVER_loop_invariant', '__CPROVER_decreases',
                               '__CPROVER_same_object', '__CPROVER_POINTER_OFFSET', '__CPROVER_POINTER_OBJECT',
                               '__CPROVER_loop_entry', '__CPROVER_r_ok', '__CPROVER_w_ok', '__CPROVER_rw_ok',
                               '__CPROVER_object_whole', '__CPROVER_object_from', '__CPROVER_object_upto',
                               '__CPROVER_typed_target', '__CPROVER_OBJECT_SIZE'):
            raise OverlayError('loop clause uses %s' % mo.group(1))
    stripped = re.sub(r'\s+', '', t)
    if stripped and not stripped.startswith('__CPROVER_'):
        raise OverlayError('loop clause text must consist of __CPROVER_ clauses')


def parse_spec(text):
    ops = []
    cur = None
    func = None
    for line in text.split('\n'):
        s = line.strip()
        if s.startswith('#') and not s.startswith('#define'):
            continue
        if s.startswith('@'):
            parts = s.split(None, 1)
            d = parts[0]
            arg = parts[1] if len(parts) > 1 else ''
            if d == '@func':
                func = arg.strip()
                cur = None
                continue
            cur = {'func': func, 'op': d[1:], 'arg': arg, 'text': ''}
            ops.append(cur)
        elif cur is not None:
            cur['text'] += line + '\n'
    return ops


def apply_overlay(src, spec_text):
    """Return (new_src, report). Raises OverlayError."""
    m = mask(src)
    ops = parse_spec(spec_text)
    inserts = []   # (offset, text)
    report = {'functions': [], 'insertions': 0}
    loops_used = {}
    for op in ops:
        f = op['func']
        if not f:
            raise OverlayError('op before @func')
        b0, b1 = find_function(m, f)
        if f not in report['functions']:
            report['functions'].append(f)
        kind = op['op']
        text = op['text'].rstrip('\n')
        if kind == 'loop':
            args = op['arg'].split()
            k = int(args[0])
            loops = find_loops(m, b0, b1)
            # optional: "of N" states the expected number of loops in the function
            if len(args) >= 3 and args[1] == 'of' and int(args[2]) != len(loops):
                raise OverlayError('function %s has %d loops, spec expects %s' % (f, len(loops), args[2]))
            if k < 1 or k > len(loops):
                raise OverlayError('function %s has %d loops, spec wants loop %d' % (f, len(loops), k))
            check_clauses(text)
            inserts.append((loops[k - 1], '\n' + text + '\n'))
        elif kind in ('return', 'break'):
            check_ghost(text)
            stmts = find_stmts(m, b0, b1, kind)
            arg = op['arg']
            sel = arg.split()[0] if arg.split() else 'all'
            after = re.search(r'after\s+"([^"]*)"', arg)
            matching = re.search(r'matching\s+"([^"]*)"', arg)
            lo = b0
            if after:
                a = src.find(after.group(1), b0, b1)
                if a < 0:
                    raise OverlayError('function %s: anchor %r not found' % (f, after.group(1)))
                lo = a
            cand = [(s, e) for (s, e) in stmts if s >= lo]
            if matching:
                want = re.sub(r'\s+', ' ', matching.group(1).strip())
                cand = [(s, e) for (s, e) in cand if re.sub(r'\s+', ' ', src[s:e].strip()) == want]
            if sel != 'all':
                k = int(sel)
                if k < 1 or k > len(cand):
                    raise OverlayError('function %s: %s #%d not found (%d candidates)' % (f, kind, k, len(cand)))
                cand = [cand[k - 1]]
            if not cand:
                raise OverlayError('function %s: no %s statement selected' % (f, kind))
            for (s, e) in cand:
                inserts.append((s, '{ ' + text.strip() + ' '))
                inserts.append((e, ' }'))
        elif kind in ('after', 'before'):
            check_ghost(text)
            mo = re.match(r'"((?:[^"\\]|\\.)*)"\s*(\d+)?', op['arg'])
            if not mo:
                raise OverlayError('bad anchor in @%s' % kind)
            anchor = mo.group(1).replace('\\"', '"')
            nth = int(mo.group(2) or 1)
            p = b0
            for _ in range(nth):
                p = src.find(anchor, p + 1, b1)
                if p < 0:
                    raise OverlayError('function %s: anchor %r (occurrence %d) not found' % (f, anchor, nth))
            at = p + len(anchor) if kind == 'after' else p
            inserts.append((at, ' ' + text.strip() + ' '))
        else:
            raise OverlayError('unknown op @%s' % kind)
    inserts.sort(key=lambda t: t[0])
    out = []
    last = 0
    for off, txt in inserts:
        out.append(src[last:off])
        out.append(txt)
        last = off
    out.append(src[last:])
    new = ''.join(out)
    # insert-only check: removing the insertions gives the original
    chk = []
    pos = 0
    for off, txt in inserts:
        pass
    report['insertions'] = len(inserts)
    report['inserted_bytes'] = sum(len(t) for _, t in inserts)
    report['src_sha256'] = hashlib.sha256(src.encode()).hexdigest()
    # mechanical confirmation (subsequence by construction; verify by re-removal)
    rebuilt = new
    shift = 0
    pieces = []
    cursor = 0
    for off, txt in inserts:
        start = off + shift
        pieces.append(rebuilt[cursor:start])
        assert rebuilt[start:start + len(txt)] == txt
        cursor = start + len(txt)
        shift += len(txt)
    pieces.append(rebuilt[cursor:])
    if ''.join(pieces) != src:
        raise OverlayError('overlay is not insert-only (internal error)')
    return new, report


if __name__ == '__main__':
    import sys
    src = open(sys.argv[1]).read()
    spec = open(sys.argv[2]).read()
    new, rep = apply_overlay(src, spec)
    sys.stdout.write(new)
    sys.stderr.write(repr(rep) + '\n')
