#!/usr/bin/env python3
"""Run the registered quick check of the property each seeded change breaks against that change, in a scratch
worktree of /repo HEAD (VERIF_REPO), and record which unit / obligation catches it.
Usage: python3 tool/seed_matrix.py [--tier quick|thorough] [ids...]   -> seeded/<id>/detection.json, seeded/RESULTS.md"""
import glob
import json
import os
import re
import subprocess
import sys
import tempfile

VERIF = os.path.dirname(os.path.dirname(os.path.abspath(__file__)))


def run_one(sid, tier):
    d = os.path.join(VERIF, 'seeded', sid)
    meta = json.load(open(os.path.join(d, 'meta.json')))
    prop = meta['property']
    wt = tempfile.mkdtemp(prefix='seedmx.', dir='/tmp')
    os.rmdir(wt)
    subprocess.run(['git', '-C', '/repo', 'worktree', 'add', '-f', wt, 'HEAD', '-q'], check=True)
    res = {'seed': sid, 'property': prop, 'tier': tier}
    try:
        p = subprocess.run(['git', '-C', wt, 'apply', os.path.join(d, 'patch.diff')], capture_output=True, text=True)
        if p.returncode != 0:
            res['error'] = 'patch does not apply: ' + p.stderr[-300:]
            return res
        env = dict(os.environ, VERIF_REPO=wt)
        p = subprocess.run([os.path.join(VERIF, 'verif'), 'check', prop, '--tier', tier], capture_output=True, text=True, env=env)
        res['exit'] = p.returncode
        res['violations'] = [l for l in p.stdout.split('\n') if l.startswith('VIOLATION')]
        res['undecided'] = [l[:300] for l in p.stdout.split('\n') if l.startswith('UNDECIDED')]
        res['detected'] = bool(res['violations'])
        # evidence of this run is about the patched tree: do not keep it
    finally:
        subprocess.run(['git', '-C', '/repo', 'worktree', 'remove', '--force', wt])
    json.dump(res, open(os.path.join(d, 'detection.json'), 'w'), indent=1)
    return res


def main():
    args = sys.argv[1:]
    tier = 'quick'
    if '--tier' in args:
        i = args.index('--tier')
        tier = args[i + 1]
        del args[i:i + 2]
    missing_only = '--missing' in args
    if missing_only:
        args.remove('--missing')
    ids = args or sorted(os.path.basename(p) for p in glob.glob(os.path.join(VERIF, 'seeded', 'C*-*')))
    if missing_only:
        ids = [i for i in ids if not os.path.exists(os.path.join(VERIF, 'seeded', i, 'detection.json'))]
    saved = {}
    for sid in ids:
        prop = json.load(open(os.path.join(VERIF, 'seeded', sid, 'meta.json')))['property']
        ev = os.path.join(VERIF, 'evidence', prop + '.json')
        if prop not in saved and os.path.exists(ev):
            saved[prop] = open(ev).read()
        r = run_one(sid, tier)
        print(sid, 'DETECTED' if r.get('detected') else 'missed', r.get('error', ''), (r.get('violations') or [''])[0][:200], flush=True)
    # (runs against a scratch copy no longer write evidence/: nothing to restore)
    rows = []
    for sid in sorted(os.path.basename(p) for p in glob.glob(os.path.join(VERIF, 'seeded', 'C*-*'))):
        f = os.path.join(VERIF, 'seeded', sid, 'detection.json')
        meta = json.load(open(os.path.join(VERIF, 'seeded', sid, 'meta.json')))
        if not os.path.exists(f):
            rows.append('| %s | %s | not run | |' % (sid, meta.get('title', '')[:90]))
            continue
        r = json.load(open(f))
        vs = []
        for l in r.get('violations', []):
            mo = re.search(r'unit=(\S+) obligation="([^"]*)"', l)
            if mo:
                vs.append('%s: %s' % (mo.group(1), mo.group(2)[:110]))
        rows.append('| %s | %s | %s | %s |' % (sid, meta.get('title', '')[:90].replace('|', '/'), 'caught' if r.get('detected') else ('MISSED' if not r.get('error') else r['error'][:40]),
                                            '<br>'.join(vs[:3]).replace('|', '/')))
    with open(os.path.join(VERIF, 'seeded', 'RESULTS.md'), 'w') as fh:
        fh.write('# Seeded changes: which check catches which\n\nEach change was written by an independent session that saw only the property text, confirmed in a scratch worktree '
                 '(applies, builds, existing suite passes, demo fails with / passes without), and run against `./verif check <property> --tier quick` '
                 '(`tool/seed_matrix.py`).\n\n| seed | change | result | unit: obligation |\n|---|---|---|---|\n' + '\n'.join(rows) + '\n')


if __name__ == '__main__':
    main()
