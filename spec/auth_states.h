/* C08 oracle: the SERVER side of the D-Bus authentication protocol, written from
 * doc/dbus-specification.xml ("Authentication Protocol", "Authentication state diagrams",
 * "Server states", and the per-command sections), never from dbus/dbus-auth.c.
 *
 * The diagram is kept as one pure function  spec_server_step()  over abstract values, so that
 * a unit can say "the real handler's (next state, reply) is the one the specification
 * prescribes" for every command class.  Each branch quotes the sentence it encodes.
 *
 * Abstract alphabet
 *   states   : WaitingForAuth, WaitingForData, WaitingForBegin  (the three server states of the
 *              diagram) plus the two ways a conversation terminates.
 *   commands : what a received line is classified as.  The specification's client->server command
 *              list is  AUTH [mechanism] [initial-response] | CANCEL | BEGIN | DATA <hex> |
 *              ERROR [text] | NEGOTIATE_UNIX_FD ; everything else is "anything else".
 *   mech     : "For the server MECH(RESP) means that the client response RESP was fed to the the
 *              mechanism MECH, which returns one of CONTINUE(CHALL) ... OK ... REJECTED".
 *   replies  : server->client command list  REJECTED | OK | DATA | ERROR | AGREE_UNIX_FD ; and
 *              "there is no reply to the BEGIN command".
 */
#ifndef VERIF_SPEC_AUTH_STATES_H
#define VERIF_SPEC_AUTH_STATES_H

enum spec_state
{
  SPEC_WAITING_FOR_AUTH = 1,   /* "The server starts out in state WaitingForAuth." */
  SPEC_WAITING_FOR_DATA,
  SPEC_WAITING_FOR_BEGIN,
  SPEC_AUTHENTICATED,          /* "terminate auth conversation, client authenticated" */
  SPEC_DISCONNECT              /* "terminate auth conversation, disconnect" */
};

enum spec_cmd
{
  SPEC_CMD_AUTH_NOARGS = 1,    /* "If an AUTH command has no arguments, it is a request to list available mechanisms." */
  SPEC_CMD_AUTH_MECH,          /* AUTH MECH [RESP] with well-formed (hex) RESP */
  SPEC_CMD_CANCEL,
  SPEC_CMD_DATA,               /* DATA RESP with well-formed (hex) RESP */
  SPEC_CMD_BEGIN,
  SPEC_CMD_ERROR,
  SPEC_CMD_NEGOTIATE_UNIX_FD,
  SPEC_CMD_MALFORMED_ARGS,     /* AUTH/DATA whose argument is not hex: "ERROR ... did not understand the arguments to the command" */
  SPEC_CMD_OTHER               /* unknown commands, server->client commands received by the server, non-ASCII lines */
};

enum spec_mech
{
  SPEC_MECH_NA = 0,
  SPEC_MECH_INVALID,           /* "MECH not valid mechanism" (unknown, or not in the server's allowed list) */
  SPEC_MECH_CONTINUE,          /* "CONTINUE(CHALL) means continue the auth conversation and send CHALL as the challenge to the client" */
  SPEC_MECH_OK,                /* "OK means that the client has been successfully authenticated" */
  SPEC_MECH_REJECTED           /* "REJECTED means that the client failed to authenticate or there was an error in RESP" */
};

enum spec_reply
{
  SPEC_REPLY_NONE = 0,         /* only for BEGIN: "The server does not reply." */
  SPEC_REPLY_REJECTED,
  SPEC_REPLY_OK,
  SPEC_REPLY_DATA,
  SPEC_REPLY_ERROR,
  SPEC_REPLY_AGREE_UNIX_FD
};

/* "If the client is rejected too many times the server must disconnect the client."
 * The specification leaves the number open; the property statement wants it bounded.  The
 * abstract step therefore takes `rejections_exhausted` (this REJECTED is the last one allowed)
 * and sends the conversation to SPEC_DISCONNECT instead of WaitingForAuth in that case. */
#define SPEC_AFTER_REJECTED(exhausted) ((exhausted) ? SPEC_DISCONNECT : SPEC_WAITING_FOR_AUTH)

/* One step of the server.  `fd_ok` = "the transport chosen supports Unix file descriptor passing
 * and the server supports this feature".  Returns the next state; *reply = what is sent. */
static inline enum spec_state
spec_server_step (enum spec_state s, enum spec_cmd c, enum spec_mech m, int fd_ok, int rejections_exhausted,
                  enum spec_reply *reply)
{
  /* "If an ERROR is sent, the server or client that sent the error must continue as if the
   *  command causing the ERROR had never been received."  => ERROR never changes the state. */
#define SPEC_SEND_ERROR_STAY do { *reply = SPEC_REPLY_ERROR; return s; } while (0)
#define SPEC_SEND_REJECTED do { *reply = SPEC_REPLY_REJECTED; return SPEC_AFTER_REJECTED (rejections_exhausted); } while (0)
  switch (s)
    {
    case SPEC_WAITING_FOR_AUTH:
      switch (c)
        {
        case SPEC_CMD_AUTH_NOARGS:       /* "Receive AUTH -> send REJECTED [mechs], goto WaitingForAuth" */
          SPEC_SEND_REJECTED;
        case SPEC_CMD_AUTH_MECH:         /* "Receive AUTH MECH RESP" */
          switch (m)
            {
            case SPEC_MECH_INVALID:      /* "MECH not valid mechanism -> send REJECTED [mechs], goto WaitingForAuth" */
              SPEC_SEND_REJECTED;
            case SPEC_MECH_CONTINUE:     /* "MECH(RESP) returns CONTINUE(CHALL) -> send DATA CHALL, goto WaitingForData" */
              *reply = SPEC_REPLY_DATA; return SPEC_WAITING_FOR_DATA;
            case SPEC_MECH_OK:           /* "MECH(RESP) returns OK -> send OK, goto WaitingForBegin" */
              *reply = SPEC_REPLY_OK; return SPEC_WAITING_FOR_BEGIN;
            case SPEC_MECH_REJECTED:     /* "MECH(RESP) returns REJECTED -> send REJECTED [mechs], goto WaitingForAuth" */
            default:
              SPEC_SEND_REJECTED;
            }
        case SPEC_CMD_BEGIN:             /* "Receive BEGIN -> terminate auth conversation, disconnect" */
          *reply = SPEC_REPLY_NONE; return SPEC_DISCONNECT;
        case SPEC_CMD_ERROR:             /* "Receive ERROR -> send REJECTED [mechs], goto WaitingForAuth" */
          SPEC_SEND_REJECTED;
        default:                         /* "Receive anything else -> send ERROR, goto WaitingForAuth" (CANCEL, DATA, NEGOTIATE_UNIX_FD, unknown) */
          SPEC_SEND_ERROR_STAY;
        }
    case SPEC_WAITING_FOR_DATA:
      switch (c)
        {
        case SPEC_CMD_DATA:              /* "Receive DATA RESP" */
          switch (m)
            {
            case SPEC_MECH_CONTINUE:     /* "MECH(RESP) returns CONTINUE(CHALL) -> send DATA CHALL, goto WaitingForData" */
              *reply = SPEC_REPLY_DATA; return SPEC_WAITING_FOR_DATA;
            case SPEC_MECH_OK:           /* "MECH(RESP) returns OK -> send OK, goto WaitingForBegin" */
              *reply = SPEC_REPLY_OK; return SPEC_WAITING_FOR_BEGIN;
            default:                     /* "MECH(RESP) returns REJECTED -> send REJECTED [mechs], goto WaitingForAuth" */
              SPEC_SEND_REJECTED;
            }
        case SPEC_CMD_BEGIN:             /* "Receive BEGIN -> terminate auth conversation, disconnect" */
          *reply = SPEC_REPLY_NONE; return SPEC_DISCONNECT;
        case SPEC_CMD_CANCEL:            /* "Receive CANCEL -> send REJECTED [mechs], goto WaitingForAuth" */
        case SPEC_CMD_ERROR:             /* "Receive ERROR -> send REJECTED [mechs], goto WaitingForAuth" */
          SPEC_SEND_REJECTED;
        default:                         /* "Receive anything else -> send ERROR, goto WaitingForData" */
          SPEC_SEND_ERROR_STAY;
        }
    case SPEC_WAITING_FOR_BEGIN:
      switch (c)
        {
        case SPEC_CMD_BEGIN:             /* "Receive BEGIN -> terminate auth conversation, client authenticated" */
          *reply = SPEC_REPLY_NONE; return SPEC_AUTHENTICATED;
        case SPEC_CMD_NEGOTIATE_UNIX_FD: /* "Receive NEGOTIATE_UNIX_FD -> send AGREE_UNIX_FD or ERROR, goto WaitingForBegin";
                                            "It shall respond the former if the transport chosen supports Unix file descriptor
                                             passing and the server supports this feature. It shall respond the latter if ..." */
          *reply = fd_ok ? SPEC_REPLY_AGREE_UNIX_FD : SPEC_REPLY_ERROR; return SPEC_WAITING_FOR_BEGIN;
        case SPEC_CMD_CANCEL:            /* "Receive CANCEL -> send REJECTED [mechs], goto WaitingForAuth" */
        case SPEC_CMD_ERROR:             /* "Receive ERROR -> send REJECTED [mechs], goto WaitingForAuth" */
          SPEC_SEND_REJECTED;
        default:                         /* "Receive anything else -> send ERROR, goto WaitingForBegin" */
          SPEC_SEND_ERROR_STAY;
        }
    default:                             /* "The server must not accept additional commands using this protocol after the
                                            BEGIN command has been received." : terminal states take no step */
      *reply = SPEC_REPLY_NONE; return s;
    }
#undef SPEC_SEND_ERROR_STAY
#undef SPEC_SEND_REJECTED
}

/* Limits taken from the property statement (C08): "gives up after a bounded number of
 * rejections, and buffers no more than a fixed amount of handshake data". */
#define SPEC_AUTH_MAX_BUFFER 16384

#endif
