/* Oracle for message headers (C01 header part, C12): written from the D-Bus specification
 * (doc/dbus-specification.xml, "Message Format" and "Header Fields"), never from
 * dbus-marshal-header.c.  Sentences quoted:
 *
 *  [MF1] "The signature of the header is: "yyyyuua(yv)""
 *  [MF2] 1st BYTE "Endianness flag; ASCII 'l' for little-endian or ASCII 'B' for big-endian."
 *  [MF3] 2nd BYTE "Message type. Unknown types must be ignored."  INVALID 0 "This is an invalid type."
 *  [MF4] 3rd BYTE "Bitwise OR of flags. Unknown flags must be ignored."
 *  [MF5] 4th BYTE "Major protocol version of the sending application. If the major protocol version of the
 *        receiving application does not match, the applications will not be able to communicate and the
 *        D-Bus connection must be disconnected. The major protocol version for this version of the
 *        specification is 1."
 *  [MF6] 2nd UINT32 "The serial of this message ... This must not be zero."
 *  [MF7] "The length of the header must be a multiple of 8 ... If the header does not naturally end on an
 *        8-byte boundary up to 7 bytes of nul-initialized alignment padding must be added."
 *  [HF1] "A header must contain the required header fields for its message type, and zero or more of any
 *        optional header fields."
 *  [HF2] "If an implementation sees a header field code that it does not expect, it must accept and ignore
 *        that field ... This also applies to known header fields appearing in unexpected messages"
 *  [HF3] "implementations must not send or accept known header fields with the wrong type stored in the
 *        field value."
 *  [HF4] table "Header Fields" (Conventional name, Decimal code, Type, Required in):
 *          INVALID      0  N/A          not allowed ("error if it appears in a message")
 *          PATH         1  OBJECT_PATH  METHOD_CALL, SIGNAL
 *          INTERFACE    2  STRING       SIGNAL
 *          MEMBER       3  STRING       METHOD_CALL, SIGNAL
 *          ERROR_NAME   4  STRING       ERROR
 *          REPLY_SERIAL 5  UINT32       ERROR, METHOD_RETURN
 *          DESTINATION  6  STRING       optional
 *          SENDER       7  STRING       optional
 *          SIGNATURE    8  SIGNATURE    optional
 *          UNIX_FDS     9  UINT32       optional
 *  [HF5] PATH: "The special path /org/freedesktop/DBus/Local is reserved; implementations should not send
 *        messages with this path, and the reference implementation of the bus daemon will disconnect any
 *        application that attempts to do so."
 *  [HF6] INTERFACE: "The special interface org.freedesktop.DBus.Local is reserved; ... will disconnect any
 *        application that attempts to do so."
 *  [HF7] REPLY_SERIAL is "the serial number of the message this message is a reply to", and a serial
 *        "must not be zero" [MF6]  =>  a REPLY_SERIAL of 0 names no message.
 *  [VN]  "Valid Names": INTERFACE -> interface name, MEMBER -> member name, ERROR_NAME -> error name (same
 *        as interface names), DESTINATION / SENDER -> bus name; OBJECT_PATH / SIGNATURE values are
 *        constrained by their marshalled type already ("Marshaling").
 *
 *  Extension (NOT in the specification text of this tree): dbus/dbus-protocol.h defines
 *  DBUS_HEADER_FIELD_CONTAINER_INSTANCE = 10 of type OBJECT_PATH.  By [HF2] a peer that follows only the
 *  specification text must accept code 10 with any value type; libdbus refuses a non-OBJECT_PATH value.
 *  The table below has the extension switched on by HDR_REF_WITH_CONTAINER_INSTANCE (default 1, with this
 *  remark as the recorded doubt), so that the units compare the nine specified fields strictly.
 */
#ifndef VERIF_HEADER_REF_H
#define VERIF_HEADER_REF_H
#include "body_ref.h"
#include "grammar_ref.h"

#ifndef HDR_REF_WITH_CONTAINER_INSTANCE
#define HDR_REF_WITH_CONTAINER_INSTANCE 1
#endif
#define HDR_REF_LAST (HDR_REF_WITH_CONTAINER_INSTANCE ? 10 : 9)

enum { HR_INVALID = 0, HR_PATH = 1, HR_INTERFACE = 2, HR_MEMBER = 3, HR_ERROR_NAME = 4, HR_REPLY_SERIAL = 5,
       HR_DESTINATION = 6, HR_SENDER = 7, HR_SIGNATURE = 8, HR_UNIX_FDS = 9, HR_CONTAINER_INSTANCE = 10 };
enum { HR_T_METHOD_CALL = 1, HR_T_METHOD_RETURN = 2, HR_T_ERROR = 3, HR_T_SIGNAL = 4 };

/* [HF4] column "Type": the type code a known field must carry; 0 = not a known field */
static int hdr_ref_field_type (int code)
{
  switch (code)
    {
    case HR_PATH: return 'o';
    case HR_INTERFACE: case HR_MEMBER: case HR_ERROR_NAME: case HR_DESTINATION: case HR_SENDER: return 's';
    case HR_REPLY_SERIAL: case HR_UNIX_FDS: return 'u';
    case HR_SIGNATURE: return 'g';
    case HR_CONTAINER_INSTANCE: return HDR_REF_WITH_CONTAINER_INSTANCE ? 'o' : 0;
    default: return 0;
    }
}

/* [HF4] column "Required in" */
static int hdr_ref_required (int msg_type, int code)
{
  switch (msg_type)
    {
    case HR_T_METHOD_CALL:   return code == HR_PATH || code == HR_MEMBER;
    case HR_T_SIGNAL:        return code == HR_PATH || code == HR_INTERFACE || code == HR_MEMBER;
    case HR_T_ERROR:         return code == HR_ERROR_NAME || code == HR_REPLY_SERIAL;
    case HR_T_METHOD_RETURN: return code == HR_REPLY_SERIAL;
    default:                 return 0;   /* [MF3] unknown types: nothing is required */
    }
}

/* present = bit mask, bit c set iff a field with code c is present; [HF1] */
static int hdr_ref_mandatory_ok (int msg_type, unsigned present)
{
  int c;
  for (c = 1; c <= 10; c++)
    if (hdr_ref_required (msg_type, c) && !(present & (1u << c))) return 0;
  return 1;
}

/* which name grammar [VN] applies to the string content of a field */
enum { HR_V_NONE = 0, HR_V_INTERFACE, HR_V_MEMBER, HR_V_ERROR_NAME, HR_V_BUS_NAME };
static int hdr_ref_validator (int code)
{
  switch (code)
    {
    case HR_INTERFACE: return HR_V_INTERFACE;
    case HR_MEMBER: return HR_V_MEMBER;
    case HR_ERROR_NAME: return HR_V_ERROR_NAME;
    case HR_DESTINATION: case HR_SENDER: return HR_V_BUS_NAME;
    default: return HR_V_NONE;   /* PATH, SIGNATURE, CONTAINER_INSTANCE: by their marshalled type; UINT32 fields: no grammar */
    }
}

#define HDR_REF_LOCAL_INTERFACE "org.freedesktop.DBus.Local"
#define HDR_REF_LOCAL_INTERFACE_LEN 26
#define HDR_REF_LOCAL_PATH "/org/freedesktop/DBus/Local"
#define HDR_REF_LOCAL_PATH_LEN 27
static int hdr_ref_bytes_equal (const unsigned char *s, int n, const char *lit, int litlen)
{
  int k;
  if (n != litlen) return 0;
  for (k = 0; k < litlen; k++) if (s[k] != (unsigned char) lit[k]) return 0;
  return 1;
}
/* [HF6] / [HF5]: THE reserved interface / path (the whole value, not a prefix of it) */
static int hdr_ref_is_local_interface (const unsigned char *s, int n) { return hdr_ref_bytes_equal (s, n, HDR_REF_LOCAL_INTERFACE, HDR_REF_LOCAL_INTERFACE_LEN); }
static int hdr_ref_is_local_path (const unsigned char *s, int n) { return hdr_ref_bytes_equal (s, n, HDR_REF_LOCAL_PATH, HDR_REF_LOCAL_PATH_LEN); }

/* content rule of a known string-typed field given its n content bytes (grammar + reserved names) */
static int hdr_ref_string_field_ok (int code, const unsigned char *s, int n)
{
  switch (code)
    {
    case HR_INTERFACE: return ref_interface (s, n) && !hdr_ref_is_local_interface (s, n);
    case HR_MEMBER: return ref_member (s, n);
    case HR_ERROR_NAME: return ref_interface (s, n);
    case HR_DESTINATION: case HR_SENDER: return ref_bus_name_full (s, n, 0);
    case HR_PATH: return !hdr_ref_is_local_path (s, n);      /* path grammar: by the OBJECT_PATH type */
    default: return 1;
    }
}

/* ------------------------------------------------------------------------------------------------
 * Independent decoding of a header image h[0..n): fixed part and the a(yv) array ("Marshaling").
 * ------------------------------------------------------------------------------------------------ */
#ifndef HDR_REF_MAXFIELDS
#define HDR_REF_MAXFIELDS 8
#endif
#define HDR_REF_LE(h) ((h)[0] == 'l')
static unsigned hdr_ref_body_len (const unsigned char *h) { return body_ref_u32 (h, 4, HDR_REF_LE (h)); }
static unsigned hdr_ref_serial (const unsigned char *h) { return body_ref_u32 (h, 8, HDR_REF_LE (h)); }
static unsigned hdr_ref_fields_len (const unsigned char *h) { return body_ref_u32 (h, 12, HDR_REF_LE (h)); }
static int hdr_ref_message_type (const unsigned char *h) { return h[1]; }
static int hdr_ref_flag (const unsigned char *h, unsigned flag) { return (h[2] & flag) != 0; }

/* alignment padding up to a multiple of a (a power of two <= 8) inside [0,end): "must always be made up of nul bytes".
 * The position is advanced unconditionally (see hdr_ref_variant). */
static int hdr_ref_align (const unsigned char *h, int end, int *pos, int a)
{
  int from = *pos, to = (from + a - 1) & ~(a - 1), k, ok = 1;
  *pos = to;
  if (to > end) return 0;
  for (k = 0; k < 7; k++) if (from + k < to && h[from + k] != 0) ok = 0;
  return ok;
}

/* one VARIANT at h[*pos..) inside [0,end): "The marshaled SIGNATURE of a single complete type, followed by a
 * marshaled value with the type given in the signature."  Outputs the offset of the signature text and of the
 * (aligned) value.  Returns 1 iff well-formed, 0 if not, -1 if the value contains a nested variant. */
static int hdr_ref_variant (const unsigned char *h, int end, int *pos, int le, int *sig_at, int *sig_len, int *val_at)
{
  int n, a;
  if (*pos + 1 > end) return 0;
  n = h[*pos]; *pos += 1;
  if (n + 1 > end - *pos) return 0;
  if (!spec_signature_single (h + *pos, n)) return 0;
  if (h[*pos + n] != 0) return 0;
  *sig_at = *pos; *sig_len = n;
  *pos += n + 1;
  a = body_ref_alignment (h[*sig_at]);
  if (a == 0) return 0;
  { int p2 = *pos; int okpad = hdr_ref_align (h, end, &p2, a); *val_at = p2; if (!okpad) return 0; }
  /* Basic types are decoded here, with the position advanced UNCONDITIONALLY before the checks (a failed check ends
   * the decoding anyway; this keeps positions concrete for the model checker where lengths are concrete).
   * fixed size ("Marshaling"): BYTE 1; INT16/UINT16 2; BOOLEAN/INT32/UINT32/UNIX_FD 4; INT64/UINT64/DOUBLE 8 */
  if (n == 1 && (a == 2 || a == 8 || h[*sig_at] == 'y' || h[*sig_at] == 'b' || h[*sig_at] == 'i' || h[*sig_at] == 'u' || h[*sig_at] == 'h')
      && h[*sig_at] != '(' && h[*sig_at] != '{')
    {
      int size = h[*sig_at] == 'y' ? 1 : a;
      *pos = *val_at + size;
      if (*pos > end) return 0;
      if (h[*sig_at] == 'b') { unsigned bv = body_ref_u32 (h, *val_at, le); return bv == 0 || bv == 1; }
      return 1;
    }
  /* STRING / OBJECT_PATH: UINT32 length, content, NUL; SIGNATURE: BYTE length, content, NUL */
  if (n == 1 && (h[*sig_at] == 's' || h[*sig_at] == 'o' || h[*sig_at] == 'g'))
    {
      int t = h[*sig_at], lw = t == 'g' ? 1 : 4; unsigned L;
      if (*val_at + lw > end) return 0;
      L = t == 'g' ? h[*val_at] : body_ref_u32 (h, *val_at, le);
      *pos = *val_at + lw + (int) L + 1;
      if (L > (unsigned) (end - *val_at - lw) || L + 1 > (unsigned) (end - *val_at - lw)) return 0;
      if (h[*pos - 1] != 0) return 0;
      if (t == 's') return body_ref_utf8 (h + *val_at + lw, (int) L);
      if (t == 'o') return body_ref_path (h + *val_at + lw, (int) L);
      return spec_signature (h + *val_at + lw, (int) L);
    }
  /* containers: a variant inside a field value is legal D-Bus, but body_ref_value (spec/body_ref.h) does not decode
   * 'v': answer -1 = "outside what this reference decodes"; the bounded units exclude these inputs and say so */
  { int k; for (k = 0; k < n; k++) if (h[*sig_at + k] == 'v') return -1; }
  return body_ref_value ((const char *) h + *sig_at, 0, h, end, pos, le, 2);
}

/* Result of ONE walk over the fields array: for every code 0..10 the number of fields carrying it (saturating at
 * 3), and offset / type code of the value of the first one. */
struct hdr_ref_fields { int wf; int count[11]; int val_at[11]; int type[11]; int n_unknown; };
/* Walk the fields array once.  out->wf: 1 iff the array is well-formed ("Marshaling": each element an 8-aligned STRUCT
 * of BYTE and VARIANT, zero padding, elements end exactly at 16 + fields_len), 0 if malformed, -1 if a field value
 * contains a nested variant (not decoded by this reference). */
static int hdr_ref_walk (const unsigned char *h, int n, struct hdr_ref_fields *out)
{
  int le = HDR_REF_LE (h); unsigned fal; int pos, end, k, c;
  for (c = 0; c <= 10; c++) { out->count[c] = 0; out->val_at[c] = -1; out->type[c] = 0; }
  out->n_unknown = 0; out->wf = 0;
  if (n < 16) return 0;
  fal = hdr_ref_fields_len (h);
  if (fal > 67108864u || fal > (unsigned) (n - 16)) return 0;
  pos = 16; end = 16 + (int) fal;
  for (k = 0; k < HDR_REF_MAXFIELDS; k++)      /* HDR_REF_MAXFIELDS >= the number of elements that fit: an element takes >= 5 bytes from an 8-aligned start */
    {
      int code, sig_at, sig_len, v_at;
      if (pos == end) { out->wf = 1; return 1; }
      if (pos > end) return 0;
      if (!hdr_ref_align (h, end, &pos, 8)) return 0;         /* STRUCT: 8-aligned */
      if (pos + 1 > end) return 0;
      code = h[pos]; pos += 1;
      { int vr = hdr_ref_variant (h, end, &pos, le, &sig_at, &sig_len, &v_at); if (vr <= 0) { out->wf = vr; return vr; } }
      if (code <= 10) { if (out->count[code] == 0) { out->val_at[code] = v_at; out->type[code] = h[sig_at]; } if (out->count[code] < 3) out->count[code]++; }
      else out->n_unknown = 1;
    }
  out->wf = (pos == end);
  return out->wf;
}
/* convenience: the first field with code `want` (0..10) */
static int hdr_ref_find_field (const unsigned char *h, int n, int want, int *val_at, int *type, int *count)
{
  struct hdr_ref_fields f; int r = hdr_ref_walk (h, n, &f);
  *count = 0; *val_at = -1; *type = 0;
  if (r == 1 && want >= 0 && want <= 10) { *count = f.count[want]; *val_at = f.val_at[want]; *type = f.type[want]; }
  return r;
}

/* string-like field value at v_at: content offset and length (STRING/OBJECT_PATH: UINT32 length; SIGNATURE: BYTE) */
static void hdr_ref_string_at (const unsigned char *h, int v_at, int type, int *s_at, int *s_len)
{
  if (type == 'g') { *s_len = h[v_at]; *s_at = v_at + 1; }
  else { *s_len = (int) body_ref_u32 (h, v_at, HDR_REF_LE (h)); *s_at = v_at + 4; }
}

/* Whole-header verdict for an untrusted image h[0..n) holding at least the complete header:
 * 1 iff it is a valid header under [MF*], [HF*], [VN]; 0 if not; -1 if a field value contains a nested variant (not
 * decoded by this reference).  *hlen = header length incl. padding. */
static int hdr_ref_valid_walked (const unsigned char *h, int n, int *hlen, const struct hdr_ref_fields *f)
{
  int le, c, hl; unsigned fal, present = 0;
  if (n < 16) return 0;
  if (h[0] != 'l' && h[0] != 'B') return 0;                              /* [MF2] */
  le = HDR_REF_LE (h);
  fal = hdr_ref_fields_len (h);
  if (fal > 67108864u || fal > (unsigned) (n - 16)) return 0;
  hl = (16 + (int) fal + 7) & ~7;
  if (hl > n) return 0;
  *hlen = hl;
  if (f->wf <= 0) return f->wf;                                          /* "Marshaling" of a(yv); -1: not decodable here */
  if (h[1] == 0) return 0;                                               /* [MF3] */
  if (h[3] != 1) return 0;                                               /* [MF5] */
  if (hdr_ref_serial (h) == 0) return 0;                                 /* [MF6] */
  { int k; for (k = 16 + (int) fal; k < hl; k++) if (h[k] != 0) return 0; } /* [MF7] */
  if (f->count[0] > 0) return 0;                                         /* [HF4] code 0 "not allowed" */
  for (c = 1; c <= 10; c++)
    {
      int v_at = f->val_at[c], type = f->type[c];
      if (f->count[c] == 0) continue;
      if (hdr_ref_field_type (c) == 0) continue;                           /* [HF2] unknown: accept and ignore */
      present |= 1u << c;
      if (f->count[c] > 1) return 0;                                       /* a known field given twice is not "the" field */
      if (type != hdr_ref_field_type (c)) return 0;                        /* [HF3] */
      if (type == 'u') { if (c == HR_REPLY_SERIAL && body_ref_u32 (h, v_at, le) == 0) return 0; }   /* [HF7] */
      else { int s_at, s_len; hdr_ref_string_at (h, v_at, type, &s_at, &s_len); if (!hdr_ref_string_field_ok (c, h + s_at, s_len)) return 0; }
    }
  /* a duplicate whose FIRST occurrence is fine but whose later occurrence has another type is caught by count > 1 */
  return hdr_ref_mandatory_ok (h[1], present);                             /* [HF1] */
}
static int hdr_ref_valid (const unsigned char *h, int n, int *hlen)
{
  struct hdr_ref_fields f;
  if (n < 16) return 0;
  hdr_ref_walk (h, n, &f);
  return hdr_ref_valid_walked (h, n, hlen, &f);
}
#endif
