/* Oracle for property C19 (activation).  Written from the documentation shipped in /repo/doc, never
 * from bus/activation*.c.  Each ACT_* clause below is referred to by name in the harnesses
 * harness/c19_*.c next to the assertion that states it.
 *
 * NOTE: the pinned tree (dbus 1.13.18) ships no dbus-daemon-launch-helper(1) man page
 * (doc/dbus-daemon-launch-helper.1.xml* does not exist); the helper's documentation is
 * doc/system-activation.txt plus the <servicehelper>/<servicedir> entries of dbus-daemon(1).
 *
 * ---- [SPEC] D-Bus Specification, "Message Bus Starting Services (Activation)" -----------------
 * S1 "If no application on the bus owns the requested name, but the bus daemon does know how to start
 *     an activatable service for that name, then the bus daemon will start that service, wait for it to
 *     request that name, and deliver the message to it."
 * S2 "On the well-known system bus, the name of a service description file must be its well-known name
 *     plus .service, for instance com.example.ConfigurationDatabase1.service."
 * S3 "Service description files must contain a D-BUS Service group with at least the keys Name (the
 *     well-known name of the service) and Exec (the command to be executed)."
 * S4 "Additionally, service description files for the well-known system bus on Unix must contain a
 *     User key, whose value is the name of a user account (e.g. root). The system service will be run as
 *     that user."
 * S5 "When an application asks to start a service by name, the bus daemon tries to find a service that
 *     will own that name. It then tries to spawn the executable associated with it. If this fails, it
 *     will report an error."
 * S6 "On the well-known system bus, it is not possible for two .service files in the same directory to
 *     offer the same service, because they are constrained to have names that match the service name."
 * S7 "The executable launched will have the environment variable DBUS_STARTER_ADDRESS set to the address
 *     of the message bus ... the bus must also set the DBUS_STARTER_BUS_TYPE environment variable if it is
 *     one of the well-known buses."
 * S8 (StartServiceByName) "Tries to launch the executable associated with a name (service activation), as
 *     an explicit request." Reply DBUS_START_REPLY_SUCCESS = 1 "The service was successfully started.",
 *     DBUS_START_REPLY_ALREADY_RUNNING = 2 "A connection already owns the given name."
 *
 * ---- [SYSACT] doc/system-activation.txt ---------------------------------------------------------
 * A1 "The helper must not be passed input that can be changed maliciously, and therefore passing a random
 *     path with user id is totally out of the question. ... to pass a single name argument to the helper."
 * A2 "The service filename of "org.me.test.service" is then searched for in
 *     /usr/share/dbus-1/system-services or other specified directories."
 * A3 "[D-BUS Service] Name=org.me.test Exec=/usr/sbin/dbus-test-server.py User=ftp
 *     This gives the user to switch to, and also the path of the executable."
 * A4 "Only the bus name is passed to the helper, and this is validated"
 * A5 "We are super paranoid about the user that called us, and what permissions we have."
 * A6 "We clear all environment variables except for DBUS_VERBOSE which is used for debugging"
 * A7 "Anything out of the ordinary causes the helper to abort."
 *
 * ---- [DAEMON] dbus-daemon(1) ------------------------------------------------------------------------
 * D1 <servicedir> "Adds a directory to search for .service files ... If a particular service is found in
 *     more than one <servicedir>, the first directory listed in the configuration file takes precedence."
 * D2 <servicehelper/> "specifies the setuid helper that is used to launch system daemons with an alternate
 *     user."
 *
 * ---- [POS36] SEI CERT C, POS36-C "Observe correct revocation order while relinquishing privileges" ----
 * R1 supplementary groups, then group id, then user id (initgroups -> setgid -> setuid), each checked.
 *
 * ---- derived clauses (quantifier-free, over the ghost record of the harness) ------------------------ */
#ifndef ACTIVATION_REF_H
#define ACTIVATION_REF_H
/* ACT_EXEC_ONLY_IF (A4, A2, S2, S3, S4, A3, A5, A6, R1): the exec primitive is reached only when
 *   - the environment has been cleared (A6),
 *   - the name argument, as a whole C string, was accepted by the bus-name grammar of C16 (A4),
 *   - a service file <dir>/<name>.service was found in a configured service directory (A2, S2, D1),
 *   - its Name equals the argument (S2/S6, A3), and it has Exec and User (S3, S4),
 *   - the invoking user is the configured bus user and the helper is setuid root (A5),
 *   - the process has switched to that User, in revocation order (S4, R1),
 *   - the program executed is argv[0] of the parsed Exec line. */
#define ACT_EXEC_ONLY_IF(g) ((g).env_cleared && (g).validated_whole_name && (g).in.name_valid && (g).file_found_for_name && \
   (g).name_compared_with_file && (g).in.name_equal && (g).got_exec && (g).got_user && (g).caller_checked && \
   (g).groups_inited && (g).gid_set && (g).uid_set && (g).argv_from_exec)
/* ACT_ONE_ERROR_EACH (S5 + property C19: "every waiting sender receives exactly one error") */
/* ACT_ONCE_IN_ORDER (S1 + property C19: "delivers each held message exactly once in arrival order") */
/* ACT_ONE_SPAWN (property C19: "starts the service at most once per activation") */
#endif
