/* Oracle for iterator read-back (C01 last sentence: "every ... body value later read from an accepted message through
 * the ... iterator API equals what an independent decoding of the same bytes gives"): an independent VALUE extractor
 * written from the specification's "Marshaling (Wire Format)" section.  It flattens a VALID body (validity is decided
 * by spec/body_ref.h) of a constant signature into the sequence of events a depth-first iteration must produce:
 *     basic value     -> (type code, value)          fixed-size types: the integer formed from 1/2/4/8 bytes in the
 *                                                    message's byte order (BOOLEAN as UINT32, DOUBLE as its 64 bits);
 *                                                    STRING/OBJECT_PATH/SIGNATURE: offset and length of the content
 *     container       -> (type code 'a' '(' '{', 0)  then the events of its contents, then (')', 0)
 * Alignment: as in body_ref_alignment ("aligned naturally"; struct/dict entry 8; array length 4 then element
 * alignment).  No variants (body_ref.h does not decode them). */
#ifndef VERIF_C01H_VALUE_REF_H
#define VERIF_C01H_VALUE_REF_H
#include "body_ref.h"
struct val_ref_item { int type; unsigned long long v; int s_at, s_len; };
#ifndef VAL_REF_MAX
#define VAL_REF_MAX 24
#endif
struct val_ref_seq { int n; int overflow; struct val_ref_item it[VAL_REF_MAX]; };
static void val_ref_push (struct val_ref_seq *q, int type, unsigned long long v, int s_at, int s_len)
{ if (q->n >= VAL_REF_MAX) { q->overflow = 1; return; } q->it[q->n].type = type; q->it[q->n].v = v; q->it[q->n].s_at = s_at; q->it[q->n].s_len = s_len; q->n++; }
static unsigned long long val_ref_uint (const unsigned char *b, int pos, int size, int le)
{ unsigned long long v = 0; int k; for (k = 0; k < 8; k++) { if (k >= size) break; v |= (unsigned long long) b[pos + k] << (8 * (le ? k : size - 1 - k)); } return v; }
static int val_ref_align (int pos, int a) { return (pos + a - 1) & ~(a - 1); }
static void val_ref_value (const char *sig, int si, const unsigned char *b, int *pos, int le, struct val_ref_seq *q, int depth);
static void val_ref_seq_types (const char *sig, int si, int se, const unsigned char *b, int *pos, int le, struct val_ref_seq *q, int depth)
{ int k; for (k = 0; k < 64; k++) { if (si >= se) return; val_ref_value (sig, si, b, pos, le, q, depth); si = body_ref_type_end (sig, si); } }
static void val_ref_value (const char *sig, int si, const unsigned char *b, int *pos, int le, struct val_ref_seq *q, int depth)
{
  char c = sig[si]; int a = body_ref_alignment (c);
  if (a == 0 || depth > 8) { q->overflow = 1; return; }
  *pos = val_ref_align (*pos, a);
  switch (c)
    {
    case 'y': val_ref_push (q, c, b[*pos], 0, 0); *pos += 1; return;
    case 'n': case 'q': val_ref_push (q, c, val_ref_uint (b, *pos, 2, le), 0, 0); *pos += 2; return;
    case 'b': case 'i': case 'u': case 'h': val_ref_push (q, c, val_ref_uint (b, *pos, 4, le), 0, 0); *pos += 4; return;
    case 'x': case 't': case 'd': val_ref_push (q, c, val_ref_uint (b, *pos, 8, le), 0, 0); *pos += 8; return;
    case 's': case 'o': { int n = (int) val_ref_uint (b, *pos, 4, le); val_ref_push (q, c, 0, *pos + 4, n); *pos += 4 + n + 1; return; }
    case 'g': { int n = b[*pos]; val_ref_push (q, c, 0, *pos + 1, n); *pos += 1 + n + 1; return; }
    case 'a':
      { int n = (int) val_ref_uint (b, *pos, 4, le), aend, k;
        *pos += 4; *pos = val_ref_align (*pos, body_ref_alignment (sig[si + 1])); aend = *pos + n;
        val_ref_push (q, 'a', 0, 0, 0);
        for (k = 0; k < VAL_REF_MAX; k++) { if (*pos >= aend) break; val_ref_value (sig, si + 1, b, pos, le, q, depth + 1); }
        val_ref_push (q, ')', 0, 0, 0); return; }
    case '(': case '{':
      { int se = body_ref_type_end (sig, si) - 1; val_ref_push (q, c, 0, 0, 0); val_ref_seq_types (sig, si + 1, se, b, pos, le, q, depth + 1); val_ref_push (q, ')', 0, 0, 0); return; }
    default: q->overflow = 1; return;
    }
}
static void val_ref_extract (const char *sig, const unsigned char *b, int le, struct val_ref_seq *q)
{ int pos = 0, se = 0; q->n = 0; q->overflow = 0; while (sig[se] != 0) se++; val_ref_seq_types (sig, 0, se, b, &pos, le, q, 0); }
#endif
