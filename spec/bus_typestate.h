/* Typestate (T) oracle for the message-routing core of dbus-daemon: ghost objects, the ghost event
 * record, and the pre/postconditions of the functions under contract.
 *
 * Every predicate below is written from doc/dbus-specification.xml (quoted as  S: "..."), from
 * dbus-daemon(1) or from the documented preconditions (`_dbus_return_if_fail`) of the public
 * libdbus API (quoted as  API: ...), or from the statement of the property (quoted as  Cxx: ...),
 * never from bus/dispatch.c, bus/connection.c or bus/driver.c.
 *
 * The same macro is used when a function is verified (harness: assume PRE_f, call the real f,
 * assert POST_f) and when it is a callee of another unit (stub: assert PRE_f, havoc, assume POST_f),
 * so the two sides cannot drift apart.
 *
 * Ghost objects.  DBusMessage and DBusConnection are opaque to bus/*.c (every access goes through
 * a libdbus function), so a `DBusMessage *` in these units points to a `struct ts_msg` and a
 * `DBusConnection *` to a `struct ts_conn`; the libdbus accessors are contracts over these records.
 */
#ifndef BUS_TYPESTATE_H
#define BUS_TYPESTATE_H

/* ---- who is named in the SENDER field of a message ------------------------------------------
 * S (Header fields, SENDER): "Unique name of the sending connection. [...] On a message bus, this
 *    header field is controlled by the message bus, so it is as reliable and trustworthy as the
 *    message bus itself."
 * C03: "carries as sender either the unique connection name of the client that actually sent it,
 *    or org.freedesktop.DBus for messages the bus itself originates; a sender value, unknown header
 *    field or container-instance field placed in the header by the sending client never reaches
 *    any receiver." */
enum ts_sender {
  TS_SND_CLIENT = 0,   /* whatever the sending client put there: forged, or absent            */
  TS_SND_UNIQUE,       /* the unique name of connection `sender_of`, written by the bus        */
  TS_SND_INACTIVE,     /* the bus's fixed marker for a sender without unique name (":not.active.yet") */
  TS_SND_DRIVER,       /* "org.freedesktop.DBus", written by the bus                           */
  TS_SND_OTHER         /* something else written through dbus_message_set_sender               */
};
enum ts_dest { TS_DST_NONE = 0, TS_DST_BUS, TS_DST_NAME, TS_DST_UNIQUE /* unique name of dest_of */ };
enum ts_err { TS_ERR_NONE = 0, TS_ERR_NO_MEMORY, TS_ERR_NAME_HAS_NO_OWNER, TS_ERR_ACCESS_DENIED, TS_ERR_NOT_SUPPORTED,
              TS_ERR_FAILED, TS_ERR_LIMITS_EXCEEDED, TS_ERR_OTHER };

struct ts_conn {
  _Bool active;          /* owns a unique name (Hello completed)                                */
  _Bool monitor;         /* BecomeMonitor completed                                             */
  _Bool connected;
  _Bool can_unix_fd;     /* S (NEGOTIATE_UNIX_FD): fd passing was negotiated on this connection  */
  const char *name;      /* unique name, NULL until Hello                                       */
  int refs;              /* dbus_connection_ref minus dbus_connection_unref during the step     */
  int closed;            /* dbus_connection_close calls                                         */
  int disconnected;      /* bus_connection_disconnected calls                                   */
  int staged;            /* successful bus_transaction_send (.., this, ..) calls in this step   */
  int staged_fd;         /* ... of a message that contains unix fds                             */
  int oom_errors;        /* bus_connection_send_oom_error (this, ..) calls                      */
  int completed;         /* bus_connection_complete calls that returned TRUE                    */
};

struct ts_msg {
  dbus_uint32_t serial;        /* S (Message format): "The serial of this message [...] This must not be zero." */
  dbus_uint32_t reply_serial;
  int type;
  enum ts_sender sender; struct ts_conn *sender_of;
  enum ts_dest dest;     struct ts_conn *dest_of;
  _Bool unknown_stripped;      /* header fields unknown to the bus have been removed            */
  _Bool container_cleared;     /* CONTAINER_INSTANCE field put there by the client removed      */
  _Bool local_disconnected;    /* is the signal org.freedesktop.DBus.Local.Disconnected          */
  _Bool auto_start, no_reply, has_fds;
  _Bool is_hello;              /* is the method call org.freedesktop.DBus.Hello addressed to the bus */
  enum ts_err error_name;      /* for ERROR messages built by dbus_message_new_error            */
  struct ts_msg *in_reply_to;
  _Bool has_string_arg; const char *string_arg;   /* first STRING of the body appended by dbus_message_append_args */
  int n_string_args;           /* number of STRING arguments appended (the body signature is that many 's')  */
  int refs;                    /* reference count held by the code under verification            */
};

/* ---- ghost event record of one dispatch step -------------------------------------------------- */
struct bus_ts {
  struct ts_msg *dispatched;     /* the message given to bus_dispatch (NULL in units below it)    */
  struct ts_conn *origin;        /* the connection it arrived on                                 */
  int transactions_new, executed, cancelled;
  int captures;                  /* bus_transaction_capture calls                                 */
  _Bool capture_ok;              /* what the last one returned                                    */
  struct ts_msg *captured_msg; struct ts_conn *captured_sender, *captured_addressed;
  int capture_errs;              /* bus_transaction_capture_error_reply calls                     */
  struct ts_conn *capture_err_addressed; enum ts_err capture_err_name; struct ts_msg *capture_err_in_reply_to;
  int policy_checks; _Bool policy_allowed; enum ts_err policy_err; struct ts_conn *policy_sender, *policy_addressed, *policy_proposed;
  int driver_handled, activations; _Bool driver_ok;
  int lookups; _Bool lookup_found; struct ts_conn *lookup_owner; int owner_queries;
  int routed;                    /* bus_dispatch_matches calls                                    */
  struct ts_conn *routed_addressed; _Bool routed_ok;
  int staged_addressed;          /* sends of the routed message to its addressed recipient        */
  int staged_others;             /* sends to match-rule recipients                                */
  int error_replies;             /* bus_transaction_send_error_reply calls                        */
  enum ts_err error_reply_name; struct ts_conn *error_reply_to; struct ts_msg *error_reply_in_reply_to; _Bool error_reply_ok;
  int oom_errors;                /* bus_connection_send_oom_error calls                           */
  int from_driver;               /* bus_transaction_send_from_driver calls                        */
  struct ts_msg *from_driver_msg; struct ts_conn *from_driver_to;
  int sends;                     /* bus_transaction_send calls                                    */
  struct ts_msg *last_sent_msg; struct ts_conn *last_sent_to, *last_sent_from;
  int monitor_sends;             /* sends to connections returned by the monitor matchmaker        */
  int recipient_queries;         /* bus_matchmaker_get_recipients calls                           */
  const void *recipient_mm; struct ts_conn *recipient_q_sender, *recipient_q_addressed; struct ts_msg *recipient_q_msg;
  /* Hello */
  int limit_checks, minted, completes, welcomes, ensures; _Bool minted_into_complete, minted_into_ensure;
  int set_sender_calls;
  int logs;
};
extern struct bus_ts G;
/* separate objects (named by the loop contract of bus_dispatch's wait-for-memory loop; flags, not counters) */
extern _Bool ts_waited;            /* _dbus_wait_for_memory was called                                   */
extern _Bool ts_oom_preallocated;  /* the connection holds a preallocated NoMemory error reply           */

#define TS_MSG(m)  ((struct ts_msg *)(m))
#define TS_CONN(c) ((struct ts_conn *)(c))
#ifndef IMP
#define IMP(a, b) (!(a) || (b))
#endif
#ifndef REACH
#define REACH(tag) __CPROVER_assert(0, "REACH:" tag)
#endif

/* ---- C03: the message carries the TRUE sender -------------------------------------------------
 * S (Message Bus Names): "Each connection has at least one name, assigned at connection time and
 *    returned in response to the org.freedesktop.DBus.Hello method call."
 * A message that arrived on connection c carries the true sender iff the bus wrote c's unique name
 * into it, or, while c has no unique name yet, the bus's own marker (so that a monitor never sees
 * a client-chosen value).  Client-chosen extra fields must be gone as well. */
#define TS_TRUE_SENDER(m, c) \
  ((TS_CONN(c)->active ? (TS_MSG(m)->sender == TS_SND_UNIQUE && TS_MSG(m)->sender_of == TS_CONN(c)) \
                       : (TS_MSG(m)->sender == TS_SND_INACTIVE)))
#define TS_SANITIZED(m, c) (TS_MSG(m)->unknown_stripped && TS_MSG(m)->container_cleared && TS_TRUE_SENDER(m, c))
/* bus-originated: S (Message Bus Messages): messages from the bus itself have sender org.freedesktop.DBus */
#define TS_FROM_DRIVER(m) (TS_MSG(m)->sender == TS_SND_DRIVER)
/* anything that may observe or route a message requires one of the two */
#define TS_OBSERVABLE(m, sender_conn) ((sender_conn) != NULL ? TS_SANITIZED(m, sender_conn) : TS_FROM_DRIVER(m))

/* ---- libdbus API preconditions (the _dbus_return_if_fail lines of the documented public API) ----
 * API dbus_message_new_error(reply_to, name, text): reply_to != NULL, name != NULL, name is a valid
 *     error name; it then calls dbus_message_set_reply_serial(reply, dbus_message_get_serial(reply_to)).
 * API dbus_message_set_reply_serial(m, serial): m != NULL, !m->locked, "reply_serial != 0  (0 is invalid)".
 * S (Header fields, REPLY_SERIAL): "The serial number of the message this message is a reply to." and
 * S (Message format): "The serial of this message [...] This must not be zero."
 * Hence: an (error) reply can only be built for a message that already has a non-zero serial. */
#define PRE_dbus_message_new_error(reply_to, name) ((reply_to) != NULL && (name) != NULL && TS_MSG(reply_to)->serial != 0)
#define PRE_dbus_message_new_method_return(call)   ((call) != NULL && TS_MSG(call)->serial != 0)
#define PRE_dbus_message_set_reply_serial(m, s)    ((m) != NULL && (s) != 0)

/* ---- C18: capture for monitors -----------------------------------------------------------------
 * S (BecomeMonitor): "Monitor connections may receive all messages, even messages that should only
 *    have gone to some other connection".
 * C18: "receives exactly one copy of every message the bus subsequently processes [...] each bearing the
 *    true sender, while what every other client observes is the same as if the monitor were absent".
 * So bus_transaction_capture(t, sender, addressed, m) REQUIRES that m is observable (true sender /
 * driver) and that nothing has decided about m yet: no policy verdict, no driver handling, no
 * activation, no routing, and no earlier capture of the same message. */
#define PRE_bus_transaction_capture(t, sender, addressed, m) \
  ((t) != NULL && (m) != NULL && TS_OBSERVABLE(m, sender) && \
   IMP(TS_MSG(m) == G.dispatched, G.captures == 0 && G.policy_checks == 0 && G.driver_handled == 0 && G.activations == 0 && G.routed == 0))

/* bus_transaction_capture_error_reply(t, addressed, error, in_reply_to): the bus tells the monitors about an
 * error it synthesises.  REQUIRES error set and (API dbus_message_new_error) in_reply_to has a non-zero serial. */
#define PRE_bus_transaction_capture_error_reply(t, addressed, error, in_reply_to) \
  ((t) != NULL && (error) != NULL && (error)->name != NULL && (in_reply_to) != NULL && TS_MSG(in_reply_to)->serial != 0)

/* ---- C05 / C15: routing ---------------------------------------------------------------------------
 * S (Message Bus Message Routing): "The message bus must send messages (of any type) with the DESTINATION
 *    field set to the specified recipient, regardless of whether the recipient has set up a match rule".
 * S (same): "When a method call message cannot be sent or received due to a security policy, the message bus
 *    should send an error reply, unless the original message had the NO_REPLY flag."
 * S (UNIX_FDS / NEGOTIATE_UNIX_FD): descriptors may only travel on connections where fd passing was negotiated.
 * bus_dispatch_matches(t, sender, addressed, m, error) REQUIRES: m observable and already captured, error clear,
 *    sender NULL (driver) or active.  ENSURES: TRUE => addressed (if any) was staged exactly once, it accepts fds if
 *    m has any; FALSE => error set, and unless it is NoMemory nothing was staged for addressed (no delivery after denial).
 *    A refusal for one recipient is reported to the monitors as an error reply to m (C18: monitors see "messages the bus
 *    refuses to deliver"), and API dbus_message_new_error needs m to have a non-zero serial.  Messages built by the bus
 *    itself arrive here with serial 0; send_one_message must therefore establish the serial itself before it reports a
 *    refusal (obligation: precondition of bus_transaction_capture_error_reply inside unit C15.send_one).  Before the
 *    fix 281c87a this was impossible and the daemon aborted (known-findings.json, fixed). */
#define PRE_routed_has_serial(m) (TS_MSG(m)->serial != 0)
#define PRE_send_one_message(c, ctx, sender, addressed, m, t, error) \
  ((c) != NULL && (ctx) != NULL && (m) != NULL && (t) != NULL && (error) != NULL && (error)->name == NULL && TS_OBSERVABLE(m, sender))
#define PRE_bus_dispatch_matches(t, sender, addressed, m, error) \
  ((t) != NULL && (m) != NULL && TS_OBSERVABLE(m, sender) && ((error) == NULL || (error)->name == NULL) && \
   ((sender) == NULL || TS_CONN(sender)->active) && \
   IMP(TS_MSG(m) == G.dispatched, G.captures == 1 && G.routed == 0 && G.activations == 0 && \
       IMP(G.driver_handled > 0, G.driver_ok && (addressed) == NULL)))   /* a message the driver handled is still shown to match rules, but has no other addressee */

/* the security policy gate (contract proved in unit C06.gate): REQUIRES m observable and already captured -- the message the
 * gate is asked about is the one most recently shown to the monitors (C18: "capture hook invoked for every message before policy"). */
#define PRE_bus_context_check_security_policy(t, sender, addressed, proposed, m, error) \
  ((m) != NULL && TS_OBSERVABLE(m, sender) && ((error) == NULL || (error)->name == NULL) && \
   G.captures >= 1 && G.captured_msg == TS_MSG(m) && IMP(TS_MSG(m) == G.dispatched, G.captures == 1))

/* error replies: bus_transaction_send_error_reply(t, conn, error, in_reply_to)
 * C05: "produces exactly one error reply to its sender carrying the call's serial, and never a delivery". */
#define PRE_bus_transaction_send_error_reply(t, conn, error, in_reply_to) \
  ((t) != NULL && (conn) != NULL && (error) != NULL && (error)->name != NULL && PRE_dbus_message_new_error(in_reply_to, (error)->name))

/* bus_transaction_send_from_driver(t, conn, m): S: the bus is the sender; m is a fresh message built by the bus. */
#define PRE_bus_transaction_send_from_driver(t, conn, m) ((t) != NULL && (conn) != NULL && (m) != NULL)

/* bus_transaction_send(t, sender, dest, m): stages m for dest; REQUIRES m observable (never a client-chosen sender). */
#define PRE_bus_transaction_send(t, sender, dest, m) ((t) != NULL && (dest) != NULL && (m) != NULL && TS_MSG(m)->sender != TS_SND_CLIENT)

/* bus_connection_send_oom_error(conn, in_reply_to): uses the preallocated error; API set_reply_serial: serial != 0 */
#define PRE_bus_connection_send_oom_error(conn, in_reply_to) ((conn) != NULL && ts_oom_preallocated && (in_reply_to) != NULL && TS_MSG(in_reply_to)->serial != 0)

/* ---- C03: Hello / unique names --------------------------------------------------------------------
 * S (Message Bus Names): "Unique names are never reused for two different connections to the same bus."
 * S (same): "Unique connection names must begin with the character ':' (ASCII colon character)".
 * S (Bus names): "A connection has exactly one bus name that is a unique connection name. The unique connection
 *    name remains with the connection for its entire lifetime."
 * S (Hello): "Before an application is able to send messages to other applications it must send the
 *    org.freedesktop.DBus.Hello message to the message bus to obtain a unique name. If an application without a
 *    unique name tries to send a message to another application, or a message to the message bus itself that isn't
 *    the org.freedesktop.DBus.Hello message, it will be disconnected from the bus." */

/* ---- ghost state of the unique-name mint (unit C03.mint; assigned only by contracts/c03_driver.ovl and the DBusString /
 * registry stubs).  The name appended to the string is the token sequence  ":" dec(major) "." dec(minor). */
extern int verif_mint_pre, verif_mint_assumed, verif_mint_major0, verif_mint_minor0, verif_mint_major1, verif_mint_minor1;
extern int verif_mint_tok_n, verif_mint_tok_major, verif_mint_tok_minor, verif_mint_iter_major, verif_mint_iter_minor;
extern _Bool verif_mint_tok_colon, verif_mint_tok_dot, verif_mint_last_lookup_null, verif_mint_retried;
extern int verif_mint_lookups;
/* representation invariant of the counter pair (assumed at entry, shown to be preserved) */
#define VERIF_MINT_INV(major, minor) ((major) >= 0 && (minor) >= 0 && ((major) > 0 || (minor) == 0))
/* "no wrap" assumptions, injected directly before the two increments:
 *   major: the code's own assumption ("INT_MAX * INT_MAX clients were added" is treated as unreachable);
 *   minor: the code relies on next_minor_number wrapping to a negative value at INT_MAX, which is signed overflow (undefined
 *          behaviour); -DC03_MINT_WRAP drops this assumption and lets CBMC's overflow check speak (unit C03.mint.wrap). */
#define VERIF_MINT_MAJOR_OK(major) ((major) < 2147483647)
#ifdef C03_MINT_WRAP
#define VERIF_MINT_MINOR_OK(minor) 1
#else
#define VERIF_MINT_MINOR_OK(minor) ((minor) < 2147483647)
#endif
#define TS_LEX_LT(a1, b1, a2, b2) ((a1) < (a2) || ((a1) == (a2) && (b1) < (b2)))
#define TS_LEX_LE(a1, b1, a2, b2) ((a1) < (a2) || ((a1) == (a2) && (b1) <= (b2)))
#endif
