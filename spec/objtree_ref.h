/* Oracle for C20 (object-path handlers).  Written from the API documentation and the property
 * statement, not from dbus-object-tree.c.
 *
 * API documentation (dbus-connection.c doc comments, dbus-protocol.h):
 *  [D1] dbus_connection_try_register_object_path: "Registers a handler for a given path in the object
 *       hierarchy. The given vtable handles messages sent to exactly the given path."
 *  [D2] dbus_connection_try_register_fallback: "Registers a fallback handler for a given subsection of
 *       the object hierarchy.  The given vtable handles messages at or below the given path."
 *  [D3] both: "returns FALSE if an error (DBUS_ERROR_NO_MEMORY or DBUS_ERROR_OBJECT_PATH_IN_USE) is
 *       reported";  DBUS_ERROR_OBJECT_PATH_IN_USE: "There's already an object with the requested
 *       object path."
 *  [D4] _dbus_object_tree_dispatch_and_unlock: "Messages are dispatched first to the registered
 *       handler that matches the largest number of path elements; that is, message to /foo/bar/baz
 *       would go to the handler for /foo/bar before the one for /foo."
 *  [D5] DBUS_ERROR_UNKNOWN_METHOD: "Method name you invoked isn't known by the object you invoked it
 *       on."  DBUS_ERROR_UNKNOWN_OBJECT: "Object you invoked a method on isn't known."
 *  [D6] dbus_connection_list_registered: "Lists the registered fallback handlers and object path
 *       handlers at the given parent_path" (NULL-terminated array of children).
 *  [P]  property C20: "offered first to the handler registered at exactly its path and then to the
 *       fallback handlers of successively shorter ancestor paths, stopping at the first that declares
 *       it handled.  With no taker the caller receives UnknownMethod when the path is a registered
 *       path, an ancestor of one, or lies below a fallback registration, and UnknownObject otherwise;
 *       registering an occupied path fails without changing anything, and the child listing reflects
 *       exactly the registered tree."
 *
 * ---------------------------------------------------------------------------------------------
 * One trie level, abstractly.  NODE_OK(n): the children array holds n_subtrees <= max_subtrees
 * entries, *strictly sorted by name*, each child's parent is n.
 *
 * For a strictly sorted sequence name[0] < name[1] < ... < name[n-1] and any key there is exactly
 * one cut position c in [0,n] with  name[idx] < key  for idx < c  and  name[idx] >= key  for
 * idx >= c, and name[idx] == key is possible only for idx == c.  So the sign of
 * strcmp (key, name[idx]) as a function of idx is fixed by (c, present):
 */
#ifndef OBJTREE_REF_H
#define OBJTREE_REF_H
#define OT_CMP_SIGN(idx, c, present) ((idx) < (c) ? 1 : (((present) && (idx) == (c)) ? 0 : -1))
/* (c, present) range over all cuts: that is all (sorted array, key) pairs up to order isomorphism;
 * the C standard only fixes the sign of strcmp's result, so the contract stub of strcmp returns an
 * arbitrary value of that sign. */
#define OT_CUT_OK(n, c, present) (0 <= (c) && (c) <= (n) && ((present) == 0 || ((present) == 1 && (c) < (n))))

/* Where the key belongs in the sorted array: the sorted position of a new child named `key` is c
 * (everything below is smaller, everything from c on is greater).  After inserting at pos:
 *   new[g] == (g < pos ? old[g] : g == pos ? child : old[g-1])          for 0 <= g <= n
 * After removing index pos:
 *   new[g] == (g < pos ? old[g] : old[g+1])                             for 0 <= g < n-1     */

/* [P]/[D2]/[D4] one-level lookup result (deepest-match mode), given the result `deeper` of the
 * lookup one level down in the child named path[0] (NULL = nothing found below):
 *   the deeper result if there is one; otherwise this node iff it is flagged as fallback, and then
 *   it is not an exact match. */

/* [P] found_object (UnknownMethod rather than UnknownObject) is owed iff the path is a node of the
 * registered tree (a registered path or an ancestor of one) or some proper ancestor of it carries a
 * *registered* fallback handler. */
#endif
