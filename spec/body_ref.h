/* Oracle for message bodies (C01, C02): an independent reference decoder written from the
 * D-Bus specification, section "Marshaling (Wire Format)" and "Valid Signatures"; never derived
 * from dbus-marshal-validate.c.  Sentences quoted from doc/dbus-specification.xml:
 *
 *  - "Each value in a block of bytes is aligned "naturally," for example 4-byte values are aligned to a
 *     4-byte boundary ... The alignment padding must always be the minimum required padding to properly
 *     align the following value; and it must always be made up of nul bytes."
 *  - alignments: BYTE 1, BOOLEAN 4, INT16/UINT16 2, INT32/UINT32 4, INT64/UINT64/DOUBLE 8, STRING 4,
 *     OBJECT_PATH 4, SIGNATURE 1, ARRAY 4, STRUCT 8, VARIANT 1 (alignment of the signature), DICT_ENTRY 8,
 *     UNIX_FD 4.
 *  - BOOLEAN: "As for UINT32, but only 0 and 1 are valid values."
 *  - STRING: "A UINT32 indicating the string's length in bytes excluding its terminating nul, followed by
 *     non-nul string data of the given length, followed by a terminating nul byte."  (valid UTF-8)
 *  - OBJECT_PATH: "Exactly the same as STRING except the content must be a valid object path".
 *  - SIGNATURE: "The same as STRING except the length is a single byte ... and the content must be a valid
 *     signature".
 *  - ARRAY: "A UINT32 giving the length of the array data in bytes, followed by alignment padding to the
 *     alignment boundary of the array element type, followed by each array element."  "The array length
 *     does not include the padding after the length". "Arrays have a maximum length defined to be 2 to the
 *     26th power or 67108864 (64 MiB)."  The data must consist of whole elements: the elements end exactly
 *     where the length says.
 *  - STRUCT / DICT_ENTRY: "A struct must start on an 8-byte boundary regardless of the type of the struct
 *     fields", fields in sequence.
 *  - VARIANT: "The marshaled SIGNATURE of a single complete type, followed by a marshaled value with the
 *     type given in the signature."
 *  - a body has no trailing bytes; total value nesting (containers incl. variants) at most 64.
 *
 * The decoder works on a *constant* signature string (the catalogue units fix it per run), a byte buffer
 * whose first byte is at an 8-aligned address (offset 0 = start of the body), and a byte order.
 */
#ifndef VERIF_BODY_REF_H
#define VERIF_BODY_REF_H
#include "utf8_spec.h"
#include "grammar.h"
#include "signature_ref.h"

#ifndef BODY_REF_MAXSTR
#define BODY_REF_MAXSTR 32      /* bound of loops over string content (>= buffer size of the harness) */
#endif

/* Optional output of the reference decoder: the same body in the OTHER byte order ("the endianness flag ... all
 * multi-byte numbers are in that order": a fixed-width field is byte-reversed, everything else is copied).  When
 * body_ref_out is non-NULL, body_ref_valid() writes the converted image of a well-formed body there. */
static unsigned char *body_ref_out;
static void body_ref_emit_rev (const unsigned char *b, int pos, int width)
{ int k; if (!body_ref_out) return; for (k = 0; k < 8; k++) { if (k >= width) break; body_ref_out[pos + k] = b[pos + width - 1 - k]; } }
static unsigned body_ref_u32 (const unsigned char *b, int pos, int le)
{
  return le ? ((unsigned) b[pos] | ((unsigned) b[pos + 1] << 8) | ((unsigned) b[pos + 2] << 16) | ((unsigned) b[pos + 3] << 24))
            : ((unsigned) b[pos + 3] | ((unsigned) b[pos + 2] << 8) | ((unsigned) b[pos + 1] << 16) | ((unsigned) b[pos] << 24));
}

static int body_ref_alignment (int c)
{
  switch (c)
    {
    case 'y': case 'g': case 'v': return 1;
    case 'n': case 'q': return 2;
    case 'b': case 'i': case 'u': case 's': case 'o': case 'a': case 'h': return 4;
    case 'x': case 't': case 'd': case '(': case '{': return 8;
    default: return 0;
    }
}

/* skip padding up to `align`; all padding bytes must be zero and inside [0,len) */
static int body_ref_pad (const unsigned char *b, int len, int *pos, int align)
{
  int k;
  for (k = 0; k < 8; k++)
    {
      if ((*pos % align) == 0) return 1;
      if (*pos >= len || b[*pos] != 0) return 0;
      (*pos)++;
    }
  return (*pos % align) == 0;
}

static int body_ref_utf8 (const unsigned char *s, int n)
{
  int k;
  for (k = 0; k < BODY_REF_MAXSTR; k++) { if (k >= n) break; if (!U8_LOCAL_OK (s, n, k)) return 0; }
  return 1;
}
static int body_ref_path (const unsigned char *s, int n)
{
  int k;
  if (n < 1 || !G_PATH_GLOBAL (s, n)) return 0;
  for (k = 0; k < BODY_REF_MAXSTR; k++) { if (k >= n) break; if (!G_PATH_LOCAL (s, n, k)) return 0; }
  return 1;
}

/* end (exclusive) of the single complete type starting at sig[i] (sig is a valid signature) */
static int body_ref_type_end (const char *sig, int i)
{
  int depth = 0, k;
  for (k = 0; k < 64; k++)
    {
      char c = sig[i];
      if (c == 0) return i;
      if (c == '(' || c == '{') depth++;
      else if (c == ')' || c == '}') depth--;
      i++;
      if (depth == 0 && c != 'a') return i;
    }
  return i;
}

/* validate one complete type sig[si..type_end) at b[*pos..]; returns 1 if well-formed */
static int body_ref_value (const char *sig, int si, const unsigned char *b, int len, int *pos, int le, int depth);

static int body_ref_seq (const char *sig, int si, int se, const unsigned char *b, int len, int *pos, int le, int depth)
{
  int k;
  for (k = 0; k < 64; k++)
    {
      if (si >= se) return 1;
      if (!body_ref_value (sig, si, b, len, pos, le, depth)) return 0;
      si = body_ref_type_end (sig, si);
    }
  return si >= se;
}

static int body_ref_value (const char *sig, int si, const unsigned char *b, int len, int *pos, int le, int depth)
{
  char c = sig[si];
  int align = body_ref_alignment (c);
  if (depth > 64 || align == 0) return 0;
  if (!body_ref_pad (b, len, pos, align)) return 0;
  switch (c)
    {
    case 'y': if (*pos + 1 > len) return 0; *pos += 1; return 1;
    case 'n': case 'q': if (*pos + 2 > len) return 0; body_ref_emit_rev (b, *pos, 2); *pos += 2; return 1;
    case 'i': case 'u': case 'h': if (*pos + 4 > len) return 0; body_ref_emit_rev (b, *pos, 4); *pos += 4; return 1;
    case 'x': case 't': case 'd': if (*pos + 8 > len) return 0; body_ref_emit_rev (b, *pos, 8); *pos += 8; return 1;
    case 'b':
      { unsigned v; if (*pos + 4 > len) return 0; v = body_ref_u32 (b, *pos, le); body_ref_emit_rev (b, *pos, 4); *pos += 4; return v == 0 || v == 1; }
    case 's': case 'o':
      {
        unsigned n; if (*pos + 4 > len) return 0; n = body_ref_u32 (b, *pos, le); body_ref_emit_rev (b, *pos, 4); *pos += 4;
        if (n > (unsigned) (len - *pos) || n + 1 > (unsigned) (len - *pos)) return 0;
        if (c == 's' ? !body_ref_utf8 (b + *pos, (int) n) : !body_ref_path (b + *pos, (int) n)) return 0;
        if (b[*pos + (int) n] != 0) return 0;
        *pos += (int) n + 1; return 1;
      }
    case 'g':
      {
        int n; if (*pos + 1 > len) return 0; n = b[*pos]; *pos += 1;
        if (n + 1 > len - *pos) return 0;
        if (!spec_signature (b + *pos, n)) return 0;
        if (b[*pos + n] != 0) return 0;
        *pos += n + 1; return 1;
      }
    case 'a':
      {
        unsigned n; int ealign, aend, k;
        if (*pos + 4 > len) return 0; n = body_ref_u32 (b, *pos, le); body_ref_emit_rev (b, *pos, 4); *pos += 4;
        if (n > 67108864u) return 0;
        ealign = body_ref_alignment (sig[si + 1]);
        if (!body_ref_pad (b, len, pos, ealign)) return 0;
        if (n > (unsigned) (len - *pos)) return 0;
        aend = *pos + (int) n;
        for (k = 0; k < BODY_REF_MAXSTR + 1; k++)
          {
            if (*pos == aend) return 1;
            if (*pos > aend) return 0;
            /* each element is decoded inside the array's own extent */
            if (!body_ref_value (sig, si + 1, b, aend, pos, le, depth + 1)) return 0;
          }
        return *pos == aend;
      }
    case 'v':
      {
        /* "The marshaled SIGNATURE of a single complete type, followed by a marshaled value with the type given in the signature." */
        int n; const unsigned char *vs;
        if (*pos + 1 > len) return 0; n = b[*pos];
        if (n + 1 > len - (*pos + 1)) return 0;
        vs = b + *pos + 1;
        if (!spec_signature_single (vs, n)) return 0;
        if (vs[n] != 0) return 0;
        *pos += n + 2;
        return body_ref_value ((const char *) vs, 0, b, len, pos, le, depth + 1);
      }
    case '(': case '{':
      {
        int se = body_ref_type_end (sig, si) - 1;   /* index of the closing bracket */
        return body_ref_seq (sig, si + 1, se, b, len, pos, le, depth + 1);
      }
    default:
      return 0;
    }
}

/* whole body: every complete type of sig in sequence, and no trailing bytes */
static int body_ref_valid (const char *sig, const unsigned char *b, int len, int le)
{
  int pos = 0, se = 0;
  while (sig[se] != 0) se++;
  if (!body_ref_seq (sig, 0, se, b, len, &pos, le, 0)) return 0;
  return pos == len;
}
#endif
