/* Oracle for C16: the lexical grammars of the D-Bus specification, written as LOCAL predicates
 * (what must hold at byte position k of a string b[0..n)) plus finitely many global conjuncts.
 * Written from doc/dbus-specification.xml ("Valid Object Paths", "Valid Names"), never from the
 * validators.  tool/selftest_grammar.py compares every predicate here with an independent
 * regular-expression recogniser on all short strings over the class alphabet.
 *
 * A string is in the language iff  GLOBAL(b,n)  and  for all 0 <= k < n: LOCAL(b,n,k).
 * In contracts the universal quantifier is a ghost index (verif_gk: never assigned by anything),
 * the existential one a ghost witness (verif_w: assigned only by injected ghost statements).
 */
#ifndef VERIF_GRAMMAR_H
#define VERIF_GRAMMAR_H

#define G_ALPHA_(c) (((c) >= 'A' && (c) <= 'Z') || ((c) >= 'a' && (c) <= 'z') || (c) == '_')
#define G_DIGIT(c) ((c) >= '0' && (c) <= '9')
/* "[A-Z][a-z][0-9]_" */
#define G_NAMECH(c) (G_ALPHA_(c) || G_DIGIT(c))
/* bus names additionally allow '-' */
#define G_BUSCH(c) (G_NAMECH(c) || (c) == '-')
#define G_MAXNAME 255

/* --- member names: "only [A-Z][a-z][0-9]_ , may not begin with a digit, no '.', 1..255 bytes" */
#define G_MEMBER_LOCAL(b, n, k) ((k) == 0 ? G_ALPHA_((b)[0]) : G_NAMECH((b)[k]))
#define G_MEMBER_GLOBAL(n) ((n) >= 1 && (n) <= G_MAXNAME)

/* --- interface names (and error names: "same restrictions as interface names"):
 *  "2 or more elements separated by '.', all elements at least one character, each element only
 *   [A-Z][a-z][0-9]_ and must not begin with a digit, 1..255 bytes" */
#define G_IFACE_LOCAL(b, n, k) \
  ((b)[k] == '.' ? ((k) > 0 && (k) + 1 < (n) && (b)[(k) - 1] != '.') \
                 : (G_NAMECH((b)[k]) && (!((k) == 0 || (b)[(k) - 1] == '.') || !G_DIGIT((b)[k]))))
#define G_IFACE_GLOBAL(n) ((n) >= 1 && (n) <= G_MAXNAME)   /* plus: contains at least one '.' */

/* --- well-known bus names: as interface names, with '-' allowed; elements must not begin with a
 *     digit; at least one '.' unless used as a namespace (arg0namespace: "a bus name or a single
 *     element") */
#define G_BUS_LOCAL(b, n, k) \
  ((b)[k] == '.' ? ((k) > 0 && (k) + 1 < (n) && (b)[(k) - 1] != '.') \
                 : (G_BUSCH((b)[k]) && (!((k) == 0 || (b)[(k) - 1] == '.') || !G_DIGIT((b)[k]))))
/* --- unique connection names: ':' then elements that may begin with a digit.  The specification
 *     is informal here; the reading used is the one the project's own test vectors fix
 *     (":" , ":a", ":.a" valid; ":a.", ":a..b" invalid): after the colon every '.' is followed by
 *     a name character. (Doubt noted in DESIGN.md: a stricter reading would want >= 2 elements.) */
#define G_UNIQ_LOCAL(b, n, k) \
  ((k) == 0 ? (b)[0] == ':' \
            : ((b)[k] == '.' ? ((k) + 1 < (n) && G_BUSCH((b)[(k) + 1])) : G_BUSCH((b)[k])))
#define G_BUSNAME_LOCAL(b, n, k) ((b)[0] == ':' ? G_UNIQ_LOCAL(b, n, k) : G_BUS_LOCAL(b, n, k))

/* --- object paths: "begins with '/', elements separated by '/', each element only
 *     [A-Z][a-z][0-9]_, no empty element, no trailing '/' unless the path is the root" */
#define G_PATH_LOCAL(b, n, k) \
  ((k) == 0 ? (b)[0] == '/' : ((b)[k] == '/' ? (b)[(k) - 1] != '/' : G_NAMECH((b)[k])))
#define G_PATH_GLOBAL(b, n) ((n) >= 1 && ((n) == 1 || (b)[(n) - 1] != '/'))

/* ghost-index form: holds for position gk if gk is inside [0,n) */
#define G_AT(gk, n, pred) (!((gk) >= 0 && (gk) < (n)) || (pred))

#endif
