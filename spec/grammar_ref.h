/* Whole-string reference recognisers built from the local predicates of grammar.h
 * (straight loops over all positions; used by W/B equivalence harnesses and native replay). */
#ifndef VERIF_GRAMMAR_REF_H
#define VERIF_GRAMMAR_REF_H
#include "grammar.h"
#include "utf8_spec.h"
static int ref_member (const unsigned char *b, int n)
{ int k; if (!G_MEMBER_GLOBAL (n)) return 0; for (k = 0; k < n; k++) if (!G_MEMBER_LOCAL (b, n, k)) return 0; return 1; }
static int ref_interface (const unsigned char *b, int n)
{ int k, dot = 0; if (!G_IFACE_GLOBAL (n)) return 0;
  for (k = 0; k < n; k++) { if (!G_IFACE_LOCAL (b, n, k)) return 0; if (b[k] == '.') dot = 1; } return dot; }
static int ref_bus_name_full (const unsigned char *b, int n, int is_namespace)
{ int k, dot = 0; if (n < 1 || n > G_MAXNAME) return 0;
  for (k = 0; k < n; k++) { if (!G_BUSNAME_LOCAL (b, n, k)) return 0; if (b[k] == '.') dot = 1; }
  return b[0] == ':' || dot || is_namespace; }
static int ref_path (const unsigned char *b, int n)
{ int k; if (n < 1) return 0; if (!G_PATH_GLOBAL (b, n)) return 0; for (k = 0; k < n; k++) if (!G_PATH_LOCAL (b, n, k)) return 0; return 1; }
static int ref_utf8 (const unsigned char *b, int n)
{ int k; for (k = 0; k < n; k++) if (!U8_LOCAL_OK (b, n, k)) return 0; return 1; }
#endif
