/* Oracle for the fixed part of the message header (C01, C11, C13): D-Bus specification, "Message
 * Format": 1st byte endianness flag 'l' or 'B'; 2nd BYTE type; 3rd flags; 4th protocol version;
 * 1st UINT32 body length; 2nd UINT32 serial; then ARRAY of STRUCT of (BYTE,VARIANT) whose UINT32
 * length sits at offset 12.  "The length of the header must be a multiple of 8"; "The maximum length
 * of a message, including header, header alignment padding, and body is 2 to the 27th power".
 * WB(i) must be defined by the includer as byte i of the message. */
#ifndef VERIF_WIRE_H
#define VERIF_WIRE_H
#define W_LE (WB(0) == 'l')
#define W_ORDER_OK (WB(0) == 'l' || WB(0) == 'B')
#define W_U32(i) (W_LE ? ((dbus_uint32_t) WB(i) | ((dbus_uint32_t) WB((i) + 1) << 8) | ((dbus_uint32_t) WB((i) + 2) << 16) | ((dbus_uint32_t) WB((i) + 3) << 24)) \
                       : ((dbus_uint32_t) WB((i) + 3) | ((dbus_uint32_t) WB((i) + 2) << 8) | ((dbus_uint32_t) WB((i) + 1) << 16) | ((dbus_uint32_t) WB(i) << 24)))
#define W_BODY_LEN W_U32(4)
#define W_SERIAL W_U32(8)
#define W_FIELDS_LEN W_U32(12)
#define W_HEADER_LEN ((16ull + W_FIELDS_LEN + 7ull) & ~7ull)
/* sane lengths: each word and the total within the maximum */
#define W_LENGTHS_VALID(max) (W_ORDER_OK && W_FIELDS_LEN <= (unsigned) (max) && W_BODY_LEN <= (unsigned) (max) && W_HEADER_LEN + W_BODY_LEN <= (unsigned long long) (max))
#define W_MAX_MESSAGE 134217728
#endif
