/* Oracle for C07: match rules, written from doc/dbus-specification.xml, section
 * "Message Bus Message Routing / Match Rules" (key table and the quoting paragraph).
 * Nothing here is derived from bus/signals.c.  The specification sentence a conjunct comes from is
 * quoted next to it.
 *
 * Three parts:
 *   1. per-argument matching (argN, argNpath, arg0namespace) as *macros* (no calls, no loops: they are
 *      used inside loop invariants) for strings of at most REF_MAXS bytes, and as plain C functions for
 *      any length (native replay, lemma "macro == function" in the harness);
 *   2. header-key matching (type, sender, interface, member, path, path_namespace, destination,
 *      eavesdrop) over an abstract "message facts" record;
 *   3. the rule-text grammar: reference tokenizer from the quoting paragraph, key table.
 */
#ifndef VERIF_MATCH_REF_H
#define VERIF_MATCH_REF_H

#ifndef REF_MAXS
#define REF_MAXS 8
#endif

/* D-Bus type codes (specification, "Type System", summary of types) */
#define REF_T_STRING      ((int) 's')
#define REF_T_OBJECT_PATH ((int) 'o')
#define REF_T_INVALID     0

/* message types (specification, "Message Format": METHOD_CALL 1, METHOD_RETURN 2, ERROR 3, SIGNAL 4) */
#define REF_MT_INVALID 0
#define REF_MT_METHOD_CALL 1
#define REF_MT_METHOD_RETURN 2
#define REF_MT_ERROR 3
#define REF_MT_SIGNAL 4

/* ------------------------------------------------------------------------------------------------
 * 1. argument matches
 * kind of an argument match */
#define REF_ARG_PLAIN 0       /* argN          */
#define REF_ARG_PATH 1        /* argNpath      */
#define REF_ARG_NAMESPACE 2   /* arg0namespace */

/* first n bytes equal, n <= REF_MAXS (unrolled: usable in invariants) */
#define REF_EQ_AT(a, b, n, k) ((n) <= (k) || (a)[k] == (b)[k])
#define REF_EQN(a, b, n) (REF_EQ_AT(a, b, n, 0) && REF_EQ_AT(a, b, n, 1) && REF_EQ_AT(a, b, n, 2) && REF_EQ_AT(a, b, n, 3) && \
                          REF_EQ_AT(a, b, n, 4) && REF_EQ_AT(a, b, n, 5) && REF_EQ_AT(a, b, n, 6) && REF_EQ_AT(a, b, n, 7))
/* The macro form shares one comparison of the common prefix (the first min(el, al) bytes) between the cases:
 * "exactly equal" = same length and common prefix equal; "x is a prefix of y" = xl <= yl and common prefix equal.
 * (The plain C form below is written case by case; the harness proves that the two forms agree.)
 *
 * argN: "Only arguments of type STRING can be matched in this way."  The value is compared for equality
 *        ("An example of an argument match would be arg3='Foo'").
 * argNpath: "They can match arguments whose type is either STRING or OBJECT_PATH. As with normal argument
 *        matches, if the argument is exactly equal to the string given in the match rule then the rule is
 *        satisfied. Additionally, there is also a match when either the string given in the match rule or
 *        the appropriate message argument ends with '/' and is a prefix of the other."
 * arg0namespace: "Match messages whose first argument is of type STRING, and is a bus name or interface name
 *        within the specified namespace."  Example: 'com.example.backend1' "matches name owner changes for
 *        bus names such as com.example.backend1.foo, com.example.backend1.foo.bar, and com.example.backend1
 *        itself": the argument equals the namespace or continues it with a '.'-separated element. */
#define REF_MIN(x, y) ((x) < (y) ? (x) : (y))
#define REF_TYPE_OK(kind, t) ((t) == REF_T_STRING || ((kind) == REF_ARG_PATH && (t) == REF_T_OBJECT_PATH))
#define REF_ARGM(kind, e, el, t, a, al) \
   (REF_TYPE_OK (kind, t) && REF_EQN (e, a, REF_MIN (el, al)) && \
    ((el) == (al)                                                                   /* exactly equal */ \
     || ((kind) == REF_ARG_PATH && (el) < (al) && (el) > 0 && (e)[(el) - 1] == '/')   /* rule value ends with '/' and is a prefix of the argument */ \
     || ((kind) == REF_ARG_PATH && (al) < (el) && (al) > 0 && (a)[(al) - 1] == '/')   /* argument ends with '/' and is a prefix of the rule value */ \
     || ((kind) == REF_ARG_NAMESPACE && (el) < (al) && (a)[el] == '.')))              /* argument continues the namespace with '.' */

/* string equality and path_namespace membership on (bytes, length) pairs, unrolled (<= REF_MAXS bytes) */
#define REF_STREQ_N(a, al, b, bl) ((al) == (bl) && REF_EQN (a, b, al))
/* path_namespace: "the object path is either the given value, or that value followed by one or more path components"
 * (see ref_path_in_namespace below for the reading of the root namespace) */
#define REF_PATH_IN_NS_N(p, pl, ns, nl) ((pl) >= (nl) && REF_EQN (p, ns, nl) && ((pl) == (nl) || ((nl) == 1 && (ns)[0] == '/') || (p)[nl] == '/'))

/* the same for any length (plain C) */
static int ref_eqn (const char *a, const char *b, long n) { long k; for (k = 0; k < n; k++) if (a[k] != b[k]) return 0; return 1; }
static int ref_slash_prefix (const char *x, long xl, const char *y, long yl)
{ return xl > 0 && xl <= yl && x[xl - 1] == '/' && ref_eqn (x, y, xl); }
/* t == REF_T_INVALID: the message has no argument at that index: nothing can be matched */
static int ref_arg_matches (int kind, const char *e, long el, int t, const char *a, long al)
{
  if (kind == REF_ARG_PATH)
    return (t == REF_T_STRING || t == REF_T_OBJECT_PATH) && ((el == al && ref_eqn (e, a, el)) || ref_slash_prefix (e, el, a, al) || ref_slash_prefix (a, al, e, el));
  if (kind == REF_ARG_NAMESPACE)
    return t == REF_T_STRING && ((el == al && ref_eqn (e, a, el)) || (el < al && ref_eqn (e, a, el) && a[el] == '.'));
  return t == REF_T_STRING && el == al && ref_eqn (e, a, el);
}

/* ------------------------------------------------------------------------------------------------
 * 2. header keys.  Message facts: what the bus knows about the message being routed. */
typedef struct
{
  int type;                  /* message type */
  const char *interface;     /* NULL: header field absent */
  const char *member;
  const char *path;
  const char *destination;
  int sender_is_bus;         /* the message originates from the bus driver itself */
  int recipient_is_conn;     /* the addressed recipient is a connection (not the bus driver, not unknown) */
} RefMsgFacts;
typedef struct
{
  int has_type, type;
  const char *sender, *interface, *member, *path, *path_namespace, *destination;   /* NULL: key absent */
  int eavesdrop;             /* eavesdrop='true' */
} RefRule;

static long ref_strlen (const char *s) { long n = 0; while (s[n]) n++; return n; }
static int ref_streq (const char *a, const char *b) { long k = 0; for (;; k++) { if (a[k] != b[k]) return 0; if (!a[k]) return 1; } }
/* path_namespace: "Matches messages which are sent from or to an object for which the object path is either the
 *   given value, or that value followed by one or more path components.  For example,
 *   path_namespace='/com/example/foo' would match signals sent by /com/example/foo or by /com/example/foo/bar,
 *   but not by /com/example/foobar."  Path components are separated by '/'; the root path "/" followed by
 *   components is "/" + component ("Valid Object Paths"), so the root namespace contains every path. */
static int ref_path_in_namespace (const char *p, const char *ns)
{
  long nl = ref_strlen (ns), pl = ref_strlen (p);
  if (pl < nl || !ref_eqn (p, ns, nl)) return 0;
  if (pl == nl) return 1;                         /* "either the given value" */
  if (nl == 1 && ns[0] == '/') return 1;          /* root namespace */
  return p[nl] == '/';                            /* "that value followed by one or more path components" */
}
/* sender_owns / recipient_owns: "the connection is the (primary) owner of that bus name" is a fact about the name
 * registry, supplied by the caller of the oracle. */
static int ref_header_matches (const RefRule *r, const RefMsgFacts *m, int sender_owns_rule_sender, int recipient_owns_rule_destination)
{
  /* type: "Match on the message type." */
  if (r->has_type && r->type != m->type) return 0;
  /* sender: "Match messages sent by a particular sender."  Messages from the bus itself are sent by
   * org.freedesktop.DBus ("Message Bus Messages": the bus driver owns that name). */
  if (r->sender && !(m->sender_is_bus ? ref_streq (r->sender, "org.freedesktop.DBus") : sender_owns_rule_sender)) return 0;
  /* interface: "Match messages sent over or to a particular interface. ... If a message omits the interface
   * header, it must not match any rule that specifies this key." */
  if (r->interface && !(m->interface && ref_streq (m->interface, r->interface))) return 0;
  /* member: "Matches messages which have the give method or signal name." */
  if (r->member && !(m->member && ref_streq (m->member, r->member))) return 0;
  /* path: "Matches messages which are sent from or to the given object." */
  if (r->path && !(m->path && ref_streq (m->path, r->path))) return 0;
  if (r->path_namespace && !(m->path && ref_path_in_namespace (m->path, r->path_namespace))) return 0;
  /* destination: "Matches messages which are being sent to the given unique name."  When the recipient is a
   * connection, "being sent to the name" means that connection owns it; when it is the bus driver or a service
   * not yet running, the name is the one in the DESTINATION field. */
  if (r->destination && !(m->destination && (m->recipient_is_conn ? recipient_owns_rule_destination : ref_streq (r->destination, m->destination)))) return 0;
  /* eavesdrop: "match rules do not match messages which have a DESTINATION field unless the match rule
   * specifically requests this ... by specifying eavesdrop='true' in the match rule." */
  if (m->destination && !r->eavesdrop) return 0;
  return 1;
}

/* ------------------------------------------------------------------------------------------------
 * 3. rule text.  "Rules are specified as a string of comma separated key/value pairs."
 * Quoting: "Within single quotes (ASCII apostrophe, U+0027), a backslash (U+005C) represents itself, and an
 * apostrophe ends the quoted section. Outside single quotes, \' (backslash, apostrophe) represents an
 * apostrophe, and any backslash not followed by an apostrophe represents itself."  Footnote: there is no way
 * "to represent a comma outside single quotes (it is necessary to wrap it in a single-quoted section)", i.e. an
 * unquoted comma ends the value.
 *
 * ref_value(): decode one value starting at text[pos]; returns the position after the value (after the
 * terminating comma if there is one), or -1 if a quoted section is not closed.  Output bytes go to out[0..*outl). */
static long ref_value (const char *text, long pos, char *out, long *outl)
{
  long n = 0; int in_quote = 0;
  for (;; pos++)
    {
      char c = text[pos];
      if (c == 0) break;
      if (in_quote) { if (c == '\'') in_quote = 0; else out[n++] = c; continue; }    /* backslash represents itself */
      if (c == '\'') { in_quote = 1; continue; }
      if (c == ',') { pos++; break; }
      if (c == '\\' && text[pos + 1] == '\'') { out[n++] = '\''; pos++; continue; } /* \' represents an apostrophe */
      out[n++] = c;                                                                   /* incl. a lone backslash */
    }
  *outl = n;
  return in_quote ? -1 : pos;
}
#define REF_ISWHITE(c) ((c) == ' ' || (c) == '\t' || (c) == '\n' || (c) == '\r')

/* keys of the table ("The following table describes the keys that can be used to create a match rule") */
#define REF_KEY_NONE 0
#define REF_KEY_TYPE 1
#define REF_KEY_SENDER 2
#define REF_KEY_INTERFACE 3
#define REF_KEY_MEMBER 4
#define REF_KEY_PATH 5
#define REF_KEY_PATH_NAMESPACE 6
#define REF_KEY_DESTINATION 7
#define REF_KEY_ARG 8
#define REF_KEY_ARGPATH 9
#define REF_KEY_ARG0NAMESPACE 10
#define REF_KEY_EAVESDROP 11
#define REF_MAX_ARG 63        /* "Only argument indexes from 0 to 63 should be accepted." */
#define REF_MAX_RULE_LENGTH 1024

/* classify a key of length n; *argno receives N for argN / argNpath */
static int ref_key (const char *k, long n, int *argno)
{
#define REF_IS(lit) (n == (long) sizeof (lit) - 1 && ref_eqn (k, lit, n))
  long i, v;
  if (REF_IS ("type")) return REF_KEY_TYPE;
  if (REF_IS ("sender")) return REF_KEY_SENDER;
  if (REF_IS ("interface")) return REF_KEY_INTERFACE;
  if (REF_IS ("member")) return REF_KEY_MEMBER;
  if (REF_IS ("path")) return REF_KEY_PATH;
  if (REF_IS ("path_namespace")) return REF_KEY_PATH_NAMESPACE;
  if (REF_IS ("destination")) return REF_KEY_DESTINATION;
  if (REF_IS ("eavesdrop")) return REF_KEY_EAVESDROP;
  if (REF_IS ("arg0namespace")) { *argno = 0; return REF_KEY_ARG0NAMESPACE; }
  if (n < 4 || !ref_eqn (k, "arg", 3)) return REF_KEY_NONE;
  /* "arg[0, 1, 2, 3, ...]" and "arg[0, 1, 2, 3, ...]path": decimal index */
  for (i = 3, v = 0; i < n && k[i] >= '0' && k[i] <= '9'; i++) { v = v * 10 + (k[i] - '0'); if (v > 1000000) v = 1000000; }
  if (i == 3) return REF_KEY_NONE;
  if (v > REF_MAX_ARG) return REF_KEY_NONE;
  *argno = (int) v;
  if (i == n) return REF_KEY_ARG;
  if (n - i == 4 && ref_eqn (k + i, "path", 4)) return REF_KEY_ARGPATH;
  return REF_KEY_NONE;
#undef REF_IS
}
/* "type: 'signal', 'method_call', 'method_return', 'error'" */
static int ref_type_from_string (const char *v, long n)
{
  if (n == 6 && ref_eqn (v, "signal", 6)) return REF_MT_SIGNAL;
  if (n == 11 && ref_eqn (v, "method_call", 11)) return REF_MT_METHOD_CALL;
  if (n == 13 && ref_eqn (v, "method_return", 13)) return REF_MT_METHOD_RETURN;
  if (n == 5 && ref_eqn (v, "error", 5)) return REF_MT_ERROR;
  return REF_MT_INVALID;
}

/* ------------------------------------------------------------------------------------------------
 * 3b. whole-rule reference parser (plain C; native replay and bounded units).
 * "Rules are specified as a string of comma separated key/value pairs."  Readings where the specification is
 * silent (each is a documented choice, not taken from a validator's verdict):
 *   - white space (space, tab, CR, LF) before a key and between a key and its '=' is tolerated; everything after
 *     the '=' belongs to the value;
 *   - the empty rule (no pair at all) is a rule (it matches every broadcast); a value ends at an unquoted comma or
 *     at the end of the text, so one trailing comma is tolerated;
 *   - every pair has a non-empty key from the table; a key may be given once ("path" and "path_namespace"
 *     exclude each other: "Using both path and path_namespace in the same match rule is not allowed"; argN,
 *     argNpath and arg0namespace on the same N are the same slot); eavesdrop may be repeated (the text allows
 *     eavesdrop='false' to "restore the default behaviour");
 *   - REF_DEST_ANY_BUS_NAME: the table says destination is "A unique name"; the reference bus accepts any bus
 *     name.  1 = follow the leniency (default), 0 = the table literally.
 */
#ifndef REF_DEST_ANY_BUS_NAME
#define REF_DEST_ANY_BUS_NAME 1
#endif
#ifndef REF_NO_GRAMMAR
#include "grammar_ref.h"
#define REF_PARSE_OK 0
#define REF_PARSE_INVALID 1          /* org.freedesktop.DBus.Error.MatchRuleInvalid */
#define REF_PARSE_LIMITS 2           /* org.freedesktop.DBus.Error.LimitsExceeded: "> DBUS_MAXIMUM_MATCH_RULE_LENGTH" */
#ifndef REF_MAX_VALUE
#define REF_MAX_VALUE 1100
#endif
typedef struct
{
  RefRule r;
  int npairs;
  int arg_kind[REF_MAX_ARG + 1];      /* -1: no match on that argument */
  long arg_len[REF_MAX_ARG + 1];
  char arg_val[REF_MAX_ARG + 1][REF_MAX_VALUE];
  char sender[REF_MAX_VALUE], interface[REF_MAX_VALUE], member[REF_MAX_VALUE], path[REF_MAX_VALUE], destination[REF_MAX_VALUE];
} RefParsed;
static int ref_parse_rule (const char *text, long n, RefParsed *out)
{
  long pos = 0, i; int seen_eaves = 0;
  static char val[REF_MAX_VALUE];
  out->npairs = 0; out->r.has_type = 0; out->r.type = 0; out->r.eavesdrop = 0;
  out->r.sender = out->r.interface = out->r.member = out->r.path = out->r.path_namespace = out->r.destination = 0;
  for (i = 0; i <= REF_MAX_ARG; i++) out->arg_kind[i] = -1;
  if (n > REF_MAX_RULE_LENGTH) return REF_PARSE_LIMITS;
  for (;;)
    {
      long ks, ke, vl = 0; int key, argno = -1;
      while (pos < n && REF_ISWHITE (text[pos])) pos++;
      if (pos >= n) return REF_PARSE_OK;
      ks = pos; while (pos < n && text[pos] != '=' && !REF_ISWHITE (text[pos])) pos++;
      ke = pos; while (pos < n && REF_ISWHITE (text[pos])) pos++;
      if (ke == ks) return REF_PARSE_INVALID;                       /* a pair needs a key */
      if (pos >= n || text[pos] != '=') return REF_PARSE_INVALID;   /* "key/value pairs" */
      pos = ref_value (text, pos + 1, val, &vl);
      if (pos < 0) return REF_PARSE_INVALID;                        /* "an apostrophe ends the quoted section": unterminated */
      val[vl] = 0;
      key = ref_key (text + ks, ke - ks, &argno);
      out->npairs++;
      switch (key)
        {
        case REF_KEY_TYPE:
          if (out->r.has_type || ref_type_from_string (val, vl) == REF_MT_INVALID) return REF_PARSE_INVALID;
          out->r.has_type = 1; out->r.type = ref_type_from_string (val, vl); break;
        case REF_KEY_SENDER:           /* "A bus or unique name" */
          if (out->r.sender || !ref_bus_name_full ((const unsigned char *) val, (int) vl, 0)) return REF_PARSE_INVALID;
          for (i = 0; i <= vl; i++) out->sender[i] = val[i]; out->r.sender = out->sender; break;
        case REF_KEY_INTERFACE:        /* "An interface name" */
          if (out->r.interface || !ref_interface ((const unsigned char *) val, (int) vl)) return REF_PARSE_INVALID;
          for (i = 0; i <= vl; i++) out->interface[i] = val[i]; out->r.interface = out->interface; break;
        case REF_KEY_MEMBER:           /* "Any valid method or signal name" */
          if (out->r.member || !ref_member ((const unsigned char *) val, (int) vl)) return REF_PARSE_INVALID;
          for (i = 0; i <= vl; i++) out->member[i] = val[i]; out->r.member = out->member; break;
        case REF_KEY_PATH: case REF_KEY_PATH_NAMESPACE:   /* "An object path" */
          if (out->r.path || out->r.path_namespace || !ref_path ((const unsigned char *) val, (int) vl)) return REF_PARSE_INVALID;
          for (i = 0; i <= vl; i++) out->path[i] = val[i];
          if (key == REF_KEY_PATH) out->r.path = out->path; else out->r.path_namespace = out->path; break;
        case REF_KEY_DESTINATION:      /* "A unique name" */
          if (out->r.destination || !ref_bus_name_full ((const unsigned char *) val, (int) vl, 0)) return REF_PARSE_INVALID;
          if (!REF_DEST_ANY_BUS_NAME && val[0] != ':') return REF_PARSE_INVALID;
          for (i = 0; i <= vl; i++) out->destination[i] = val[i]; out->r.destination = out->destination; break;
        case REF_KEY_EAVESDROP:        /* 'true', 'false' */
          if (vl == 4 && ref_eqn (val, "true", 4)) out->r.eavesdrop = 1;
          else if (vl == 5 && ref_eqn (val, "false", 5)) out->r.eavesdrop = 0;
          else return REF_PARSE_INVALID;
          seen_eaves = 1; break;
        case REF_KEY_ARG: case REF_KEY_ARGPATH: case REF_KEY_ARG0NAMESPACE:
          if (out->arg_kind[argno] >= 0) return REF_PARSE_INVALID;
          /* arg0namespace: "Like a bus name, except that the string is not required to contain a '.' (period)" */
          if (key == REF_KEY_ARG0NAMESPACE && !ref_bus_name_full ((const unsigned char *) val, (int) vl, 1)) return REF_PARSE_INVALID;
          out->arg_kind[argno] = key == REF_KEY_ARG ? REF_ARG_PLAIN : key == REF_KEY_ARGPATH ? REF_ARG_PATH : REF_ARG_NAMESPACE;
          out->arg_len[argno] = vl; for (i = 0; i <= vl; i++) out->arg_val[argno][i] = val[i]; break;
        default:
          return REF_PARSE_INVALID;                                  /* not a key of the table */
        }
    }
  (void) seen_eaves;
}
#endif /* REF_NO_GRAMMAR */
#endif
