/* Oracle for type signatures (C16, C01): reference recogniser written from the specification's
 * "Type System" section, with an explicit container stack.  Not derived from the validator.
 *
 *  - "a signature is a sequence of zero or more single complete types", <= 255 bytes
 *  - basic types: y b n q i u x t d s o g h; variant v is a single complete type, not basic
 *  - ARRAY 'a' must be followed by a single complete type
 *  - STRUCT '(' ... ')': one or more single complete types ("empty structures are not allowed")
 *  - DICT_ENTRY '{' ... '}': "occurs only as an array element type", "exactly two single complete
 *    types", "the first (the key) must be a basic type rather than a container type"
 *  - brackets nest properly (each ')' closes a '(' and each '}' a '{' that is the innermost open one)
 *  - depth: "32 array type codes and 32 open parentheses": counted here as the validator's
 *    documentation does (consecutive arrays; struct and dict-entry nesting each <= 32) - the bound
 *    cannot be reached within the bounded units anyway (doubt noted in DESIGN.md section 8 item 6).
 */
#ifndef VERIF_SIGNATURE_REF_H
#define VERIF_SIGNATURE_REF_H
#define SIG_IS_BASIC(c) ((c)=='y'||(c)=='b'||(c)=='n'||(c)=='q'||(c)=='i'||(c)=='u'||(c)=='x'||(c)=='t'||(c)=='d'||(c)=='s'||(c)=='o'||(c)=='g'||(c)=='h')
#ifndef SIG_REF_MAXRUN
#define SIG_REF_MAXRUN 33   /* at most 32 arrays can be open directly above a completed type; bounded harnesses lower this to their string length */
#endif
enum { SIG_K_ARRAY = 1, SIG_K_STRUCT, SIG_K_DICT };
static int spec_signature (const unsigned char *b, int len)
{
  unsigned char kind[300]; unsigned char cnt[300]; int top = 0; int i, k;
  int run_a = 0, n_struct = 0, n_dict = 0;
  if (len > 255) return 0;
  for (i = 0; i < len; i++)
    {
      unsigned char c = b[i]; int completed = 0, completed_basic = 0;
      if (SIG_IS_BASIC (c)) { completed = 1; completed_basic = 1; run_a = 0; }
      else if (c == 'v') { completed = 1; run_a = 0; }
      else if (c == 'a') { if (++run_a > 32) return 0; kind[top] = SIG_K_ARRAY; cnt[top] = 0; top++; }
      else if (c == '(') { run_a = 0; if (++n_struct > 32) return 0; kind[top] = SIG_K_STRUCT; cnt[top] = 0; top++; }
      else if (c == ')') { run_a = 0; if (top == 0 || kind[top - 1] != SIG_K_STRUCT || cnt[top - 1] == 0) return 0; top--; n_struct--; completed = 1; }
      else if (c == '{') { if (top == 0 || kind[top - 1] != SIG_K_ARRAY || i == 0 || b[i - 1] != 'a') return 0; run_a = 0; if (++n_dict > 32) return 0; kind[top] = SIG_K_DICT; cnt[top] = 0; top++; }
      else if (c == '}') { run_a = 0; if (top == 0 || kind[top - 1] != SIG_K_DICT || cnt[top - 1] != 2) return 0; top--; n_dict--; completed = 1; }
      else return 0;
      if (completed)
        {
          /* a completed single complete type closes every array directly above it */
          for (k = 0; k < SIG_REF_MAXRUN; k++) { if (top > 0 && kind[top - 1] == SIG_K_ARRAY) { top--; completed_basic = 0; } else break; }
          if (top > 0)
            {
              if (kind[top - 1] == SIG_K_DICT) { if (cnt[top - 1] == 0 && !completed_basic) return 0; if (cnt[top - 1] >= 2) return 0; }
              if (cnt[top - 1] < 3) cnt[top - 1]++;
            }
        }
    }
  return top == 0;
}
/* "single complete type" form: exactly one complete type */
static int spec_signature_single (const unsigned char *b, int len)
{
  /* one complete type: the signature is valid and its first complete type spans all of it */
  int depth = 0, i;
  if (len == 0 || !spec_signature (b, len)) return 0;
  for (i = 0; i < len; i++)
    {
      unsigned char c = b[i];
      if (c == '(' || c == '{') depth++;
      else if (c == ')' || c == '}') depth--;
      if (depth == 0 && c != 'a') return i == len - 1;
    }
  return 0;
}
#endif
