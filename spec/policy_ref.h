/* Reference semantics of <allow>/<deny> rules, written from dbus-daemon(1)
 * (/repo/doc/dbus-daemon.1.xml.in, section "<policy>" ... "<allow>/<deny>") and from the property
 * statement C06 -- NEVER from bus/policy.c.  Each conjunct quotes the sentence it encodes.
 *
 * The reference is three-valued per rule:
 *    SPEC_NO      the man page says the rule does not match this message
 *    SPEC_YES     the man page says it matches
 *    SPEC_UNSPEC  the man page is silent / self-contradictory for this (rule, message) pair; the
 *                 units do not claim anything for rule lists that contain such a pair (listed as
 *                 "not decided" in the evidence), see the U-notes below.
 * and it reports separately the regions where the man page's text and the shipped behaviour are
 * known to differ (G-notes); those regions are carried by their own units so that the rest of the
 * predicate stays an exact two-sided check.
 *
 * Abstract inputs ("message facts"): what the header accessors and the registry say.  A NULL string
 * means "the message has no such header field".
 */
#ifndef VERIF_POLICY_REF_H
#define VERIF_POLICY_REF_H

#define SPEC_NO 0
#define SPEC_YES 1
#define SPEC_UNSPEC 2

#define SPEC_TYPE_ANY 0            /* "*"  (DBUS_MESSAGE_TYPE_INVALID in the rule) */
#define SPEC_TYPE_METHOD_CALL 1    /* values of the D-Bus specification, "Message Format" */
#define SPEC_TYPE_METHOD_RETURN 2
#define SPEC_TYPE_ERROR 3
#define SPEC_TYPE_SIGNAL 4
#define SPEC_MAX_FDS (134217728u / 4u)   /* DBUS_MAXIMUM_MESSAGE_UNIX_FDS: 128 MiB / 4 */

#define SPEC_TRI_ANY 0
#define SPEC_TRI_FALSE 1
#define SPEC_TRI_TRUE 2

#ifndef SPEC_NAMES
#define SPEC_NAMES 4               /* size of the ghost registry (names the peer may own) */
#endif
#ifndef SPEC_STR_MAX
#define SPEC_STR_MAX 8             /* strings compared by the reference have < SPEC_STR_MAX bytes */
#endif

typedef struct spec_facts
{
  int type;                        /* message type */
  const char *path, *interface, *member, *error_name;
  const char *destination;         /* DESTINATION header field or NULL */
  const char *sender_name;         /* SENDER header field or NULL */
  unsigned reply_serial;           /* 0 = no REPLY_SERIAL field */
  unsigned n_fds;
  int requested_reply;             /* "a reply that is expected (corresponds to a previous method call message)" */
  /* the peer: for send rules the proposed recipient, for receive rules the sender.
   * peer_is_connection == 0: the peer is the bus driver itself (or, for send rules, a service that is
   * about to be activated).  Model M1: such a peer owns exactly the name written in the message
   * (DESTINATION for send rules, SENDER for receive rules). */
  int peer_is_connection;
  const char *reg_name[SPEC_NAMES];  /* ghost registry: the names that exist ... */
  int reg_exists[SPEC_NAMES];        /* ... bus_registry_lookup != NULL */
  int reg_peer_in_queue[SPEC_NAMES]; /* ... and the peer is its primary or a queued owner */
  /* receive side only */
  int proposed_is_addressed;       /* the proposed recipient is the connection the message is addressed to */
} spec_facts;

typedef struct spec_rule
{
  int kind;                        /* 0 send, 1 receive, 2 own (others never match) */
  int allow;                       /* <allow> (1) or <deny> (0) */
  int message_type;                /* send_type / receive_type, SPEC_TYPE_ANY for "*" or absent */
  const char *path, *interface, *member, *error_name;   /* NULL for "*" or absent */
  const char *peer_name;           /* send_destination[_prefix] / receive_sender, NULL for "*" or absent */
  int peer_is_prefix;              /* send_destination_prefix */
  int broadcast;                   /* send_broadcast: SPEC_TRI_* */
  int eavesdrop;                   /* eavesdrop="true" */
  int requested_reply;             /* [send|receive]_requested_reply, after defaulting (allow: true, deny: false) */
  unsigned min_fds, max_fds;       /* absent: 0 / SPEC_MAX_FDS */
  const char *own_name;            /* own / own_prefix, NULL for "*" */
  int own_is_prefix;
} spec_rule;

static inline int spec_streq (const char *a, const char *b)
{
  for (int i = 0; i < SPEC_STR_MAX; i++)
    {
      if (a[i] != b[i]) return 0;
      if (a[i] == 0) return 1;
    }
  return 0; /* not reached for strings shorter than SPEC_STR_MAX */
}

/* "a prefix of "a.b" matches names "a.b" or "a.b.c" or "a.b.c.d", but not "a.bc" or "a.c"."
 * "<allow own_prefix="a.b"/> allows you to own the name "a.b" or any name whose first dot-separated
 *  elements are "a.b"" */
static inline int spec_name_in_namespace (const char *name, const char *prefix)
{
  for (int i = 0; i < SPEC_STR_MAX; i++)
    {
      if (prefix[i] == 0)
        return name[i] == 0 || name[i] == '.';   /* the name ends here, or a new element starts here */
      if (name[i] != prefix[i])
        return 0;
    }
  return 0;
}

/* "Rules with send_broadcast="true" match signal messages with no destination (broadcasts)." */
static inline int spec_is_broadcast (const spec_facts *f)
{
  return f->type == SPEC_TYPE_SIGNAL && f->destination == 0;
}

/* "This attribute only makes sense for reply messages (errors and method returns), and is ignored
 *  for other message types." */
static inline int spec_is_reply (const spec_facts *f)
{
  return f->type == SPEC_TYPE_METHOD_RETURN || f->type == SPEC_TYPE_ERROR;
}

/* ""Eavesdropping" occurs when an application receives a message that was explicitly addressed to a
 *  name the application does not own, or is a reply to such a message. Eavesdropping thus only
 *  applies to messages that are addressed to services and replies to such messages (i.e. it does
 *  not apply to signals [that are broadcast: they have no destination])." */
static inline int spec_is_eavesdropping (const spec_facts *f)
{
  return f->destination != 0 && !f->proposed_is_addressed;
}

/* "send_destination and receive_sender rules mean that messages may not be sent to or received from
 *  the *owner* of the given name, not that they may not be sent *to that name*. That is, if a
 *  connection owns services A, B, C, and sending to A is denied, sending to B or C will not work
 *  either."   Queued owners count: "regardless of whether it is the primary or the queued owner"
 *  together with "it works the same as if three separate rules <allow send_destination=.../> had
 *  been defined". */
static inline int spec_peer_owns (const spec_facts *f, const char *written_name, const char *name)
{
  if (!f->peer_is_connection)                                  /* model M1 */
    return written_name != 0 && spec_streq (written_name, name);
  for (int k = 0; k < SPEC_NAMES; k++)
    if (f->reg_exists[k] && f->reg_peer_in_queue[k] && spec_streq (f->reg_name[k], name))
      return 1;
  return 0;
}

/* "A send_destination_prefix rule opens or closes the whole namespace for sending. It means that
 *  messages may or may not be sent to the owner of any name matching the prefix, regardless of
 *  whether it is the primary or the queued owner." */
static inline int spec_peer_owns_in_namespace (const spec_facts *f, const char *written_name, const char *prefix)
{
  if (!f->peer_is_connection)                                  /* model M1 */
    return written_name != 0 && spec_name_in_namespace (written_name, prefix);
  for (int k = 0; k < SPEC_NAMES; k++)
    if (f->reg_exists[k] && f->reg_peer_in_queue[k] && spec_name_in_namespace (f->reg_name[k], prefix))
      return 1;
  return 0;
}

/* "The other send_* and receive_* attributes are purely textual/by-value matches against the given
 *  field in the message header, except that for the attributes where it is allowed, * matches any
 *  message (whether it has the relevant header field or not)."
 *  U1: the man page does not say what a by-value match means for a message that lacks the field
 *  (it contradicts the strict reading itself for <deny send_interface>, see below) => UNSPEC. */
static inline int spec_field_matches (const char *rule_value, const char *field)
{
  if (rule_value == 0) return SPEC_YES;          /* "*" or attribute absent */
  if (field == 0) return SPEC_UNSPEC;            /* U1 */
  return spec_streq (rule_value, field) ? SPEC_YES : SPEC_NO;
}

/* interface: "Be careful with send_interface/receive_interface, because the interface field in
 *  messages is optional. In particular, do NOT specify <deny send_interface="org.foo.Bar"/>! This
 *  will cause no-interface messages to be blocked for all services" => a <deny> naming an interface
 *  matches a message without interface.  For <allow> only the by-value sentence applies: a message
 *  without the field has no value equal to the attribute => no match. */
static inline int spec_interface_matches (const spec_rule *r, const spec_facts *f)
{
  if (r->interface == 0) return SPEC_YES;
  if (f->interface == 0) return r->allow ? SPEC_NO : SPEC_YES;
  return spec_streq (r->interface, f->interface) ? SPEC_YES : SPEC_NO;
}

/* "[send|receive]_requested_reply ... controls whether the <deny> or <allow> matches a reply that
 *  is expected ... is ignored for other message types.
 *  For <allow>, requested_reply="true" is the default and indicates that only requested replies are
 *  allowed by the rule. ="false" means that the rule allows any reply even if unexpected.
 *  For <deny>, requested_reply="false" is the default but indicates that the rule matches only when
 *  the reply was not requested. ="true" indicates that the rule applies always, regardless of
 *  pending reply state." */
static inline int spec_requested_reply_matches (const spec_rule *r, const spec_facts *f)
{
  if (!spec_is_reply (f)) return 1;
  if (r->allow)
    return !r->requested_reply || f->requested_reply;
  else
    return r->requested_reply || !f->requested_reply;
}

/* "A rule with the min_fds attribute only matches messages if they have at least that many Unix file
 *  descriptors attached. Conversely, a rule with the max_fds attribute only matches messages if they
 *  have no more than that many file descriptors attached." */
static inline int spec_fds_match (const spec_rule *r, const spec_facts *f)
{
  return f->n_fds >= r->min_fds && f->n_fds <= r->max_fds;
}

#define SPEC_AND(acc, v) do { int v_ = (v); if (v_ == SPEC_NO) return SPEC_NO; if (v_ == SPEC_UNSPEC) (acc) = SPEC_UNSPEC; } while (0)

/* "A single <deny> rule may specify combinations of attributes such as send_destination and
 *  send_interface and send_type. In this case, the denial applies only if both attributes match the
 *  message being denied."   (conjunction of all attribute tests) */
static inline int spec_send_rule_applies (const spec_rule *r, const spec_facts *f)
{
  int acc = SPEC_YES;
  /* "Rules with one or more of the send_* family of attributes are checked in order when a
   *  connection attempts to send a message." */
  if (r->kind != 0) return SPEC_NO;
  /* send_type="method_call" | "method_return" | "signal" | "error" | "*" */
  if (r->message_type != SPEC_TYPE_ANY && r->message_type != f->type) return SPEC_NO;
  if (!spec_requested_reply_matches (r, f)) return SPEC_NO;
  SPEC_AND (acc, spec_field_matches (r->path, f->path));
  SPEC_AND (acc, spec_interface_matches (r, f));
  SPEC_AND (acc, spec_field_matches (r->member, f->member));
  SPEC_AND (acc, spec_field_matches (r->error_name, f->error_name));
  /* "Rules with send_broadcast="true" match signal messages with no destination (broadcasts). Rules
   *  with send_broadcast="false" are the inverse: they match any unicast destination (unicast
   *  signals, together with all method calls, replies and errors) but do not match messages with no
   *  destination (broadcasts)." */
  if (r->broadcast == SPEC_TRI_TRUE && !spec_is_broadcast (f)) return SPEC_NO;
  if (r->broadcast == SPEC_TRI_FALSE && spec_is_broadcast (f)) return SPEC_NO;
  /* "As a special case, send_destination="*" matches any message (whether it has a destination
   *  specified or not)" */
  if (r->peer_name != 0)
    {
      if (r->peer_is_prefix)
        { if (!spec_peer_owns_in_namespace (f, f->destination, r->peer_name)) return SPEC_NO; }
      else
        { if (!spec_peer_owns (f, f->destination, r->peer_name)) return SPEC_NO; }
    }
  if (!spec_fds_match (r, f)) return SPEC_NO;
  /* U2: eavesdrop on a <deny> *send* rule ("matches only when eavesdropping"): whether the proposed
   * recipient is eavesdropping is not an input of the send check => unspecified at this level. */
  if (r->eavesdrop && !r->allow) acc = SPEC_UNSPEC;
  return acc;
}

static inline int spec_receive_rule_applies (const spec_rule *r, const spec_facts *f)
{
  int acc = SPEC_YES;
  /* "Rules with one or more of the receive_* family of attributes, or with the eavesdrop attribute
   *  and no others, are checked for each recipient of a message" */
  if (r->kind != 1) return SPEC_NO;
  if (r->message_type != SPEC_TYPE_ANY && r->message_type != f->type) return SPEC_NO;
  /* "For <allow>, eavesdrop="true" indicates that the rule matches even when eavesdropping.
   *  eavesdrop="false" is the default and means that the rule only allows messages to go to their
   *  specified recipient. For <deny>, eavesdrop="true" indicates that the rule matches only when
   *  eavesdropping. eavesdrop="false" is the default for <deny> also, but here it means that the
   *  rule applies always, even when not eavesdropping." */
  if (r->allow && spec_is_eavesdropping (f) && !r->eavesdrop) return SPEC_NO;
  if (!r->allow && r->eavesdrop && !spec_is_eavesdropping (f)) return SPEC_NO;
  if (!spec_requested_reply_matches (r, f)) return SPEC_NO;
  SPEC_AND (acc, spec_field_matches (r->path, f->path));
  SPEC_AND (acc, spec_interface_matches (r, f));
  SPEC_AND (acc, spec_field_matches (r->member, f->member));
  SPEC_AND (acc, spec_field_matches (r->error_name, f->error_name));
  /* "receive_sender="*" similarly matches any message" */
  if (r->peer_name != 0 && !spec_peer_owns (f, f->sender_name, r->peer_name)) return SPEC_NO;
  if (!spec_fds_match (r, f)) return SPEC_NO;
  return acc;
}

/* "Rules with the own or own_prefix attribute are checked when a connection attempts to own a
 *  well-known bus names. As a special case, own="*" matches any well-known bus name."
 * "<allow own_prefix="a.b"/> allows you to own the name "a.b" or any name whose first dot-separated
 *  elements are "a.b": in particular, you can own "a.b.c" or "a.b.c.d", but not "a.bc" or "a.c"." */
static inline int spec_own_rule_applies (const spec_rule *r, const char *name)
{
  if (r->kind != 2) return SPEC_NO;
  if (r->own_name == 0) return SPEC_YES;
  if (r->own_is_prefix) return spec_name_in_namespace (name, r->own_name) ? SPEC_YES : SPEC_NO;
  return spec_streq (name, r->own_name) ? SPEC_YES : SPEC_NO;
}

/* Known differences between the man page text above and what bus/policy.c does.  Each is carried by its
 * own unit (C06.{send,recv}_n1.gapG1/.gapG2), red on the pinned tree; these units have role 'finder' (not
 * part of the check) until triaged -- run them with VERIF_RUN_GAPS=1 ./verif check C06 --unit <name>.
 * G2 replays natively (replay/c06_native_gap_g2.sh); G1 is a documentation gap the shipped session.conf
 * relies on (<allow send_destination="*" eavesdrop="true"/> is what lets unrequested replies through).
 *  G1  <allow ... eavesdrop="true"> with (default) requested_reply="true" and an UNrequested reply:
 *      man page: "only requested replies are allowed by the rule"; nothing says eavesdrop="true"
 *      lifts that.
 *  G2  requested_reply for messages that are not replies but carry a REPLY_SERIAL header field:
 *      man page: "ignored for other message types".
 */
static inline int spec_in_gap_G1 (const spec_rule *r, const spec_facts *f)
{ return r->allow && r->eavesdrop && r->requested_reply && !f->requested_reply && (spec_is_reply (f) || f->reply_serial != 0); }
static inline int spec_in_gap_G2 (const spec_facts *f)
{ return !spec_is_reply (f) && f->reply_serial != 0; }

/* Decision over a rule list:
 *  "The last rule that matches the message determines whether it may be sent."  /  "... received."
 *  "If it matches, the action is denied (unless later rules in the config file allow it)."
 *  Property statement C06: "the last matching rule deciding and nothing allowed by default".
 *  verdict[i] in SPEC_NO/YES/UNSPEC for rule i in list order; returns 0 deny, 1 allow, 2 unspecified. */
static inline int spec_decide (int n, const int *verdict, const int *allow)
{
  int d = 0;                                     /* nothing allowed by default */
  for (int i = 0; i < n; i++)
    {
      if (verdict[i] == SPEC_UNSPEC) return SPEC_UNSPEC;
      if (verdict[i] == SPEC_YES) d = allow[i] ? 1 : 0;
    }
  return d;
}
static inline int spec_count (int n, const int *verdict)
{
  int c = 0;
  for (int i = 0; i < n; i++) if (verdict[i] == SPEC_YES) c++;
  return c;
}
#endif
