/* Oracle for UTF-8 (C16, C01): Unicode 15 table 3-7 "Well-Formed UTF-8 Byte Sequences" plus the D-Bus rule that strings contain no NUL. Written from the table, not from the validator. */
#ifndef VERIF_UTF8_SPEC_H
#define VERIF_UTF8_SPEC_H
/* Unicode 15 table 3-7 "Well-Formed UTF-8 Byte Sequences", plus D-Bus: no NUL.
   Local characterisation: position k of buffer b[0..n) is locally fine iff
   - ASCII 01..7F, or
   - a lead byte followed by the right continuation bytes (ranges per table 3-7), all inside n, or
   - a continuation byte claimed by a lead at distance 1..3 whose length covers it. */
#define U8_CONT(c)   (((c) & 0xC0) == 0x80)
#define U8_LEN(c)    ((c) >= 0xC2 && (c) <= 0xDF ? 2 : ((c) >= 0xE0 && (c) <= 0xEF ? 3 : ((c) >= 0xF0 && (c) <= 0xF4 ? 4 : 0)))
/* second-byte range depends on lead */
#define U8_SECOND_OK(l, c) ( (l)==0xE0 ? ((c)>=0xA0 && (c)<=0xBF) : (l)==0xED ? ((c)>=0x80 && (c)<=0x9F) : (l)==0xF0 ? ((c)>=0x90 && (c)<=0xBF) : (l)==0xF4 ? ((c)>=0x80 && (c)<=0x8F) : U8_CONT(c) )
#define U8_LEAD_OK(b, n, k) ( U8_LEN((b)[k]) >= 2 && (k) + U8_LEN((b)[k]) <= (n) \
   && U8_SECOND_OK((b)[k], (b)[(k)+1]) \
   && (U8_LEN((b)[k]) < 3 || U8_CONT((b)[(k)+2])) \
   && (U8_LEN((b)[k]) < 4 || U8_CONT((b)[(k)+3])) )
#define U8_CLAIMED(b, k) ( ((k) >= 1 && U8_LEN((b)[(k)-1]) >= 2) \
   || ((k) >= 2 && U8_CONT((b)[(k)-1]) && U8_LEN((b)[(k)-2]) >= 3) \
   || ((k) >= 3 && U8_CONT((b)[(k)-1]) && U8_CONT((b)[(k)-2]) && U8_LEN((b)[(k)-3]) >= 4) )
#define U8_LOCAL_OK(b, n, k) ( ((b)[k] >= 0x01 && (b)[k] <= 0x7F) || (U8_CONT((b)[k]) ? U8_CLAIMED(b, k) : U8_LEAD_OK(b, n, k)) )
/* the prefix [0,n) (n a character boundary) is fine at ghost position gk */
#define VERIF_UTF8_PREFIX_OK(b, n, gk) ( !((gk) >= 0 && (gk) < (n)) || U8_LOCAL_OK(b, n, gk) )
#endif
#ifndef VERIF_UTF8_BOUNDARY
/* position n is a character boundary of b[0..n): nothing before n claims a byte at or after n */
#define VERIF_UTF8_BOUNDARY(b, n) ( (n) == 0 || ((b)[(n)-1] >= 0x01 && (b)[(n)-1] <= 0x7F) \
  || ((n) >= 2 && U8_LEN((b)[(n)-2]) == 2 && U8_CONT((b)[(n)-1])) \
  || ((n) >= 3 && U8_LEN((b)[(n)-3]) == 3 && U8_CONT((b)[(n)-2]) && U8_CONT((b)[(n)-1])) \
  || ((n) >= 4 && U8_LEN((b)[(n)-4]) == 4 && U8_CONT((b)[(n)-3]) && U8_CONT((b)[(n)-2]) && U8_CONT((b)[(n)-1])) )
#endif
