/* Reference model of name ownership, written from doc/dbus-specification.xml only
 * (sections "org.freedesktop.DBus.RequestName", "org.freedesktop.DBus.ReleaseName",
 * "Message Bus Names", NameOwnerChanged / NameLost / NameAcquired).  Never derived from
 * bus/services.c.  Each branch carries the sentence it encodes.
 *
 * Part 1: decision tables over an ABSTRACT owner state (used by the P units
 *         C04.acquire_table / C04.release_table).
 * Part 2: array model of one owner queue (used by the B units on the real list code).
 */
#ifndef VERIF_OWNERSHIP_REF_H
#define VERIF_OWNERSHIP_REF_H

/* values fixed by the specification tables (also in dbus/dbus-shared.h) */
#define REF_FLAG_ALLOW_REPLACEMENT 0x1u
#define REF_FLAG_REPLACE_EXISTING  0x2u
#define REF_FLAG_DO_NOT_QUEUE      0x4u
#define REF_REQ_PRIMARY_OWNER 1u
#define REF_REQ_IN_QUEUE      2u
#define REF_REQ_EXISTS        3u
#define REF_REQ_ALREADY_OWNER 4u
#define REF_REL_RELEASED      1u
#define REF_REL_NON_EXISTENT  2u
#define REF_REL_NOT_OWNER     3u

/* ------------------------------------------------------------------------------------------
 * Part 1.  Abstract state of ONE name as seen by ONE requester.
 * ------------------------------------------------------------------------------------------ */
typedef struct {
  int exists;          /* the name currently has an owner queue (hence a primary owner)        */
  int req_is_primary;  /* "the method caller is currently the primary owner of the name"       */
  int req_in_queue;    /* "the method caller is currently in the queue but not the primary"    */
  int primary_allow;   /* primary's DBUS_NAME_FLAG_ALLOW_REPLACEMENT "from its latest RequestName call" */
  int primary_dnq;     /* primary's DBUS_NAME_FLAG_DO_NOT_QUEUE, likewise                      */
} ref_name_state;

/* which queue operation the specification prescribes */
enum ref_op {
  REF_OP_NONE = 0,        /* nothing changes                                                    */
  REF_OP_CREATE,          /* name had no owner: requester becomes primary of a new queue        */
  REF_OP_REFRESH_PRIMARY, /* requester is primary: only its two stored flags are refreshed      */
  REF_OP_DROP_SELF,       /* requester must not be / stay in the queue (and is removed if there) */
  REF_OP_ENQUEUE,         /* requester waits in the queue (appended, or flags refreshed)        */
  REF_OP_REPLACE_SWAP,    /* requester to the head, old primary to the second position          */
  REF_OP_REPLACE_DROP     /* requester to the head, old primary removed (it had DO_NOT_QUEUE)   */
};

typedef struct { unsigned reply; enum ref_op op; } ref_request_result;

static inline ref_request_result
ref_request_name (ref_name_state s, unsigned flags /* all 2^32 words; undefined bits carry no meaning */)
{
  ref_request_result r;
  int replace = (flags & REF_FLAG_REPLACE_EXISTING) != 0;
  int dnq     = (flags & REF_FLAG_DO_NOT_QUEUE) != 0;

  if (!s.exists)
    { /* PRIMARY_OWNER: "The caller is now the primary owner of the name ... Either the name had no
       * owner before, or ..." */
      r.reply = REF_REQ_PRIMARY_OWNER; r.op = REF_OP_CREATE; return r; }

  if (s.req_is_primary)
    { /* "If the method caller is currently the primary owner of the name, the
       * DBUS_NAME_FLAG_ALLOW_REPLACEMENT and DBUS_NAME_FLAG_DO_NOT_QUEUE values are updated with the
       * values from the new RequestName call, and nothing further happens."
       * ALREADY_OWNER: "The application trying to request ownership of a name is already the owner of it." */
      r.reply = REF_REQ_ALREADY_OWNER; r.op = REF_OP_REFRESH_PRIMARY; return r; }

  if (s.primary_allow && replace)
    { /* "If the current primary owner (head of the queue) has DBUS_NAME_FLAG_ALLOW_REPLACEMENT set, and
       * the RequestName invocation has the DBUS_NAME_FLAG_REPLACE_EXISTING flag, then the caller of
       * RequestName replaces the current primary owner at the head of the queue and the current primary
       * owner moves to the second position in the queue."
       * + "If any connection in the queue has DBUS_NAME_FLAG_DO_NOT_QUEUE set and is not the primary
       *    owner, it is removed from the queue. This can apply to the previous primary owner (if it was
       *    replaced) ..."
       * PRIMARY_OWNER: "... or the caller specified DBUS_NAME_FLAG_REPLACE_EXISTING and the current owner
       * specified DBUS_NAME_FLAG_ALLOW_REPLACEMENT." */
      r.reply = REF_REQ_PRIMARY_OWNER;
      r.op = s.primary_dnq ? REF_OP_REPLACE_DROP : REF_OP_REPLACE_SWAP; return r; }

  /* "replacement is not possible" from here on */
  if (dnq)
    { /* EXISTS: "The name already has an owner, DBUS_NAME_FLAG_DO_NOT_QUEUE was specified, and either
       * DBUS_NAME_FLAG_ALLOW_REPLACEMENT was not specified by the current owner, or
       * DBUS_NAME_FLAG_REPLACE_EXISTING was not specified by the requesting application."
       * + "If any connection in the queue has DBUS_NAME_FLAG_DO_NOT_QUEUE set and is not the primary owner,
       *    it is removed from the queue. This can apply to ... the method caller (if it updated the
       *    DBUS_NAME_FLAG_DO_NOT_QUEUE flag while still stuck in the queue, or if it was just added to the
       *    queue with that flag set)." */
      r.reply = REF_REQ_EXISTS; r.op = REF_OP_DROP_SELF; return r; }

  /* IN_QUEUE: "The name already had an owner, DBUS_NAME_FLAG_DO_NOT_QUEUE was not specified, and either
   * the current owner did not specify DBUS_NAME_FLAG_ALLOW_REPLACEMENT or the requesting application did
   * not specify DBUS_NAME_FLAG_REPLACE_EXISTING."
   * "If replacement is not possible, and the method caller is currently in the queue but not the primary
   *  owner, its flags are updated with the values from the new RequestName call."
   * "If replacement is not possible, and the method caller is currently not in the queue, the method caller
   *  is appended to the queue." */
  r.reply = REF_REQ_IN_QUEUE; r.op = REF_OP_ENQUEUE; return r;
}

/* Names that can be neither requested nor released:
 *  "bus names that are not unique names must not begin with this character [':'] (The bus must reject any
 *   attempt by an application to manually request a name beginning with ':'.)"
 *  org.freedesktop.DBus: "The bus itself owns a special name, org.freedesktop.DBus" (Message Bus
 *  Overview) — it is never in an owner queue, hence neither requestable nor releasable (property
 *  statement C04: "the bus's own name and unique names can be neither requested nor released").
 *  An invalid bus name is not a name at all ("Valid Names"). */
static inline int
ref_name_refused (int syntactically_valid, int first_byte, int is_the_bus_name)
{
  return !syntactically_valid || first_byte == ':' || is_the_bus_name;
}

typedef struct { unsigned reply; int remove_requester; } ref_release_result;

static inline ref_release_result
ref_release_name (ref_name_state s)
{
  ref_release_result r;
  if (!s.exists)
    { /* NON_EXISTENT: "The given name does not exist on this bus." */
      r.reply = REF_REL_NON_EXISTENT; r.remove_requester = 0; return r; }
  if (!s.req_is_primary && !s.req_in_queue)
    { /* NOT_OWNER: "The caller was not the primary owner of this name, and was also not waiting in the
       * queue to own this name." */
      r.reply = REF_REL_NOT_OWNER; r.remove_requester = 0; return r; }
  /* RELEASED: "The caller has released his claim on the given name. Either the caller was the primary
   * owner of the name, and the name is now unused or taken by somebody waiting in the queue for the name,
   * or the caller was waiting in the queue for the name and has now been removed from the queue." */
  r.reply = REF_REL_RELEASED; r.remove_requester = 1; return r;
}

/* ------------------------------------------------------------------------------------------
 * Part 2.  Array model of one owner queue ("Each name maintains a queue of possible owners, where
 * the head of the queue is the primary or current owner of the name. Each potential owner in the queue
 * maintains the DBUS_NAME_FLAG_ALLOW_REPLACEMENT and DBUS_NAME_FLAG_DO_NOT_QUEUE settings from its latest
 * RequestName call.")
 * ------------------------------------------------------------------------------------------ */
#ifndef REF_QMAX
#define REF_QMAX 4
#endif
typedef struct { int conn; int allow; int dnq; } ref_entry;     /* conn: small integer id of a connection */
typedef struct { int n; ref_entry e[REF_QMAX]; } ref_queue;

static inline int ref_q_find (const ref_queue *q, int conn)
{ int i, at = -1; for (i = 0; i < REF_QMAX; i++) if (i < q->n && q->e[i].conn == conn && at < 0) at = i; return at; }

static inline void ref_q_remove_at (ref_queue *q, int at)
{ int i; for (i = 0; i < REF_QMAX - 1; i++) if (i >= at && i + 1 < q->n) q->e[i] = q->e[i + 1]; q->n--; }

static inline void ref_q_insert_at (ref_queue *q, int at, ref_entry x)
{ int i; for (i = REF_QMAX - 1; i > 0; i--) if (i > at && i <= q->n) q->e[i] = q->e[i - 1]; q->e[at] = x; q->n++; }

/* Where a WAITING requester (not primary) stands after RequestName, strictly by the text:
 *   - replacement possible (primary allows AND caller has REPLACE_EXISTING): the caller goes to the head;
 *     the implementation does this in two steps (enqueue directly behind the primary, then swap/remove the
 *     primary), so for the first step the position is 1;
 *   - otherwise, new caller: "the method caller is appended to the queue"  -> position n (the end);
 *   - otherwise, queued caller: "its flags are updated"                    -> position unchanged.
 * was_pos < 0 means the caller was not in the queue.  n = queue length before the call (n >= 1). */
static inline int
ref_wait_position (int n, int was_pos, int primary_allow, unsigned flags)
{
  if (primary_allow && (flags & REF_FLAG_REPLACE_EXISTING)) return 1;
  return was_pos < 0 ? n : was_pos;
}

/* Signals of one primary-owner change, in the order in which the implementation stages them in the
 * transaction (order prescribed by DESIGN.md section 6 C04; the specification fixes addressee and
 * arguments: NameLost "is sent to a specific application when it loses ownership of a name",
 * NameAcquired "... when it gains ownership of a name", NameOwnerChanged (name, old_owner, new_owner)). */
enum ref_sig { REF_SIG_LOST = 1, REF_SIG_CHANGED = 2, REF_SIG_ACQUIRED = 3 };

#endif
