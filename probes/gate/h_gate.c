#include "bus_inj.c"
/* ===================== ghost message facts & event log ===================== */
int  g_type; dbus_uint32_t g_reply_serial; _Bool g_has_dest; _Bool g_dest_is_bus; _Bool g_is_hello;
_Bool g_sender_active, g_recipient_active;
BusClientPolicy *g_sender_policy, *g_recipient_policy;
int g_check_reply_calls, g_expect_reply_calls, g_send_checks, g_recv_checks, g_complaints;
_Bool g_check_reply_result, g_send_result, g_recv_result, g_send_rr, g_recv_rr;
BusClientPolicy *g_send_policy_used, *g_recv_policy_used;
DBusConnection *g_the_sender, *g_the_recipient;   /* fixed identities for is_active etc. */
static const char g_bus_name[] = DBUS_SERVICE_DBUS; static const char g_other_name[] = "x.y";
#define ERR_SET(e) ((e)->name != NULL)

int dbus_message_get_type (DBusMessage *m) __CPROVER_assigns() __CPROVER_ensures(__CPROVER_return_value == g_type);
const char *dbus_message_get_sender (DBusMessage *m) __CPROVER_assigns() __CPROVER_ensures(1);
const char *dbus_message_get_destination (DBusMessage *m) __CPROVER_assigns()
  __CPROVER_ensures(__CPROVER_return_value == (g_has_dest ? (g_dest_is_bus ? g_bus_name : g_other_name) : (const char*)0));
const char *dbus_message_get_interface (DBusMessage *m) __CPROVER_assigns() __CPROVER_ensures(1);
const char *dbus_message_get_member (DBusMessage *m) __CPROVER_assigns() __CPROVER_ensures(1);
const char *dbus_message_get_path (DBusMessage *m) __CPROVER_assigns() __CPROVER_ensures(1);
const char *dbus_message_get_error_name (DBusMessage *m) __CPROVER_assigns() __CPROVER_ensures(1);
const char *dbus_message_type_to_string (int type) __CPROVER_assigns() __CPROVER_ensures(1);
dbus_uint32_t dbus_message_get_reply_serial (DBusMessage *m) __CPROVER_assigns() __CPROVER_ensures(__CPROVER_return_value == g_reply_serial);
dbus_bool_t dbus_message_is_method_call (DBusMessage *m, const char *i, const char *me) __CPROVER_assigns() __CPROVER_ensures(__CPROVER_return_value == g_is_hello);
dbus_bool_t bus_connection_is_active (DBusConnection *c) __CPROVER_requires(c != NULL) __CPROVER_assigns()
  __CPROVER_ensures(__CPROVER_return_value == (c == g_the_sender ? g_sender_active : g_recipient_active));
BusClientPolicy *bus_connection_get_policy (DBusConnection *c) __CPROVER_requires(c != NULL) __CPROVER_assigns()
  __CPROVER_ensures(__CPROVER_return_value == (c == g_the_sender ? g_sender_policy : g_recipient_policy));
BusConnections *bus_connection_get_connections (DBusConnection *c) __CPROVER_assigns() __CPROVER_ensures(1);
void dbus_error_init (DBusError *e) __CPROVER_requires(e != NULL) __CPROVER_assigns(*e) __CPROVER_ensures(!ERR_SET(e));
dbus_bool_t dbus_error_is_set (const DBusError *e) __CPROVER_requires(e != NULL) __CPROVER_assigns() __CPROVER_ensures(__CPROVER_return_value == ERR_SET(e));
void dbus_move_error (DBusError *src, DBusError *dest) __CPROVER_requires(src != NULL) __CPROVER_assigns(*src; dest != NULL: *dest)
  __CPROVER_ensures(!ERR_SET(src) && (dest != NULL ==> dest->name == __CPROVER_old(src->name)));
void verif_set_error (DBusError *e, const char *name) __CPROVER_requires(name != NULL && (e == NULL || !ERR_SET(e)))
  __CPROVER_assigns(e != NULL: *e) __CPROVER_ensures(e != NULL ==> e->name == name);
dbus_bool_t bus_connections_check_reply (BusConnections *cs, BusTransaction *t, DBusConnection *sending, DBusConnection *receiving, DBusMessage *reply, DBusError *error)
  __CPROVER_requires(sending != NULL && receiving != NULL && error != NULL && !ERR_SET(error))
  __CPROVER_assigns(*error, g_check_reply_calls, g_check_reply_result)
  __CPROVER_ensures(g_check_reply_calls == __CPROVER_old(g_check_reply_calls) + 1 && g_check_reply_result == __CPROVER_return_value && (__CPROVER_return_value ==> !ERR_SET(error)));
dbus_bool_t bus_connections_expect_reply (BusConnections *cs, BusTransaction *t, DBusConnection *will_get, DBusConnection *will_send, DBusMessage *m, DBusError *error)
  __CPROVER_requires(will_get != NULL && will_send != NULL && m != NULL)
  __CPROVER_assigns(error != NULL: *error; g_expect_reply_calls)
  __CPROVER_ensures(g_expect_reply_calls == __CPROVER_old(g_expect_reply_calls) + 1 && ((!__CPROVER_return_value && error != NULL) ==> ERR_SET(error)));
dbus_bool_t bus_selinux_allows_send (DBusConnection *s, DBusConnection *r, const char *a, const char *b, const char *c, const char *d, const char *e, BusActivationEntry *ae, DBusError *error)
  __CPROVER_assigns(error != NULL: *error) __CPROVER_ensures(1);
dbus_bool_t bus_apparmor_allows_send (DBusConnection *s, DBusConnection *r, dbus_bool_t rr, const char *bt, int mt, const char *p, const char *i, const char *m, const char *en, const char *d, const char *src, BusActivationEntry *ae, DBusError *error)
  __CPROVER_assigns(error != NULL: *error) __CPROVER_ensures((!__CPROVER_return_value && error != NULL) ==> ERR_SET(error));
static void complain_about_message (BusContext *context, const char *error_name, const char *complaint, int matched_rules, DBusMessage *message, DBusConnection *sender, DBusConnection *proposed_recipient, dbus_bool_t requested_reply, dbus_bool_t log, DBusError *error)
  __CPROVER_requires(error_name != NULL && (error == NULL || !ERR_SET(error)))
  __CPROVER_assigns(error != NULL: *error; g_complaints) __CPROVER_ensures(g_complaints == __CPROVER_old(g_complaints) + 1 && (error != NULL ==> error->name == error_name));
dbus_bool_t bus_client_policy_check_can_send (BusClientPolicy *policy, BusRegistry *registry, dbus_bool_t requested_reply, DBusConnection *receiver, DBusMessage *message, dbus_int32_t *toggles, dbus_bool_t *log)
  __CPROVER_requires(policy != NULL && toggles != NULL && log != NULL)
  __CPROVER_assigns(*toggles, *log, g_send_checks, g_send_result, g_send_rr, g_send_policy_used)
  __CPROVER_ensures(g_send_checks == __CPROVER_old(g_send_checks) + 1 && g_send_result == __CPROVER_return_value && g_send_rr == (requested_reply != 0) && g_send_policy_used == policy);
dbus_bool_t bus_client_policy_check_can_receive (BusClientPolicy *policy, BusRegistry *registry, dbus_bool_t requested_reply, DBusConnection *sender, DBusConnection *addressed, DBusConnection *proposed, DBusMessage *message, dbus_int32_t *toggles)
  __CPROVER_requires(policy != NULL && toggles != NULL)
  __CPROVER_assigns(*toggles, g_recv_checks, g_recv_result, g_recv_rr, g_recv_policy_used)
  __CPROVER_ensures(g_recv_checks == __CPROVER_old(g_recv_checks) + 1 && g_recv_result == __CPROVER_return_value && g_recv_rr == (requested_reply != 0) && g_recv_policy_used == policy);
long dbus_connection_get_outgoing_size (DBusConnection *c) __CPROVER_assigns() __CPROVER_ensures(1);
long dbus_connection_get_outgoing_unix_fds (DBusConnection *c) __CPROVER_assigns() __CPROVER_ensures(1);

/* ===================== the gate ===================== */
#define IS_KNOWN_TYPE(t) ((t)==DBUS_MESSAGE_TYPE_METHOD_CALL||(t)==DBUS_MESSAGE_TYPE_SIGNAL||(t)==DBUS_MESSAGE_TYPE_METHOD_RETURN||(t)==DBUS_MESSAGE_TYPE_ERROR)
dbus_bool_t bus_context_check_security_policy (BusContext *context, BusTransaction *transaction, DBusConnection *sender, DBusConnection *addressed_recipient,
   DBusConnection *proposed_recipient, DBusMessage *message, BusActivationEntry *activation_entry, DBusError *error)
__CPROVER_requires(__CPROVER_is_fresh(context, sizeof(BusContext)) && __CPROVER_is_fresh(error, sizeof(DBusError)) && !ERR_SET(error))
__CPROVER_requires(sender == NULL || sender == g_the_sender)
__CPROVER_requires(proposed_recipient == NULL || (proposed_recipient == g_the_recipient && g_the_recipient != g_the_sender))
__CPROVER_requires(addressed_recipient == NULL || addressed_recipient == proposed_recipient || (addressed_recipient != g_the_sender))
__CPROVER_requires(g_the_sender != NULL && g_the_recipient != NULL)
__CPROVER_requires(g_sender_active ==> g_sender_policy != NULL)
__CPROVER_requires(g_recipient_active ==> g_recipient_policy != NULL)
/* what dispatch.c promises (the two _dbus_asserts at the top of the function) */
__CPROVER_requires(g_has_dest || g_type == DBUS_MESSAGE_TYPE_SIGNAL || (sender == NULL && !g_recipient_active))
__CPROVER_requires(g_type == DBUS_MESSAGE_TYPE_SIGNAL || addressed_recipient != NULL || activation_entry != NULL || (g_has_dest && g_dest_is_bus))
__CPROVER_requires(proposed_recipient == NULL || g_recipient_active || sender == NULL)
__CPROVER_requires(g_check_reply_calls == 0 && g_expect_reply_calls == 0 && g_send_checks == 0 && g_recv_checks == 0 && g_complaints == 0)
__CPROVER_assigns(*error, g_check_reply_calls, g_check_reply_result, g_expect_reply_calls, g_send_checks, g_send_result, g_send_rr, g_send_policy_used, g_recv_checks, g_recv_result, g_recv_rr, g_recv_policy_used, g_complaints)
/* 1. unknown message types are never admitted */
__CPROVER_ensures(__CPROVER_return_value ==> IS_KNOWN_TYPE(g_type))
/* 2. a refusal always carries an error */
__CPROVER_ensures(!__CPROVER_return_value ==> ERR_SET(error))
/* 3. admitted from an active sender => its own send rules were consulted once and said yes */
__CPROVER_ensures((__CPROVER_return_value && sender != NULL && g_sender_active) ==> (g_send_checks == 1 && g_send_result && g_send_policy_used == g_sender_policy))
/* 4. admitted to an active recipient => its own receive rules were consulted once and said yes */
__CPROVER_ensures((__CPROVER_return_value && proposed_recipient != NULL && g_recipient_active && !(sender != NULL && !g_sender_active)) ==> (g_recv_checks == 1 && g_recv_result && g_recv_policy_used == g_recipient_policy))
/* 5. an inactive sender gets through only with Hello to the bus itself */
__CPROVER_ensures((__CPROVER_return_value && sender != NULL && !g_sender_active) ==> (proposed_recipient == NULL && g_is_hello))
/* 6. requested_reply handed to the rule scans is TRUE only for a consumed pending reply (or the bus's own replies) */
__CPROVER_ensures((g_send_checks == 1 && g_send_rr) ==> (sender != NULL && g_check_reply_calls == 1 && g_check_reply_result))
__CPROVER_ensures((g_recv_checks == 1 && g_recv_rr) ==> ((sender != NULL && g_check_reply_calls == 1 && g_check_reply_result) || (sender == NULL && g_reply_serial != 0 && addressed_recipient == proposed_recipient)))
__CPROVER_ensures(g_check_reply_calls <= 1 && (g_check_reply_calls == 1 ==> (g_reply_serial != 0 && sender != NULL && g_sender_active && proposed_recipient != NULL && addressed_recipient == proposed_recipient)))
/* 7. a reply slot is opened exactly for an admitted, addressed, non-eavesdropped method call from a client */
__CPROVER_ensures(g_expect_reply_calls <= 1)
__CPROVER_ensures(g_expect_reply_calls == 1 ==> (g_type == DBUS_MESSAGE_TYPE_METHOD_CALL && sender != NULL && addressed_recipient != NULL && addressed_recipient == proposed_recipient && (g_send_checks == 0 || g_send_result) && (g_recv_checks == 0 || g_recv_result)))
__CPROVER_ensures((__CPROVER_return_value && g_type == DBUS_MESSAGE_TYPE_METHOD_CALL && sender != NULL && g_sender_active && addressed_recipient != NULL && addressed_recipient == proposed_recipient) ==> g_expect_reply_calls == 1)
;
void harness(void) { BusContext *c; BusTransaction *t; DBusConnection *s, *a, *p; DBusMessage *m; BusActivationEntry *ae; DBusError *e;
  bus_context_check_security_policy(c, t, s, a, p, m, ae, e); }
