#undef _dbus_assert
#define _dbus_assert(c) { __CPROVER_assert((c), "dbus assertion: " #c); __CPROVER_assume(c); }
#undef _dbus_assert_not_reached
#define _dbus_assert_not_reached(e) { __CPROVER_assert(0, "dbus assert_not_reached"); __CPROVER_assume(0); }
#undef _dbus_verbose
#define _dbus_verbose(...) { }
/* variadic remaps (format text dropped) */
void verif_set_error (DBusError *error, const char *name);
#define dbus_set_error(e, name, ...) verif_set_error((e), (name))
