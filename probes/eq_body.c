#include <config.h>
#include "dbus/dbus-internals.h"
#include "dbus/dbus-string.h"
#include "dbus/dbus-marshal-validate.h"
#include "dbus/dbus-protocol.h"
#define N 12
unsigned char nondet_uchar(void);
void harness(void)
{
  unsigned char buf[N+8] __attribute__((aligned(8))); int len; DBusString body, sig;
  __CPROVER_assume(len >= 0 && len <= N);
  _dbus_string_init_const_len(&body, (const char*)buf, len);
  _dbus_string_init_const(&sig, "au");
  DBusValidity r = _dbus_validate_body_with_reason(&sig, 0, DBUS_LITTLE_ENDIAN, NULL, &body, 0, len);
  /* reference: ARRAY of UINT32, little endian: u32 n; n bytes; n % 4 == 0; exact length */
  int spec = 0;
  if (len >= 4) { unsigned n = buf[0] | (buf[1]<<8) | (buf[2]<<16) | ((unsigned)buf[3]<<24); if (n <= (unsigned)(len-4) && n % 4 == 0 && 4 + n == (unsigned)len) spec = 1; }
  __CPROVER_assert((r == DBUS_VALID) == spec, "body 'au' validity == reference");
}
