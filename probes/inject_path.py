import re
src=open('/repo/dbus/dbus-marshal-validate.c').read()
i=src.index('_dbus_validate_path (const DBusString  *str,')
e=src.index('\n}\n', i)
body=src[i:e]
# loop contract
j=body.index('while (s != end)'); k=j+len('while (s != end)')
inv='''
  __CPROVER_assigns(s, last_slash)
  __CPROVER_loop_invariant(__CPROVER_same_object(s, end) && __CPROVER_same_object(last_slash, end))
  __CPROVER_loop_invariant(__CPROVER_POINTER_OFFSET(end) - len < __CPROVER_POINTER_OFFSET(s) && __CPROVER_POINTER_OFFSET(s) <= __CPROVER_POINTER_OFFSET(end))
  __CPROVER_loop_invariant(__CPROVER_POINTER_OFFSET(end) - len <= __CPROVER_POINTER_OFFSET(last_slash) && __CPROVER_POINTER_OFFSET(last_slash) < __CPROVER_POINTER_OFFSET(s))
  __CPROVER_loop_invariant(*last_slash == '/')
  __CPROVER_loop_invariant(last_slash == s - 1 || *(s - 1) != '/')
  __CPROVER_loop_invariant(VERIF_PATH_PREFIX_OK(end - len, (s - (end - len)), verif_gk))
  __CPROVER_decreases(__CPROVER_POINTER_OFFSET(end) - __CPROVER_POINTER_OFFSET(s))
'''
body=body[:k]+inv+body[k:]
# ghost witness before each 'return FALSE;' that comes after 's = ' assignment (i.e. when s is defined)
pre,post=body.split('s = _dbus_string_get_const_udata (str) + start;',1)
cnt=[0]
def rep(m):
    cnt[0]+=1
    return '{ verif_w = s - (_dbus_string_get_const_udata (str) + start); return FALSE; }'
post=re.sub(r'return FALSE;', rep, post)
body=pre+'s = _dbus_string_get_const_udata (str) + start;'+post
src=src[:i]+body+src[e:]
src='#include "verif_path_spec.h"\n'+src
open('validate_path_inj.c','w').write(src)
print("witness sites:",cnt[0])
