#include <config.h>
#include "dbus/dbus-internals.h"
#include "dbus/dbus-string.h"
#include "dbus/dbus-list.h"
#include "dbus/dbus-marshal-validate.h"
#ifndef N
#define N 16
#endif
/* ---- trusted abstraction of dbus-list used as a stack of ints ---- */
static long stk[80]; static int sp; static DBusList dummy_link;
_Bool nondet_bool(void);
dbus_bool_t _dbus_list_append (DBusList **list, void *data) { stk[sp++] = (long)data; *list = &dummy_link; return 1; }
void *_dbus_list_pop_last (DBusList **list) { if (sp == 0) return NULL; void *d = (void*)stk[--sp]; if (sp == 0) *list = NULL; return d; }
void _dbus_list_clear (DBusList **list) { sp = 0; *list = NULL; }
/* ---- reference recogniser written from the specification (type system section) ---- */
#define IS_BASIC(c) ((c)=='y'||(c)=='b'||(c)=='n'||(c)=='q'||(c)=='i'||(c)=='u'||(c)=='x'||(c)=='t'||(c)=='d'||(c)=='s'||(c)=='o'||(c)=='g'||(c)=='h')
enum { K_ARRAY = 1, K_STRUCT, K_DICT };
static int spec_sig(const unsigned char *b, int len)
{
  unsigned char kind[80]; unsigned char cnt[80]; int top = 0;
  int run_a = 0, n_struct = 0, n_dict = 0;
  if (len > 255) return 0;
  for (int i = 0; i < len; i++) {
    unsigned char c = b[i]; int completed = 0, completed_basic = 0;
    if (IS_BASIC(c)) { completed = 1; completed_basic = 1; run_a = 0; }
    else if (c == 'v') { completed = 1; run_a = 0; }
    else if (c == 'a') { if (++run_a > 32) return 0; kind[top] = K_ARRAY; cnt[top] = 0; top++; }
    else if (c == '(') { run_a = 0; if (++n_struct > 32) return 0; kind[top] = K_STRUCT; cnt[top] = 0; top++; }
    else if (c == ')') { run_a = 0; if (top == 0 || kind[top-1] != K_STRUCT || cnt[top-1] == 0) return 0; top--; n_struct--; completed = 1; }
    else if (c == '{') { if (top == 0 || kind[top-1] != K_ARRAY || i == 0 || b[i-1] != 'a') return 0; run_a = 0; if (++n_dict > 32) return 0; kind[top] = K_DICT; cnt[top] = 0; top++; }
    else if (c == '}') { run_a = 0; if (top == 0 || kind[top-1] != K_DICT || cnt[top-1] != 2) return 0; top--; n_dict--; completed = 1; }
    else return 0;
    if (completed) {
      /* a completed single complete type closes every array directly above it */
      for (int k = 0; k < 33; k++) { if (top > 0 && kind[top-1] == K_ARRAY) { top--; completed_basic = 0; } else break; }
      if (top > 0) {
        if (kind[top-1] == K_DICT) { if (cnt[top-1] == 0 && !completed_basic) return 0; if (cnt[top-1] >= 2) return 0; }
        if (cnt[top-1] < 3) cnt[top-1]++;
      }
    }
  }
  return top == 0;
}
void harness(void)
{
  unsigned char buf[N+1]; int len; DBusString s;
  __CPROVER_assume(len >= 0 && len <= N);
  _dbus_string_init_const_len(&s, (const char*)buf, len);
  DBusValidity r = _dbus_validate_signature_with_reason(&s, 0, len);
  __CPROVER_assert((r == DBUS_VALID) == (spec_sig(buf, len) != 0), "signature == spec");
}
