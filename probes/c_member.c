#include <config.h>
#include "dbus/dbus-internals.h"
#include "dbus/dbus-string.h"
#define DBUS_CAN_USE_DBUS_STRING_PRIVATE 1
#include "dbus/dbus-string-private.h"
#include "dbus/dbus-marshal-validate.h"

#define REAL(s) ((const DBusRealString*)(s))
#define INITCH(c) (((c)>='A'&&(c)<='Z')||((c)>='a'&&(c)<='z')||(c)=='_')
#define NAMECH(c) (INITCH(c)||((c)>='0'&&(c)<='9'))
int verif_gk;
dbus_bool_t _dbus_validate_member (const DBusString *str, int start, int len)
__CPROVER_requires(__CPROVER_is_fresh(str, sizeof(DBusString)))
__CPROVER_requires(REAL(str)->valid && REAL(str)->len >= 0 && REAL(str)->len <= 1000000 && REAL(str)->allocated >= REAL(str)->len + 8 && REAL(str)->allocated < 2000000)
__CPROVER_requires(__CPROVER_is_fresh(REAL(str)->str, REAL(str)->len + 1))
__CPROVER_requires(start >= 0 && len >= 0 && start <= REAL(str)->len)
__CPROVER_ensures(__CPROVER_return_value == 0 || __CPROVER_return_value == 1)
__CPROVER_ensures(__CPROVER_return_value ==> (len >= 1 && len <= 255 && len <= REAL(str)->len - start && INITCH(REAL(str)->str[start])))
#ifdef GHOST
__CPROVER_ensures(__CPROVER_return_value ==> ((0 <= verif_gk && verif_gk < len) ==> NAMECH(REAL(str)->str[start+verif_gk])))
#endif
#ifdef FORALL
__CPROVER_ensures(__CPROVER_return_value ==> __CPROVER_forall { int k; (0 <= k && k < 255) ==> ((k < len) ==> NAMECH(REAL(str)->str[start+k])) })
__CPROVER_ensures(!__CPROVER_return_value ==> (len < 1 || len > 255 || len > REAL(str)->len - start || __CPROVER_exists { int j; (0 <= j && j < 255) && ((j < len) && !(j==0?INITCH(REAL(str)->str[start+j]):NAMECH(REAL(str)->str[start+j]))) }))
#endif
__CPROVER_assigns()
;

void harness(void)
{
  const DBusString *s; int start, len;
  _dbus_validate_member(s, start, len);
}
