#include <stdlib.h>
#include "signals_inj.c"
_Bool nondet_bool(void); int nondet_int(void); unsigned nondet_uint(void); unsigned char nondet_uchar(void);
void _dbus_real_assert (dbus_bool_t condition, const char *condition_text, const char *file, int line, const char *func)
{ __CPROVER_assert(condition, "dbus internal assertion"); __CPROVER_assume(condition); }
void _dbus_verbose_real (const char *file, const int line, const char *function, const char *format, ...) {}
/* ---- message facts (ghost) and iterator contract stubs ---- */
#define MAXARG 8
static char *g_argv;   /* current argument string (NUL-terminated, inside the message body) */
static int   g_argtype;
int verif_stub_msg_get_type (DBusMessage *m) { return nondet_int(); }
const char *verif_stub_str (DBusMessage *m) { return NULL; }   /* header strings absent: only the args part is exercised here */
dbus_bool_t verif_stub_iter_init (DBusMessage *m, DBusMessageIter *it) { return 1; }
int verif_stub_iter_get_arg_type (DBusMessageIter *it)
{ /* a fresh argument of some type; strings/paths are NUL-terminated buffers of symbolic length, preceded by their 4-byte length word as on the wire */
  int t = nondet_int(); g_argtype = t;
  if (t == DBUS_TYPE_STRING || t == DBUS_TYPE_OBJECT_PATH) { unsigned n = nondet_uint(); __CPROVER_assume(n <= MAXARG); char *blk = malloc(4 + n + 1); __CPROVER_assume(blk != NULL); g_argv = blk + 4;
      for (unsigned k = 0; k < MAXARG; k++) if (k < n) __CPROVER_assume(g_argv[k] != 0); g_argv[n] = 0; }
  return t; }
void verif_stub_iter_get_basic (DBusMessageIter *it, void *value)
{ __CPROVER_assert(g_argtype == DBUS_TYPE_STRING || g_argtype == DBUS_TYPE_OBJECT_PATH, "get_basic on a string-like argument"); *(const char **)value = g_argv; }
dbus_bool_t verif_stub_iter_next (DBusMessageIter *it) { return nondet_bool(); }

void harness(void)
{
  BusMatchRule r; DBusMessage *m = (DBusMessage*)&r; 
  /* RULE_OK as established by bus_match_rule_set_arg: args[i] is a malloc'd, NUL-terminated copy of length arg_lens[i]&~FLAGS */
  int n = nondet_int(); __CPROVER_assume(n >= 1 && n <= 2);
  char *args[3]; unsigned lens[3];
  for (int i = 0; i < 2; i++) if (i < n) {
     if (nondet_bool()) { args[i] = NULL; lens[i] = 0; }
     else { unsigned l = nondet_uint(); __CPROVER_assume(l <= MAXARG); args[i] = malloc(l + 1); __CPROVER_assume(args[i] != NULL);
            for (unsigned k = 0; k < MAXARG; k++) if (k < l) __CPROVER_assume(args[i][k] != 0); args[i][l] = 0;
            lens[i] = l | (nondet_bool() ? BUS_MATCH_ARG_IS_PATH : 0) | (nondet_bool() ? BUS_MATCH_ARG_NAMESPACE : 0); } }
  args[n] = NULL; lens[n] = 0;
  r.refcount = 1; r.matches_go_to = NULL; r.flags = BUS_MATCH_ARGS | BUS_MATCH_CLIENT_IS_EAVESDROPPING; r.message_type = 0;
  r.interface = r.member = r.sender = r.destination = r.path = NULL; r.args = args; r.arg_lens = lens; r.args_len = n;
  match_rule_matches(&r, NULL, NULL, m, 0);
}
