import re
src=open('/repo/dbus/dbus-marshal-validate.c').read()
i=src.index('validate_body_helper (DBusTypeReader       *reader,')
e=src.index('\n}\n', i)
body=src[i:e]
SAME='__CPROVER_same_object(p, end) && __CPROVER_POINTER_OFFSET(p) <= __CPROVER_POINTER_OFFSET(end)'
def pad_inv(bound):
    return ('\n            __CPROVER_assigns(p)\n'
            '            __CPROVER_loop_invariant('+SAME+')\n'
            '            __CPROVER_loop_invariant(__CPROVER_same_object(p, a) && __CPROVER_POINTER_OFFSET(p) <= __CPROVER_POINTER_OFFSET(a) && __CPROVER_POINTER_OFFSET(a) '+bound+' __CPROVER_POINTER_OFFSET(end))\n'
            '            __CPROVER_decreases(__CPROVER_POINTER_OFFSET(a) - __CPROVER_POINTER_OFFSET(p))\n')
# ordered list of loops in source order
loops=[
 ('while ((current_type = _dbus_type_reader_get_current_type (reader)) != DBUS_TYPE_INVALID)',
  '\n      __CPROVER_assigns(p, current_type, __CPROVER_object_whole(reader))\n      __CPROVER_loop_invariant('+SAME+')\n'),
 ('while (p != a)', pad_inv('<')),     # fixed: a < end
 ('while (p != a)', pad_inv('<')),     # len: a+4<=end
 ('while (p != a)', pad_inv('<=')),    # array elem
 ('while (p < array_end)', '\n  __CPROVER_assigns(p, v)\n  __CPROVER_loop_invariant('+SAME+' && __CPROVER_same_object(array_end, end) && __CPROVER_POINTER_OFFSET(array_end) <= __CPROVER_POINTER_OFFSET(end) && ((__CPROVER_POINTER_OFFSET(array_end) - __CPROVER_POINTER_OFFSET(p)) % 4 == 0 || __CPROVER_POINTER_OFFSET(p) >= __CPROVER_POINTER_OFFSET(array_end)) )\n'),
 ('while (p < array_end)', '\n  __CPROVER_assigns(p, validity)\n  __CPROVER_loop_invariant('+SAME+' && __CPROVER_same_object(array_end, end) && __CPROVER_POINTER_OFFSET(array_end) <= __CPROVER_POINTER_OFFSET(end))\n'),
 ('while (p != a)', pad_inv('<=')),    # variant
 ('while (p != a)', pad_inv('<=')),    # struct
]
pos=0
out=''
for hdr,inv in loops:
    j=body.index(hdr,pos)
    k=j+len(hdr)
    out+=body[pos:k]+inv
    pos=k
out+=body[pos:]
src=src[:i]+out+src[e:]
open('validate_body_inj.c','w').write(src)
