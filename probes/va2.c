#include <stddef.h>
typedef struct { const char *name; const char *message; } Err;
int g_err;
void set_error(Err *e, const char *name, const char *fmt, ...)
__CPROVER_requires(e != NULL && name != NULL)
__CPROVER_assigns(*e, g_err)
__CPROVER_ensures(e->name == name && g_err == 1);
int f(Err *e, int x)
__CPROVER_requires(__CPROVER_is_fresh(e, sizeof(*e)) && g_err == 0)
__CPROVER_assigns(*e, g_err)
__CPROVER_ensures(__CPROVER_return_value == 0 ==> g_err == 1)
{ if (x > 3) { set_error(e, "too.big", "x=%d is %s", x, "big"); return 0; } return 1; }
void harness(void){ Err *e; int x; f(e,x); }
