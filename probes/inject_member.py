import sys
mode=sys.argv[1]
src=open('/repo/dbus/dbus-marshal-validate.c').read()
i=src.index('_dbus_validate_member (const DBusString  *str,')
j=src.index('while (s != end)', i)
k=j+len('while (s != end)')
base='''
  __CPROVER_assigns(s)
  __CPROVER_loop_invariant(__CPROVER_same_object(s, member) && __CPROVER_POINTER_OFFSET(member) < __CPROVER_POINTER_OFFSET(s) && __CPROVER_POINTER_OFFSET(s) <= __CPROVER_POINTER_OFFSET(end))
'''
if mode=='forall':
  base+='  __CPROVER_loop_invariant(__CPROVER_forall { int k; (0 <= k && k < 255) ==> ( (k < s - member) ==> NAMECH_(member[k]) ) })\n'
if mode=='ghost':
  base+='  __CPROVER_loop_invariant((0 <= verif_gk && verif_gk < s - member) ==> NAMECH_(member[verif_gk]))\n'
base+='  __CPROVER_decreases(__CPROVER_POINTER_OFFSET(end) - __CPROVER_POINTER_OFFSET(s))\n'
src=src[:k]+base+src[k:]
src='extern int verif_gk;\n#define NAMECH_(c) ((((c)>=\'A\'&&(c)<=\'Z\')||((c)>=\'a\'&&(c)<=\'z\')||(c)==\'_\')||((c)>=\'0\'&&(c)<=\'9\'))\n'+src
open('validate_inj.c','w').write(src)
