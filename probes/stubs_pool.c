#include <config.h>
#include "dbus/dbus-internals.h"
#include "dbus/dbus-mempool.h"
#include <stdlib.h>
/* trusted stub: a mempool is modelled as plain malloc/free of element_size bytes */
struct DBusMemPool { int element_size; int zero; int live; };
DBusMemPool* _dbus_mem_pool_new (int element_size, dbus_bool_t zero_elements)
{ DBusMemPool *p = malloc(sizeof *p); if (!p) return NULL; p->element_size = element_size; p->zero = zero_elements; p->live = 0; return p; }
void _dbus_mem_pool_free (DBusMemPool *pool) { free(pool); }
void* _dbus_mem_pool_alloc (DBusMemPool *pool) { void *m = pool->zero ? calloc(1, pool->element_size) : malloc(pool->element_size); if (m) pool->live++; return m; }
dbus_bool_t _dbus_mem_pool_dealloc (DBusMemPool *pool, void *element) { free(element); pool->live--; return pool->live == 0; }
