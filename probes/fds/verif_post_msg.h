#undef _dbus_assert
#define _dbus_assert(c) (__CPROVER_assert((c), "dbus assertion: " #c), __CPROVER_assume(c))
#undef _dbus_verbose
#define _dbus_verbose(...) ((void)0)
struct verif_close_ghost { int calls; int recorded_fd; };
extern struct verif_close_ghost G_close; extern long verif_gk; extern int *verif_fds;
#define _dbus_warn(...) ((void)0)
