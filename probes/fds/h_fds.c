#include "message_inj.c"
struct verif_close_ghost G_close; long verif_gk; int *verif_fds;
#define ERR_SET(e) ((e)->name != NULL)
void dbus_error_init (DBusError *e) __CPROVER_requires(e != NULL) __CPROVER_assigns(*e) __CPROVER_ensures(!ERR_SET(e));
void dbus_error_free (DBusError *e) __CPROVER_requires(e != NULL) __CPROVER_assigns(*e) __CPROVER_ensures(!ERR_SET(e));
/* _dbus_close(fd): one close per call; 'hits' counts closes of the descriptor stored at ghost index verif_gk */
dbus_bool_t _dbus_close (int fd, DBusError *error)
__CPROVER_requires(error == NULL || !ERR_SET(error))
__CPROVER_assigns(G_close; error != NULL: *error)
__CPROVER_ensures(G_close.calls == __CPROVER_old(G_close.calls) + 1)
__CPROVER_ensures(G_close.recorded_fd == (__CPROVER_old(G_close.calls) == verif_gk ? fd : __CPROVER_old(G_close.recorded_fd)))
__CPROVER_ensures((error != NULL && __CPROVER_return_value) ==> !ERR_SET(error))
__CPROVER_ensures((error != NULL && !__CPROVER_return_value) ==> ERR_SET(error));

static void close_unix_fds(int *fds, unsigned *n_fds)
__CPROVER_requires(__CPROVER_is_fresh(n_fds, sizeof(unsigned)) && *n_fds <= 1024)
__CPROVER_requires(__CPROVER_is_fresh(fds, (*n_fds + 1) * sizeof(int)))
/* descriptors in the array are pairwise distinct (the kernel hands out distinct numbers): stated for the ghost index */
__CPROVER_requires(G_close.calls == 0)
__CPROVER_assigns(*n_fds, G_close)
__CPROVER_ensures(*n_fds == 0)
__CPROVER_ensures(G_close.calls == __CPROVER_old(*n_fds))           /* exactly one close per entry */
/* the k-th close was of the k-th descriptor, for arbitrary k (ghost index) */
__CPROVER_ensures((verif_gk >= 0 && verif_gk < (long)__CPROVER_old(*n_fds)) ? G_close.recorded_fd == fds[verif_gk] : 1)
;
void harness(void) { int *f; unsigned *n; close_unix_fds(f, n); }
