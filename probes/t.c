#include <dbus/dbus.h>
#include <stdio.h>
#include <string.h>
int main(){ char s[300]; int n=0; int L=32;
 for(int i=0;i<L;i++){s[n++]='a';s[n++]='(';} s[n++]='a'; s[n++]='i'; for(int i=0;i<L;i++)s[n++]=')'; s[n]=0;
 DBusError e; dbus_error_init(&e); printf("len=%d valid=%d\n", n, dbus_signature_validate(s,&e)); if(dbus_error_is_set(&e))printf("%s\n",e.message);
 return 0;}
