#include "/repo/bus/dispatch.c"

/* ---- ghost typestate ---- */
int g_sender_stamped;     /* 1 after dbus_message_set_sender succeeded on the message */
int g_unknown_stripped;
int g_routed;             /* number of routing calls */

dbus_bool_t dbus_message_set_sender (DBusMessage *message, const char *sender)
__CPROVER_requires(sender != NULL)
__CPROVER_assigns(g_sender_stamped)
__CPROVER_ensures(__CPROVER_return_value == 0 || __CPROVER_return_value == 1)
__CPROVER_ensures(__CPROVER_return_value ==> g_sender_stamped == 1)
__CPROVER_ensures(!__CPROVER_return_value ==> g_sender_stamped == __CPROVER_old(g_sender_stamped))
;
dbus_bool_t _dbus_message_remove_unknown_fields (DBusMessage *message)
__CPROVER_assigns(g_unknown_stripped)
__CPROVER_ensures(__CPROVER_return_value == 0 || __CPROVER_return_value == 1)
__CPROVER_ensures(__CPROVER_return_value ==> g_unknown_stripped == 1)
;
dbus_bool_t bus_dispatch_matches (BusTransaction *transaction, DBusConnection *sender, DBusConnection *addressed_recipient, DBusMessage *message, DBusError *error)
__CPROVER_requires(g_sender_stamped == 1 && g_unknown_stripped == 1)
__CPROVER_assigns(g_routed)
__CPROVER_ensures(g_routed == __CPROVER_old(g_routed) + 1)
;
static DBusHandlerResult bus_dispatch (DBusConnection *connection, DBusMessage *message)
__CPROVER_requires(g_sender_stamped == 0 && g_unknown_stripped == 0 && g_routed == 0)
__CPROVER_assigns(g_sender_stamped, g_unknown_stripped, g_routed)
__CPROVER_ensures(g_routed <= 1)
;
void harness(void) { DBusConnection *c; DBusMessage *m; bus_dispatch(c, m); }
