#include <config.h>
#include "dbus/dbus-internals.h"
#include "dbus/dbus-string.h"
#include "dbus/dbus-marshal-header.h"
#include "dbus/dbus-protocol.h"
void harness(void)
{
  DBusHeader h;
  __CPROVER_assume(_dbus_header_init(&h));
  dbus_bool_t ok = _dbus_header_create(&h, DBUS_LITTLE_ENDIAN, DBUS_MESSAGE_TYPE_METHOD_CALL, NULL, "/p", NULL, "M", NULL);
  __CPROVER_assume(ok);
  __CPROVER_assert(_dbus_string_get_length(&h.data) % 8 == 0, "header length is a multiple of 8");
  __CPROVER_assert(_dbus_string_get_byte(&h.data, 0) == 'l', "byte order");
}
