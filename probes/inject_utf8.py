import sys
src=open('/repo/dbus/dbus-string.c').read()
i=src.index('_dbus_string_validate_utf8  (const DBusString *str,')
j=src.index('while (p < end)', i)
k=j+len('while (p < end)')
inv='''
  __CPROVER_assigns(p)
  __CPROVER_loop_invariant(__CPROVER_same_object(p, real->str) && __CPROVER_same_object(end, real->str))
  __CPROVER_loop_invariant(__CPROVER_POINTER_OFFSET(real->str) + start <= __CPROVER_POINTER_OFFSET(p) && __CPROVER_POINTER_OFFSET(p) <= __CPROVER_POINTER_OFFSET(end))
  __CPROVER_loop_invariant(VERIF_UTF8_PREFIX_OK(real->str + start, (p - (real->str + start)), verif_gk))
  __CPROVER_decreases(__CPROVER_POINTER_OFFSET(end) - __CPROVER_POINTER_OFFSET(p))
'''
src=src[:k]+inv+src[k:]
src='#include "verif_utf8_spec.h"\n'+src
open('string_inj.c','w').write(src)
