#include "/repo/dbus/dbus-object-tree.c"
_Bool nondet_bool(void); int nondet_int(void);
static DBusHandlerResult h(DBusConnection *c, DBusMessage *m, void *d) { return DBUS_HANDLER_RESULT_NOT_YET_HANDLED; }
static const DBusObjectPathVTable vt = { NULL, h, NULL, NULL, NULL, NULL };
static const char *comp[3] = { "a", "ab", "b" };
static void pick(const char **path) { /* path of depth 0..2 over {a,ab,b} */
  int d = nondet_int(); __CPROVER_assume(d >= 0 && d <= 2);
  for (int i = 0; i < 2; i++) { int k = nondet_int(); __CPROVER_assume(k >= 0 && k < 3); path[i] = i < d ? comp[k] : NULL; }
  path[2] = NULL; }
static int same(const char **p, const char **q) { for (int i = 0; i < 3; i++) { if (p[i] == NULL || q[i] == NULL) return p[i] == q[i]; if (p[i] != q[i]) return 0; } return 1; }
void harness(void)
{
  DBusObjectTree *t = _dbus_object_tree_new(NULL); __CPROVER_assume(t != NULL);
  const char *p1[3], *p2[3], *q[3]; int u1, u2; DBusError e1 = DBUS_ERROR_INIT, e2 = DBUS_ERROR_INIT;
  pick(p1); pick(p2); pick(q);
  dbus_bool_t r1 = _dbus_object_tree_register(t, nondet_bool(), p1, &vt, &u1, &e1); __CPROVER_assume(r1);
  dbus_bool_t r2 = _dbus_object_tree_register(t, nondet_bool(), p2, &vt, &u2, &e2);
  /* occupied path refuses, and only then (modulo OOM) */
  if (same(p1, p2)) __CPROVER_assert(!r2, "occupied path is refused");
  void *got = _dbus_object_tree_get_user_data_unlocked(t, q);
  void *want = same(q, p1) ? (void*)&u1 : (r2 && same(q, p2)) ? (void*)&u2 : NULL;
  __CPROVER_assert(got == want, "exact lookup equals reference map");
}
