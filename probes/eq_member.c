#include <config.h>
#include "dbus/dbus-internals.h"
#include "dbus/dbus-string.h"
#include "dbus/dbus-marshal-validate.h"
#define INITCH(c) (((c)>='A'&&(c)<='Z')||((c)>='a'&&(c)<='z')||(c)=='_')
#define NAMECH(c) (INITCH(c)||((c)>='0'&&(c)<='9'))
#ifndef N
#define N 300
#endif
static int spec_member(const unsigned char *b, int len)
{
  if (len < 1 || len > 255) return 0;
  if (!INITCH(b[0])) return 0;
  for (int i = 1; i < len; i++) if (!NAMECH(b[i])) return 0;
  return 1;
}
void harness(void)
{
  unsigned char buf[N+1]; int len; DBusString s;
  __CPROVER_assume(len >= 0 && len <= N);
  _dbus_string_init_const_len(&s, (const char*)buf, len);
  dbus_bool_t r = _dbus_validate_member(&s, 0, len);
  __CPROVER_assert((r != 0) == (spec_member(buf, len) != 0), "member == spec");
}
