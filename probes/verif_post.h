/* verification prelude (inserted after the last #include of an extracted TU) */
#undef _dbus_assert
#define _dbus_assert(c) { __CPROVER_assert((c), "dbus assertion: " #c); __CPROVER_assume(c); }
#undef _dbus_assert_not_reached
#define _dbus_assert_not_reached(e) { __CPROVER_assert(0, "dbus assert_not_reached"); __CPROVER_assume(0); }
#undef _dbus_verbose
#define _dbus_verbose(...) { }
