#include <stdio.h>
#include "/repo/bus/signals.c"
int main(void)
{
  DBusString s; DBusError e; dbus_error_init(&e);
  _dbus_string_init_const(&s, "arg0path=''");
  BusMatchRule *r = bus_match_rule_parse(NULL, &s, &e);
  printf("parse arg0path='' -> %s\n", r ? "accepted" : e.message); fflush(stdout);
  DBusMessage *m = dbus_message_new_signal("/a", "a.b", "M");
  const char *arg = "a";
  dbus_message_append_args(m, DBUS_TYPE_STRING, &arg, DBUS_TYPE_INVALID);
  dbus_bool_t res = match_rule_matches(r, NULL, NULL, m, 0);
  printf("matches=%d\n", res);
  return 0;
}
