#!/bin/bash
# usage: run.sh <mode> <DEF> <cbmc extra...>
mode=$1; DEF=$2; shift 2
F="-DDBUS_COMPILATION -DHAVE_CONFIG_H -D_GNU_SOURCE -I/repo -I/repo/_build -I/repo/dbus"
set -e; python3 inject_member.py $mode && goto-cc $F -c validate_inj.c -o validate_inj.gb && goto-cc $F -D$DEF -c c_member.c -o c_member.gb && goto-cc --function harness c_member.gb validate_inj.gb stubs.gb string.gb -o linked.gb && goto-instrument --dfcc harness --enforce-contract _dbus_validate_member --apply-loop-contracts linked.gb inst.gb >/dev/null 2>&1
( time timeout 300 cbmc --bounds-check --pointer-check --signed-overflow-check --pointer-overflow-check "$@" inst.gb 2>&1 | grep -v "SUCCESS$" | grep -v "UNKNOWN$" | tail -15 )
