#include "/repo/dbus/dbus-auth.c"
int g_mech_ok;  /* ghost: a mechanism has succeeded since the last rejection */
#define ST(a) ((a)->state)
static dbus_bool_t send_error (DBusAuth *auth, const char *message)
__CPROVER_requires(auth != NULL) __CPROVER_assigns() ;
static dbus_bool_t send_rejected (DBusAuth *auth)
__CPROVER_requires(auth != NULL)
__CPROVER_assigns(auth->state, g_mech_ok)
__CPROVER_ensures(__CPROVER_return_value ==> (g_mech_ok == 0 && (ST(auth) == &server_state_waiting_for_auth || ST(auth) == &common_state_need_disconnect)))
__CPROVER_ensures(!__CPROVER_return_value ==> (ST(auth) == __CPROVER_old(ST(auth)) && g_mech_ok == __CPROVER_old(g_mech_ok)));
static dbus_bool_t send_agree_unix_fd (DBusAuth *auth)
__CPROVER_requires(auth != NULL) __CPROVER_assigns(auth->unix_fd_negotiated);

#define AUTH_INV(a) ((ST(a) == &server_state_waiting_for_begin || ST(a) == &common_state_authenticated) ==> g_mech_ok)

static dbus_bool_t handle_server_state_waiting_for_begin (DBusAuth *auth, DBusAuthCommand command, const DBusString *args)
__CPROVER_requires(__CPROVER_is_fresh(auth, sizeof(DBusAuthServer)))
__CPROVER_requires(ST(auth) == &server_state_waiting_for_begin && AUTH_INV(auth))
__CPROVER_assigns(auth->state, g_mech_ok, auth->unix_fd_negotiated)
__CPROVER_ensures(AUTH_INV(auth))
__CPROVER_ensures(ST(auth) == &common_state_authenticated ==> (command == DBUS_AUTH_COMMAND_BEGIN && __CPROVER_old(g_mech_ok)))
__CPROVER_ensures(ST(auth) == &server_state_waiting_for_begin || ST(auth) == &common_state_authenticated || ST(auth) == &server_state_waiting_for_auth || ST(auth) == &common_state_need_disconnect)
;
void harness(void){ DBusAuth *a; DBusAuthCommand c; const DBusString *s; handle_server_state_waiting_for_begin(a,c,s); }
