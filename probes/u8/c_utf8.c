#include <config.h>
#include "dbus/dbus-internals.h"
#include "dbus/dbus-string.h"
#define DBUS_CAN_USE_DBUS_STRING_PRIVATE 1
#include "dbus/dbus-string-private.h"
#include "verif_utf8_spec.h"
#define REAL(s) ((const DBusRealString*)(s))
#define BUF(s,st) (REAL(s)->str + (st))
long verif_gk; long verif_w;
dbus_bool_t _dbus_string_validate_utf8 (const DBusString *str, int start, int len)
__CPROVER_requires(__CPROVER_is_fresh(str, sizeof(DBusString)))
__CPROVER_requires(REAL(str)->valid && REAL(str)->len >= 0 && REAL(str)->len <= MAXLEN && REAL(str)->allocated >= REAL(str)->len + 8 && REAL(str)->allocated <= 0x7ffffff8)
__CPROVER_requires(__CPROVER_is_fresh(REAL(str)->str, REAL(str)->len + 1))
__CPROVER_requires(start >= 0 && len >= 0 && start <= REAL(str)->len)
__CPROVER_assigns(verif_w)
__CPROVER_ensures(__CPROVER_return_value == 0 || __CPROVER_return_value == 1)
__CPROVER_ensures(__CPROVER_return_value ==> (len <= REAL(str)->len - start))
__CPROVER_ensures(__CPROVER_return_value ==> VERIF_UTF8_PREFIX_OK(BUF(str,start), len, verif_gk))
__CPROVER_ensures(!__CPROVER_return_value ==> (len > REAL(str)->len - start || (0 <= verif_w && verif_w < len && !U8_LOCAL_OK(BUF(str,start), len, verif_w))))
;
void harness(void) { const DBusString *s; int start, len; _dbus_string_validate_utf8(s, start, len); }
