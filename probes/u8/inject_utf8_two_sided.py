# design-session probe: overlay for _dbus_string_validate_utf8 (loop contract + 6 ghost-witness sites)
import re
src=open('/repo/dbus/dbus-string.c').read()
i=src.index('_dbus_string_validate_utf8  (const DBusString *str,')
e=src.index('\n}\n', i)
body=src[i:e]
j=body.index('while (p < end)'); k=j+len('while (p < end)')
B='(real->str + start)'
inv='''
  __CPROVER_assigns(p, verif_w)
  __CPROVER_loop_invariant(__CPROVER_same_object(p, real->str) && __CPROVER_same_object(end, real->str))
  __CPROVER_loop_invariant(__CPROVER_POINTER_OFFSET(real->str) + start <= __CPROVER_POINTER_OFFSET(p) && __CPROVER_POINTER_OFFSET(p) <= __CPROVER_POINTER_OFFSET(end))
  __CPROVER_loop_invariant(VERIF_UTF8_PREFIX_OK(BASE_, (p - BASE_), verif_gk))
  __CPROVER_loop_invariant(VERIF_UTF8_BOUNDARY(BASE_, (p - BASE_)))
  __CPROVER_decreases(__CPROVER_POINTER_OFFSET(end) - __CPROVER_POINTER_OFFSET(p))
'''.replace('BASE_',B)
body=body[:k]+inv+body[k:]
pre,post=body[:k+len(inv)],body[k+len(inv):]
post=re.sub(r'\bbreak;', '{ verif_w = p - %s; break; }'%B, post)
src=src[:i]+pre+post+src[e:]
open('string_inj.c','w').write('#include "verif_utf8_spec.h"\n'+src)
# then: goto-cc; goto-instrument --unwindset _dbus_string_validate_utf8.1:7 --unwinding-assertions;
#       goto-instrument --dfcc harness --enforce-contract _dbus_string_validate_utf8 --apply-loop-contracts;
#       cbmc --bounds-check --pointer-check --signed-overflow-check --sat-solver cadical
