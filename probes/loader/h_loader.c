#include "message_inj.c"
/* ghost model of the loader buffer: only its length and the framing verdicts matter here */
struct verif_loader_ghost G_ld;
_Bool nondet_bool(void); int nondet_int(void);
void _dbus_real_assert (dbus_bool_t condition, const char *condition_text, const char *file, int line, const char *func)
{ __CPROVER_assert(condition, "dbus internal assertion"); __CPROVER_assume(condition); }
void _dbus_verbose_real (const char *file, const int line, const char *function, const char *format, ...) {}
/* ---- callee contracts as stubs ---- */
int verif_stub_string_get_length (const DBusString *s) { return G_ld.len; }
/* contract of _dbus_header_have_message_untrusted as proved in unit C01.1: verdict is a function of the first 16 bytes; TRUE => 16 <= hl, 0 <= bl, hl+bl <= len */
dbus_bool_t verif_stub_have_message (int max, DBusValidity *validity, int *byte_order, int *fields_array_len, int *header_len, int *body_len, const DBusString *str, int start, int len)
{ __CPROVER_assert(start == 0 && len == G_ld.len && len >= 16, "precondition of _dbus_header_have_message_untrusted");
  int v = nondet_int(); int hl = nondet_int(), bl = nondet_int(); dbus_bool_t r = nondet_bool();
  if (v == DBUS_VALID) { __CPROVER_assume(hl >= 16 && hl % 8 == 0 && bl >= 0 && hl <= 0x8000000 && bl <= 0x8000000 && r == (hl + bl <= len)); *header_len = hl; *body_len = bl; *fields_array_len = nondet_int(); *byte_order = nondet_int(); }
  else { __CPROVER_assume(!r); }
  *validity = v; return r; }
static char one_msg; 
DBusMessage *verif_stub_new_empty_header (void) { if (nondet_bool()) return NULL; G_ld.new_empty++; return (DBusMessage*)&one_msg; }
void verif_stub_message_unref (DBusMessage *m) { G_ld.unrefs++; }
/* contract of load_message (lemma F2): success consumes exactly hl+bl and appends one message; failure changes nothing but may set corrupted */
dbus_bool_t verif_stub_load_message (DBusMessageLoader *loader, DBusMessage *message, int byte_order, int fields_array_len, int header_len, int body_len)
{ __CPROVER_assert(!loader->corrupted && header_len + body_len <= G_ld.len && header_len >= 16 && body_len >= 0, "precondition of load_message");
  if (nondet_bool()) { G_ld.len -= header_len + body_len; G_ld.consumed += header_len + body_len; G_ld.loaded++; if (loader->corrupted) G_ld.loaded_after_corrupt++; return 1; }
  if (nondet_bool()) { loader->corrupted = 1; int why = nondet_int(); __CPROVER_assume(why != DBUS_VALID); loader->corruption_reason = why; }
  return 0; }
void harness(void)
{
  DBusMessageLoader L; L.corrupted = nondet_bool(); L.corruption_reason = nondet_int(); L.max_message_size = nondet_int();
  __CPROVER_assume((L.corrupted != 0) == (L.corruption_reason != DBUS_VALID));
  G_ld.len = nondet_int(); __CPROVER_assume(G_ld.len >= 0); G_ld.consumed = 0; G_ld.loaded = 0; G_ld.loaded_after_corrupt = 0; G_ld.new_empty = 0; G_ld.unrefs = 0;
  int len0 = G_ld.len; dbus_bool_t was_corrupt = L.corrupted;
  dbus_bool_t r = _dbus_message_loader_queue_messages(&L);
  __CPROVER_assert((L.corrupted != 0) == (L.corruption_reason != DBUS_VALID), "corrupted <=> reason != VALID");
  __CPROVER_assert(!(was_corrupt) || (G_ld.loaded == 0 && G_ld.len == len0), "a corrupted loader frames nothing more");
  __CPROVER_assert(G_ld.loaded_after_corrupt == 0, "no message is produced after corruption is detected");
  __CPROVER_assert(G_ld.consumed + G_ld.len == len0, "bytes are only consumed as whole frames from the front");
  __CPROVER_assert(!was_corrupt || L.corrupted, "corruption is sticky");
}
