struct verif_loader_ghost { int len; int consumed; int loaded; int loaded_after_corrupt; int new_empty; int unrefs; };
extern struct verif_loader_ghost G_ld;
