#include <config.h>
#include "dbus/dbus-internals.h"
#include <stdlib.h>
void _dbus_real_assert (dbus_bool_t condition, const char *condition_text, const char *file, int line, const char *func)
{ __CPROVER_assert(condition, "dbus internal assertion"); __CPROVER_assume(condition); }
void _dbus_real_assert_not_reached (const char *explanation, const char *file, int line)
{ __CPROVER_assert(0, "dbus assert_not_reached"); __CPROVER_assume(0); }
void _dbus_verbose_real (const char *file, const int line, const char *function, const char *format, ...) {}
dbus_bool_t _dbus_lock (DBusGlobalLock lock) { return 1; }
void _dbus_unlock (DBusGlobalLock lock) {}
void *dbus_malloc (size_t n) { return malloc(n); }
void *dbus_malloc0 (size_t n) { return calloc(n,1); }
void *dbus_realloc (void *m, size_t n) { return realloc(m,n); }
void dbus_free (void *m) { free(m); }
