#include "/repo/bus/policy.c"
#ifndef NRULES
#define NRULES 3
#endif
#define L 4  /* max string length */
int nondet_int(void); unsigned char nondet_uchar(void); _Bool nondet_bool(void);
/* independent reference: man page <allow own=.../own_prefix=...>: last matching rule decides; default deny */
static int spec_prefix_words(const char *name, const char *pre) {
  size_t n = strlen(pre);
  if (strncmp(name, pre, n) != 0) return 0;
  return name[n] == '\0' || name[n] == '.';
}
static void mkstr(char *b) { for (int i = 0; i < L; i++) { unsigned char c = nondet_uchar(); __CPROVER_assume(c=='a'||c=='.'||c==0); b[i]=c; } b[L]=0; }
void harness(void)
{
  DBusList *rules = NULL;
  BusPolicyRule r[NRULES]; char names[NRULES][L+1]; char want[L+1];
  int n = nondet_int(); __CPROVER_assume(n >= 0 && n <= NRULES);
  int expected = 0;
  mkstr(want);
  for (int i = 0; i < NRULES; i++) {
    if (i >= n) break;
    r[i].refcount = 1;
    r[i].type = nondet_bool() ? BUS_POLICY_RULE_OWN : BUS_POLICY_RULE_SEND;
    r[i].allow = nondet_bool();
    if (r[i].type == BUS_POLICY_RULE_OWN) {
      mkstr(names[i]);
      r[i].d.own.service_name = nondet_bool() ? names[i] : NULL;
      r[i].d.own.prefix = nondet_bool();
      __CPROVER_assume(!(r[i].d.own.prefix && r[i].d.own.service_name == NULL)); /* config parser never builds prefix rule without a name */
      int m = r[i].d.own.service_name == NULL ? 1 : (r[i].d.own.prefix ? spec_prefix_words(want, names[i]) : strcmp(want, names[i]) == 0);
      if (m) expected = r[i].allow;
    }
    dbus_bool_t ok = _dbus_list_append(&rules, &r[i]); __CPROVER_assume(ok);
  }
  DBusString s; _dbus_string_init_const(&s, want);
  dbus_bool_t got = bus_rules_check_can_own(rules, &s);
  __CPROVER_assert((got != 0) == (expected != 0), "own decision == last-match-wins spec");
}
