#include <config.h>
#include <dbus/dbus-internals.h>
#include <dbus/dbus-string.h>
#include <dbus/dbus-marshal-byteswap.h>
#include <dbus/dbus-marshal-validate.h>
#include <stdio.h>
int main(void){
  DBusString sig, body; _dbus_string_init_const(&sig, "h");
  if (!_dbus_string_init(&body)) return 2;
  unsigned char v[4]={0,0,0,1}; _dbus_string_append_len(&body,(const char*)v,4);
  printf("validate(BE 'h') = %d\n", _dbus_validate_body_with_reason(&sig,0,DBUS_BIG_ENDIAN,NULL,&body,0,4)); fflush(stdout);
  _dbus_marshal_byteswap(&sig,0,DBUS_BIG_ENDIAN,DBUS_LITTLE_ENDIAN,&body,0);
  printf("swapped ok: %02x %02x %02x %02x\n", _dbus_string_get_byte(&body,0),_dbus_string_get_byte(&body,1),_dbus_string_get_byte(&body,2),_dbus_string_get_byte(&body,3));
  return 0; }
