#include "validate_body_inj2.c"
#define DBUS_CAN_USE_DBUS_STRING_PRIVATE 1
#include "dbus/dbus-string-private.h"
#define REAL(s) ((const DBusRealString*)(s))
#define IS_TYPECODE_OR_INVALID(t) ((t)==0||(t)=='y'||(t)=='b'||(t)=='n'||(t)=='q'||(t)=='i'||(t)=='u'||(t)=='h'||(t)=='x'||(t)=='t'||(t)=='d'||(t)=='s'||(t)=='o'||(t)=='g'||(t)=='v'||(t)=='a'||(t)=='r'||(t)=='e')
#define STR_OK(s) (REAL(s)->valid && REAL(s)->len >= 0 && REAL(s)->str != NULL)

/* ghost: the buffer being validated (allocation = len + 8: DBusString padding, align_offset 0) */
unsigned char *verif_buf; long verif_buf_len;

int _dbus_type_reader_get_current_type (const DBusTypeReader *reader)
__CPROVER_requires(reader != NULL)
__CPROVER_assigns()
__CPROVER_ensures(IS_TYPECODE_OR_INVALID(__CPROVER_return_value));
int _dbus_type_reader_get_element_type (const DBusTypeReader *reader)
__CPROVER_requires(reader != NULL)
__CPROVER_assigns();
void _dbus_type_reader_recurse (DBusTypeReader *reader, DBusTypeReader *sub)
__CPROVER_requires(reader != NULL && sub != NULL)
__CPROVER_assigns(*sub);
dbus_bool_t _dbus_type_reader_next (DBusTypeReader *reader)
__CPROVER_requires(reader != NULL)
__CPROVER_assigns(*reader);
void _dbus_type_reader_init_types_only (DBusTypeReader *reader, const DBusString *type_str, int type_pos)
__CPROVER_requires(reader != NULL && STR_OK(type_str) && type_pos >= 0 && type_pos <= REAL(type_str)->len)
__CPROVER_assigns(*reader);
int _dbus_first_type_in_signature (const DBusString *str, int pos)
__CPROVER_requires(STR_OK(str) && pos >= 0 && pos <= REAL(str)->len)
__CPROVER_assigns()
__CPROVER_ensures(IS_TYPECODE_OR_INVALID(__CPROVER_return_value));
DBusValidity _dbus_validate_signature_with_reason (const DBusString *type_str, int type_pos, int len)
__CPROVER_requires(STR_OK(type_str) && type_pos >= 0 && len >= 0 && type_pos + len <= REAL(type_str)->len)
__CPROVER_requires(__CPROVER_r_ok(REAL(type_str)->str + type_pos, len))
__CPROVER_assigns();
dbus_bool_t _dbus_validate_path (const DBusString *str, int start, int len)
__CPROVER_requires(STR_OK(str) && start >= 0 && len >= 0 && start <= REAL(str)->len)
__CPROVER_requires(__CPROVER_r_ok(REAL(str)->str, REAL(str)->len))
__CPROVER_assigns();
dbus_bool_t _dbus_string_validate_utf8 (const DBusString *str, int start, int len)
__CPROVER_requires(STR_OK(str) && start >= 0 && len >= 0 && start <= REAL(str)->len)
__CPROVER_requires(__CPROVER_r_ok(REAL(str)->str, REAL(str)->len))
__CPROVER_assigns();

static DBusValidity
validate_body_helper (DBusTypeReader *reader, int byte_order, dbus_bool_t walk_reader_to_end, int total_depth,
                      const unsigned char *p, const unsigned char *end, const unsigned char **new_p)
__CPROVER_requires(__CPROVER_is_fresh(reader, sizeof(DBusTypeReader)))
__CPROVER_requires(verif_buf_len >= 0 && verif_buf_len <= 0x8000000)
__CPROVER_requires(__CPROVER_is_fresh(verif_buf, verif_buf_len + 8))
__CPROVER_requires(__CPROVER_same_object(p, verif_buf) && __CPROVER_same_object(end, verif_buf))
__CPROVER_requires(__CPROVER_POINTER_OFFSET(p) <= __CPROVER_POINTER_OFFSET(end) && __CPROVER_POINTER_OFFSET(end) <= verif_buf_len)
__CPROVER_requires(new_p == NULL || __CPROVER_is_fresh(new_p, sizeof(*new_p)))
__CPROVER_requires(total_depth >= 0 && total_depth <= 1000)
__CPROVER_assigns(__CPROVER_object_whole(reader); new_p != NULL: *new_p)
__CPROVER_ensures((__CPROVER_return_value == DBUS_VALID && new_p != NULL) ==>
    (__CPROVER_same_object(*new_p, end) && __CPROVER_POINTER_OFFSET(*new_p) >= __CPROVER_POINTER_OFFSET(p) && __CPROVER_POINTER_OFFSET(*new_p) <= __CPROVER_POINTER_OFFSET(end)))
;
void harness(void) {
  DBusTypeReader *r; int bo; dbus_bool_t w; int d; const unsigned char *p, *e; const unsigned char **np;
  validate_body_helper(r, bo, w, d, p, e, np);
}
