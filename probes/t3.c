#include <dbus/dbus.h>
#include <stdio.h>
#include <stdlib.h>
#include <string.h>
int main(void){
  DBusMessage *m = dbus_message_new_signal("/a","a.b","M");
  dbus_uint32_t arr[2]={1,2}; const dbus_uint32_t *pa=arr;
  dbus_message_append_args(m, DBUS_TYPE_ARRAY, DBUS_TYPE_UINT32, &pa, 2, DBUS_TYPE_INVALID);
  dbus_message_set_serial(m, 1);
  char *buf; int len; dbus_message_marshal(m,&buf,&len);
  /* body = last 12 bytes: u32 len=8, 8 bytes. patch to len=6 and drop 2 bytes */
  unsigned char *b=(unsigned char*)buf; int body_off=len-12;
  printf("total=%d body_len_field=%u arraylen=%u\n", len, *(unsigned*)(b+4), *(unsigned*)(b+body_off));
  *(unsigned*)(b+body_off)=6; *(unsigned*)(b+4)=10;
  DBusError e; dbus_error_init(&e);
  DBusMessage *r = dbus_message_demarshal((char*)b, len-2, &e);
  printf("au with byte length 6: %s %s\n", r? "ACCEPTED":"rejected", dbus_error_is_set(&e)?e.message:"");
  if (r) { DBusMessageIter it, sub; dbus_message_iter_init(r,&it); dbus_message_iter_recurse(&it,&sub); int n=0; const dbus_uint32_t *v; dbus_message_iter_get_fixed_array(&sub,&v,&n); printf("n elements reported=%d\n", n); }
  return 0; }
