#include <config.h>
#include "dbus/dbus-internals.h"
#include "dbus/dbus-string.h"
#include "dbus/dbus-marshal-header.h"
#include "dbus/dbus-marshal-validate.h"
#include "dbus/dbus-protocol.h"
unsigned char nondet_uchar(void); _Bool nondet_bool(void); int nondet_int(void);
void harness(void)
{
  DBusHeader h; 
  __CPROVER_assume(_dbus_header_init(&h));
  char member[4] = {'M', 0, 0, 0}; char dest[6] = {'a','.','b',0,0,0};
  int bo = nondet_bool() ? DBUS_LITTLE_ENDIAN : DBUS_BIG_ENDIAN;
  dbus_bool_t ok = _dbus_header_create(&h, bo, DBUS_MESSAGE_TYPE_METHOD_CALL, NULL, "/p", NULL, member, NULL);
  __CPROVER_assume(ok);
  int n = nondet_int(); __CPROVER_assume(n >= 0 && n <= 2);
  for (int i = 0; i < n; i++) dest[3+i] = 'c';
  const char *d = dest;
  ok = _dbus_header_set_field_basic(&h, DBUS_HEADER_FIELD_DESTINATION, DBUS_TYPE_STRING, &d);
  __CPROVER_assume(ok);
  /* re-validate the edited header as untrusted wire data */
  DBusHeader h2; __CPROVER_assume(_dbus_header_init(&h2));
  DBusValidity v; int len = _dbus_string_get_length(&h.data);
  __CPROVER_assert(len % 8 == 0, "header length is a multiple of 8");
  _dbus_header_set_serial(&h, 1);
  dbus_bool_t r = _dbus_header_load(&h2, DBUS_VALIDATION_MODE_DATA_IS_UNTRUSTED, &v, bo, len - 16 - h.padding, len, 0, &h.data);
  __CPROVER_assert(r || v == DBUS_VALIDITY_UNKNOWN_OOM_ERROR, "edited header re-validates");
}
