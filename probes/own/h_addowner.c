#include "/repo/bus/services.c"
_Bool nondet_bool(void); int nondet_int(void); unsigned nondet_uint(void);
void _dbus_real_assert (dbus_bool_t condition, const char *condition_text, const char *file, int line, const char *func)
{ __CPROVER_assert(condition, "dbus internal assertion"); __CPROVER_assume(condition); }
void _dbus_real_assert_not_reached (const char *explanation, const char *file, int line)
{ __CPROVER_assert(0, "dbus assert_not_reached"); __CPROVER_assume(0); }
void _dbus_verbose_real (const char *file, const int line, const char *function, const char *format, ...) {}
/* ---- trusted stubs: link and owner allocation from static pools (may fail) ---- */
static DBusList link_pool[8]; static int link_used;
DBusList *verif_alloc_link (void *data) { if (nondet_bool() || link_used >= 8) return NULL; DBusList *l = &link_pool[link_used++]; l->data = data; l->prev = l->next = NULL; return l; }
void verif_free_link (DBusList *l) { }
static BusOwner owner_pool[4]; static int owner_used;
void *_dbus_mem_pool_alloc (DBusMemPool *pool) { if (nondet_bool() || owner_used >= 4) return NULL; BusOwner *o = &owner_pool[owner_used++]; o->refcount = 0; o->service = NULL; o->conn = NULL; o->allow_replacement = 0; o->do_not_queue = 0; return o; }
dbus_bool_t _dbus_mem_pool_dealloc (DBusMemPool *pool, void *element) { return 0; }
void *dbus_malloc (size_t n) { return nondet_bool() ? NULL : malloc(n); }
void dbus_free (void *p) { free(p); }
/* ---- contract stubs for the bus API used by add_owner ---- */
int g_acquired_sent, g_hooks; 
dbus_bool_t bus_driver_send_service_acquired (DBusConnection *c, const char *name, BusTransaction *t, DBusError *e) { dbus_bool_t ok = nondet_bool(); if (ok) g_acquired_sent++; else if (e) e->name = "oom"; return ok; }
dbus_bool_t bus_connection_add_owned_service (DBusConnection *c, BusService *s) { return nondet_bool(); }
void bus_connection_remove_owned_service (DBusConnection *c, BusService *s) { }
dbus_bool_t bus_transaction_add_cancel_hook (BusTransaction *t, BusTransactionCancelFunction f, void *d, DBusFreeFunction ff) { dbus_bool_t ok = nondet_bool(); if (ok) g_hooks++; return ok; }
DBusConnection *dbus_connection_ref (DBusConnection *c) { return c; }
void dbus_set_error_const (DBusError *e, const char *name, const char *msg) { if (e) { e->name = name; e->message = msg; } }
dbus_bool_t dbus_error_is_set (const DBusError *e) { return e->name != NULL; }

#define MAXQ 2
void harness(void)
{
  static char c0, c1, c2; DBusConnection *conns[3] = { (DBusConnection*)&c0, (DBusConnection*)&c1, (DBusConnection*)&c2 };
  BusRegistry reg; BusService svc; BusOwner pre[MAXQ]; DBusList prel[MAXQ]; DBusError err; BusTransaction *t = (BusTransaction*)&c2;
  svc.refcount = 1; svc.registry = &reg; svc.name = "n"; svc.owners = NULL; err.name = NULL; err.message = NULL;
  int n = nondet_int(); __CPROVER_assume(n >= 0 && n <= MAXQ);
  /* queue before: conns[0] (primary), conns[1] */
  for (int i = 0; i < MAXQ; i++) if (i < n) {
    pre[i].refcount = 1; pre[i].service = &svc; pre[i].conn = conns[i]; pre[i].allow_replacement = nondet_bool(); pre[i].do_not_queue = nondet_bool();
    prel[i].data = &pre[i];
    if (svc.owners == NULL) { prel[i].next = prel[i].prev = &prel[i]; svc.owners = &prel[i]; }
    else { prel[i].next = svc.owners; prel[i].prev = svc.owners->prev; svc.owners->prev->next = &prel[i]; svc.owners->prev = &prel[i]; }
  }
  int who = nondet_int(); __CPROVER_assume(who >= 0 && who <= 2);   /* requester: may already be in the queue */
  dbus_uint32_t flags = nondet_uint();
  int was_in_queue = who < n; int was_pos = who;
  dbus_bool_t ok = bus_service_add_owner(&svc, conns[who], flags, t, &err);
  /* ---- reference model (specification, RequestName): new entries go to the end, or directly behind the
     primary when REPLACE_EXISTING is given and there is a primary; a re-request refreshes the flags and,
     with REPLACE_EXISTING, moves the entry directly behind the primary ---- */
  if (ok) {
    /* collect queue */
    DBusConnection *q[4]; int m = 0; DBusList *l = svc.owners;
    if (l) do { if (m < 4) q[m] = ((BusOwner*)l->data)->conn; m++; l = l->next; } while (l != svc.owners && m <= 4);
    int expect_len = was_in_queue ? n : n + 1;
    __CPROVER_assert(m == expect_len, "queue length");
    int repl = (flags & DBUS_NAME_FLAG_REPLACE_EXISTING) != 0;
    int pos = -1; for (int i = 0; i < 4; i++) if (i < m && q[i] == conns[who]) pos = i;
    __CPROVER_assert(pos >= 0, "requester is in the queue");
    if (n == 0) __CPROVER_assert(pos == 0 && g_acquired_sent == 1, "first owner becomes primary and NameAcquired is staged");
    else if (!was_in_queue) __CPROVER_assert(pos == (repl ? 1 : n), "new entry: behind primary iff REPLACE_EXISTING, else at the end");
    else if (was_pos == 0) __CPROVER_assert(pos == (repl && n > 1 ? 1 : 0) || pos == 0, "primary re-request keeps or (code) moves?");
    else __CPROVER_assert(pos == (repl ? 1 : was_pos), "queued re-request: behind primary iff REPLACE_EXISTING");
    BusOwner *o = NULL; l = svc.owners; if (l) do { if (((BusOwner*)l->data)->conn == conns[who]) o = l->data; l = l->next; } while (l != svc.owners);
    __CPROVER_assert(o && o->allow_replacement == ((flags & DBUS_NAME_FLAG_ALLOW_REPLACEMENT) != 0) && o->do_not_queue == ((flags & DBUS_NAME_FLAG_DO_NOT_QUEUE) != 0), "flags refreshed from the latest request");
  } else {
    int m = 0; DBusList *l = svc.owners; if (l) do { m++; l = l->next; } while (l != svc.owners && m <= 4);
    __CPROVER_assert(m == n, "failure leaves the queue length unchanged");
    __CPROVER_assert(err.name != NULL, "failure sets the error");
  }
}
