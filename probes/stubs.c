#include <config.h>
#include "dbus/dbus-internals.h"
void _dbus_real_assert (dbus_bool_t condition, const char *condition_text, const char *file, int line, const char *func)
{ __CPROVER_assert(condition, "dbus internal assertion"); __CPROVER_assume(condition); }
void _dbus_real_assert_not_reached (const char *explanation, const char *file, int line)
{ __CPROVER_assert(0, "dbus assert_not_reached"); __CPROVER_assume(0); }
