#define P_NAMECH(c) ((((c)>='A'&&(c)<='Z')||((c)>='a'&&(c)<='z')||(c)=='_')||((c)>='0'&&(c)<='9'))
/* local grammar of an object path b[0..n): b[0]=='/'; every other byte is '/' not preceded by '/', or [A-Za-z0-9_] */
#define P_LOCAL_OK(b,k) ((k)==0 ? (b)[0]=='/' : ((b)[k]=='/' ? (b)[(k)-1] != '/' : P_NAMECH((b)[k])))
#define VERIF_PATH_PREFIX_OK(b,n,gk) (!((gk)>=0 && (gk)<(n)) || P_LOCAL_OK(b,gk))
/* whole-string: local everywhere, n>=1, and no trailing slash unless n==1 */
extern long verif_gk; extern long verif_w;
