#include <stdlib.h>
#include <config.h>
#include "dbus/dbus-internals.h"
#include "dbus/dbus-marshal-validate.h"
#include "dbus/dbus-marshal-recursive.h"
#include "dbus/dbus-marshal-basic.h"
#include "dbus/dbus-signature.h"
#include "dbus/dbus-string.h"
DBusValidity __CPROVER_file_local_validate_body_inj2_c_validate_body_helper (DBusTypeReader *reader, int byte_order, dbus_bool_t walk_reader_to_end, int total_depth, const unsigned char *p, const unsigned char *end, const unsigned char **new_p);
#define DBUS_CAN_USE_DBUS_STRING_PRIVATE 1
#include "dbus/dbus-string-private.h"
#define REAL(s) ((const DBusRealString*)(s))
#define IS_TYPECODE_OR_INVALID(t) ((t)==0||(t)=='y'||(t)=='b'||(t)=='n'||(t)=='q'||(t)=='i'||(t)=='u'||(t)=='h'||(t)=='x'||(t)=='t'||(t)=='d'||(t)=='s'||(t)=='o'||(t)=='g'||(t)=='v'||(t)=='a'||(t)=='r'||(t)=='e')
#define STR_OK(s) (REAL(s)->valid && REAL(s)->len >= 0 && REAL(s)->str != NULL)

/* ghost: the buffer being validated (allocation = len + 8: DBusString padding, align_offset 0) */
unsigned char *verif_buf; long verif_buf_len;


int nondet_int(void); _Bool nondet_bool(void);
#define PRE(c, what) __CPROVER_assert((c), "precondition of " what)
static int verif_typecode(void) { int t = nondet_int(); __CPROVER_assume(IS_TYPECODE_OR_INVALID(t)); return t; }
int verif_stub_get_current_type (const DBusTypeReader *reader) { PRE(reader != NULL, "get_current_type"); return verif_typecode(); }
int verif_stub_get_element_type (const DBusTypeReader *reader) { PRE(reader != NULL, "get_element_type"); return nondet_int(); }
void verif_stub_recurse (DBusTypeReader *reader, DBusTypeReader *sub) { PRE(reader != NULL && sub != NULL, "recurse"); sub->type_pos = nondet_int(); sub->value_pos = nondet_int(); sub->finished = nondet_bool(); }
dbus_bool_t verif_stub_next (DBusTypeReader *reader) { PRE(reader != NULL, "next"); reader->type_pos = nondet_int(); reader->finished = nondet_bool(); return nondet_bool(); }
void verif_stub_init_types_only (DBusTypeReader *reader, const DBusString *type_str, int type_pos) { PRE(reader != NULL && STR_OK(type_str) && type_pos >= 0 && type_pos <= REAL(type_str)->len, "init_types_only"); reader->type_pos = type_pos; reader->finished = 0; }
int verif_stub_first_type (const DBusString *str, int pos) { PRE(STR_OK(str) && pos >= 0 && pos <= REAL(str)->len, "first_type_in_signature"); return verif_typecode(); }
DBusValidity verif_stub_validate_signature (const DBusString *type_str, int type_pos, int len) { PRE(STR_OK(type_str) && type_pos >= 0 && len >= 0 && type_pos + len <= REAL(type_str)->len && __CPROVER_r_ok(REAL(type_str)->str + type_pos, len), "validate_signature"); return nondet_int(); }
dbus_bool_t verif_stub_validate_path (const DBusString *str, int start, int len) { PRE(STR_OK(str) && start >= 0 && len >= 0 && start <= REAL(str)->len && __CPROVER_r_ok(REAL(str)->str, REAL(str)->len), "validate_path"); return nondet_bool(); }
dbus_bool_t verif_stub_validate_utf8 (const DBusString *str, int start, int len) { PRE(STR_OK(str) && start >= 0 && len >= 0 && start <= REAL(str)->len && __CPROVER_r_ok(REAL(str)->str, REAL(str)->len), "validate_utf8"); return nondet_bool(); }

unsigned char nondet_uchar(void); long nondet_long(void);
/* contract of validate_body_helper as a stub, used at its three recursive call sites */
DBusValidity verif_stub_vbh (DBusTypeReader *reader, int byte_order, dbus_bool_t walk, int total_depth,
                             const unsigned char *p, const unsigned char *end, const unsigned char **new_p)
{ __CPROVER_assert(reader != NULL && __CPROVER_same_object(p, end) && __CPROVER_same_object(p, verif_buf)
                   && __CPROVER_POINTER_OFFSET(p) <= __CPROVER_POINTER_OFFSET(end) && __CPROVER_POINTER_OFFSET(end) <= verif_buf_len
                   && total_depth >= 0, "precondition of validate_body_helper (recursive call)");
  DBusValidity v = nondet_int();
  reader->type_pos = nondet_int(); reader->finished = nondet_bool();
  if (v == DBUS_VALID && new_p != NULL) { long o = nondet_long(); __CPROVER_assume(o >= (long)__CPROVER_POINTER_OFFSET(p) && o <= (long)__CPROVER_POINTER_OFFSET(end)); *new_p = verif_buf + o; }
  return v; }
void harness(void) {
  DBusTypeReader r; int bo = nondet_int(); dbus_bool_t w = nondet_bool(); int d = nondet_int(); const unsigned char *np = NULL;
  verif_buf_len = nondet_long(); __CPROVER_assume(verif_buf_len >= 0 && verif_buf_len <= 0x8000000);
  verif_buf = malloc(verif_buf_len + 8); __CPROVER_assume(verif_buf != NULL);
  long po = nondet_long(), eo = nondet_long(); __CPROVER_assume(0 <= po && po <= eo && eo <= verif_buf_len);
  __CPROVER_assume(d >= 0 && d <= 1000);
  r.type_pos = nondet_int(); r.finished = nondet_bool(); r.value_pos = nondet_int();
  
  const unsigned char *p = verif_buf + po, *e = verif_buf + eo;
  DBusValidity v = __CPROVER_file_local_validate_body_inj2_c_validate_body_helper(&r, bo, w, d, p, e, nondet_bool() ? &np : NULL);
  __CPROVER_assert(!(v == DBUS_VALID && np != NULL) || (__CPROVER_same_object(np, e) && __CPROVER_POINTER_OFFSET(np) >= po && __CPROVER_POINTER_OFFSET(np) <= eo), "VALID => p <= *new_p <= end");
}
