#include <dbus/dbus.h>
#include <stdio.h>
int main(int argc,char**argv){ const char *tests[]={"(a{s)s}","a{s(s}i)","(a{ss)}","a{ss}","(i)",NULL};
 for(int i=0;tests[i];i++){DBusError e; dbus_error_init(&e); int v=dbus_signature_validate(tests[i],&e); printf("%-12s valid=%d %s\n", tests[i], v, dbus_error_is_set(&e)?e.message:""); dbus_error_free(&e);} return 0;}
