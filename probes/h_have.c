#include <config.h>
#include "dbus/dbus-internals.h"
#include "dbus/dbus-string.h"
#define DBUS_CAN_USE_DBUS_STRING_PRIVATE 1
#include "dbus/dbus-string-private.h"
#include "dbus/dbus-marshal-header.h"
#define REAL(s) ((const DBusRealString*)(s))
#define B(i) (REAL(str)->str[start + (i)])
#define U32(i) (B(0)=='l' ? ((dbus_uint32_t)B(i) | ((dbus_uint32_t)B(i+1)<<8) | ((dbus_uint32_t)B(i+2)<<16) | ((dbus_uint32_t)B(i+3)<<24)) \
                          : ((dbus_uint32_t)B(i+3) | ((dbus_uint32_t)B(i+2)<<8) | ((dbus_uint32_t)B(i+1)<<16) | ((dbus_uint32_t)B(i)<<24)))
#define FLEN U32(12)
#define BLEN U32(4)
#define HLEN ((16ull + FLEN + 7ull) & ~7ull)
#define SPEC_VALID ((B(0)=='l'||B(0)=='B') && FLEN <= (unsigned)max && BLEN <= (unsigned)max && HLEN + BLEN <= (unsigned long long)max)
dbus_bool_t _dbus_header_have_message_untrusted (int max, DBusValidity *validity, int *byte_order, int *fields_array_len, int *header_len, int *body_len, const DBusString *str, int start, int len)
__CPROVER_requires(__CPROVER_is_fresh(str, sizeof(DBusString)))
__CPROVER_requires(REAL(str)->valid && !REAL(str)->constant && REAL(str)->len >= 0 && REAL(str)->len <= 0x7ffffff0 && REAL(str)->allocated >= REAL(str)->len + 8 && REAL(str)->allocated <= 0x7ffffff8)
__CPROVER_requires(__CPROVER_is_fresh(REAL(str)->str, REAL(str)->len + 8))
__CPROVER_requires(start >= 0 && start < 0x3fffffff && (start % 8) == 0 && len >= 16 && len <= REAL(str)->len - start)
__CPROVER_requires(max >= 0 && max <= 134217728)
__CPROVER_requires(__CPROVER_is_fresh(validity, sizeof(*validity)) && __CPROVER_is_fresh(byte_order, sizeof(int)) && __CPROVER_is_fresh(fields_array_len, sizeof(int)) && __CPROVER_is_fresh(header_len, sizeof(int)) && __CPROVER_is_fresh(body_len, sizeof(int)))
__CPROVER_assigns(*validity, *byte_order, *fields_array_len, *header_len, *body_len)
__CPROVER_ensures((*validity == DBUS_VALID) == SPEC_VALID)
__CPROVER_ensures(__CPROVER_return_value == (SPEC_VALID && HLEN + BLEN <= (unsigned long long)len))
__CPROVER_ensures(SPEC_VALID ==> (*byte_order == B(0) && *fields_array_len == (int)FLEN && *body_len == (int)BLEN && *header_len == (int)HLEN))
__CPROVER_ensures(SPEC_VALID ==> (*header_len >= 16 && *header_len % 8 == 0 && *body_len >= 0 && *header_len + *body_len <= max))
;
void harness(void){ int m; DBusValidity *v; int *a,*b,*c,*d; const DBusString *s; int st,l; _dbus_header_have_message_untrusted(m,v,a,b,c,d,s,st,l); }
