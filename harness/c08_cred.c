/* C08.cred — B unit: the real dbus/dbus-credentials.c against the set-of-credentials semantics that the P units of C08
 * assume for it (harness/c08_model.h), i.e. against its own doc comments:
 *   are_superset  "Checks whether the first credentials object contains all the credentials found in the second"
 *   add_credential "Merge the given credential found in the second object into the first object, overwriting the first object's
 *                  value for that credential. Does nothing if the second object does not contain the specified credential."
 *   add_credentials "Merge all credentials found in the second object into the first object, overwriting ..."
 *   clear / are_empty / are_anonymous ("no user identities in the object") / same_user / include / get_unix_uid
 * Bounds: at most 2 group ids, labels and SIDs of at most 2 characters, no Solaris ADT audit data (never set on this platform).
 * Allocation may fail in add_credential(s): FALSE then means "no memory", and the kinds merged so far stay merged.
 */
#include <config.h>
#include "dbus/dbus-internals.h"
#include "verif_prelude.h"
#include <stdlib.h>
#include <string.h>
#include VERIF_TU
_Bool nondet_bool (void); int nondet_int (void); unsigned long nondet_ulong (void); char nondet_char (void);
#define POST(c, what) __CPROVER_assert ((c), what)
#define IMP(a, b) (!(a) || (b))
#define REACH(tag) __CPROVER_assert (0, "REACH:" tag)
#define MAXG 2
#define MAXS 2
void _dbus_real_assert (dbus_bool_t c, const char *t, const char *f, int l, const char *fn) { __CPROVER_assert (c, "dbus assertion (inline helper)"); __CPROVER_assume (c); }
void _dbus_real_assert_not_reached (const char *e, const char *f, int l) { __CPROVER_assert (0, "dbus assert_not_reached"); __CPROVER_assume (0); }
/* memory: may fail */
void *dbus_malloc (size_t n) { if (n == 0 || nondet_bool ()) return NULL; void *p = malloc (n); __CPROVER_assume (p != NULL); return p; }
void *dbus_malloc0 (size_t n) { if (n == 0 || nondet_bool ()) return NULL; void *p = calloc (1, n); __CPROVER_assume (p != NULL); return p; }
void dbus_free (void *m) { if (m) free (m); }
char *_dbus_strdup (const char *s) { if (s == NULL) return NULL; size_t n = strlen (s); char *c = dbus_malloc (n + 1); if (c) memcpy (c, s, n + 1); return c; }
void *_dbus_memdup (const void *m, size_t n) { void *c = dbus_malloc (n); if (c) memcpy (c, m, n); return c; }
/* qsort for at most two elements (the bound of this unit) */
void qsort (void *base, size_t n, size_t size, int (*cmp) (const void *, const void *))
{
  __CPROVER_assert (n <= MAXG && size == sizeof (dbus_gid_t), "unit bound: at most two group ids");
  if (n == 2) { dbus_gid_t *g = base; if (cmp (&g[0], &g[1]) > 0) { dbus_gid_t t = g[0]; g[0] = g[1]; g[1] = t; } }
}

#ifndef VERIF_NGB
#define VERIF_NGB 2
#endif
/* fixed_n > 0: exactly that many group ids; fixed_n < 0: none; 0: arbitrary (CBMC's memcpy is exact only for constant sizes) */
static void make (DBusCredentials *c, int fixed_n)
{
  int k;
  c->refcount = 1; c->unix_uid = nondet_ulong (); c->pid = nondet_ulong ();
  c->unix_gids = NULL; c->n_unix_gids = 0; c->windows_sid = NULL; c->linux_security_label = NULL; c->adt_audit_data = NULL; c->adt_audit_data_size = 0;
  if (fixed_n > 0 || (fixed_n == 0 && nondet_bool ()))
    { size_t n; if (fixed_n > 0) n = fixed_n; else if (nondet_bool ()) n = 1; else n = 2; c->unix_gids = malloc (MAXG * sizeof (dbus_gid_t)); __CPROVER_assume (c->unix_gids != NULL); c->n_unix_gids = n;
      for (k = 0; k < MAXG; k++) c->unix_gids[k] = nondet_ulong (); if (n == 2) __CPROVER_assume (c->unix_gids[0] <= c->unix_gids[1]); }
  if (nondet_bool ()) { c->linux_security_label = malloc (MAXS + 1); __CPROVER_assume (c->linux_security_label != NULL); for (k = 0; k < MAXS; k++) c->linux_security_label[k] = nondet_char (); c->linux_security_label[MAXS] = 0; }
  if (nondet_bool ()) { c->windows_sid = malloc (MAXS + 1); __CPROVER_assume (c->windows_sid != NULL); for (k = 0; k < MAXS; k++) c->windows_sid[k] = nondet_char (); c->windows_sid[MAXS] = 0; }
}
static int str_eq (const char *a, const char *b) { int k; for (k = 0; k <= MAXS; k++) { if (a[k] != b[k]) return 0; if (a[k] == 0) return 1; } return 1; }
static int gids_eq (const DBusCredentials *a, const DBusCredentials *b)
{ size_t k; if (a->n_unix_gids != b->n_unix_gids) return 0; for (k = 0; k < MAXG; k++) if (k < a->n_unix_gids && a->unix_gids[k] != b->unix_gids[k]) return 0; return 1; }
/* the oracle: "contains all the credentials found in the second" */
static int ref_superset (const DBusCredentials *c, const DBusCredentials *s)
{
  return (s->pid == DBUS_PID_UNSET || s->pid == c->pid) && (s->unix_uid == DBUS_UID_UNSET || s->unix_uid == c->unix_uid) &&
         (s->unix_gids == NULL || (c->unix_gids != NULL && gids_eq (c, s))) && (s->windows_sid == NULL || (c->windows_sid != NULL && str_eq (c->windows_sid, s->windows_sid))) &&
         (s->linux_security_label == NULL || (c->linux_security_label != NULL && str_eq (c->linux_security_label, s->linux_security_label)));
}
static int kind_eq (const DBusCredentials *a, const DBusCredentials *b, int kind)
{
  switch (kind)
    {
    case DBUS_CREDENTIAL_UNIX_PROCESS_ID: return a->pid == b->pid;
    case DBUS_CREDENTIAL_UNIX_USER_ID: return a->unix_uid == b->unix_uid;
    case DBUS_CREDENTIAL_UNIX_GROUP_IDS: return (a->unix_gids == NULL) == (b->unix_gids == NULL) && (a->unix_gids == NULL || gids_eq (a, b));
    case DBUS_CREDENTIAL_WINDOWS_SID: return (a->windows_sid == NULL) == (b->windows_sid == NULL) && (a->windows_sid == NULL || str_eq (a->windows_sid, b->windows_sid));
    case DBUS_CREDENTIAL_LINUX_SECURITY_LABEL: return (a->linux_security_label == NULL) == (b->linux_security_label == NULL) && (a->linux_security_label == NULL || str_eq (a->linux_security_label, b->linux_security_label));
    default: return a->adt_audit_data == NULL && b->adt_audit_data == NULL;
    }
}
static int has_kind (const DBusCredentials *a, int kind)
{
  switch (kind)
    {
    case DBUS_CREDENTIAL_UNIX_PROCESS_ID: return a->pid != DBUS_PID_UNSET;
    case DBUS_CREDENTIAL_UNIX_USER_ID: return a->unix_uid != DBUS_UID_UNSET;
    case DBUS_CREDENTIAL_UNIX_GROUP_IDS: return a->unix_gids != NULL;
    case DBUS_CREDENTIAL_WINDOWS_SID: return a->windows_sid != NULL;
    case DBUS_CREDENTIAL_LINUX_SECURITY_LABEL: return a->linux_security_label != NULL;
    default: return a->adt_audit_data != NULL;
    }
}
static const int KINDS[6] = { DBUS_CREDENTIAL_UNIX_PROCESS_ID, DBUS_CREDENTIAL_UNIX_USER_ID, DBUS_CREDENTIAL_UNIX_GROUP_IDS, DBUS_CREDENTIAL_WINDOWS_SID, DBUS_CREDENTIAL_LINUX_SECURITY_LABEL, DBUS_CREDENTIAL_ADT_AUDIT_DATA_ID };
/* deep snapshot of the bounded contents */
struct snap { dbus_uid_t uid; dbus_pid_t pid; int has_g; size_t n; dbus_gid_t g[MAXG]; int has_l, has_s; char l[MAXS + 1], s[MAXS + 1]; };
static struct snap take (const DBusCredentials *c)
{ struct snap z; int k; z.uid = c->unix_uid; z.pid = c->pid; z.has_g = c->unix_gids != NULL; z.n = c->n_unix_gids; for (k = 0; k < MAXG; k++) z.g[k] = (z.has_g && (size_t) k < z.n) ? c->unix_gids[k] : 0;
  z.has_l = c->linux_security_label != NULL; z.has_s = c->windows_sid != NULL; for (k = 0; k <= MAXS; k++) { z.l[k] = z.has_l ? c->linux_security_label[k] : 0; z.s[k] = z.has_s ? c->windows_sid[k] : 0; if (z.has_l && z.l[k] == 0) z.has_l = 2; if (z.has_s && z.s[k] == 0) z.has_s = 2; if (z.has_l == 2) z.l[k] = 0; if (z.has_s == 2) z.s[k] = 0; } return z; }
static int snap_kind_eq (const DBusCredentials *c, const struct snap *z, int kind)
{
  int k;
  switch (kind)
    {
    case DBUS_CREDENTIAL_UNIX_PROCESS_ID: return c->pid == z->pid;
    case DBUS_CREDENTIAL_UNIX_USER_ID: return c->unix_uid == z->uid;
    case DBUS_CREDENTIAL_UNIX_GROUP_IDS: if ((c->unix_gids != NULL) != (z->has_g != 0)) return 0; if (!z->has_g) return 1; if (c->n_unix_gids != z->n) return 0; for (k = 0; k < MAXG; k++) if ((size_t) k < z->n && c->unix_gids[k] != z->g[k]) return 0; return 1;
    case DBUS_CREDENTIAL_WINDOWS_SID: if ((c->windows_sid != NULL) != (z->has_s != 0)) return 0; return !z->has_s || str_eq (c->windows_sid, z->s);
    case DBUS_CREDENTIAL_LINUX_SECURITY_LABEL: if ((c->linux_security_label != NULL) != (z->has_l != 0)) return 0; return !z->has_l || str_eq (c->linux_security_label, z->l);
    default: return c->adt_audit_data == NULL;
    }
}

void harness (void)
{
  DBusCredentials a, b; int i;
  make (&a, 0); make (&b, VERIF_NGB);
  struct snap a0 = take (&a), b0 = take (&b);
  /* predicates */
  POST ((_dbus_credentials_are_superset (&a, &b) != 0) == (ref_superset (&a, &b) != 0), "cred: are_superset == contains all the credentials found in the second");
  POST ((_dbus_credentials_are_anonymous (&a) != 0) == (a.unix_uid == DBUS_UID_UNSET && a.windows_sid == NULL), "cred: are_anonymous == no user identity (uid, SID)");
  POST ((_dbus_credentials_are_empty (&a) != 0) == (a.unix_uid == DBUS_UID_UNSET && a.pid == DBUS_PID_UNSET && a.unix_gids == NULL && a.windows_sid == NULL && a.linux_security_label == NULL), "cred: are_empty == nothing present");
  for (i = 0; i < 6; i++) POST ((_dbus_credentials_include (&a, KINDS[i]) != 0) == (has_kind (&a, KINDS[i]) != 0), "cred: include == the kind is present");
  POST (_dbus_credentials_get_unix_uid (&a) == a.unix_uid, "cred: get_unix_uid");
  if (!(a.unix_uid == DBUS_UID_UNSET && a.windows_sid == NULL && b.unix_uid == DBUS_UID_UNSET && b.windows_sid == NULL))   /* both without user identity: doc says FALSE, code says TRUE; not used that way by the callers */
    POST ((_dbus_credentials_same_user (&a, &b) != 0) == (a.unix_uid == b.unix_uid && kind_eq (&a, &b, DBUS_CREDENTIAL_WINDOWS_SID)), "cred: same_user == same uid and same SID");
  /* merging */
  if (nondet_bool ())
    {
      int which, w = nondet_int (); __CPROVER_assume (w >= 0 && w < 6); which = KINDS[w];
      dbus_bool_t r = _dbus_credentials_add_credential (&a, which, &b);
      POST (IMP (r && has_kind (&b, which), kind_eq (&a, &b, which)), "cred: add_credential TRUE => the first object now has the second's value of that kind");
      POST (IMP (!has_kind (&b, which), r && snap_kind_eq (&a, &a0, which)), "cred: add_credential does nothing if the second object lacks the kind");
      for (i = 0; i < 6; i++) if (KINDS[i] != which) POST (snap_kind_eq (&a, &a0, KINDS[i]), "cred: add_credential leaves the other kinds alone");
      POST (IMP (!r, snap_kind_eq (&a, &a0, which)), "cred: add_credential FALSE (no memory) => unchanged");
      if (r && has_kind (&b, which)) REACH ("merged-one"); if (!r) REACH ("merge-one-oom");
    }
  else if (nondet_bool ())
    {
      dbus_bool_t r = _dbus_credentials_add_credentials (&a, &b);
      for (i = 0; i < 6; i++)
        {
          POST (IMP (r && has_kind (&b, KINDS[i]), kind_eq (&a, &b, KINDS[i])), "cred: add_credentials TRUE => every kind present in the second is now equal in the first");
          POST (IMP (!has_kind (&b, KINDS[i]), snap_kind_eq (&a, &a0, KINDS[i])), "cred: add_credentials never deletes or changes a kind the second lacks");
          POST (snap_kind_eq (&a, &a0, KINDS[i]) || (has_kind (&b, KINDS[i]) && kind_eq (&a, &b, KINDS[i])), "cred: add_credentials (also on FALSE): each kind is either as before or the second's");
        }
      POST (IMP (r, ref_superset (&a, &b)), "cred: add_credentials TRUE => the first is a superset of the second");
      if (r) REACH ("merged-all"); else REACH ("merge-all-oom");
    }
  else
    {
      _dbus_credentials_clear (&a);
      POST (_dbus_credentials_are_empty (&a) && _dbus_credentials_are_anonymous (&a) && a.n_unix_gids == 0, "cred: clear => empty");
      REACH ("cleared");
    }
  for (i = 0; i < 6; i++) POST (snap_kind_eq (&b, &b0, KINDS[i]), "cred: the second object is never modified");
}
