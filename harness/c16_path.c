/* C16: _dbus_validate_path accepts exactly the object-path grammar (no length limit of its own). */
#include "verif_str.h"
#include "dbus/dbus-marshal-validate.h"
long verif_gk, verif_gk2, verif_w, verif_w2; int verif_flag;
#define B SB(str, start)
dbus_bool_t _dbus_validate_path (const DBusString *str, int start, int len)
STR_OK_REQUIRES(str)
__CPROVER_requires(start >= 0 && len >= 0 && start <= REAL(str)->len)
__CPROVER_assigns(verif_w)
__CPROVER_ensures(__CPROVER_return_value == 0 || __CPROVER_return_value == 1)
__CPROVER_ensures(IMP(__CPROVER_return_value, len >= 1 && len <= REAL(str)->len - start))
__CPROVER_ensures(IMP(__CPROVER_return_value, G_AT(verif_gk, len, G_PATH_LOCAL(B, len, verif_gk))))
__CPROVER_ensures(IMP(__CPROVER_return_value, G_PATH_GLOBAL(B, len)))
__CPROVER_ensures(IMP(!__CPROVER_return_value, len < 1 || len > REAL(str)->len - start
     || (0 <= verif_w && verif_w < len && !G_PATH_LOCAL(B, len, verif_w))
     || !G_PATH_GLOBAL(B, len)))
;
void harness (void)
{
  const DBusString *s; int start, len;
  dbus_bool_t r = _dbus_validate_path (s, start, len);
  if (r) REACH("accept"); else REACH("reject");
  if (r && len > 1000) REACH("accept-long");
}
