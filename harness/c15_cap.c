/* C15: descriptors read from the socket go only into the loader's array and only within its
 * capacity (_dbus_message_loader_get_unix_fds / _dbus_message_loader_return_unix_fds,
 * dbus/dbus-message.c), and reading an 'h' argument hands out a duplicate of the indexed descriptor
 * (dbus_message_iter_get_basic).  P-stub route, all three functions are loop-free.
 *   VERIF_FN == 1  get_unix_fds alone
 *   VERIF_FN == 2  get; reader contract (n_read <= offered); return   (lemma: LOADER_FD_INV is preserved)
 *   VERIF_FN == 3  dbus_message_iter_get_basic, UNIX_FD branch
 * Oracle: doc comment of the two loader functions ("We allocate space for max_message_unix_fds since
 * this is an upper limit how many fds can be received within a single message"); API documentation of
 * dbus_message_iter_get_basic ("This call duplicates Unix file descriptors when reading them. It is
 * your job to close them"); property C15 (same files, same order, closed exactly once). */
#include <config.h>
#include "dbus/dbus-internals.h"
#include "verif_prelude.h"
#include <string.h>
#include <stdlib.h>
#include VERIF_TU
#include "../stubs/c15_msg_stubs.c"
long verif_gk;
/* contract of dbus_realloc at the ghost index: NULL (nothing changed) or a block of the new size whose
 * first min(old,new) ints equal the old ones (instantiated at verif_gk); old block released */
static unsigned g_old_cap;
void *dbus_realloc (void *memory, size_t bytes)
{ PRE(bytes > 0 && bytes % sizeof(int) == 0, "dbus_realloc: non-zero size");
  if (nondet_bool()) return NULL;
  int *c = malloc(bytes); __CPROVER_assume(c != NULL);
  if (memory != NULL && verif_gk >= 0 && (size_t)verif_gk < g_old_cap && (size_t)verif_gk < bytes / sizeof(int)) c[verif_gk] = ((int *)memory)[verif_gk];
  free(memory); return c; }
static void change_cb (void *data) { G.change_cb++; }
/* ---- iterator side ---- */
static int g_arg_type; static dbus_uint32_t g_idx; static int g_dup_result;
dbus_bool_t verif_stub_iter_check (DBusMessageRealIter *iter) { return 1; }
int verif_stub_get_arg_type (DBusMessageIter *iter) { return g_arg_type; }
void _dbus_type_reader_read_basic (const DBusTypeReader *reader, void *value) { PRE(value != NULL, "_dbus_type_reader_read_basic"); if (g_arg_type == DBUS_TYPE_UNIX_FD) ((DBusBasicValue *)value)->u32 = g_idx; else *(char *)value = (char)nondet_int(); }
int _dbus_dup (int fd, DBusError *error) { G.dups++; G.dup_src = fd; return g_dup_result; }

#define LOADER_FD_INV(L, cap) ((L)->n_unix_fds <= (L)->n_unix_fds_allocated && (L)->n_unix_fds_allocated == (cap))
void harness (void)
{
  unsigned cap = nondet_unsigned(), old_n = nondet_unsigned();
  __CPROVER_assume(cap <= 1024 && old_n <= cap);
  int *arr = cap ? malloc(cap * sizeof(int)) : NULL; __CPROVER_assume(cap == 0 || arr != NULL);
  long k = verif_gk; int old_at_k = (k >= 0 && k < (long)old_n) ? arr[k] : 0;
  G.frees = 0; G.change_cb = 0; G.dups = 0;
#if VERIF_FN == 1 || VERIF_FN == 2
  DBusMessageLoader L; L.unix_fds = arr; L.n_unix_fds_allocated = cap; L.n_unix_fds = old_n; L.unix_fds_outstanding = 0; g_old_cap = cap;
  L.max_message_unix_fds = nondet_long(); __CPROVER_assume(L.max_message_unix_fds >= 0 && L.max_message_unix_fds <= 2048);  /* set_max clamps to DBUS_MAXIMUM_MESSAGE_UNIX_FDS; 2048 here */
  L.unix_fds_change = nondet_bool() ? change_cb : NULL; L.unix_fds_change_data = NULL;
  long maxfds = L.max_message_unix_fds;
  int *fds = NULL; unsigned offered = nondet_unsigned(), offered0 = offered;
  dbus_bool_t ok = _dbus_message_loader_get_unix_fds (&L, &fds, &offered);
  unsigned newcap = (long)cap < maxfds ? (unsigned)maxfds : cap;
  if (ok)
    {
      __CPROVER_assert(L.n_unix_fds == old_n && L.n_unix_fds_allocated == newcap && newcap >= maxfds, "post1 capacity is max(previous capacity, max_message_unix_fds); pending count unchanged");
      __CPROVER_assert(fds == L.unix_fds + old_n && offered == newcap - old_n, "post2 the reader is offered exactly the free tail of the loader's own array");
      __CPROVER_assert(IMP(offered > 0, __CPROVER_w_ok(fds, offered * sizeof(int))), "post3 the offered window is writable memory");
      __CPROVER_assert(IMP((long)cap <= maxfds, (long)offered <= maxfds - (long)old_n), "post4 offered count <= max_message_unix_fds - pending (when the capacity never exceeded the maximum)");
      __CPROVER_assert(IMP(k >= 0 && k < (long)old_n, L.unix_fds[k] == old_at_k), "post5 pending descriptors survive the reallocation in order (ghost index)");
      __CPROVER_assert(L.unix_fds_outstanding, "post6 array marked outstanding");
      REACH("offered"); if (newcap != cap) REACH("grown"); if (offered == 0) REACH("offered-none");
    }
  else
    {
      __CPROVER_assert(L.unix_fds == arr && L.n_unix_fds_allocated == cap && L.n_unix_fds == old_n && !L.unix_fds_outstanding && G.frees == 0 && offered == offered0, "post7 OOM changes nothing");
      REACH("oom");
    }
#if VERIF_FN == 2
  if (ok)
    {
      /* assumed contract of _dbus_read_socket_with_unix_fds: on return *n_fds <= the value passed in */
      unsigned n_read = nondet_unsigned(); __CPROVER_assume(n_read <= offered);
      int bytes_read = nondet_int();
      _dbus_message_loader_return_unix_fds (&L, fds, bytes_read < 0 ? 0 : n_read);
      unsigned added = bytes_read < 0 ? 0 : n_read;
      __CPROVER_assert(L.n_unix_fds == old_n + added && LOADER_FD_INV(&L, newcap) && !L.unix_fds_outstanding, "post8 pending count grows by the number read and stays within capacity");
      __CPROVER_assert(G.change_cb == ((added > 0 && L.unix_fds_change) ? 1 : 0), "post9 change notification iff descriptors were added");
      __CPROVER_assert(IMP(k >= 0 && k < (long)old_n, L.unix_fds[k] == old_at_k), "post10 earlier descriptors keep their positions (arrival order)");
      if (added > 0) REACH("added"); else REACH("added-none");
      if (L.n_unix_fds == L.n_unix_fds_allocated && added > 0) REACH("filled-to-capacity");
    }
#endif
#else
  DBusMessage M; M.unix_fds = arr; M.n_unix_fds = old_n; M.n_unix_fds_allocated = cap;
  DBusMessageRealIter it; it.message = &M;
  g_arg_type = nondet_int(); g_idx = nondet_unsigned(); g_dup_result = nondet_int();
  __CPROVER_assume(g_arg_type == DBUS_TYPE_UNIX_FD);        /* the other branch is C01/C02 territory */
  int out = 12345; int src_at_idx = (g_idx < old_n) ? arr[g_idx] : 0;
  dbus_message_iter_get_basic ((DBusMessageIter *)&it, &out);
  if (g_idx < old_n)
    {
      __CPROVER_assert(G.dups == 1 && G.dup_src == src_at_idx && out == g_dup_result, "post1 value is a duplicate of the descriptor at the marshalled index");
      REACH("dup");
    }
  else
    {
      __CPROVER_assert(G.dups == 0 && out == -1, "post2 index out of range => -1, nothing duplicated");
      REACH("out-of-range");
    }
  __CPROVER_assert(M.n_unix_fds == old_n && M.unix_fds == arr && IMP(k >= 0 && k < (long)old_n, arr[k] == old_at_k), "post3 the message keeps owning its descriptors unchanged");
#endif
}
