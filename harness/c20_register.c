/* C20.register (T, P-stub): _dbus_object_tree_register, real body.
 * ensure_subtree -> find_subtree_recurse (tree->root, path, create) is bound to the WHOLE-lookup contract that
 * follows from the one-level contract of C20.find by induction on the path length (paper step): NULL (no
 * memory) or THE node of `path` (existing, or freshly created without handler).
 * Oracle [D3]/[P]: "registering an occupied path fails without changing anything";
 * error DBUS_ERROR_OBJECT_PATH_IN_USE "There's already an object with the requested object path". */
#define VERIF_TREE_LOOKUP_STUB verif_tree_lookup
#define VERIF_NO_MEMMOVE_STUB 1
#include "c20_common.h"
VERIF_FSR_PROTO(2) { __CPROVER_assert (0, "outside this unit"); return NULL; }
VERIF_FSR_PROTO(3) { __CPROVER_assert (0, "outside this unit"); return NULL; }
VERIF_FSR_PROTO(4) { __CPROVER_assert (0, "outside this unit"); return NULL; }
VERIF_UFR_PROTO(10) { __CPROVER_assert (0, "outside this unit"); return 0; }

static DBusObjectTree *g_tree; static const char **g_path; static DBusObjectSubtree *g_target;
static _Bool g_exists; static int g_lookups; static const char *g_err_name; static int g_err_sets; static DBusError *g_err_obj;
static DBusObjectSubtree *verif_tree_lookup (DBusObjectSubtree *subtree, const char **path, dbus_bool_t create, int *iip, dbus_bool_t *em)
{
  PRE (subtree == g_tree->root && path == g_path && create == TRUE && iip == NULL && em == NULL, "ensure_subtree: create-mode lookup of the given path from the root");
  g_lookups++;
  /* no allocation is needed to find a node that exists, so the lookup cannot fail then (C20.find postD) */
  return (!g_exists && nondet_bool ()) ? NULL : g_target;
}
char *verif_stub_flatten_path (const char **path) { PRE (path == g_path, "flatten_path"); return nondet_bool () ? NULL : malloc (2); }
void verif_stub_dbus_set_error (DBusError *error, const char *name, const char *format, ...)
{ PRE (error == g_err_obj && error != NULL && name != NULL && format != NULL, "dbus_set_error"); g_err_sets++; g_err_name = name; }
void dbus_set_error_const (DBusError *error, const char *name, const char *message)
{ PRE (error == g_err_obj && name != NULL, "dbus_set_error_const"); if (error != NULL) { g_err_sets++; g_err_name = name; } }
const char *_dbus_no_memory_message = "no memory";
static DBusHandlerResult h_msg (DBusConnection *c, DBusMessage *m, void *d) { return DBUS_HANDLER_RESULT_HANDLED; }
static DBusHandlerResult h_old (DBusConnection *c, DBusMessage *m, void *d) { return DBUS_HANDLER_RESULT_HANDLED; }
static void h_unreg (DBusConnection *c, void *d) { }
static const char s_inuse[] = DBUS_ERROR_OBJECT_PATH_IN_USE, s_nomem[] = DBUS_ERROR_NO_MEMORY;
static _Bool str_is (const char *a, const char *lit, int n) { for (int q = 0; q < n; q++) if (a[q] != lit[q]) return 0; return 1; }

void harness (void)
{
  DBusObjectTree tree; DBusObjectSubtree root_obj, target_obj; char mem_before[sizeof (DBusObjectSubtree)];
  _Bool target_is_root = nondet_bool ();
  tree.root = &root_obj; tree.refcount = 1; tree.connection = nondet_ptr ();
  g_tree = &tree; g_target = target_is_root ? &root_obj : &target_obj;
  /* the target node: arbitrary content (handler present or not) */
  g_exists = nondet_bool ();
  g_target->message_function = (g_exists && nondet_bool ()) ? h_old : NULL;     /* a node created by the lookup has no handler (C20.find postE) */
  DBusObjectSubtree before = *g_target;
  const char *path[1]; path[0] = NULL; g_path = path;
  DBusObjectPathVTable vt; vt.message_function = h_msg; vt.unregister_function = nondet_bool () ? h_unreg : NULL;
  void *ud = nondet_ptr (); dbus_bool_t fallback = nondet_uint ();
  DBusError err; DBusError *errp = nondet_bool () ? &err : NULL; g_err_obj = errp;
  g_lookups = 0; g_err_sets = 0; g_err_name = NULL; g_oom_possible = 1;

  dbus_bool_t r = _dbus_object_tree_register (&tree, fallback, path, &vt, ud, errp);

#define SAME(f) (g_target->f == before.f)
#define UNTOUCHED (SAME (message_function) && SAME (unregister_function) && SAME (user_data) && SAME (invoke_as_fallback) && SAME (parent) \
                   && SAME (subtrees) && SAME (n_subtrees) && SAME (max_subtrees) && SAME (refcount.value))
  __CPROVER_assert (g_lookups == 1, "post0 exactly one create-mode lookup");
  __CPROVER_assert (r == TRUE || r == FALSE, "post0 boolean result");
  if (r)
    {
      __CPROVER_assert (before.message_function == NULL, "post1 success only on an unoccupied node");
      __CPROVER_assert (g_target->message_function == vt.message_function && g_target->unregister_function == vt.unregister_function
                        && g_target->user_data == ud && g_target->invoke_as_fallback == (fallback != 0), "post1 handler, unregister function, user data and fallback flag recorded");
      __CPROVER_assert (SAME (parent) && SAME (subtrees) && SAME (n_subtrees) && SAME (max_subtrees) && SAME (refcount.value), "post1 position in the tree untouched");
      __CPROVER_assert (g_err_sets == 0, "post1 no error on success");
      if (fallback) REACH ("registered-fallback"); else REACH ("registered-exact");
    }
  else
    {
      __CPROVER_assert (UNTOUCHED, "post2 refusal changes no field of the node");
      __CPROVER_assert (IMP (errp != NULL, g_err_sets == 1) && IMP (errp == NULL, g_err_sets == 0), "post2 exactly one error when an error location is given");
      if (before.message_function != NULL)
        { __CPROVER_assert (IMP (errp != NULL, str_is (g_err_name, s_inuse, sizeof s_inuse)), "post2 occupied path: ObjectPathInUse"); REACH ("occupied"); }
      else
        { __CPROVER_assert (IMP (errp != NULL, str_is (g_err_name, s_nomem, sizeof s_nomem)), "post2 otherwise: NoMemory"); REACH ("oom"); }
    }
  __CPROVER_assert (IMP (before.message_function != NULL, !r), "post3 an occupied path is always refused");
}
