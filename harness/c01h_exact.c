/* C01 header, bounded exactness + read-back (B) on the REAL code: _dbus_header_have_message_untrusted, then
 * _dbus_header_load (untrusted mode: real values reader, real load_and_validate_field with the real name
 * validators, real check_mandatory_fields, real _dbus_string_validate_nul / _dbus_string_copy_len) on every byte
 * string of at most VERIF_N bytes (optionally with some bytes fixed by -DVERIF_HDR_ASSUME=...).
 * The ONE callee that is not real here is _dbus_validate_body_with_reason: it is bound to a contract stub that
 * answers as the reference decoder does for the marshalling of "yyyyuua(yv)" (measured: the real validator walks the
 * variant signatures through _DBUS_ALIGN_ADDRESS'ed *pointers*, which symbolic execution cannot resolve: no result
 * in 20 min even for one "u" field; the values reader works on integer positions and is fine).  So the
 * marshalling well-formedness of the header is ASSUMED equal to the reference here (its exactness is what the
 * C01.body.* catalogue checks for variant-free signatures); everything else below is the real code:
 *    accepted  <=>  hdr_ref_valid (independent decoder of spec/header_ref.h)
 *    accepted   =>  every accessor (_dbus_header_get_field_raw/_basic, _get_serial, _get_message_type, _get_flag)
 *                   returns what the independent decoding of the bytes gives (the rebuilt cache: C12.cache.revalidate.*)
 *    rejected   =>  validity != VALID and header emptied.                                                       */
#include "verif_str.h"
#include "dbus/dbus-marshal-header.h"
#include "dbus/dbus-marshal-validate.h"
#include "dbus/dbus-protocol.h"
#ifndef VERIF_N
#define VERIF_N 32
#endif
#define BODY_REF_MAXSTR (VERIF_N + 1)
#define SIG_REF_MAXRUN (VERIF_N - 15)   /* a variant signature inside the fields area is shorter than this */
#define HDR_REF_MAXFIELDS ((VERIF_N - 21) / 8 + 1)   /* an element needs >= 5 bytes from an 8-aligned start >= 16 */
#include "header_ref.h"
long verif_gk, verif_gk2, verif_w, verif_w2; int verif_flag;
unsigned char in_buf[VERIF_N + 16] __attribute__ ((aligned (8)));
int in_len;
static unsigned char hdr_store[VERIF_N + 16] __attribute__ ((aligned (8)));
unsigned char nondet_uchar (void); int nondet_int (void);
static struct hdr_ref_fields RF;    /* the reference decoding of the fields array, computed once */
/* contract of the body validator for the header signature = marshalling well-formedness per the reference decoder */
DBusValidity verif_stub_validate_body (const DBusString *sig, int sig_start, int byte_order, int *bytes_remaining, const DBusString *value_str, int value_pos, int len)
{ int wf;
  __CPROVER_assert (sig_start == 0 && value_pos == 0 && len == in_len && REAL(value_str)->str == in_buf && bytes_remaining != NULL && byte_order == in_buf[0], "precondition of _dbus_validate_body_with_reason: the whole input as a block of the header signature");
  __CPROVER_assert (REAL(sig)->len == 11 && REAL(sig)->str[0] == 'y' && REAL(sig)->str[6] == 'a' && REAL(sig)->str[7] == '(' && REAL(sig)->str[8] == 'y' && REAL(sig)->str[9] == 'v' && REAL(sig)->str[10] == ')', "precondition of _dbus_validate_body_with_reason: signature yyyyuua(yv)");
  wf = RF.wf;
  __CPROVER_assume (wf >= 0);      /* bound of the reference decoder: no variant nested inside a field value */
  if (!wf) { int v = nondet_int (); __CPROVER_assume (v != DBUS_VALID); return v; }
  *bytes_remaining = in_len - (16 + (int) hdr_ref_fields_len (in_buf)); return DBUS_VALID; }
/* _dbus_string_copy_len as its documented contract ("appends/inserts a copy of the given range"): a byte loop instead of
 * the realloc/memmove machinery of dbus-string.c (CBMC's memmove model makes propositional reduction run out of memory) */
dbus_bool_t verif_stub_string_copy_len (const DBusString *source, int start, int len, DBusString *dest, int insert_at)
{ int k; DBusRealString *d = (DBusRealString *) dest;
  __CPROVER_assert (d->str == hdr_store && d->len == 0 && insert_at == 0 && start == 0 && len >= 0 && len <= REAL(source)->len && len <= VERIF_N, "precondition of _dbus_string_copy_len: the first header_len bytes into the empty header");
  for (k = 0; k < VERIF_N; k++) { if (k >= len) break; hdr_store[k] = REAL(source)->str[k]; }
  hdr_store[len] = 0; d->len = len; return 1; }
/* after a successful load no cache entry is UNKNOWN (C01.hdr.load), so no accessor rebuilds the cache */
void verif_stub_cache_revalidate (DBusHeader *h) { __CPROVER_assert (0, "no accessor revalidates the cache of a freshly loaded header"); __CPROVER_assume (0); }
void harness (void)
{
  DBusRealString str; DBusHeader H; DBusRealString *hd = (DBusRealString *) &H.data; DBusValidity v = DBUS_VALID; int i, bo, fal, hl, bl, want, rhl = 0, c; dbus_bool_t have, ok;
  in_len = nondet_int ();
  __CPROVER_assume (in_len >= 16 && in_len <= VERIF_N);
  for (i = 0; i < VERIF_N; i++) in_buf[i] = nondet_uchar ();
#ifdef VERIF_HDR_ASSUME
  VERIF_HDR_ASSUME      /* skeleton: ASSIGNS constants to some bytes (byte order, fields-array length, variant signatures) and in_len */
#endif
  hdr_ref_walk (in_buf, in_len, &RF);
  str.str = in_buf; str.len = in_len; str.allocated = VERIF_N + 16; str.constant = 1; str.locked = 1; str.valid = 1; str.align_offset = 0;
  have = _dbus_header_have_message_untrusted (DBUS_MAXIMUM_MESSAGE_LENGTH, &v, &bo, &fal, &hl, &bl, (DBusString *) &str, 0, in_len);
  if (!have) { REACH("frame-incomplete-or-insane"); return; }
  /* a fresh header (as after _dbus_header_init / _dbus_header_reinit) whose string has room for the copy */
  hd->str = hdr_store; hd->len = 0; hd->allocated = VERIF_N + 16; hd->constant = 0; hd->locked = 0; hd->valid = 1; hd->align_offset = 0; hdr_store[0] = 0;
  H.padding = 0;
  for (i = 0; i <= DBUS_HEADER_FIELD_LAST; i++) H.fields[i].value_pos = _DBUS_HEADER_FIELD_VALUE_UNKNOWN;
  ok = _dbus_header_load (&H, DBUS_VALIDATION_MODE_DATA_IS_UNTRUSTED, &v, bo, fal, hl, bl, (DBusString *) &str);
  want = hdr_ref_valid_walked (in_buf, in_len, &rhl, &RF);
  __CPROVER_assume (want >= 0);   /* bound of the reference: no variant nested in a field value (stated in `bounds`) */
  __CPROVER_assert ((ok != 0) == (want != 0), "header loader agrees with the reference decoder");
  __CPROVER_assert (ok ? (v == DBUS_VALID && hd->len == rhl && hl == rhl) : (v != DBUS_VALID && hd->len == 0), "header loader: TRUE => VALID and header_len bytes held; FALSE => not VALID and header emptied");
  if (ok)
    {
      __CPROVER_assert (_dbus_header_get_serial (&H) == hdr_ref_serial (in_buf), "read-back: serial");
      __CPROVER_assert (_dbus_header_get_message_type (&H) == hdr_ref_message_type (in_buf), "read-back: message type");
      for (c = 0; c < 8; c++) __CPROVER_assert (_dbus_header_get_flag (&H, 1u << c) == hdr_ref_flag (in_buf, 1u << c), "read-back: flag bit");
      __CPROVER_assert ((int) H.padding == rhl - (16 + (int) hdr_ref_fields_len (in_buf)), "read-back: padding");
      for (c = 1; c <= DBUS_HEADER_FIELD_LAST; c++)
        {
          int v_at = RF.val_at[c], type = RF.type[c], count = RF.count[c], pos = -1; const DBusString *s = NULL; dbus_bool_t got;
          got = _dbus_header_get_field_raw (&H, c, &s, &pos);
          __CPROVER_assert ((got != 0) == (count > 0), "read-back: field present iff the reference decoding finds it");
          if (got)
            {
              __CPROVER_assert (pos == v_at && s == &H.data, "read-back: raw value position equals the reference decoding");
              if (type == 'u') { dbus_uint32_t u = 0; dbus_bool_t g2 = _dbus_header_get_field_basic (&H, c, DBUS_TYPE_UINT32, &u); __CPROVER_assert (g2 && u == body_ref_u32 (in_buf, v_at, HDR_REF_LE (in_buf)), "read-back: UINT32 field value"); }
              else if (type == 's' || type == 'o' || type == 'g')
                { const char *t = NULL; int s_at, s_len; dbus_bool_t g2 = _dbus_header_get_field_basic (&H, c, type, &t); hdr_ref_string_at (in_buf, v_at, type, &s_at, &s_len);
                  __CPROVER_assert (g2 && t == (const char *) hdr_store + s_at && hdr_store[s_at + s_len] == 0, "read-back: string field value is the NUL-terminated content at the decoded offset"); }
            }
        }
      __CPROVER_assert (verif_gk < 0 || verif_gk >= rhl || hdr_store[verif_gk] == in_buf[verif_gk], "read-back: the held header bytes are the input bytes");
      REACH("accepted");
      { int any = 0; for (c = 1; c <= DBUS_HEADER_FIELD_LAST; c++) if (H.fields[c].value_pos >= 0) any = 1; if (any) REACH("accepted-with-a-known-field"); }
    }
  else REACH("rejected");
}
