/* C16: _dbus_validate_member accepts exactly the member-name grammar (both directions). */
#include "verif_str.h"
#include "dbus/dbus-marshal-validate.h"
long verif_gk, verif_gk2, verif_w, verif_w2; int verif_flag;
#define B SB(str, start)
dbus_bool_t _dbus_validate_member (const DBusString *str, int start, int len)
STR_OK_REQUIRES(str)
__CPROVER_requires(start >= 0 && len >= 0 && start <= REAL(str)->len)
__CPROVER_assigns(verif_w)
__CPROVER_ensures(__CPROVER_return_value == 0 || __CPROVER_return_value == 1)
/* soundness */
__CPROVER_ensures(IMP(__CPROVER_return_value, G_MEMBER_GLOBAL(len) && len <= REAL(str)->len - start))
__CPROVER_ensures(IMP(__CPROVER_return_value, G_AT(verif_gk, len, G_MEMBER_LOCAL(B, len, verif_gk))))
/* completeness: a rejected string is out of range or violates the local rule at the witness */
__CPROVER_ensures(IMP(!__CPROVER_return_value, !G_MEMBER_GLOBAL(len) || len > REAL(str)->len - start
     || (0 <= verif_w && verif_w < len && !G_MEMBER_LOCAL(B, len, verif_w))))
;
void harness (void)
{
  const DBusString *s; int start, len;
  dbus_bool_t r = _dbus_validate_member (s, start, len);
  if (r) REACH("accept"); else REACH("reject");
  if (r && len == 255) REACH("accept-255");
}
