/* C04: decision table of bus_registry_release_service (bus/services.c), P-stub route.
 * Postcondition = ref_release_name() of spec/ownership_ref.h (ReleaseName section of the specification). */
#include <config.h>
#include "dbus/dbus-internals.h"
#include VERIF_TU
#include "c04_common.h"
#include "ownership_ref.h"

_Bool in_valid, in_is_bus_name; int in_byte0, in_namelen;
_Bool in_exists, in_req_is_primary, in_req_in_queue;
static BusRegistry reg; static BusService svc; static char c_req, c_tx; static DBusString the_name;
#define REQ ((DBusConnection *) &c_req)
#define TX  ((BusTransaction *) &c_tx)
struct { int validate, lookup, in_queue_q, remove; _Bool remove_ok; } G;
static _Bool g_member;   /* requester is in the queue (primary or waiting) - current value */

dbus_bool_t _dbus_validate_bus_name (const DBusString *str, int start, int len)
{ PRE (str == &the_name && start == 0 && len == in_namelen, "_dbus_validate_bus_name: whole name"); G.validate++; return in_valid; }
int _dbus_string_get_length (const DBusString *str) { PRE (str == &the_name, "_dbus_string_get_length"); return in_namelen; }
unsigned char _dbus_string_get_byte (const DBusString *str, int start) { PRE (str == &the_name && start == 0 && G.validate == 1 && in_valid, "_dbus_string_get_byte: validated name, byte 0"); return (unsigned char) in_byte0; }
const char *_dbus_string_get_const_data (const DBusString *str) { return some_string; }
dbus_bool_t _dbus_string_equal_c_str (const DBusString *a, const char *c_str)
{ PRE (a == &the_name && verif_streq (c_str, "org.freedesktop.DBus"), "_dbus_string_equal_c_str: compared with the bus name"); return in_is_bus_name; }

BusService *verif_stub_bus_registry_lookup (BusRegistry *r, const DBusString *n)
{ PRE (r == &reg && n == &the_name, "bus_registry_lookup"); G.lookup++; return in_exists ? &svc : NULL; }
dbus_bool_t verif_stub_bus_service_owner_in_queue (BusService *s, DBusConnection *c)
{ PRE (s == &svc && c == REQ, "bus_service_owner_in_queue: this name, the requester"); G.in_queue_q++; return g_member; }
dbus_bool_t verif_stub_bus_service_remove_owner (BusService *s, DBusConnection *c, BusTransaction *t, DBusError *e)
{ PRE (s == &svc && c == REQ && t == TX && e != NULL && !ERR_SET (e), "bus_service_remove_owner: this name, the requester, this transaction");
  PRE (g_member, "bus_service_remove_owner: requester is in the queue");
  G.remove++; G.remove_ok = nondet_bool (); if (!G.remove_ok) { stub_fail (e); return FALSE; }
  g_member = 0; return TRUE; }                /* enforced by C04.remove_owner: requester no longer in the queue */

void harness (void)
{
  DBusError err; dbus_uint32_t res = nondet_uint ();
  in_valid = nondet_bool (); in_is_bus_name = nondet_bool (); in_byte0 = nondet_int (); in_namelen = nondet_int ();
  in_exists = nondet_bool (); in_req_is_primary = nondet_bool (); in_req_in_queue = nondet_bool ();
  __CPROVER_assume (in_byte0 >= 0 && in_byte0 <= 255 && in_namelen >= 0);
  __CPROVER_assume (IMP (!in_exists, !in_req_is_primary && !in_req_in_queue));
  __CPROVER_assume (!(in_req_is_primary && in_req_in_queue));
  g_member = in_req_is_primary || in_req_in_queue;
  reg.refcount = 1; svc.refcount = 1; svc.registry = &reg; svc.name = (char *) some_string; svc.owners = nondet_ptr ();
  err.name = NULL; err.message = NULL;

  dbus_bool_t ret = bus_registry_release_service (&reg, REQ, &the_name, &res, TX, &err);

  ref_name_state s; s.exists = in_exists; s.req_is_primary = in_req_is_primary; s.req_in_queue = in_req_in_queue; s.primary_allow = 0; s.primary_dnq = 0;
  ref_release_result R = ref_release_name (s);
  int refused = ref_name_refused (in_valid, in_byte0, in_is_bus_name);
  POST (IMP (ret, !ERR_SET (&err)) && IMP (!ret, ERR_SET (&err)), "rel.post0 error set exactly on FALSE");
  POST (IMP (refused, !ret && err_is (&err, DBUS_ERROR_INVALID_ARGS) && G.lookup == 0 && G.remove == 0), "rel.post1 invalid name / ':' name / the bus name => InvalidArgs, nothing touched");
  if (!refused)
    {
      POST (G.lookup == 1, "rel.post2 one registry lookup");
      POST (IMP (ret, res == R.reply), "rel.post3 reply code = specification table");
      POST (G.remove <= R.remove_requester && IMP (ret && R.remove_requester, G.remove == 1 && G.remove_ok), "rel.post4 remove_owner(requester) iff the requester was primary or waiting");
      POST (IMP (!ret, G.remove == 1 && !G.remove_ok), "rel.post5 the only failure is a failed removal");
    }
  if (ret && res == REF_REL_RELEASED) REACH ("released");
  if (ret && res == REF_REL_NON_EXISTENT) REACH ("non-existent");
  if (ret && res == REF_REL_NOT_OWNER) REACH ("not-owner");
  if (refused) REACH ("refused-name");
  if (!ret && !refused) REACH ("remove-failed");
}
