/* C08.st_auth / st_data / st_begin — the three server state handlers of dbus/dbus-auth.c against the
 * specification's server state diagram (spec/auth_states.h), P-stub route.
 *
 * Function under contract (real code, pristine TU):
 *   VERIF_STATE 1  handle_server_state_waiting_for_auth
 *   VERIF_STATE 2  handle_server_state_waiting_for_data
 *   VERIF_STATE 3  handle_server_state_waiting_for_begin
 * Callees bound to their contracts (harness/c08_auth.h): send_error, send_rejected, handle_auth, process_data,
 * send_agree_unix_fd.  goto_state is real (one assignment).
 *
 * Contract of each handler h, for EVERY command value (all ints, not only the enum members):
 *   requires  AUTH_INV(auth), state == the handler's state
 *   ensures   AUTH_INV(auth)
 *   ensures   TRUE  => (next state, reply) == spec_server_step (state, class of command, MECH answer, fd_ok, exhausted)
 *                      and exactly one reply line was queued, except for BEGIN where none is ("The server does not reply")
 *   ensures   FALSE => (out of memory) state, failure count, queued replies unchanged: the command will be retried
 *   ensures   the state WaitingForBegin is entered only with g_mech_ok set by a mechanism's success site
 *   ensures   failures' == failures + (1 if REJECTED was sent)
 */
#include "c08_model.h"
#include VERIF_TU
#include "c08_auth.h"

#ifndef VERIF_STATE
#define VERIF_STATE 1
#endif

static enum spec_cmd classify (int command)
{
  switch (command)
    {
    case DBUS_AUTH_COMMAND_AUTH: return SPEC_CMD_AUTH_MECH;   /* refined by the parsing callee (G.cls) in WaitingForAuth */
    case DBUS_AUTH_COMMAND_CANCEL: return SPEC_CMD_CANCEL;
    case DBUS_AUTH_COMMAND_DATA: return SPEC_CMD_DATA;        /* refined by process_data (G.cls) in WaitingForData */
    case DBUS_AUTH_COMMAND_BEGIN: return SPEC_CMD_BEGIN;
    case DBUS_AUTH_COMMAND_ERROR: return SPEC_CMD_ERROR;
    case DBUS_AUTH_COMMAND_NEGOTIATE_UNIX_FD: return SPEC_CMD_NEGOTIATE_UNIX_FD;
    default: return SPEC_CMD_OTHER;                           /* REJECTED, OK, AGREE_UNIX_FD, UNKNOWN, anything else */
    }
}

void harness (void)
{
  DBusAuthServer S; DBusAuth *auth = &S.base;
  DBusString args;
  int command = nondet_int ();
  c08_make_auth (&S);
  c08_havoc_string (&args);
#if VERIF_STATE == 1
  __CPROVER_assume (ST (auth) == S_WFA);
  /* A-retry: leftovers of an interrupted mechanism run exist only while its AUTH command is being retried */
  __CPROVER_assume (g_dirty == 0 || command == DBUS_AUTH_COMMAND_AUTH);
#elif VERIF_STATE == 2
  __CPROVER_assume (ST (auth) == S_WFD);
  __CPROVER_assume (g_dirty == 0 || command == DBUS_AUTH_COMMAND_DATA);
#else
  __CPROVER_assume (ST (auth) == S_WFB);
#endif
  __CPROVER_assume (AUTH_INV (auth));
  struct c08_snap old = c08_take (auth);
  int fd_ok = auth->unix_fd_possible;
  int exhausted = (old.failures + 1 >= S.max_failures);
  G.sent = 0; G.last = 0; G.cls = 0; G.mech = 0;

#if VERIF_STATE == 1
  dbus_bool_t ret = handle_server_state_waiting_for_auth (auth, (DBusAuthCommand) command, &args);
#elif VERIF_STATE == 2
  dbus_bool_t ret = handle_server_state_waiting_for_data (auth, (DBusAuthCommand) command, &args);
#else
  dbus_bool_t ret = handle_server_state_waiting_for_begin (auth, (DBusAuthCommand) command, &args);
#endif

  ASSERT_AUTH_INV (auth);
  if (ret)
    {
      enum spec_cmd cls = G.cls != 0 ? (enum spec_cmd) G.cls : classify (command);
      enum spec_reply want_reply = SPEC_REPLY_NONE;
      enum spec_state want = spec_server_step (SPEC_OF (old.state), cls, (enum spec_mech) G.mech, fd_ok, exhausted, &want_reply);
      POST (SPEC_OF (ST (auth)) == want, "next state is the one the specification's server state diagram prescribes");
      POST ((want_reply == SPEC_REPLY_NONE) ? G.sent == 0 : (G.sent == 1 && G.last == (int) want_reply), "reply is the one the specification prescribes (one line; none for BEGIN)");
      POST (S.failures == old.failures + (G.last == SPEC_REPLY_REJECTED ? 1 : 0), "failure count grows by one exactly when REJECTED is sent");
      POST (IMP (G.last == SPEC_REPLY_REJECTED, CRED_EMPTY (auth->authorized_identity) && CRED_EMPTY (auth->desired_identity) && auth->mech == NULL && SLEN (&auth->identity) == 0), "REJECTED: granted and requested identity and mechanism are gone");
      POST (IMP (ST (auth) == S_AUTHD, old.state == S_WFB && command == DBUS_AUTH_COMMAND_BEGIN && old.mech_ok != 0), "Authenticated only by BEGIN in WaitingForBegin after a mechanism succeeded");
      POST (IMP (ST (auth) == S_AUTHD, CRED_EQ (auth->authorized_identity, &old.authz)), "BEGIN leaves the granted identity untouched");
      POST (IMP (ST (auth) == S_WFB && old.state != S_WFB, G.last == SPEC_REPLY_OK && g_mech_ok != 0), "WaitingForBegin is entered only by a mechanism's OK");
    }
  else
    {
      POST (ST (auth) == old.state && S.failures == old.failures && G.sent == 0 && g_mech_ok == old.mech_ok, "out of memory: state, failure count, replies unchanged");
    }
  /* reachability of every outcome the contract talks about */
  if (ret && G.last == SPEC_REPLY_ERROR) REACH ("error-sent");
  if (ret && G.last == SPEC_REPLY_REJECTED && ST (auth) == S_WFA) REACH ("rejected-to-waiting-for-auth");
  if (ret && G.last == SPEC_REPLY_REJECTED && ST (auth) == S_DISC) REACH ("rejected-last-time-disconnect");
  if (!ret) REACH ("oom");
#if VERIF_STATE != 3
  if (ret && ST (auth) == S_DISC && G.sent == 0) REACH ("begin-too-early-disconnect");
  if (ret && G.last == SPEC_REPLY_OK && ST (auth) == S_WFB) REACH ("ok-to-waiting-for-begin");
  if (ret && G.last == SPEC_REPLY_DATA && ST (auth) == S_WFD) REACH ("data-to-waiting-for-data");
#else
  if (ret && ST (auth) == S_AUTHD) REACH ("begin-authenticated");
  if (ret && G.last == SPEC_REPLY_AGREE_UNIX_FD) REACH ("agree-unix-fd");
#endif
}
