/* C09: -DVERIF_PART=0  bus_connection_drop_pending_replies (a connection went away)
 *      -DVERIF_PART=1  bus_pending_reply_expired (the expire function of the pending-reply list) + bus_pending_reply_send_no_reply
 * on the real expire list with <= 3 entries; every allocation may fail.
 * Oracle: property C09: "If the callee disconnects, or the configured reply timeout elapses, before it answers, the
 * caller receives exactly one NoReply error for that call"; DESIGN 6 C09: caller gone => its entries removed; callee
 * gone => entry kept with will_send_reply = NULL and immediate expiry; expiry => one NoReply via the driver to
 * will_get_reply with that serial, entry removed; OOM => entry kept. */
#include "c09_common.h"
#ifndef VERIF_PART
#define VERIF_PART 0
#endif

#if VERIF_PART == 0
void harness (void)
{
  build_world ();
  DBusConnection *gone = pick_conn ();
  bus_connection_drop_pending_replies (&CS, gone);
  BusPendingReply *s[5]; int m = snapshot (s);
  int k = 0, ok = 1, callee_gone = 0, removed = 0;
  for (int i = 0; i < 3; i++) if (i < n0)
    {
      if (e_get[i] == gone) { removed++; continue; }                       /* caller gone: slot must be dropped */
      if (k >= m || s[k] != E[i]) { ok = 0; continue; }
      if (e_send[i] == gone)
        { callee_gone++;
          if (!(E[i]->will_send_reply == NULL && E[i]->expire_item.added_tv_sec == 0 && E[i]->expire_item.added_tv_usec == 0
                && E[i]->will_get_reply == e_get[i] && E[i]->reply_serial == e_serial[i])) ok = 0; }
      else if (!entry_intact (i)) ok = 0;
      k++;
    }
  __CPROVER_assert (m == n0 - removed, "post1 exactly the slots whose caller (will_get_reply) went away are removed");
  __CPROVER_assert (ok && k == m, "post2 slots whose callee went away stay, marked (will_send_reply = NULL, clock 0/0 = expire at once); all others untouched, order kept");
  __CPROVER_assert (IMP (callee_gone > 0, g_timeout_enabled && g_timeout_interval == 0 && g_timeout_restarts >= 1), "post3 callee gone => the expiry timer is re-armed to fire immediately");
  { int j = nondet_int (); __CPROVER_assume (j >= 0 && j < 5);
    if (j < m) __CPROVER_assert (s[j]->will_get_reply != gone && s[j]->will_send_reply != gone, "post4 no remaining slot mentions the vanished connection"); }
  if (removed == 1 && callee_gone == 1 && n0 == 3) REACH ("one-dropped-one-marked-one-kept");
  if (removed == 0 && callee_gone == 0 && n0 == 3) REACH ("unrelated"); if (removed == 3) REACH ("all-dropped");
}
#else
/* ghost message built by bus_pending_reply_send_no_reply */
static struct { int created, type, no_reply, unrefs, has_text; dbus_uint32_t reply_serial; const char *error_name; } GM;
static char o_newmsg; static int g_txn_new, g_txn_created, g_txn_cancelled, g_txn_executed, g_sent; static DBusConnection *g_sent_to; static char o_txn2;
#define NEWMSG ((DBusMessage *) &o_newmsg)
#define TXN2 ((BusTransaction *) &o_txn2)
DBusMessage *dbus_message_new (int type) { if (nondet_bool ()) return NULL; GM.created++; GM.type = type; return NEWMSG; }
void dbus_message_set_no_reply (DBusMessage *m, dbus_bool_t v) { PRE (m == NEWMSG, "dbus_message_set_no_reply"); GM.no_reply = v; }
dbus_bool_t dbus_message_set_reply_serial (DBusMessage *m, dbus_uint32_t serial)
{ PRE (m == NEWMSG && serial != 0, "dbus_message_set_reply_serial: reply_serial != 0 (API precondition)"); if (nondet_bool ()) return FALSE; GM.reply_serial = serial; return TRUE; }
dbus_bool_t dbus_message_set_error_name (DBusMessage *m, const char *name) { PRE (m == NEWMSG && name != NULL, "dbus_message_set_error_name"); if (nondet_bool ()) return FALSE; GM.error_name = name; return TRUE; }
void dbus_message_iter_init_append (DBusMessage *m, DBusMessageIter *iter) { PRE (m == NEWMSG, "dbus_message_iter_init_append"); }
dbus_bool_t dbus_message_iter_append_basic (DBusMessageIter *iter, int type, const void *value)
{ PRE (type == DBUS_TYPE_STRING && value != NULL && *(const char *const *) value != NULL, "dbus_message_iter_append_basic: a string"); if (nondet_bool ()) return FALSE; GM.has_text = 1; return TRUE; }
void dbus_message_unref (DBusMessage *m) { PRE (m == NEWMSG, "dbus_message_unref"); GM.unrefs++; }
BusTransaction *verif_stub_bus_transaction_new (BusContext *c) { PRE (c == CTX, "bus_transaction_new"); g_txn_new++; if (nondet_bool ()) return NULL; g_txn_created++; return TXN2; }
void verif_stub_bus_transaction_cancel_and_free (BusTransaction *t) { PRE (t == TXN2 && g_txn_cancelled + g_txn_executed == 0, "bus_transaction_cancel_and_free: live transaction"); g_txn_cancelled++; }
void verif_stub_bus_transaction_execute_and_free (BusTransaction *t) { PRE (t == TXN2 && g_txn_cancelled + g_txn_executed == 0, "bus_transaction_execute_and_free: live transaction"); g_txn_executed++; }
/* contract: stages the message for the connection (sender = the bus); FALSE = nothing staged */
dbus_bool_t verif_stub_bus_transaction_send_from_driver (BusTransaction *t, DBusConnection *c, DBusMessage *m)
{ PRE (t == TXN2 && c != NULL && m == NEWMSG && g_txn_cancelled + g_txn_executed == 0, "bus_transaction_send_from_driver"); if (nondet_bool ()) return FALSE; g_sent++; g_sent_to = c; return TRUE; }

void harness (void)
{
  build_world (); __CPROVER_assume (n0 >= 1);
  int p = nondet_int (); __CPROVER_assume (p >= 0 && p < n0);
  /* serials of recorded calls are never 0 (D-Bus specification: "the serial number ... must not be zero"; C01 header validation) */
  for (int i = 0; i < 3; i++) if (i < n0) __CPROVER_assume (e_serial[i] != 0);
  DBusList *link = p == 0 ? LK[0] : p == 1 ? LK[1] : LK[2];
  dbus_bool_t ret = bus_pending_reply_expired (&XL, link, &CS);
  BusPendingReply *s[5]; int m = snapshot (s);
  __CPROVER_assert (ret == 0 || ret == 1, "post0 boolean");
  if (ret)
    {
      __CPROVER_assert (g_sent == 1 && g_sent_to == e_get[p], "post1 expiry: exactly one message, to the caller (will_get_reply)");
      __CPROVER_assert (GM.type == DBUS_MESSAGE_TYPE_ERROR && verif_name_is (GM.error_name, "org.freedesktop.DBus.Error.NoReply") && GM.reply_serial == e_serial[p] && GM.has_text,
                        "post2 it is the error org.freedesktop.DBus.Error.NoReply in reply to the call's serial");
      __CPROVER_assert (GM.no_reply, "post3 the error itself expects no reply");
      int ok = (m == n0 - 1), k = 0;
      for (int i = 0; i < 3; i++) if (i < n0 && i != p) { if (k >= m || s[k] != E[i] || !entry_intact (i)) ok = 0; k++; }
      __CPROVER_assert (ok, "post4 exactly the expired slot is removed");
      __CPROVER_assert (g_txn_created == 1 && g_txn_executed == 1 && g_txn_cancelled == 0, "post5 the transaction is executed once, not cancelled");
      REACH ("expired");
    }
  else
    {
      __CPROVER_assert (list_unchanged (), "post6 FALSE (OOM): the slot stays, list unchanged, to be retried");
      __CPROVER_assert (g_sent == 0 && g_txn_executed == 0 && g_txn_cancelled == g_txn_created, "post7 FALSE: nothing sent, nothing executed, a created transaction is cancelled");
      REACH ("oom");
    }
  __CPROVER_assert (GM.unrefs == GM.created && GM.created <= 1 && g_txn_new == 1, "post8 the error message is released exactly once");
  if (ret && e_send[p] == NULL) REACH ("callee-was-gone");
}
#endif
