/* C20 common part: includes the REAL dbus/dbus-object-tree.c (VERIF_TU, pristine or overlay copy) behind
 * the verification prelude, with two purely lexical renamings done by the preprocessor:
 *
 *   find_subtree_recurse             -> verif_fsr_<n>    n = 1 definition, 2..4 the three recursive call
 *                                                        sites (source order), 5..8 and 12 the non-recursive
 *                                                        callers (find_subtree, lookup_subtree, find_handler,
 *                                                        ensure_subtree, find_subtree_registered_or_unregistered)
 *   unregister_and_free_path_recurse -> verif_ufr_<n>    n = 9 definition, 10 recursive call site, 11 caller
 *
 * so that ONLY the recursive calls can be bound to the function's own one-level contract (written as
 * a stub in the harness) while the harness calls the real body.  (goto-instrument --replace-calls
 * rebinds every call including the harness' own; the framework links in one stage.)  The numbering
 * comes from __COUNTER__; if a change of the source adds or removes an occurrence the unit no longer
 * links (tool failure -> undecided), it can never bind the wrong site silently.
 */
#ifndef C20_COMMON_H
#define C20_COMMON_H
#include <config.h>
#include "dbus/dbus-internals.h"
#include "verif_prelude.h"
#include "dbus/dbus-object-tree.h"
#include "dbus/dbus-connection-internal.h"
#include "dbus/dbus-hash.h"
#include "dbus/dbus-protocol.h"
#include "dbus/dbus-string.h"
#include "dbus/dbus-list.h"
#include "dbus/dbus-message.h"
#include <dbus/dbus-test-tap.h>
#include <string.h>
#include <stdlib.h>
#include "objtree_ref.h"

#define REACH(tag) __CPROVER_assert(0, "REACH:" tag)
#define IMP(a, b) (!(a) || (b))
#define PRE(c, what) __CPROVER_assert((c), "precondition of " what)
_Bool nondet_bool (void); int nondet_int (void); long nondet_long (void); void *nondet_ptr (void); unsigned nondet_uint (void);

/* ghost variables named in the overlay (contracts/c20_objtree.ovl) */
long verif_gk;          /* ghost index: never assigned */
int  verif_c;           /* cut position: children [0,c) are named below the key, see objtree_ref.h */
int  verif_present;     /* a child named exactly like the key exists (then it is child c) */
int  verif_k;           /* index compared in the current iteration (injected: verif_k = k) */
int  verif_n0;          /* n_subtrees at entry */
int  verif_cmp_calls;
int  verif_iip0; dbus_bool_t verif_em0;   /* out-parameter values at entry */
int  verif_dup_calls;   /* listing: number of names duplicated so far */
char *verif_dup_gk;     /* listing: the copy made of child verif_gk's name */
/* record of the (single) recursive call made by the level under test + values the harness fixed */
struct verif_rec_s { int calls, site; void *subtree; const char **path; dbus_bool_t create; int *iip; dbus_bool_t *em;
                     void *result; int iip_at_call; dbus_bool_t em_set, em_val;
                     void *p3, *p4, *p5; dbus_bool_t freed, cont_after; int ch_n_after; void *ch_mf_after;
                     int unref_calls; void *unref_arg; int ch_n_at_unref; void *ch_mf_at_unref, *ch_parent_at_unref; } verif_rec;
/* unregister recursion: values at entry of what the loop contract lists as assignable */
/* what the tree invariant says about a child (used as precondition and in the loop invariant) */
#define VERIF_CHILD_OK(ch, par) ((ch)->parent == (par) && (ch)->refcount.value >= 1 && (ch)->n_subtrees >= 0 && (ch)->n_subtrees <= (ch)->max_subtrees && \
   IMP ((ch)->message_function == NULL, (ch)->unregister_function == NULL && (ch)->user_data == NULL && (ch)->n_subtrees > 0))
void *verif_old_g, *verif_old_gp1, *verif_ud0, *verif_childp; DBusObjectPathUnregisterFunction verif_fn0;

typedef struct DBusObjectSubtree DBusObjectSubtree;
#define VERIF_FSR_PROTO(n) static DBusObjectSubtree *verif_fsr_##n (DBusObjectSubtree *subtree, const char **path, \
    dbus_bool_t create_if_not_found, int *index_in_parent, dbus_bool_t *exact_match)
VERIF_FSR_PROTO(1); VERIF_FSR_PROTO(2); VERIF_FSR_PROTO(3); VERIF_FSR_PROTO(4); VERIF_FSR_PROTO(5);
VERIF_FSR_PROTO(6); VERIF_FSR_PROTO(7); VERIF_FSR_PROTO(8); VERIF_FSR_PROTO(12);
#define VERIF_UFR_PROTO(n) static dbus_bool_t verif_ufr_##n (DBusObjectSubtree *subtree, const char **path, \
    dbus_bool_t *continue_removal_attempts, DBusObjectPathUnregisterFunction *unregister_function_out, void **user_data_out)
VERIF_UFR_PROTO(9); VERIF_UFR_PROTO(10); VERIF_UFR_PROTO(11);

#define VERIF_CAT_(a, b) a##b
#define VERIF_CAT(a, b) VERIF_CAT_(a, b)
_Static_assert (__COUNTER__ == 0, "C20: __COUNTER__ base moved; renumber verif_fsr_<n>");
#define find_subtree_recurse VERIF_CAT(verif_fsr_, __COUNTER__)
#define unregister_and_free_path_recurse VERIF_CAT(verif_ufr_, __COUNTER__)
#include VERIF_TU
#undef find_subtree_recurse
#undef unregister_and_free_path_recurse
_Static_assert (__COUNTER__ == 13, "C20: number of occurrences of the two recursive functions changed");

/* The non-recursive callers' calls: bound to the unit's whole-lookup contract stub if it has one */
#ifdef VERIF_TREE_LOOKUP_STUB
static DBusObjectSubtree *VERIF_TREE_LOOKUP_STUB (DBusObjectSubtree *subtree, const char **path,
    dbus_bool_t create_if_not_found, int *index_in_parent, dbus_bool_t *exact_match);
#define VERIF_FSR_CALLER(n) VERIF_FSR_PROTO(n) { return VERIF_TREE_LOOKUP_STUB (subtree, path, create_if_not_found, index_in_parent, exact_match); }
#else
#define VERIF_FSR_CALLER(n) VERIF_FSR_PROTO(n) { __CPROVER_assert (0, "non-recursive caller of find_subtree_recurse is outside this unit"); __CPROVER_assume (0); return NULL; }
#endif
VERIF_FSR_CALLER(5) VERIF_FSR_CALLER(6) VERIF_FSR_CALLER(7) VERIF_FSR_CALLER(8) VERIF_FSR_CALLER(12)

/* ---- memory and atomics: the documented semantics, sequential (assumed, see unit ledger) ---- */
int g_oom_possible = 1;
void *dbus_malloc0 (size_t bytes) { if (g_oom_possible && nondet_bool ()) return NULL; return calloc (1, bytes); }
void *dbus_malloc (size_t bytes) { if (g_oom_possible && nondet_bool ()) return NULL; return malloc (bytes); }
#ifdef VERIF_BUILTIN_REALLOC
void *dbus_realloc (void *memory, size_t bytes) { if (g_oom_possible && nondet_bool ()) return NULL; return realloc (memory, bytes); }
#else
/* Contract of realloc for arrays of pointers, stated for the ghost index: NULL and nothing changed, or a
 * fresh block of `bytes` bytes whose elements verif_gk-1, verif_gk, verif_gk+1 (those inside both blocks;
 * the memmove contract after it reads the neighbour) equal the old ones, old block freed. */
void *dbus_realloc (void *memory, size_t bytes)
{
  if (g_oom_possible && nondet_bool ()) return NULL;
  void **nw = malloc (bytes), **old = memory;
  if (nw == NULL) return NULL;
  if (old != NULL)
    {
      PRE (__CPROVER_DYNAMIC_OBJECT (old) && __CPROVER_POINTER_OFFSET (old) == 0, "realloc: argument is a heap block");
      long ocap = (long) (__CPROVER_OBJECT_SIZE (old) / sizeof (void *)), ncap = (long) (bytes / sizeof (void *));
#define VERIF_KEEP_AT(q) if (0 <= (q) && (q) < ocap && (q) < ncap) nw[q] = old[q]
      if (-2 < verif_gk && verif_gk < (1L << 40))
        { VERIF_KEEP_AT (verif_gk - 1); VERIF_KEEP_AT (verif_gk); VERIF_KEEP_AT (verif_gk + 1); }
      free (old);
    }
  return nw;
}
#endif
void dbus_free (void *memory) { free (memory); }
/* Contract of memmove on the children array of the node under test (g_node), stated for the ghost index:
 * requires both ranges inside their objects; ensures dest[k] == old src[k] for every element k of the
 * moved range and everything else unchanged.  As a stub: the array element the ghost index verif_gk
 * refers to gets exactly the value the contract dictates; every OTHER element of the array is havocked
 * (the harness' postconditions read the array only at verif_gk and at positions written afterwards by
 * the code itself).  CBMC's built-in memmove model with a symbolic length runs out of memory (measured:
 * 7 GB on an 8-entry array). */
static DBusObjectSubtree *g_node;
#ifndef VERIF_NO_MEMMOVE_STUB
void *memmove (void *dest, const void *src, size_t nbytes)
{
  DBusObjectSubtree **arr = g_node->subtrees, **d = dest, **s = (DBusObjectSubtree **) src;
  PRE (nbytes % sizeof (DBusObjectSubtree *) == 0, "memmove: whole elements");
  if (nbytes == 0) return dest;
  PRE (arr != NULL && __CPROVER_same_object (d, arr) && __CPROVER_same_object (s, arr), "memmove: source and destination inside the children array");
  PRE (__CPROVER_r_ok (src, nbytes), "memmove: source range readable");
  PRE (__CPROVER_w_ok (dest, nbytes), "memmove: destination range writable");
  long cnt = (long) (nbytes / sizeof (DBusObjectSubtree *)), ds = d - arr, ss = s - arr;
  long cap = (long) (__CPROVER_OBJECT_SIZE (arr) / sizeof (DBusObjectSubtree *));
  _Bool in_arr = 0 <= verif_gk && verif_gk < cap;
  long e = in_arr ? verif_gk - ds : -1;                     /* element of the moved range the ghost index is */
  DBusObjectSubtree *val = NULL;
  if (in_arr) val = (0 <= e && e < cnt) ? arr[ss + e] : arr[verif_gk];
  __CPROVER_havoc_object (arr);
  if (in_arr) arr[verif_gk] = val;
  return dest;
}
#endif
dbus_int32_t _dbus_atomic_inc (DBusAtomic *atomic) { dbus_int32_t old = atomic->value; atomic->value = old + 1; return old; }
dbus_int32_t _dbus_atomic_dec (DBusAtomic *atomic) { dbus_int32_t old = atomic->value; atomic->value = old - 1; return old; }
#endif
