/* C07 / C14: the rule setters of bus/signals.c establish RULE_OK (the precondition of match_rule_matches) and are
 * atomic under allocation failure ("FALSE => rule unchanged").  Plain route on the pristine TU, real _dbus_strdup
 * (dbus-internals.c) and _dbus_string_copy_data (dbus-string.c); dbus_malloc/realloc/free = CBMC allocator with
 * --malloc-may-fail --malloc-fail-null (every allocation may fail independently).
 *   -DVERIF_SET_ARG : bus_match_rule_set_arg (bounded: arrays of at most C07_MAXA slots before and after)
 *   otherwise       : set_interface / _member / _sender / _destination / _path / _message_type / _client_is_eavesdropping
 */
#include <config.h>
#include "dbus/dbus-internals.h"
#include "verif_prelude.h"
#include "verif_ghost.h"
#include "match_ref.h"
#include <stdlib.h>
long verif_gk, verif_gk2, verif_w, verif_w2; int verif_flag;
#include VERIF_TU
#include "c07_common.h"
#define FRESH_COPY(p, s) ((p) != NULL && __CPROVER_POINTER_OFFSET (p) == 0 && __CPROVER_OBJECT_SIZE (p) == (__CPROVER_size_t) (s).len + 1 && \
                          REF_EQN (p, (s).v, (s).len) && (p)[(s).len] == 0)
#define ALL_FLAGS 0x1ffu

#ifndef VERIF_SET_ARG
void harness (void)
{
  BusMatchRule r, r0; VStr o_if, o_me, o_se, o_de, o_pa, a;
  /* any rule state the setters themselves can have produced: a field is NULL or a heap string */
  r.refcount = 1; r.matches_go_to = NULL; r.flags = nondet_uint (); __CPROVER_assume ((r.flags & ~ALL_FLAGS) == 0);
  r.message_type = nondet_int (); r.args = NULL; r.arg_lens = NULL; r.args_len = 0;
  if (nondet_bool ()) mk_vstr (&o_if); else no_vstr (&o_if);
  if (nondet_bool ()) mk_vstr (&o_me); else no_vstr (&o_me);
  if (nondet_bool ()) mk_vstr (&o_se); else no_vstr (&o_se);
  if (nondet_bool ()) mk_vstr (&o_de); else no_vstr (&o_de);
  if (nondet_bool ()) mk_vstr (&o_pa); else no_vstr (&o_pa);
  r.interface = o_if.p; r.member = o_me.p; r.sender = o_se.p; r.destination = o_de.p; r.path = o_pa.p;
  r0 = r;
  mk_vstr (&a);
  int which = nondet_int (); __CPROVER_assume (which >= 0 && which <= 6);
  int type = nondet_int (); dbus_bool_t is_ns = nondet_bool (), eav = nondet_bool ();
  dbus_bool_t ok = TRUE;
  switch (which)
    {
    case 0: ok = bus_match_rule_set_interface (&r, a.p); break;
    case 1: ok = bus_match_rule_set_member (&r, a.p); break;
    case 2: ok = bus_match_rule_set_sender (&r, a.p); break;
    case 3: ok = bus_match_rule_set_destination (&r, a.p); break;
    case 4: ok = bus_match_rule_set_path (&r, a.p, is_ns); break;
    case 5: ok = bus_match_rule_set_message_type (&r, type); break;
    default: bus_match_rule_set_client_is_eavesdropping (&r, eav); break;
    }
  __CPROVER_assert (ok == 0 || ok == 1, "post0 boolean");
  /* C14: failure leaves the whole rule as it was (same pointers, still allocated) */
  if (!ok)
    {
      __CPROVER_assert (r.flags == r0.flags && r.message_type == r0.message_type && r.interface == r0.interface && r.member == r0.member &&
                        r.sender == r0.sender && r.destination == r0.destination && r.path == r0.path && r.args == r0.args && r.args_len == r0.args_len,
                        "post1 FALSE => rule unchanged");
      __CPROVER_assert (IMP (r.interface, __CPROVER_r_ok (r.interface, o_if.len + 1)) && IMP (r.member, __CPROVER_r_ok (r.member, o_me.len + 1)) && IMP (r.sender, __CPROVER_r_ok (r.sender, o_se.len + 1)) &&
                        IMP (r.destination, __CPROVER_r_ok (r.destination, o_de.len + 1)) && IMP (r.path, __CPROVER_r_ok (r.path, o_pa.len + 1)), "post1b FALSE => no field was freed");
      __CPROVER_assert (which <= 4, "post1c only the string setters can fail");
      REACH ("oom");
    }
  else
    {
      unsigned want_flags = r0.flags;
      if (which == 0) want_flags |= BUS_MATCH_INTERFACE; if (which == 1) want_flags |= BUS_MATCH_MEMBER; if (which == 2) want_flags |= BUS_MATCH_SENDER;
      if (which == 3) want_flags |= BUS_MATCH_DESTINATION;
      if (which == 4) want_flags = (r0.flags & ~(unsigned) (BUS_MATCH_PATH | BUS_MATCH_PATH_NAMESPACE)) | (is_ns ? BUS_MATCH_PATH_NAMESPACE : BUS_MATCH_PATH);
      if (which == 5) want_flags |= BUS_MATCH_MESSAGE_TYPE;
      if (which == 6) want_flags = eav ? (r0.flags | BUS_MATCH_CLIENT_IS_EAVESDROPPING) : (r0.flags & ~(unsigned) BUS_MATCH_CLIENT_IS_EAVESDROPPING);
      __CPROVER_assert (r.flags == want_flags, "post2 TRUE => exactly the key's flag is set (path / path_namespace exclude each other); other flags unchanged");
      __CPROVER_assert (IMP (which == 0, FRESH_COPY (r.interface, a)) && IMP (which == 1, FRESH_COPY (r.member, a)) && IMP (which == 2, FRESH_COPY (r.sender, a)) &&
                        IMP (which == 3, FRESH_COPY (r.destination, a)) && IMP (which == 4, FRESH_COPY (r.path, a)),
                        "post3 TRUE => the field is a fresh NUL-terminated block of exactly strlen+1 bytes equal to the argument (RULE_OK)");
      __CPROVER_assert (IMP (which != 0, r.interface == r0.interface) && IMP (which != 1, r.member == r0.member) && IMP (which != 2, r.sender == r0.sender) &&
                        IMP (which != 3, r.destination == r0.destination) && IMP (which != 4, r.path == r0.path) && r.message_type == (which == 5 ? type : r0.message_type) &&
                        r.args == r0.args && r.args_len == r0.args_len && r.arg_lens == r0.arg_lens, "post4 TRUE => the other fields are unchanged");
      __CPROVER_assert (__CPROVER_r_ok (a.p, a.len + 1), "post5 the argument is not consumed");
      REACH ("set");
      if (which == 4 && (r0.flags & BUS_MATCH_PATH) && is_ns) REACH ("path-replaced-by-namespace");
    }
}
#else
#ifndef C07_MAXA
#define C07_MAXA 4
#endif
void harness (void)
{
  BusMatchRule r; VStr old[C07_MAXA]; char *A0[C07_MAXA + 1]; unsigned L0[C07_MAXA + 1];
#ifdef C07_N0
  int n0 = C07_N0;      /* concrete sizes: symbolic realloc sizes blow up the array theory */
#else
  int n0 = nondet_int (); __CPROVER_assume (n0 >= 0 && n0 <= C07_MAXA);
#endif
  r.refcount = 1; r.matches_go_to = NULL; r.flags = nondet_uint (); __CPROVER_assume ((r.flags & ~ALL_FLAGS) == 0);
  r.message_type = 0; r.interface = r.member = r.sender = r.destination = r.path = NULL;
  /* RULE_OK before: args == NULL iff no argument match was ever set */
  __CPROVER_assume (((r.flags & BUS_MATCH_ARGS) != 0) == (n0 > 0));
  r.args = NULL; r.arg_lens = NULL; r.args_len = n0;
  if (n0 > 0)
    {
      r.args = malloc (sizeof (char *) * (n0 + 1)); r.arg_lens = malloc (sizeof (unsigned int) * (n0 + 1));
      __CPROVER_assume (r.args != NULL && r.arg_lens != NULL);
    }
  for (int k = 0; k < C07_MAXA; k++)
    {
      no_vstr (&old[k]); A0[k] = NULL; L0[k] = 0;
      if (k < n0)
        {
          if (nondet_bool ()) { mk_vstr (&old[k]); L0[k] = (unsigned) old[k].len | (nondet_bool () ? BUS_MATCH_ARG_IS_PATH : 0) | (nondet_bool () ? BUS_MATCH_ARG_NAMESPACE : 0); }
          A0[k] = old[k].p; r.args[k] = A0[k]; r.arg_lens[k] = L0[k];
        }
    }
  if (n0 > 0) { r.args[n0] = NULL; r.arg_lens[n0] = 0; }
  unsigned flags0 = r.flags;
  /* the value: a constant DBusString over a symbolic buffer */
  VStr v; mk_vstr (&v); DBusString vs; _dbus_string_init_const_len (&vs, v.p, (int) v.len);
#ifdef C07_ARG
  int arg = C07_ARG;
#else
  int arg = nondet_int (); __CPROVER_assume (arg >= 0 && arg < C07_MAXA);
#endif
  /* the parser refuses to set an index twice (unit C07.parse_arg), so the slot is empty -- but the setter itself
   * also handles replacement (frees the old value): both are admitted here */
  dbus_bool_t is_path = nondet_bool (), is_ns = nondet_bool ();

  dbus_bool_t ok = bus_match_rule_set_arg (&r, arg, &vs, is_path, is_ns);

  int n1 = (arg + 1 > n0) ? arg + 1 : n0;
  verif_gk = nondet_int ();   /* ghost index */
  __CPROVER_assert (ok == 0 || ok == 1, "post0 boolean");
  if (ok)
    {
      __CPROVER_assert (r.args_len == n1 && r.flags == (flags0 | BUS_MATCH_ARGS), "post1 TRUE => args_len == max(old, arg+1), ARGS flag set, other flags unchanged");
      __CPROVER_assert (r.args != NULL && r.arg_lens != NULL && __CPROVER_r_ok (r.args, sizeof (char *) * (n1 + 1)) && __CPROVER_r_ok (r.arg_lens, sizeof (unsigned) * (n1 + 1)), "post2 TRUE => both arrays hold args_len+1 slots");
      __CPROVER_assert (r.args[n1] == NULL && r.arg_lens[n1] == 0, "post3 TRUE => terminator slot is NULL / 0");
      __CPROVER_assert (FRESH_COPY (r.args[arg], v), "post4 TRUE => args[arg] is a fresh NUL-terminated block of exactly length+1 bytes equal to the value (RULE_OK)");
      __CPROVER_assert (r.arg_lens[arg] == ((unsigned) v.len | (is_path ? BUS_MATCH_ARG_IS_PATH : 0) | (is_ns ? BUS_MATCH_ARG_NAMESPACE : 0)), "post5 TRUE => arg_lens[arg] == length | kind flags");
      if (verif_gk >= 0 && verif_gk < n1 && verif_gk != arg)
        __CPROVER_assert (verif_gk < n0 ? (r.args[verif_gk] == A0[verif_gk] && r.arg_lens[verif_gk] == L0[verif_gk]) : (r.args[verif_gk] == NULL && r.arg_lens[verif_gk] == 0),
                          "post6 TRUE => every other old slot is unchanged, every other new slot is NULL / 0");
      REACH ("set");
#if !defined(C07_N0) || (C07_ARG >= C07_N0 && C07_N0 > 0)
      if (n1 > n0 && n0 > 0) REACH ("grown");
#endif
#if !defined(C07_N0) || (C07_ARG < C07_N0)
      if (arg < n0 && A0[arg] != NULL) REACH ("replaced");
#endif
    }
  else
    {
      __CPROVER_assert (r.flags == flags0, "post7 FALSE => flags unchanged");
      __CPROVER_assert (r.args_len == n0 || r.args_len == n1, "post8 FALSE => args_len is the old or the grown length");
      if (verif_gk >= 0 && verif_gk < r.args_len)
        __CPROVER_assert (verif_gk < n0 ? (r.args[verif_gk] == A0[verif_gk] && r.arg_lens[verif_gk] == L0[verif_gk]) : (r.args[verif_gk] == NULL && r.arg_lens[verif_gk] == 0),
                          "post9 FALSE => the rule's argument matches are unchanged (old slots identical, slots added by a grown array are NULL / 0)");
      __CPROVER_assert (IMP (r.args_len > 0, r.args != NULL && r.arg_lens != NULL && r.args[r.args_len] == NULL && r.arg_lens[r.args_len] == 0), "post10 FALSE => RULE_OK still holds (terminated arrays: the rule can be unref'd and matched)");
      if (verif_gk >= 0 && verif_gk < n0 && A0[verif_gk] != NULL) __CPROVER_assert (__CPROVER_r_ok (A0[verif_gk], old[verif_gk].len + 1), "post11 FALSE => no old value was freed");
      REACH ("oom");
#if !defined(C07_N0) || (C07_ARG >= C07_N0)
      if (r.args_len != n0) REACH ("oom-after-growth");
#endif
    }
}
#endif
