/* C08 — ghost state and AUTH_INV as pure expressions (no function calls, so they could also be used inside CBMC loop
 * contracts).  Written with the non-short-circuit operators & and | on _Bool values, so the symbolic executor sees
 * straight-line code instead of thousands of branches.
 * May be included before or after the real translation unit: the macros name its statics only where they are expanded. */
#ifndef C08_INV_H
#define C08_INV_H
#define MECH_EXT 1
#define MECH_SHA1 2
#define MECH_ANON 3
#define MECHID(m) (((m) == &all_mechanisms[0]) * MECH_EXT + ((m) == &all_mechanisms[1]) * MECH_SHA1 + ((m) == &all_mechanisms[2]) * MECH_ANON)
int g_mech_ok;     /* which mechanism's success site let the conversation into WaitingForBegin (0: none since the last rejection) */
int g_dirty;       /* != 0: an out-of-memory return of mechanism g_dirty left verified partial results in authorized_identity; the same command is retried */
int g_evidence;    /* set by the contract text of a success site, consumed by the precondition of send_ok */

struct c08_events
{
  int sent;            /* replies sent by the callee contracts in this step */
  int last;            /* kind of the last one (enum spec_reply) */
  int cls;             /* how the command was classified (enum spec_cmd) by the parsing callee, 0 if no parsing callee ran */
  int mech;            /* what the mechanism answered (enum spec_mech) */
  int mech_calls;      /* calls of the mechanism's data function */
  int send_ok_calls, send_rejected_calls, send_error_calls, send_data_calls, send_agree_calls, shutdown_calls;
  int handler_calls; int handler_cmd; const DBusString *handler_args;
  int process_command_calls;
} G;
DBusString *g_reply_buf;    /* where the replies of the callee contracts accumulate (auth->outgoing) */
int g_pc_lines, g_pc_consumed; _Bool g_pc_last_was_begin;     /* process_command contract: lines / bytes taken from the front of incoming */
static DBusCredentials c08_socket_creds, c08_authorized, c08_desired;

#define ST(a) ((a)->state)
#define SRV(a) ((DBusAuthServer *) (a))
#define S_WFA (&server_state_waiting_for_auth)
#define S_WFD (&server_state_waiting_for_data)
#define S_WFB (&server_state_waiting_for_begin)
#define S_AUTHD (&common_state_authenticated)
#define S_DISC (&common_state_need_disconnect)
#define IS_SERVER_STATE(s) (((s) == S_WFA) | ((s) == S_WFD) | ((s) == S_WFB) | ((s) == S_AUTHD) | ((s) == S_DISC))
#define IS_LIVE_STATE(s) (((s) == S_WFA) | ((s) == S_WFD) | ((s) == S_WFB))
#define SPEC_OF(s) ((s) == S_WFA ? SPEC_WAITING_FOR_AUTH : (s) == S_WFD ? SPEC_WAITING_FOR_DATA : (s) == S_WFB ? SPEC_WAITING_FOR_BEGIN : (s) == S_AUTHD ? SPEC_AUTHENTICATED : SPEC_DISCONNECT)

#define B(x) ((_Bool) (x))
#define BIMP(a, b) (B (!(a)) | B (b))
#define X_ANON(c) (B ((c)->unix_uid == DBUS_UID_UNSET) & B ((c)->sid == 0))
#define X_EMPTY(c) (B ((c)->unix_uid == DBUS_UID_UNSET) & B ((c)->pid == DBUS_PID_UNSET) & B ((c)->gids == 0) & B ((c)->sid == 0) & B ((c)->label == 0) & B ((c)->adt == 0))
#define X_SAME_USER(a, b) (B ((a)->unix_uid == (b)->unix_uid) & B ((a)->sid == (b)->sid))
#define X_SUPERSET(c, s) ((B ((s)->pid == DBUS_PID_UNSET) | B ((s)->pid == (c)->pid)) & (B ((s)->unix_uid == DBUS_UID_UNSET) | B ((s)->unix_uid == (c)->unix_uid)) & \
   (B ((s)->gids == 0) | B ((s)->gids == (c)->gids)) & (B ((s)->sid == 0) | B ((s)->sid == (c)->sid)) & (B ((s)->label == 0) | B ((s)->label == (c)->label)) & (B ((s)->adt == 0) | B ((s)->adt == (c)->adt)))

/* "the identity the application then sees is exactly the one that mechanism established":
 *  EXTERNAL          a user identity, and every credential in it is one the kernel reported for the socket
 *  DBUS_COOKIE_SHA1  the user who owns the server process (owner of the keyring the cookie came from)
 *  ANONYMOUS         no user identity at all */
#define X_IDENTITY_OK(a, m) \
  ((B ((m) == MECH_EXT) & B (!X_ANON ((a)->authorized_identity)) & X_SUPERSET ((a)->credentials, (a)->authorized_identity)) | \
   (B ((m) == MECH_SHA1) & B (!X_ANON ((a)->authorized_identity)) & X_SAME_USER (&g_myself, (a)->authorized_identity)) | \
   (B ((m) == MECH_ANON) & X_ANON ((a)->authorized_identity)))
/* what an interrupted (OOM) run may leave in authorized_identity: only verified credentials */
#define X_IDENTITY_PARTIAL(a, m) \
  ((B ((m) == MECH_EXT) & X_SUPERSET ((a)->credentials, (a)->authorized_identity)) | \
   (B ((m) == MECH_SHA1) & (B ((a)->authorized_identity->unix_uid == DBUS_UID_UNSET) | B ((a)->authorized_identity->unix_uid == g_myself.unix_uid)) & \
                           (B ((a)->authorized_identity->sid == 0) | B ((a)->authorized_identity->sid == g_myself.sid))) | \
   (B ((m) == MECH_ANON) & X_ANON ((a)->authorized_identity) & X_SUPERSET ((a)->credentials, (a)->authorized_identity)))

#define X_STR_OK(s) (B (SLIVE (s)) & B (SLEN (s) >= 0) & B (SLEN (s) <= STR_MAX))
/* AUTH_INV: required and ensured by every operation on the server-side conversation, clause by clause */
/* (0) shape */
#define X_INV_SHAPE(a) \
  (B ((a)->side == auth_side_server) & B (IS_SERVER_STATE (ST (a))) & \
   X_STR_OK (&(a)->incoming) & X_STR_OK (&(a)->outgoing) & X_STR_OK (&(a)->identity) & X_STR_OK (&(a)->context) & X_STR_OK (&(a)->challenge) & X_STR_OK (&SRV (a)->guid) & \
   B (!(STAG (&(a)->outgoing) & TAG_OPEN)) & \
   B (CRED_LIVE ((a)->credentials)) & B (CRED_LIVE ((a)->authorized_identity)) & B (CRED_LIVE ((a)->desired_identity)) & \
   B ((a)->credentials != (a)->authorized_identity) & B ((a)->credentials != (a)->desired_identity) & B ((a)->authorized_identity != (a)->desired_identity) & \
   (B ((a)->mech == NULL) | B (MECHID ((a)->mech) != 0)))
/* (1) past OK only through a mechanism's success site, with that mechanism's identity */
#define X_INV_IDENT(a) BIMP (B (ST (a) == S_WFB) | B (ST (a) == S_AUTHD), B (g_mech_ok != 0) & X_IDENTITY_OK (a, g_mech_ok) & B (g_dirty == 0))
/* (2) bounded rejections */
#define X_INV_BOUND(a) (B (SRV (a)->max_failures >= 1) & B (SRV (a)->failures >= 0) & B (SRV (a)->failures <= SRV (a)->max_failures) & BIMP (SRV (a)->failures >= SRV (a)->max_failures, ST (a) == S_DISC))
/* (3) no identity is granted while no mechanism has succeeded (except verified leftovers of an OOM return, g_dirty) */
#define X_BEFORE_OK(a) (B (ST (a) == S_WFA) | B (ST (a) == S_WFD))
#define X_INV_NOID(a) \
  (BIMP (X_BEFORE_OK (a) & B (g_dirty == 0), X_EMPTY ((a)->authorized_identity)) & BIMP (X_BEFORE_OK (a), g_mech_ok == 0) & \
   BIMP (g_dirty != 0, (X_BEFORE_OK (a) | B (ST (a) == S_DISC)) & (B (g_dirty == MECH_EXT) | B (g_dirty == MECH_SHA1) | B (g_dirty == MECH_ANON)) & X_IDENTITY_PARTIAL (a, g_dirty)))
/* (4) WaitingForData has a mechanism to feed the DATA to */
#define X_INV_WFD(a) BIMP (ST (a) == S_WFD, B (MECHID ((a)->mech) != 0) & (B (g_dirty == 0) | B (g_dirty == MECHID ((a)->mech))))
/* (5) DBUS_COOKIE_SHA1 second step: the challenge was issued for the keyring of the server's own user */
#define X_INV_SHA(a) \
  BIMP ((a)->cookie_id >= 0, ((B (MECHID ((a)->mech) == MECH_SHA1) & B (ST (a) != S_WFA)) | B (g_dirty == MECH_SHA1)) & B ((a)->keyring != NULL) & \
        B (!X_ANON ((a)->desired_identity)) & X_SAME_USER (&g_myself, (a)->desired_identity))
#define AUTH_INV_X(a) (X_INV_SHAPE (a) & X_INV_IDENT (a) & X_INV_BOUND (a) & X_INV_NOID (a) & X_INV_WFD (a) & X_INV_SHA (a))
#endif
