/* C11 / C10 — socket_do_iteration and socket_handle_watch (dbus/dbus-transport-socket.c, REAL code, statics reached by #include):
 * no message I/O in the call in which the handshake completes.
 *
 * Oracle: the comment in socket_handle_watch ("We don't want to do a read immediately following a successful authentication.
 * This is so we have a chance to propagate the authentication state further up.  Specifically, we need to process any pending
 * data from the auth object.") and "See comment in socket_handle_watch" in socket_do_iteration; property C11 ("all partitions of
 * the handshake-to-message boundary where message bytes arrive in the same read as BEGIN"): the bytes that followed BEGIN are
 * appended to the loader by _dbus_transport_get_dispatch_status -> recover_unused_bytes (C08.dispatch_status, C11.F5.recover);
 * reading further socket bytes into the loader BEFORE that would permute the byte stream.
 *
 *  ensures  do_authentication reports "completed in this call"  =>  do_reading is not called afterwards in this call
 *           (socket_do_iteration: do_writing neither — the function leaves; check_write_watch still runs, as the code documents)
 *  ensures  otherwise do_reading / do_writing are called at most once each, only after do_authentication, only for the poll /
 *           watch conditions and iteration flags that ask for them
 *  ensures  socket_handle_watch: FALSE <=> do_authentication / do_reading / do_writing reported lack of memory
 */
#include <config.h>
#include "dbus/dbus-internals.h"
#include "verif_prelude.h"
#include "verif_ghost.h"
_Bool nondet_bool (void); int nondet_int (void); unsigned nondet_unsigned (void); short nondet_short (void);
#define PRE(c, what) __CPROVER_assert ((c), "precondition of " what)
#define POST(c, what) __CPROVER_assert ((c), what)
#ifndef IMP
#define IMP(a, b) (!(a) || (b))
#endif
#define REACH(tag) __CPROVER_assert (0, "REACH:" tag)
#ifndef VERIF_FN
#define VERIF_FN 1
#endif
#include VERIF_TU
void _dbus_real_assert (dbus_bool_t condition, const char *condition_text, const char *file, int line, const char *func)
{ __CPROVER_assert (condition, "dbus assertion (inline helper)"); __CPROVER_assume (condition); }

static DBusTransportSocket ST; static DBusTransport *const t = &ST.base;
static char o_conn, o_auth, o_rw, o_ww;
struct c10_iter_ghost {
  _Bool authd;                   /* what _dbus_transport_try_to_authenticate answers */
  _Bool completed_now;           /* the handshake completed inside do_authentication of THIS call */
  int auth_calls, reads, writes, reads_after_completion, writes_after_completion, io_before_auth, cww, polls;
  _Bool auth_r, auth_w, auth_oom, read_oom, write_oom; short revents; int poll_res;
} GI;
dbus_bool_t _dbus_transport_try_to_authenticate (DBusTransport *tr) { return GI.authd; }
/* CONTRACT do_authentication: "auth_completed: whether the handshake completed during this call" (the last statement of the real
 * function: orig_auth_state != authenticated afterwards); FALSE <=> out of memory */
dbus_bool_t verif_stub_do_authentication (DBusTransport *tr, dbus_bool_t do_r, dbus_bool_t do_w, dbus_bool_t *auth_completed)
{
  PRE (tr == t, "do_authentication: this transport");
  GI.auth_calls++; GI.auth_r = do_r; GI.auth_w = do_w;
  _Bool done = 0;
  if (!GI.authd && nondet_bool ()) { GI.authd = 1; done = 1; GI.completed_now = 1; }
  if (auth_completed) *auth_completed = done;
  GI.auth_oom = nondet_bool ();
  return !GI.auth_oom;
}
dbus_bool_t verif_stub_do_reading (DBusTransport *tr)
{
  PRE (tr == t, "do_reading: this transport");
  GI.reads++; if (GI.completed_now) GI.reads_after_completion++;
  GI.read_oom = nondet_bool (); return !GI.read_oom;
}
dbus_bool_t verif_stub_do_writing (DBusTransport *tr)
{
  PRE (tr == t, "do_writing: this transport");
  GI.writes++; if (GI.completed_now) GI.writes_after_completion++;
  GI.write_oom = nondet_bool (); return !GI.write_oom;
}
void verif_stub_check_write_watch (DBusTransport *tr) { GI.cww++; }
void verif_stub_do_io_error (DBusTransport *tr) { tr->disconnected = TRUE; }
dbus_bool_t verif_stub_unix_error_with_read_to_come (DBusTransport *tr, DBusWatch *w, unsigned int flags) { return nondet_bool (); }
void _dbus_transport_disconnect (DBusTransport *tr) { tr->disconnected = TRUE; }
dbus_bool_t _dbus_connection_has_messages_to_send_unlocked (DBusConnection *c) { return nondet_bool (); }
DBusAuthState _dbus_auth_do_work (DBusAuth *a) { int r = nondet_int (); __CPROVER_assume (r >= DBUS_AUTH_STATE_WAITING_FOR_INPUT && r <= DBUS_AUTH_STATE_AUTHENTICATED); return (DBusAuthState) r; }
void _dbus_connection_lock (DBusConnection *c) { }
void _dbus_connection_unlock (DBusConnection *c) { }
/* assumed (kernel): poll returns -1, 0 or 1 and fills revents */
int _dbus_poll (DBusPollFD *fds, int n_fds, int timeout_milliseconds)
{
  PRE (n_fds == 1 && fds != NULL, "_dbus_poll: the one socket");
  GI.polls++;
  int r = nondet_int (); __CPROVER_assume (r >= -1 && r <= 1); fds->revents = nondet_short (); GI.revents = fds->revents; GI.poll_res = r; return r;
}
int _dbus_save_socket_errno (void) { return nondet_int (); }
/* The EINTR retry (`goto again`) is a memoryless loop: between the label and the back edge only poll_res, saved_errno and
 * poll_fd.revents are written, and all three are overwritten before they are read again.  It is closed by hand with the invariant
 * TRUE: the back edge is cut here, the state at `again:` after a retry being one of the states explored on first arrival. */
dbus_bool_t _dbus_get_is_errno_eintr (int e) { if (e == 5) { REACH ("eintr-retry-cut"); __CPROVER_assume (0); } return FALSE; }
const char *_dbus_strerror (int e) { return "e"; }

void harness (void)
{
  t->refcount = 1; t->vtable = NULL; t->connection = (DBusConnection *) &o_conn; t->auth = (DBusAuth *) &o_auth; t->loader = NULL;
  t->disconnected = nondet_bool (); t->authenticated = 0; t->send_credentials_pending = nondet_bool (); t->receive_credentials_pending = nondet_bool (); t->is_server = nondet_bool ();
  ST.read_watch = (DBusWatch *) &o_rw; ST.write_watch = (DBusWatch *) &o_ww; ST.fd.fd = nondet_int ();
  GI.authd = nondet_bool (); GI.completed_now = 0; GI.auth_calls = GI.reads = GI.writes = GI.reads_after_completion = GI.writes_after_completion = GI.io_before_auth = GI.cww = GI.polls = 0;
  GI.auth_oom = GI.read_oom = GI.write_oom = 0; GI.revents = 0; GI.poll_res = 0;
  unsigned flags = nondet_unsigned ();
#if VERIF_FN == 1
  socket_do_iteration (t, flags, nondet_int ());
  POST (GI.reads_after_completion == 0, "do_iteration: the handshake completed in this call => do_reading is NOT called in the same iteration (leftover bytes are recovered first)");
  POST (GI.writes_after_completion == 0, "do_iteration: the handshake completed in this call => nothing is written either, the function leaves");
  POST (GI.auth_calls <= 1 && GI.reads <= 1 && GI.writes <= 2, "do_iteration: at most one authentication step and one read per iteration");
  POST (IMP (GI.reads == 1, GI.auth_calls == 1 && (flags & DBUS_ITERATION_DO_READING) && (GI.revents & _DBUS_POLLIN)), "do_iteration: do_reading runs only when asked for (DO_READING) and readable, after the authentication step (its own guard refuses unauthenticated transports: C08.io_guard.read)");
  POST (GI.cww == 1, "do_iteration: check_write_watch always runs, once (the connection code relies on it)");
  if (GI.completed_now) REACH ("completed-in-this-iteration"); if (GI.reads == 1 && GI.writes >= 1) REACH ("read-and-write"); if (GI.auth_calls == 0) REACH ("no-poll");
#else
  DBusWatch *w = nondet_bool () ? ST.read_watch : ST.write_watch;
  dbus_bool_t ret = socket_handle_watch (t, w, flags);
  POST (GI.reads_after_completion == 0, "handle_watch: the handshake completed in this call => do_reading is NOT called in the same call (leftover bytes are recovered first)");
  POST (GI.auth_calls <= 1 && GI.reads <= 1 && GI.writes <= 1 && GI.reads + GI.writes <= 1, "handle_watch: one authentication step, then at most one of read / write");
  POST (IMP (GI.reads == 1, GI.auth_calls == 1 && w == ST.read_watch && (flags & DBUS_WATCH_READABLE)), "handle_watch: do_reading runs only for a readable read watch, after the authentication step (its own guard refuses unauthenticated transports: C08.io_guard.read)");
  POST (IMP (GI.writes == 1, GI.auth_calls == 1 && w == ST.write_watch && (flags & DBUS_WATCH_WRITABLE)), "handle_watch: messages are written only for a writable write watch, after the authentication step");
  POST ((ret == FALSE) == (GI.auth_oom || GI.read_oom || GI.write_oom), "handle_watch: FALSE <=> a step reported lack of memory");
  POST (IMP (GI.auth_oom, GI.reads == 0 && GI.writes == 0), "handle_watch: nothing is read or written after the authentication step ran out of memory");
  if (GI.completed_now && w == ST.read_watch) REACH ("completed-on-read-watch"); if (GI.reads == 1) REACH ("read"); if (GI.writes == 1) REACH ("write"); if (!ret) REACH ("oom"); if (GI.auth_calls == 0) REACH ("hangup-or-nothing");
#endif
}
