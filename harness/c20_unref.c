/* C20.unref (P, loop-free): the real _dbus_object_subtree_unref / _dbus_object_subtree_ref meet the contract
 * used in C20.unreg / C20.dispatch: one reference released; the last one frees the node and its children array;
 * the library's assertions (positive refcount, no handler left on a finalized node) hold under that precondition. */
#define VERIF_NO_MEMMOVE_STUB 1
#include "c20_common.h"
VERIF_FSR_PROTO(2) { __CPROVER_assert (0, "outside this unit"); return NULL; }
VERIF_FSR_PROTO(3) { __CPROVER_assert (0, "outside this unit"); return NULL; }
VERIF_FSR_PROTO(4) { __CPROVER_assert (0, "outside this unit"); return NULL; }
VERIF_UFR_PROTO(10) { __CPROVER_assert (0, "outside this unit"); return 0; }
void harness (void)
{
  DBusObjectSubtree *s = malloc (sizeof (DBusObjectSubtree)); __CPROVER_assume (s != NULL);
  int mx = nondet_int (); __CPROVER_assume (0 <= mx && mx <= (1 << 28));
  s->subtrees = mx == 0 ? NULL : malloc ((size_t) mx * sizeof (void *)); __CPROVER_assume (mx == 0 || s->subtrees != NULL);
  void *arr = s->subtrees;
  __CPROVER_assume (s->refcount.value >= 1 && s->refcount.value < 0x7fffffff);
  __CPROVER_assume (IMP (s->refcount.value == 1, s->message_function == NULL && s->unregister_function == NULL));
  int rc = s->refcount.value;
  if (nondet_bool ()) { DBusObjectSubtree *t = _dbus_object_subtree_ref (s); __CPROVER_assert (t == s && s->refcount.value == rc + 1, "ref adds one reference"); REACH ("ref"); return; }
  _dbus_object_subtree_unref (s);
  if (rc == 1) { REACH ("finalized"); }   /* obligations here: the two library assertions and the free() preconditions (no double free) */
  else { __CPROVER_assert (s->refcount.value == rc - 1 && s->subtrees == arr, "one reference released, node kept"); REACH ("kept"); }
}
