/* C17.dispatch / C20 error selection (T; B: filter list <= 2): dbus_connection_dispatch, real body.
 * C17 part (oracle: property C17 "with the reply whose reply-serial matches it ... a reply is never paired with a
 * different call"; dbus_connection_send_with_reply doc: "A DBusPendingCall will see a reply message before any filters
 * or registered object path handlers"): the popped message completes the call attached under the message's reply
 * serial, if any, exactly once, before builtin filters, filters and object tree, and then nothing else runs; the
 * preconditions of complete_pending_call_and_unlock (contract enforced in C17.complete) hold at the call site.
 * C20 part (oracle [D5]/[P]): if nobody took a METHOD_CALL, exactly one error reply is sent:
 * UnknownMethod if the object tree reported found_object, UnknownObject otherwise; nothing for other types. */
#include "c17_common.h"
#include "c17_model.h"
static DBusList *g_linkp; static DBusMessage *g_message; static int g_pops, g_putbacks, g_builtin_calls, g_tree_calls, g_filter_calls, g_sent, g_new_errors;
static DBusHandlerResult g_builtin_res, g_tree_res, g_filter_res[2]; static dbus_bool_t g_found; static const char *g_err_name; static DBusMessage *g_sent_msg;
static DBusDispatchStatus g_status0; static _Bool g_pop_null, g_tree_locked_ok, g_filter_locked, g_oom_copy; static int g_nfilters; static int g_status_updates, g_conn_unrefs;
static DBusMessageFilter g_filters[2]; static DBusList g_flinks[2];
DBusDispatchStatus verif_stub_get_dispatch_status (DBusConnection *c) { PRE (c->have_connection_lock, "_dbus_connection_get_dispatch_status_unlocked: lock held"); return g_pops == 0 && g_putbacks == 0 && G.completions == 0 && g_tree_calls == 0 && g_builtin_calls == 0 ? g_status0 : (DBusDispatchStatus) nondet_int (); }
void verif_stub_update_status_and_unlock (DBusConnection *c, DBusDispatchStatus s) { PRE (c->have_connection_lock, "_dbus_connection_update_dispatch_status_and_unlock: lock held"); c->have_connection_lock = 0; g_status_updates++; }
void verif_stub_acquire_dispatch (DBusConnection *c) { PRE (c->have_connection_lock && !c->dispatch_acquired, "_dbus_connection_acquire_dispatch"); c->dispatch_acquired = TRUE; }
void verif_stub_release_dispatch (DBusConnection *c) { PRE (c->have_connection_lock && c->dispatch_acquired, "_dbus_connection_release_dispatch: lock held, dispatch acquired"); c->dispatch_acquired = FALSE; }
DBusList *verif_stub_pop_message_link (DBusConnection *c) { PRE (c->have_connection_lock && c->dispatch_acquired, "_dbus_connection_pop_message_link_unlocked"); if (g_pop_null) return NULL; g_pops++; return g_linkp; }
void verif_stub_putback (DBusConnection *c, DBusList *l) { PRE (c->have_connection_lock && l == g_linkp, "_dbus_connection_putback_message_link_unlocked"); g_putbacks++; }
DBusHandlerResult verif_stub_builtin_filters (DBusConnection *c, DBusMessage *m) { PRE (c->have_connection_lock && m == g_message, "_dbus_connection_run_builtin_filters_unlocked_no_update"); g_builtin_calls++; return g_builtin_res; }
DBusHandlerResult _dbus_object_tree_dispatch_and_unlock (DBusObjectTree *t, DBusMessage *m, dbus_bool_t *found_object)
{ PRE (m == g_message && found_object != NULL && G.conn->have_connection_lock, "_dbus_object_tree_dispatch_and_unlock: lock held"); g_tree_calls++; G.conn->have_connection_lock = 0; *found_object = g_found; return g_tree_res; }
static DBusHandlerResult filter_fn (int k, DBusConnection *c, DBusMessage *m) { if (c->have_connection_lock || m != g_message) g_filter_locked = 1; g_filter_calls++; return g_filter_res[k]; }
static DBusHandlerResult f0 (DBusConnection *c, DBusMessage *m, void *d) { return filter_fn (0, c, m); }
static DBusHandlerResult f1 (DBusConnection *c, DBusMessage *m, void *d) { return filter_fn (1, c, m); }
dbus_bool_t _dbus_list_copy (DBusList **list, DBusList **dest)
{ if (g_oom_copy) return FALSE; *dest = NULL;
  if (g_nfilters >= 1) { g_flinks[0].data = &g_filters[0]; g_flinks[0].next = g_flinks[0].prev = &g_flinks[g_nfilters - 1]; *dest = &g_flinks[0]; }
  if (g_nfilters == 2) { g_flinks[1].data = &g_filters[1]; g_flinks[1].next = g_flinks[1].prev = &g_flinks[0]; }
  return TRUE; }
DBusList *_dbus_list_get_first_link (DBusList **list) { return *list; }
void _dbus_list_clear_full (DBusList **list, DBusFreeFunction f) { *list = NULL; }
DBusList *_dbus_list_alloc_link (void *data) { if (nondet_bool ()) return NULL; DBusList *l = malloc (sizeof (DBusList)); if (l) l->data = data; return l; }
dbus_bool_t _dbus_string_init (DBusString *s) { return nondet_bool (); }
dbus_bool_t verif_stub_append_printf (DBusString *s, const char *f, ...) { return nondet_bool (); }
void _dbus_string_free (DBusString *s) { }
const char *_dbus_string_get_const_data (const DBusString *s) { return "text"; }
const char *dbus_message_get_member (DBusMessage *m) { return "M"; }
const char *dbus_message_get_signature (DBusMessage *m) { return ""; }
const char *dbus_message_get_interface (DBusMessage *m) { return nondet_bool () ? "a.b" : NULL; }
DBusMessage *dbus_message_new_error (DBusMessage *reply_to, const char *name, const char *text)
{ PRE (reply_to == g_message && name != NULL, "dbus_message_new_error"); if (nondet_bool ()) return NULL; g_new_errors++; g_err_name = name; return verif_new_msg (2, 7, DBUS_MESSAGE_TYPE_ERROR); }
DBusPreallocatedSend *verif_stub_preallocate_send (DBusConnection *c) { PRE (c->have_connection_lock, "_dbus_connection_preallocate_send_unlocked"); return nondet_bool () ? NULL : (DBusPreallocatedSend *) &g_sent; }
void verif_stub_send_preallocated (DBusConnection *c, DBusPreallocatedSend *p, DBusMessage *m, dbus_uint32_t *serial) { PRE (c->have_connection_lock && m != NULL, "_dbus_connection_send_preallocated_unlocked_no_update: lock held"); g_sent++; g_sent_msg = m; }
void verif_stub_connection_unref (DBusConnection *c) { PRE (!c->have_connection_lock, "dbus_connection_unref: lock not held"); g_conn_unrefs++; c->refcount.value--; }
static _Bool name_is (const char *a, const char *lit) { int q = 0; for (; q < 60 && lit[q]; q++) if (a[q] != lit[q]) return 0; return a[q] == 0; }

void harness (void)
{
  DBusConnection c; char tmo;
  c.have_connection_lock = 0; c.expired_messages = NULL; c.incoming_messages = NULL; c.refcount.value = 10; c.mutex = NULL; c.dispatch_acquired = FALSE; c.filter_list = NULL; c.objects = nondet_ptr ();
  verif_c17_reset (&c);
  g_pops = g_putbacks = g_builtin_calls = g_tree_calls = g_filter_calls = g_sent = g_new_errors = g_status_updates = g_conn_unrefs = 0; g_err_name = NULL; g_sent_msg = NULL; g_filter_locked = 0;
  g_status0 = nondet_int (); g_pop_null = nondet_bool (); g_oom_copy = nondet_bool (); g_nfilters = nondet_int (); __CPROVER_assume (0 <= g_nfilters && g_nfilters <= 2);
  g_builtin_res = nondet_int (); g_tree_res = nondet_int (); g_found = nondet_bool ();
  for (int k = 0; k < 2; k++) { g_filter_res[k] = nondet_int (); g_filters[k].refcount.value = 1; g_filters[k].function = nondet_bool () ? (k ? f1 : f0) : NULL; g_filters[k].free_user_data_function = NULL; }
  /* the message at the head of the incoming queue */
  dbus_uint32_t rs = nondet_uint (); int type = nondet_int (); __CPROVER_assume (1 <= type && type <= 4);
  g_message = verif_new_msg (1, rs, type); g_linkp = malloc (sizeof (DBusList)); __CPROVER_assume (g_linkp != NULL); g_linkp->data = g_message; g_linkp->next = g_linkp->prev = g_linkp;
  c.n_incoming = nondet_int (); __CPROVER_assume (0 <= c.n_incoming && c.n_incoming < 1000000);
  /* one outstanding call (or none) */
  dbus_uint32_t serial = nondet_uint (); __CPROVER_assume (serial != 0);
  DBusMessage *err = verif_new_msg (0, serial, DBUS_MESSAGE_TYPE_ERROR);
  DBusList *tl = malloc (sizeof (DBusList)); __CPROVER_assume (tl != NULL); tl->data = err; tl->next = tl->prev = tl;
  int rc = nondet_int (); __CPROVER_assume (1 <= rc && rc <= 2);
  _Bool has_fn = nondet_bool (); _Bool outstanding = nondet_bool ();
  DBusPendingCall *p = verif_pc_alloc ();
  verif_pc_init (p, rc, has_fn ? verif_notify : NULL, &c, NULL, (DBusTimeout *) &tmo, tl, serial, 0, 1);
  if (outstanding) { G.present[0] = 1; G.key[0] = serial; G.val[0] = p; }

  DBusDispatchStatus st = dbus_connection_dispatch (&c);

  _Bool match = outstanding && rs == serial;
  __CPROVER_assert (!c.have_connection_lock && !c.dispatch_acquired, "post0 returns unlocked, dispatch released");
  __CPROVER_assert (c.refcount.value == 10, "post0 connection reference balance");
  if (g_status0 != DBUS_DISPATCH_DATA_REMAINS) { __CPROVER_assert (g_pops == 0 && G.completions == 0 && g_sent == 0 && st == g_status0, "postA nothing to dispatch: status returned, nothing done"); REACH ("no-data"); return; }
  if (g_pop_null) { __CPROVER_assert (G.completions == 0 && g_sent == 0 && g_builtin_calls == 0, "postA queue drained by another thread: nothing done"); REACH ("drained"); return; }
  /* ---- C17 ---- */
  __CPROVER_assert (G.completions == (match ? 1 : 0), "post1 a call is completed iff it is attached under the message's reply serial; exactly once");
  __CPROVER_assert (IMP (match, G.completed_call == p && G.completed_with == g_message), "post1 the reply is paired with exactly that call");
  __CPROVER_assert (IMP (match, g_builtin_calls == 0 && g_filter_calls == 0 && g_tree_calls == 0 && g_sent == 0 && g_putbacks == 0), "post1 a reply to a pending call is seen by nobody else");
  __CPROVER_assert (G.notified == (match && has_fn ? 1 : 0) && !G.notify_locked, "post1 notified exactly once iff completed, without the lock");
  __CPROVER_assert (G.lookups == 1, "post1 one lookup in pending_replies, before any filter");
  __CPROVER_assert (!g_filter_locked, "post2 filters run without the lock on the popped message");
  if (match) { REACH ("pending-reply"); if (rc == 1) REACH ("pending-finalized"); return; }
  /* ---- C20: error selection ---- */
  _Bool declined_all = g_tree_calls == 1 && g_tree_res == DBUS_HANDLER_RESULT_NOT_YET_HANDLED;
  __CPROVER_assert (g_sent <= 1 && IMP (g_sent == 1, declined_all && type == DBUS_MESSAGE_TYPE_METHOD_CALL && G.msg_type[2] == DBUS_MESSAGE_TYPE_ERROR && g_sent_msg == G.msg[2]),
                    "post3 an error reply is sent only for a method call that nobody took, at most one");
  __CPROVER_assert (IMP (g_sent == 1, name_is (g_err_name, g_found ? DBUS_ERROR_UNKNOWN_METHOD : DBUS_ERROR_UNKNOWN_OBJECT)),
                    "post3 UnknownMethod if the object tree found the object, UnknownObject otherwise");
  __CPROVER_assert (IMP (declined_all && type == DBUS_MESSAGE_TYPE_METHOD_CALL && g_putbacks == 0, g_sent == 1), "post3 an untaken method call is answered unless memory ran out (then it is put back)");
  __CPROVER_assert (IMP (g_tree_calls == 1, g_builtin_calls == 1 && g_builtin_res == DBUS_HANDLER_RESULT_NOT_YET_HANDLED), "post3 object tree only after builtin filters and filters declined");
  __CPROVER_assert (g_putbacks <= 1 && IMP (g_putbacks == 1, g_sent == 0), "post3 put back for a retry only if nothing was sent");
  if (g_sent == 1 && g_found) REACH ("unknown-method"); if (g_sent == 1 && !g_found) REACH ("unknown-object");
  if (declined_all && type != DBUS_MESSAGE_TYPE_METHOD_CALL) REACH ("untaken-signal"); if (g_putbacks) REACH ("putback"); if (g_filter_calls == 2) REACH ("two-filters");
}
