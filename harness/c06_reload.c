/* C06 (configuration reload, T, hybrid): the real static process_config_every_time of bus/bus.c.
 * "For every bus configuration ... the bus permits exactly when the documented evaluation permits":
 * after a (re)load the rules in force must be those of the file just parsed, also for connections that
 * completed Hello before the reload.  So: the policy stolen from THIS parser is installed in the context
 * BEFORE the existing connections' client policies are rebuilt (bus_connections_reload_policy reads
 * context->policy), the old policy is released exactly once, the limits of this parser are installed,
 * and on success the activation subsystem was (re)loaded with this parser's service directories. */
#include <config.h>
#include "dbus/dbus-internals.h"
struct verif_reload_ghost { int reload_calls; int unrefs; int limits_calls; int steals; int activation_calls; int activation_news; int activation_unrefs; int n_servers; _Bool reload_saw_new_policy; _Bool activation_dirs_ok; };
extern struct verif_reload_ghost G_rl;
extern int verif_rl_steps; extern _Bool verif_rl_err; extern DBusList verif_rl_link;
#include VERIF_TU
struct verif_reload_ghost G_rl; int verif_rl_steps; _Bool verif_rl_err; DBusList verif_rl_link;
_Bool nondet_bool (void); int nondet_int (void);
static BusContext *the_ctx; static BusConfigParser *the_parser; static BusPolicy *old_policy, *new_policy; static DBusList *the_dirs[1];
#define PRE(c, what) __CPROVER_assert ((c), "precondition of " what)
void _dbus_real_assert (dbus_bool_t c, const char *t, const char *f, int l, const char *fn) { __CPROVER_assert (c, "dbus internal assertion"); __CPROVER_assume (c); }
void _dbus_verbose_real (const char *file, const int line, const char *function, const char *format, ...) { }
dbus_bool_t verif_stub_string_init (DBusString *s) { return nondet_bool (); }
void verif_stub_string_free (DBusString *s) { }
int verif_stub_string_get_length (const DBusString *s) { int n = nondet_int (); __CPROVER_assume (n >= 0); return n; }
dbus_bool_t verif_stub_string_append (DBusString *s, const char *b) { return nondet_bool (); }
dbus_bool_t verif_stub_string_copy_data (const DBusString *s, char **out) { static char a[2]; if (nondet_bool ()) return 0; *out = a; return 1; }
void verif_stub_get_limits (BusConfigParser *p, BusLimits *l) { PRE (p == the_parser && l == &the_ctx->limits, "bus_config_parser_get_limits: this parser into this context"); G_rl.limits_calls++; }
void verif_stub_policy_unref (BusPolicy *p) { PRE (p == old_policy && p != NULL, "bus_policy_unref: the previous policy"); G_rl.unrefs++; }
BusPolicy *verif_stub_steal_policy (BusConfigParser *p) { PRE (p == the_parser, "bus_config_parser_steal_policy: this parser"); G_rl.steals++; return new_policy; }
dbus_bool_t verif_stub_reload_policy (BusConnections *c, DBusError *error)
{ PRE (c == the_ctx->connections && error != NULL && !verif_rl_err, "bus_connections_reload_policy");
  G_rl.reload_calls++; G_rl.reload_saw_new_policy = (the_ctx->policy == new_policy);
  if (nondet_bool ()) return 1; verif_rl_err = 1; return 0; }
DBusList *verif_stub_list_get_last_link (DBusList **list) { return *list == NULL ? NULL : (*list)->prev; }   /* contract of _dbus_list_get_last_link on a circular list */
char *verif_stub_server_get_address (DBusServer *s) { static char a[2]; return nondet_bool () ? a : NULL; }
void verif_stub_dbus_free (void *p) { }
char *verif_stub_strdup (const char *s) { static char a[2]; return (s != NULL && nondet_bool ()) ? a : NULL; }
DBusList **verif_stub_get_service_dirs (BusConfigParser *p) { PRE (p == the_parser, "bus_config_parser_get_service_dirs: this parser"); return the_dirs; }
const char *verif_stub_get_servicehelper (BusConfigParser *p) { static const char h[2]; return nondet_bool () ? h : NULL; }
dbus_bool_t verif_stub_activation_reload (BusActivation *a, const DBusString *addr, DBusList **dirs, DBusError *error)
{ G_rl.activation_calls++; G_rl.activation_dirs_ok = (dirs == the_dirs); if (nondet_bool ()) return 1; verif_rl_err = 1; return 0; }
BusActivation *verif_stub_activation_new (BusContext *c, const DBusString *addr, DBusList **dirs, DBusError *error)
{ static char act; G_rl.activation_calls++; G_rl.activation_news++; G_rl.activation_dirs_ok = (dirs == the_dirs); if (nondet_bool ()) return (BusActivation *) &act; verif_rl_err = 1; return NULL; }
void bus_activation_unref (BusActivation *a) { G_rl.activation_unrefs++; }
dbus_bool_t dbus_error_is_set (const DBusError *e) { return verif_rl_err; }
void dbus_set_error_const (DBusError *e, const char *name, const char *message) { verif_rl_err = 1; }
void verif_stub_dbus_set_error (DBusError *e, const char *name, const char *format, ...) { verif_rl_err = 1; }
void harness (void)
{
  BusContext ctx; DBusError err; char pobj, opol, npol, conns, act; dbus_bool_t is_reload = nondet_bool (), r;
  G_rl.n_servers = nondet_int (); __CPROVER_assume (G_rl.n_servers >= 0 && G_rl.n_servers <= 2);
  the_ctx = &ctx; the_parser = (BusConfigParser *) &pobj; new_policy = (BusPolicy *) &npol;
  old_policy = is_reload ? (BusPolicy *) &opol : NULL;
  ctx.policy = old_policy; ctx.connections = is_reload ? (BusConnections *) &conns : NULL; ctx.activation = (is_reload && nondet_bool ()) ? (BusActivation *) &act : NULL;
  { static DBusList n1, n2; char s1, s2; n1.data = &s1; n2.data = &s2;   /* <= 2 servers, real circular list (the prev-link walk is a macro) */
    if (G_rl.n_servers == 0) ctx.servers = NULL;
    else if (G_rl.n_servers == 1) { n1.next = &n1; n1.prev = &n1; ctx.servers = &n1; }
    else { n1.next = &n2; n1.prev = &n2; n2.next = &n1; n2.prev = &n1; ctx.servers = &n1; } }
  ctx.address = NULL; ctx.servicehelper = NULL;
  err.name = NULL; err.message = NULL;
  G_rl.reload_calls = 0; G_rl.unrefs = 0; G_rl.limits_calls = 0; G_rl.steals = 0; G_rl.activation_calls = 0; G_rl.activation_news = 0; G_rl.activation_unrefs = 0; verif_rl_steps = 0; verif_rl_err = 0; G_rl.reload_saw_new_policy = 0; G_rl.activation_dirs_ok = 0;
  BusActivation *old_activation = ctx.activation;
  r = process_config_every_time (&ctx, the_parser, is_reload, &err);
  __CPROVER_assert (!(G_rl.steals >= 1) || ctx.policy == new_policy, "reload.post1 the context holds the policy parsed from this configuration");
  __CPROVER_assert (G_rl.reload_calls <= 1 && (G_rl.reload_calls == 0 || G_rl.reload_saw_new_policy), "reload.post2 existing connections are re-evaluated against the NEW policy (it is installed before bus_connections_reload_policy)");
  __CPROVER_assert (!r || (G_rl.reload_calls == (is_reload ? 1 : 0)), "reload.post3 on success every existing connection's rules were rebuilt exactly once");
  __CPROVER_assert (G_rl.unrefs == ((old_policy != NULL && G_rl.steals >= 1) ? 1 : 0), "reload.post4 the previous policy is released exactly once");
  __CPROVER_assert (!r || (G_rl.limits_calls == 1 && G_rl.steals == 1), "reload.post5 limits and policy taken from this parser exactly once");
  __CPROVER_assert (!r || (G_rl.activation_calls == 1 && G_rl.activation_dirs_ok && ctx.activation != NULL), "reload.post6 activation (re)loaded with this parser's service directories");
  __CPROVER_assert (old_activation == NULL || (ctx.activation == old_activation && G_rl.activation_news == 0 && G_rl.activation_unrefs == 0), "reload.post8 an existing activation object (it owns the pending activations: held messages, start timeouts, babysitters) survives a reload: reloaded in place, never replaced or released");
  __CPROVER_assert (r || verif_rl_err, "reload.post7 failure sets the error");
  if (r && is_reload) __CPROVER_assert (0, "REACH:reloaded");
  if (r && !is_reload) __CPROVER_assert (0, "REACH:first-load");
  if (!r && G_rl.reload_calls == 1) __CPROVER_assert (0, "REACH:failed-after-policy-reload");
  if (r && G_rl.n_servers == 2) __CPROVER_assert (0, "REACH:two-servers");
}
