/* C08.io_guard / C08.auth_io — dbus/dbus-transport-socket.c (real code), typestate contracts.
 *
 *  do_reading, do_writing (1, 2)   ["No messages without authentication!"]
 *     ensures  _dbus_transport_try_to_authenticate (transport) == FALSE  =>  returns TRUE without touching the message loader's
 *              buffer, the socket, the outgoing message queue, or the encode/decode layer
 *     (every message-I/O callee carries the precondition "the transport is authenticated"; the loops behind the guard are not
 *      entered, so nothing is unwound)
 *  read_data_into_auth (3)
 *     ensures  socket bytes read during the handshake go into the auth conversation's buffer (obtained and returned exactly
 *              once), at most max_bytes_read_per_iteration of them, and never into the message loader
 *     ensures  TRUE iff some bytes arrived; EOF or a hard error disconnects; ENOMEM sets *oom; EAGAIN does nothing
 *  write_data_from_auth (4)
 *     ensures  only the auth conversation's pending bytes are written, and exactly the written count is reported back to it
 */
#include "c08_model.h"
#include "dbus/dbus-transport-protected.h"
#include "dbus/dbus-connection-internal.h"
#include "dbus/dbus-auth.h"
#include "dbus/dbus-message-private.h"
#include "dbus/dbus-watch.h"
#include VERIF_TU

#ifndef VERIF_FN
#define VERIF_FN 1
#endif

struct DBusAuth { int dummy; };
static struct DBusAuth the_auth;
static DBusString g_auth_incoming, g_auth_outgoing, g_loader_buf;
_Bool g_authd;                 /* what _dbus_transport_try_to_authenticate answers (contract: C08.try_auth) */
int g_try_calls, g_msg_io_calls, g_disconnect_calls, g_tref;
int g_auth_get_buffer_calls, g_auth_return_buffer_calls, g_sock_reads, g_sock_writes, g_bytes_sent_calls, g_bytes_sent_n;
int g_read_count_arg, g_read_result, g_write_result, g_errno_kind; const DBusString *g_read_into, *g_written_from; int g_write_start, g_write_len;
static char g_conn_obj;

#define MSG_IO(what) do { PRE (g_authd, what ": message I/O only on an authenticated transport"); g_msg_io_calls++; } while (0)

dbus_bool_t _dbus_transport_try_to_authenticate (DBusTransport *transport) { g_try_calls++; return g_authd; }
DBusTransport *_dbus_transport_ref (DBusTransport *t) { g_tref++; return t; }
void _dbus_transport_unref (DBusTransport *t) { PRE (g_tref > 0, "_dbus_transport_unref: balanced"); g_tref--; }
void _dbus_transport_disconnect (DBusTransport *t) { g_disconnect_calls++; t->disconnected = TRUE; }
/* message side */
void _dbus_message_loader_get_buffer (DBusMessageLoader *loader, DBusString **buffer, int *max_to_read, dbus_bool_t *may_read_unix_fds) { MSG_IO ("_dbus_message_loader_get_buffer"); *buffer = &g_loader_buf; }
void _dbus_message_loader_return_buffer (DBusMessageLoader *loader, DBusString *buffer) { MSG_IO ("_dbus_message_loader_return_buffer"); }
dbus_bool_t _dbus_message_loader_get_unix_fds (DBusMessageLoader *loader, int **fds, unsigned *n_fds) { MSG_IO ("_dbus_message_loader_get_unix_fds"); return FALSE; }
void _dbus_message_loader_return_unix_fds (DBusMessageLoader *loader, int *fds, unsigned n_fds) { MSG_IO ("_dbus_message_loader_return_unix_fds"); }
dbus_bool_t _dbus_transport_queue_messages (DBusTransport *transport) { MSG_IO ("_dbus_transport_queue_messages"); return nondet_bool (); }
dbus_bool_t _dbus_connection_has_messages_to_send_unlocked (DBusConnection *connection) { MSG_IO ("_dbus_connection_has_messages_to_send_unlocked"); return nondet_bool (); }
DBusMessage *_dbus_connection_get_message_to_send (DBusConnection *connection) { MSG_IO ("_dbus_connection_get_message_to_send"); return NULL; }
void _dbus_connection_message_sent_unlocked (DBusConnection *connection, DBusMessage *message) { MSG_IO ("_dbus_connection_message_sent_unlocked"); }
dbus_bool_t _dbus_auth_needs_decoding (DBusAuth *auth) { MSG_IO ("_dbus_auth_needs_decoding"); return nondet_bool (); }
dbus_bool_t _dbus_auth_needs_encoding (DBusAuth *auth) { MSG_IO ("_dbus_auth_needs_encoding"); return nondet_bool (); }
dbus_bool_t _dbus_auth_decode_data (DBusAuth *auth, const DBusString *encoded, DBusString *plaintext) { MSG_IO ("_dbus_auth_decode_data"); return FALSE; }
dbus_bool_t _dbus_auth_encode_data (DBusAuth *auth, const DBusString *plaintext, DBusString *encoded) { MSG_IO ("_dbus_auth_encode_data"); return FALSE; }
void dbus_message_lock (DBusMessage *message) { MSG_IO ("dbus_message_lock"); }
void _dbus_message_get_network_data (DBusMessage *message, const DBusString **header, const DBusString **body) { MSG_IO ("_dbus_message_get_network_data"); }
void _dbus_message_get_unix_fds (DBusMessage *message, const int **fds, unsigned *n_fds) { MSG_IO ("_dbus_message_get_unix_fds"); }
dbus_bool_t dbus_watch_get_enabled (DBusWatch *watch) { return nondet_bool (); }
dbus_bool_t _dbus_auth_get_unix_fd_negotiated (DBusAuth *auth) { MSG_IO ("_dbus_auth_get_unix_fd_negotiated"); return nondet_bool (); }
dbus_bool_t _dbus_string_compact (DBusString *str, int max_waste) { return TRUE; }
/* watch bookkeeping (not message I/O) */
DBusAuthState _dbus_auth_do_work (DBusAuth *auth) { int r = nondet_int (); __CPROVER_assume (r >= DBUS_AUTH_STATE_WAITING_FOR_INPUT && r <= DBUS_AUTH_STATE_AUTHENTICATED); return (DBusAuthState) r; }
void _dbus_connection_toggle_watch_unlocked (DBusConnection *connection, DBusWatch *watch, dbus_bool_t enabled) { }
long _dbus_counter_get_size_value (DBusCounter *counter) { return nondet_int (); }
long _dbus_counter_get_unix_fd_value (DBusCounter *counter) { return nondet_int (); }
/* socket: shared by both phases; which buffer is passed is what the contracts check */
int _dbus_read_socket (DBusSocket fd, DBusString *buffer, int count)
{
  STR_PRE (buffer, "_dbus_read_socket"); PRE (count >= 0, "_dbus_read_socket: count >= 0");
  g_sock_reads++; g_read_into = buffer; g_read_count_arg = count;
  if (buffer != &g_auth_incoming) MSG_IO ("_dbus_read_socket into a buffer that is not the auth conversation's");
  int n = nondet_int (); __CPROVER_assume (n >= -1 && n <= count && n <= STR_MAX - SLEN (buffer));
  if (n > 0) SM (buffer)->len += n;
  g_read_result = n;
  return n;
}
int _dbus_read_socket_with_unix_fds (DBusSocket fd, DBusString *buffer, int count, int *fds, unsigned *n_fds) { MSG_IO ("_dbus_read_socket_with_unix_fds"); return -1; }
int _dbus_write_socket (DBusSocket fd, const DBusString *buffer, int start, int len)
{
  STR_PRE (buffer, "_dbus_write_socket"); PRE (start >= 0 && len >= 0 && start <= SLEN (buffer) && len <= SLEN (buffer) - start, "_dbus_write_socket: range");
  g_sock_writes++; g_written_from = buffer; g_write_start = start; g_write_len = len;
  if (buffer != &g_auth_outgoing) MSG_IO ("_dbus_write_socket from a buffer that is not the auth conversation's");
  int n = nondet_int (); __CPROVER_assume (n >= -1 && n <= len);
  g_write_result = n;
  return n;
}
int _dbus_write_socket_two (DBusSocket fd, const DBusString *b1, int s1, int l1, const DBusString *b2, int s2, int l2) { MSG_IO ("_dbus_write_socket_two"); return -1; }
int _dbus_write_socket_with_unix_fds_two (DBusSocket fd, const DBusString *b1, int s1, int l1, const DBusString *b2, int s2, int l2, const int *fds, int n_fds) { MSG_IO ("_dbus_write_socket_with_unix_fds_two"); return -1; }
int _dbus_save_socket_errno (void) { g_errno_kind = nondet_int (); return g_errno_kind; }
dbus_bool_t _dbus_get_is_errno_enomem (int e) { return e == 1; }
dbus_bool_t _dbus_get_is_errno_eagain_or_ewouldblock (int e) { return e == 2; }
dbus_bool_t _dbus_get_is_errno_epipe (int e) { return e == 3; }
dbus_bool_t _dbus_get_is_errno_etoomanyrefs (int e) { return e == 4; }
/* auth conversation's buffers (contracts: "Get a buffer to be used for reading bytes from the peer ... Bytes should be appended") */
void _dbus_auth_get_buffer (DBusAuth *auth, DBusString **buffer) { PRE (g_auth_get_buffer_calls == g_auth_return_buffer_calls, "_dbus_auth_get_buffer: not outstanding"); g_auth_get_buffer_calls++; *buffer = &g_auth_incoming; }
void _dbus_auth_return_buffer (DBusAuth *auth, DBusString *buffer) { PRE (buffer == &g_auth_incoming && g_auth_get_buffer_calls == g_auth_return_buffer_calls + 1, "_dbus_auth_return_buffer: the outstanding buffer"); g_auth_return_buffer_calls++; }
dbus_bool_t _dbus_auth_get_bytes_to_send (DBusAuth *auth, const DBusString **str) { if (SLEN (&g_auth_outgoing) == 0) { *str = NULL; return FALSE; } *str = &g_auth_outgoing; return TRUE; }
void _dbus_auth_bytes_sent (DBusAuth *auth, int bytes_sent) { PRE (bytes_sent >= 0 && bytes_sent <= SLEN (&g_auth_outgoing), "_dbus_auth_bytes_sent: at most what is pending"); g_bytes_sent_calls++; g_bytes_sent_n = bytes_sent; SM (&g_auth_outgoing)->len -= bytes_sent; }

static void havoc_len (DBusString *s) { int n = nondet_int (); __CPROVER_assume (n >= 0 && n <= STR_MAX); sm_make (s, n, 0); }

void harness (void)
{
  DBusTransportSocket ST_; DBusTransport *t = &ST_.base;
  t->refcount = 1; t->vtable = NULL; t->connection = (DBusConnection *) &g_conn_obj; t->loader = NULL; t->auth = &the_auth; t->credentials = NULL;
  t->disconnected = nondet_bool (); t->authenticated = 0; t->send_credentials_pending = nondet_bool (); t->receive_credentials_pending = nondet_bool ();
  t->is_server = nondet_bool (); t->unused_bytes_recovered = nondet_bool (); t->allow_anonymous = nondet_bool ();
  ST_.fd.fd = nondet_int (); static char w1, w2; ST_.read_watch = (DBusWatch *) &w1; ST_.write_watch = (DBusWatch *) &w2;
  ST_.max_bytes_read_per_iteration = nondet_int (); ST_.max_bytes_written_per_iteration = nondet_int (); ST_.message_bytes_written = nondet_int ();
  __CPROVER_assume (ST_.max_bytes_read_per_iteration >= 0);
  havoc_len (&ST_.encoded_outgoing); havoc_len (&ST_.encoded_incoming); havoc_len (&g_auth_incoming); havoc_len (&g_auth_outgoing); havoc_len (&g_loader_buf);
  int in0 = SLEN (&g_auth_incoming), out0 = SLEN (&g_auth_outgoing), loader0 = SLEN (&g_loader_buf);
#if VERIF_FN == 1 || VERIF_FN == 2
  g_authd = FALSE;                          /* the case the contract is about */
#if VERIF_FN == 1
  dbus_bool_t ret = do_reading (t);
#else
  dbus_bool_t ret = do_writing (t);
#endif
  POST (ret, "unauthenticated: returns TRUE (nothing to do, not an out-of-memory condition)");
  POST (g_try_calls == 1, "the authentication state is consulted first");
  POST (g_msg_io_calls == 0 && g_sock_reads == 0 && g_sock_writes == 0, "unauthenticated: no message I/O at all");
  POST (SLEN (&g_loader_buf) == loader0 && SLEN (&g_auth_incoming) == in0 && SLEN (&g_auth_outgoing) == out0, "unauthenticated: no buffer changes");
  REACH ("returned");
#elif VERIF_FN == 3
  dbus_bool_t oom = nondet_bool ();
  dbus_bool_t ret = read_data_into_auth (t, &oom);
  POST (g_sock_reads == 1 && g_read_into == &g_auth_incoming && g_msg_io_calls == 0, "read_data_into_auth: one socket read, into the auth conversation's buffer, never into the message loader");
  POST (g_auth_get_buffer_calls == 1 && g_auth_return_buffer_calls == 1, "read_data_into_auth: auth buffer obtained and returned exactly once");
  POST (g_read_count_arg == ST_.max_bytes_read_per_iteration && SLEN (&g_auth_incoming) - in0 <= ST_.max_bytes_read_per_iteration && SLEN (&g_auth_incoming) >= in0, "read_data_into_auth: at most max_bytes_read_per_iteration bytes are appended");
  POST ((ret != 0) == (g_read_result > 0), "read_data_into_auth: TRUE iff bytes arrived");
  POST (IMP (g_read_result == 0, g_disconnect_calls == 1 && t->disconnected), "read_data_into_auth: EOF => disconnect");
  POST (IMP (g_read_result < 0 && g_errno_kind == 1, oom && g_disconnect_calls == 0), "read_data_into_auth: ENOMEM => *oom");
  POST (IMP (g_read_result < 0 && g_errno_kind == 2, !oom && g_disconnect_calls == 0), "read_data_into_auth: EAGAIN => nothing");
  POST (IMP (g_read_result < 0 && g_errno_kind != 1 && g_errno_kind != 2, g_disconnect_calls == 1), "read_data_into_auth: hard error => disconnect");
  POST (SLEN (&g_loader_buf) == loader0 && g_tref == 0, "read_data_into_auth: loader untouched, transport reference balanced");
  if (ret) REACH ("bytes"); if (g_read_result == 0) REACH ("eof"); if (oom && !ret) REACH ("enomem");
#elif VERIF_FN == 4
  dbus_bool_t ret = write_data_from_auth (t);
  POST (IMP (out0 == 0, !ret && g_sock_writes == 0), "write_data_from_auth: nothing pending => nothing written");
  POST (IMP (out0 > 0, g_sock_writes == 1 && g_written_from == &g_auth_outgoing && g_write_start == 0 && g_write_len == out0), "write_data_from_auth: exactly the auth conversation's pending bytes are offered to the socket");
  POST ((ret != 0) == (g_sock_writes == 1 && g_write_result > 0), "write_data_from_auth: TRUE iff bytes were written");
  POST (IMP (ret, g_bytes_sent_calls == 1 && g_bytes_sent_n == g_write_result && SLEN (&g_auth_outgoing) == out0 - g_write_result), "write_data_from_auth: exactly the written count leaves the auth conversation's buffer");
  POST (IMP (!ret, g_bytes_sent_calls == 0 && SLEN (&g_auth_outgoing) == out0), "write_data_from_auth: nothing written => nothing dropped");
  POST (g_msg_io_calls == 0 && SLEN (&g_loader_buf) == loader0, "write_data_from_auth: no message I/O");
  if (ret) REACH ("written"); if (!ret && out0 > 0 && g_disconnect_calls == 1) REACH ("hard-error");
#endif
}
