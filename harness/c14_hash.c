/* C14 (B: the table has its initial 4 static buckets and <= 3 entries with integer keys): rebuild_table (dbus/dbus-hash.c), the only
 * allocation the hash table performs besides the entry itself.  Property C14 "If memory allocation fails at any single point ... the
 * operation ... leaves all previously observable state ... exactly as it was"; the code: "out of memory, yay - just don't
 * reallocate, the table will still work".  The name registry, the pending-replies table and the policy tables are such tables.
 * Contract: FALSE (cannot grow / allocation failed) => EVERY field of the table is as before - in particular the bucket array and
 * its size stay consistent (REP: buckets points to an array of exactly n_buckets slots);
 * TRUE => a fresh zero-initialised array of exactly n_buckets slots, mask < n_buckets, every entry is in the chain its key hashes
 * to, no entry lost or duplicated, the old array released iff it was dynamically allocated. */
#include <config.h>
#include "dbus/dbus-internals.h"
#include "verif_prelude.h"
#include <stdlib.h>
#include VERIF_TU
_Bool nondet_bool (void); int nondet_int (void);
#define IMP(a,b) (!(a) || (b))
#define PRE(c, what) __CPROVER_assert((c), "precondition of " what)
#define REACH(tag) __CPROVER_assert(0, "REACH:" tag)
void _dbus_real_assert (dbus_bool_t c, const char *t, const char *f, int l, const char *fn) { __CPROVER_assert (c, "dbus internal assertion"); __CPROVER_assume (c); }
void _dbus_real_assert_not_reached (const char *x, const char *f, int l) { __CPROVER_assert (0, "dbus assert_not_reached"); __CPROVER_assume (0); }
#define NE 3
static DBusHashTable T; static DBusHashEntry ent[NE]; static size_t g_alloc_bytes; static void *g_alloc; static int g_frees; static void *g_freed;
void *dbus_malloc0 (size_t n) { if (nondet_bool ()) return NULL; g_alloc_bytes = n; g_alloc = calloc (1, n); __CPROVER_assume (g_alloc != NULL); return g_alloc; }
void dbus_free (void *p) { g_frees++; g_freed = p; }
void harness (void)
{
  int i, n = nondet_int (); __CPROVER_assume (n >= 0 && n <= NE);
  /* a table as _dbus_hash_table_new leaves it, holding n integer-keyed entries */
  T.refcount = 1; T.buckets = T.static_buckets; T.n_buckets = DBUS_SMALL_HASH_TABLE; T.n_entries = n; T.hi_rebuild_size = nondet_bool () ? n : DBUS_SMALL_HASH_TABLE * REBUILD_MULTIPLIER; T.lo_rebuild_size = 0;
  __CPROVER_assume (T.hi_rebuild_size > 0);
  T.down_shift = 28; T.mask = 3; T.key_type = DBUS_HASH_INT;
  for (i = 0; i < DBUS_SMALL_HASH_TABLE; i++) T.static_buckets[i] = NULL;
  for (i = 0; i < NE; i++) if (i < n)
    { ent[i].key = (void *) (uintptr_t) (7u * (unsigned) (i + 1));      /* concrete keys: the multiplicative hash of a symbolic key is out of the solver's reach */ ent[i].value = NULL; unsigned idx = RANDOM_INDEX (&T, ent[i].key); __CPROVER_assume (idx < 4); ent[i].next = T.static_buckets[idx]; T.static_buckets[idx] = &ent[i]; }
  DBusHashTable old = T;
  dbus_bool_t r = rebuild_table (&T);
  if (!r)
    {
      __CPROVER_assert (T.buckets == old.buckets && T.n_buckets == old.n_buckets, "rebuild.post1 FALSE: the bucket array AND its recorded size are as before (the table still works)");
      __CPROVER_assert (T.hi_rebuild_size == old.hi_rebuild_size && T.lo_rebuild_size == old.lo_rebuild_size && T.down_shift == old.down_shift && T.mask == old.mask && T.n_entries == old.n_entries, "rebuild.post2 FALSE: thresholds, shift, mask and entry count are as before");
      for (i = 0; i < DBUS_SMALL_HASH_TABLE; i++) __CPROVER_assert (T.static_buckets[i] == old.static_buckets[i], "rebuild.post3 FALSE: every chain is as before");
      __CPROVER_assert (g_frees == 0, "rebuild.post4 FALSE: nothing released");
      REACH ("not-rebuilt"); if (old.n_entries >= old.hi_rebuild_size) REACH ("allocation-failed-while-growing");
    }
  else
    {
      __CPROVER_assert (T.buckets == g_alloc && g_alloc_bytes == (size_t) T.n_buckets * sizeof (DBusHashEntry *), "rebuild.post5 TRUE: buckets is a fresh array of exactly n_buckets slots");
      __CPROVER_assert (T.n_buckets == old.n_buckets * 4 && T.mask == 15 && T.mask < (unsigned) T.n_buckets && T.down_shift == 26, "rebuild.post6 TRUE (growing): four times the buckets, mask and shift follow");
      for (i = 0; i < NE; i++) if (i < n)
        { unsigned idx = RANDOM_INDEX (&T, ent[i].key); __CPROVER_assume (idx < 16); int found = 0; DBusHashEntry *e = T.buckets[idx]; for (int k = 0; k < NE + 1; k++) { if (!e) break; if (e == &ent[i]) found++; e = e->next; }
          __CPROVER_assert (found == 1, "rebuild.post7 TRUE: every entry is, exactly once, in the chain its key hashes to"); }
      __CPROVER_assert (g_frees == 0, "rebuild.post8 TRUE: the static initial array is not freed");
      if (n == 3) REACH ("three-entries-rehashed");
    }
}
