/* C10 — _dbus_transport_disconnect (dbus/dbus-transport.c, REAL code).
 * Oracle: doc comment "Closes our end of the connection to a remote application. Further attempts to use this transport will
 * fail. Only the first call to _dbus_transport_disconnect() will have an effect."
 *  ensures  afterwards transport->disconnected
 *  ensures  the transport's own disconnect hook runs iff the transport was connected, exactly once, on this transport
 *  ensures  idempotent: a second call changes nothing and calls nothing; no other field of the transport is written
 *  ensures  _dbus_transport_get_is_connected == !disconnected */
#include <config.h>
#include "dbus/dbus-internals.h"
#include "verif_prelude.h"
#include "verif_ghost.h"
_Bool nondet_bool (void); int nondet_int (void);
#define PRE(c, what) __CPROVER_assert ((c), "precondition of " what)
#define POST(c, what) __CPROVER_assert ((c), what)
#ifndef IMP
#define IMP(a, b) (!(a) || (b))
#endif
#define REACH(tag) __CPROVER_assert (0, "REACH:" tag)
#include VERIF_TU
void _dbus_real_assert (dbus_bool_t condition, const char *condition_text, const char *file, int line, const char *func)
{ __CPROVER_assert (condition, "dbus assertion (inline helper)"); __CPROVER_assume (condition); }
static DBusTransport T; static DBusTransportVTable VT;
int g_hook_calls; _Bool g_hook_wrong, g_hook_when_disconnected;
static void verif_disconnect_hook (DBusTransport *transport)
{ g_hook_calls++; if (transport != &T) g_hook_wrong = 1; if (transport->disconnected) g_hook_when_disconnected = 1; }
void harness (void)
{
  static char o_conn, o_loader, o_auth;
  VT.disconnect = verif_disconnect_hook;
  T.refcount = nondet_int (); T.vtable = &VT; T.connection = (DBusConnection *) &o_conn; T.loader = (DBusMessageLoader *) &o_loader; T.auth = (DBusAuth *) &o_auth;
  T.disconnected = nondet_bool (); T.authenticated = nondet_bool (); T.is_server = nondet_bool (); T.unused_bytes_recovered = nondet_bool ();
  T.send_credentials_pending = nondet_bool (); T.receive_credentials_pending = nondet_bool (); T.allow_anonymous = nondet_bool ();
  DBusTransport T0 = T;
  _dbus_transport_disconnect (&T);
  POST (T.disconnected, "disconnect: afterwards the transport is disconnected");
  POST (g_hook_calls == (T0.disconnected ? 0 : 1) && !g_hook_wrong && !g_hook_when_disconnected, "disconnect: the transport's disconnect hook runs iff it was connected, once, on this transport, before the flag is set");
  POST (!_dbus_transport_get_is_connected (&T), "disconnect: _dbus_transport_get_is_connected is FALSE afterwards");
  int calls1 = g_hook_calls; DBusTransport T1 = T;
  _dbus_transport_disconnect (&T);
  POST (g_hook_calls == calls1 && T.disconnected, "disconnect: only the first call has an effect (idempotent)");
  POST (T.refcount == T0.refcount && T.vtable == T0.vtable && T.connection == T0.connection && T.loader == T0.loader && T.auth == T0.auth && T.authenticated == T0.authenticated
        && T.is_server == T0.is_server && T.unused_bytes_recovered == T0.unused_bytes_recovered && T.send_credentials_pending == T0.send_credentials_pending
        && T.receive_credentials_pending == T0.receive_credentials_pending && T.allow_anonymous == T0.allow_anonymous, "disconnect: nothing but the disconnected flag is written");
  if (!T0.disconnected) REACH ("was-connected"); else REACH ("was-disconnected");
}
