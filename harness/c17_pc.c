/* C17: the REAL dbus/dbus-pending-call.c (VERIF_TU_PC, pristine) behind the verification prelude, plus accessors
 * to its private struct for the harnesses (which #include the real dbus-connection.c and therefore cannot
 * also include this file: both define static slot_allocator / CONNECTION_LOCK).  Nothing of the pending-call
 * code is replaced here; its _dbus_assert's (reply == NULL, !completed, completed, !timeout_added,
 * reply_serial == reply serial of the message, refcount > 0) are proof obligations of every unit linking it. */
#include <config.h>
#include "dbus/dbus-internals.h"
#include "verif_prelude.h"
#include <stdlib.h>
#include VERIF_TU_PC
_Bool nondet_bool (void);
/* a pending call exists => _dbus_pending_call_new_unlocked allocated the notify data slot */
void verif_pc_global_init (void) { notify_user_data_slot = 0; }
DBusPendingCall *verif_pc_alloc (void) { DBusPendingCall *p = malloc (sizeof (DBusPendingCall)); __CPROVER_assume (p != NULL); return p; }
void verif_pc_init (DBusPendingCall *p, int refcount, DBusPendingCallNotifyFunction fn, DBusConnection *c, DBusMessage *reply, DBusTimeout *t,
                    DBusList *timeout_link, dbus_uint32_t serial, _Bool completed, _Bool timeout_added)
{ p->refcount.value = refcount; p->function = fn; p->connection = c; p->reply = reply; p->timeout = t; p->timeout_link = timeout_link;
  p->reply_serial = serial; p->completed = completed; p->timeout_added = timeout_added; p->slot_list.slots = NULL; p->slot_list.n_slots = 0; }
int verif_pc_refcount (DBusPendingCall *p) { return p->refcount.value; }
_Bool verif_pc_completed (DBusPendingCall *p) { return p->completed; }
_Bool verif_pc_timeout_added (DBusPendingCall *p) { return p->timeout_added; }
DBusMessage *verif_pc_reply (DBusPendingCall *p) { return p->reply; }
DBusList *verif_pc_timeout_link (DBusPendingCall *p) { return p->timeout_link; }
DBusTimeout *verif_pc_timeout (DBusPendingCall *p) { return p->timeout; }
dbus_uint32_t verif_pc_serial (DBusPendingCall *p) { return p->reply_serial; }
DBusConnection *verif_pc_connection (DBusPendingCall *p) { return p->connection; }
DBusPendingCallNotifyFunction verif_pc_function (DBusPendingCall *p) { return p->function; }
/* effect part of the contract of complete_pending_call_and_unlock on the call object (used where that function is
 * bound to its contract): completed, reply in place (the message, or the preallocated timeout error), timeout no
 * longer added, the table's reference dropped. */
void verif_pc_complete_effect (DBusPendingCall *p, DBusMessage *m)
{ p->completed = 1; if (m != NULL) p->reply = m; else { p->reply = p->timeout_link->data; p->timeout_link = NULL; } p->timeout_added = 0; p->refcount.value -= 1; }
void verif_pc_detach_effect (DBusPendingCall *p) { p->timeout_added = 0; p->refcount.value -= 1; }
