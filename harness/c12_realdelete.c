/* NOT REGISTERED (measured: symbolic execution does not converge, see tool/units/c12.py).
 * C12 / C14 (B): the REAL _dbus_header_delete_field of a PRESENT field, with the real realignment core
 * (_dbus_type_reader_delete -> replacement_block_init / replacement_block_replace -> _dbus_type_writer_write_reader_partial,
 * _dbus_string_replace_len, apply_and_free_fixups; real dbus-string.c, dbus-marshal-basic.c), every allocation may fail.
 * Header: VERIF_N bytes, two fields; byte order, lengths, field codes, variant signatures and the string content are constants
 * of the unit (ASSIGNED), message type / flags / serial / body length / the UINT32 value symbolic.
 *   TRUE  => the header bytes are exactly the image the specification's marshalling gives for "the same header without that
 *            field" (fixed part unchanged except the fields-array length; the remaining element at its 8-aligned place; NUL
 *            padding to the 8-boundary; length % 8 == 0), which the reference decoder reads as: field gone, other field same
 *            type and value; the position cache is invalidated;
 *   FALSE => some allocation failed and every byte, the length and the padding of the header are as before.               */
#include <config.h>
#include "dbus/dbus-internals.h"
#include "verif_prelude.h"
#include "verif_ghost.h"
#include "dbus/dbus-string.h"
#define DBUS_CAN_USE_DBUS_STRING_PRIVATE 1
#include "dbus/dbus-string-private.h"
#include "dbus/dbus-list.h"
#include VERIF_TU
#ifndef VERIF_N
#define VERIF_N 40
#endif
#define BODY_REF_MAXSTR (VERIF_N + 1)
#define SIG_REF_MAXRUN (VERIF_N - 15)
#define HDR_REF_MAXFIELDS ((VERIF_N - 21) / 8 + 1)
#include "header_ref.h"
#ifndef IMP
#define IMP(a, b) (!(a) || (b))
#endif
#define REACH(tag) __CPROVER_assert(0, "REACH:" tag)
long verif_gk, verif_gk2, verif_w, verif_w2; int verif_flag;
_Bool nondet_bool (void); int nondet_int (void); unsigned nondet_uint (void); unsigned char nondet_uchar (void);
#include "c12_realmem.h"
static DBusHeader H; int in_len;
static unsigned char in_buf[VERIF_MEMMAX] __attribute__ ((aligned (8)));   /* the header's block (static: field-sensitive for the model checker; never freed) */
static struct hdr_ref_fields RF, RF2;
void harness (void)
{
  DBusRealString *hd = (DBusRealString *) &H.data; unsigned char old[VERIF_N], exp[VERIF_N]; int i, rhl = 0, rhl2 = 0, want, explen, keep_at, keep_len, other; dbus_bool_t r;
  for (i = 0; i < VERIF_N; i++) in_buf[i] = nondet_uchar ();
  VERIF_HDR_ASSUME
  hdr_ref_walk (in_buf, in_len, &RF);
  want = hdr_ref_valid_walked (in_buf, in_len, &rhl, &RF);
  __CPROVER_assume (want == 1 && rhl == in_len);
  __CPROVER_assume (RF.count[VERIF_FIELD] == 1);
  hd->str = in_buf; hd->len = in_len; hd->allocated = in_len + 8; hd->constant = 0; hd->locked = 0; hd->valid = 1; hd->align_offset = 0; in_buf[in_len] = 0;
  H.padding = (unsigned) (rhl - (16 + (int) hdr_ref_fields_len (in_buf)));
  for (i = 0; i <= DBUS_HEADER_FIELD_LAST; i++) H.fields[i].value_pos = nondet_bool () ? _DBUS_HEADER_FIELD_VALUE_UNKNOWN : (RF.count[i] ? RF.val_at[i] : _DBUS_HEADER_FIELD_VALUE_NONEXISTENT);
  for (i = 0; i < VERIF_N; i++) old[i] = in_buf[i];
  /* the specification's image of "the same header without the field": the other element (VERIF_KEEP_AT .. + VERIF_KEEP_LEN, an
   * 8-aligned element keeps its inner layout when moved to another 8-aligned place) directly behind the fixed part */
  keep_at = VERIF_KEEP_AT; keep_len = VERIF_KEEP_LEN; other = VERIF_OTHER;
  for (i = 0; i < VERIF_N; i++) exp[i] = 0;
  for (i = 0; i < 16; i++) exp[i] = old[i];
  { unsigned fal = (unsigned) keep_len; if (HDR_REF_LE (old)) { exp[12] = fal & 255; exp[13] = 0; exp[14] = 0; exp[15] = 0; } else { exp[15] = fal & 255; exp[14] = 0; exp[13] = 0; exp[12] = 0; } }
  for (i = 0; i < keep_len; i++) exp[16 + i] = old[keep_at + i];
  explen = (16 + keep_len + 7) & ~7;

  r = _dbus_header_delete_field (&H, VERIF_FIELD);

  __CPROVER_assert (hd->str == in_buf, "realdelete: (model) the header block was grown in place");
  if (!r)
    {
      __CPROVER_assert (g_failed_allocs >= 1, "realdelete: FALSE only if an allocation failed");
      __CPROVER_assert (hd->len == in_len && (int) H.padding == rhl - (16 + (int) hdr_ref_fields_len (old)), "realdelete: FALSE => header length and padding as before");
      for (i = 0; i < VERIF_N; i++) if (i < in_len) __CPROVER_assert (in_buf[i] == old[i], "realdelete: FALSE => every byte of the header as before (the field is still there)");
      REACH("oom");
    }
  else
    {
      __CPROVER_assert (hd->len == explen && hd->len % 8 == 0 && (int) H.padding == explen - (16 + keep_len), "realdelete: TRUE => length = 16 + remaining element, padded to 8; padding recorded");
      for (i = 0; i < VERIF_N; i++) if (i < explen) __CPROVER_assert (in_buf[i] == exp[i], "realdelete: TRUE => the bytes are the marshalling of the same header without the field");
      for (i = 0; i <= DBUS_HEADER_FIELD_LAST; i++) __CPROVER_assert (H.fields[i].value_pos == _DBUS_HEADER_FIELD_VALUE_UNKNOWN, "realdelete: TRUE => the position cache was invalidated");
      /* what that image means, by the independent decoder */
      hdr_ref_walk (exp, explen, &RF2);
      __CPROVER_assert (RF2.wf == 1 && RF2.count[VERIF_FIELD] == 0, "realdelete: the field is gone and the fields array is well-formed");
      __CPROVER_assert (RF2.count[other] == 1 && RF2.type[other] == RF.type[other] && RF2.val_at[other] == RF.val_at[other] - keep_at + 16, "realdelete: the other field is present once, same type, at its new place");
      __CPROVER_assert (RF.type[other] != 'u' || body_ref_u32 (exp, RF2.val_at[other], HDR_REF_LE (exp)) == body_ref_u32 (old, RF.val_at[other], HDR_REF_LE (old)), "realdelete: the other field keeps its value");
      REACH("deleted");
      if (g_failed_allocs == 0) REACH("deleted-without-oom");
    }
}
