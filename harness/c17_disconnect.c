/* C17.disconnect (T; B: <= 2 outstanding calls): connection_timeout_and_complete_all_pending_calls_unlocked, real body,
 * with the REAL free_pending_call_on_hash_removal, _dbus_connection_unlock/lock and pending-call code.
 * Oracle: property C17 "Every method call sent with a reply expectation completes exactly once: with the reply ... or
 * with a locally generated error if its timeout expires or the connection closes first"; anchors: "table of
 * outstanding calls by serial: a call is in it exactly while it can still complete"; dbus_connection_send_with_reply
 * doc: "A DBusPendingCall will always see exactly one reply message, unless it's cancelled".
 * Contract: requires lock held, every table entry an outstanding call (attached, not completed, preallocated timeout
 * error present);  ensures lock held, and for EVERY call that was outstanding (ghost index verif_gk):
 *   its timeout error is queued exactly once on the incoming queue, its timeout is removed from the connection, and
 *   postD: it is completed, or still attached under its serial so that dispatching the queued error completes it. */
#include "c17_common.h"
#include "c17_model.h"
static int g_queued[NMAP]; static DBusList *g_tl[NMAP]; static long verif_gk;   /* ghost index: which outstanding call */
void _dbus_hash_iter_init (DBusHashTable *t, DBusHashIter *it) { PRE (t == G.table, "_dbus_hash_iter_init: pending_replies"); it->dummy5 = -1; }
dbus_bool_t _dbus_hash_iter_next (DBusHashIter *it) { for (int i = it->dummy5 + 1; i < NMAP; i++) if (G.present[i]) { it->dummy5 = i; return TRUE; } return FALSE; }
void *_dbus_hash_iter_get_value (DBusHashIter *it) { PRE (0 <= it->dummy5 && it->dummy5 < NMAP && G.present[it->dummy5], "_dbus_hash_iter_get_value: on an entry"); return G.val[it->dummy5]; }
void _dbus_hash_iter_remove_entry (DBusHashIter *it) { PRE (0 <= it->dummy5 && it->dummy5 < NMAP && G.present[it->dummy5], "_dbus_hash_iter_remove_entry: on an entry"); verif_map_remove (it->dummy5); }
void _dbus_list_append_link (DBusList **list, DBusList *link) { for (int i = 0; i < NMAP; i++) if (link == g_tl[i]) g_queued[i]++; G.synthesized++; }
void _dbus_message_trace_ref (DBusMessage *m, int a, int b, const char *why) { }

void harness (void)
{
  DBusConnection c; char tmo[NMAP]; DBusPendingCall *p[NMAP]; int rc[NMAP]; _Bool t_added[NMAP];
  c.have_connection_lock = 1; c.expired_messages = NULL; c.incoming_messages = NULL; c.refcount.value = 10; c.mutex = NULL; c.wakeup_main_function = NULL;
  c.n_incoming = nondet_int (); __CPROVER_assume (0 <= c.n_incoming && c.n_incoming < 1000000);
  verif_c17_reset (&c);
  int n = nondet_int (); __CPROVER_assume (0 <= n && n <= NMAP);
  for (int i = 0; i < NMAP; i++)
    {
      g_queued[i] = 0; g_tl[i] = NULL; p[i] = NULL;
      if (i < n)
        {
          dbus_uint32_t serial = nondet_uint (); __CPROVER_assume (serial != 0 && IMP (i == 1, serial != G.key[0]));
          DBusMessage *err = verif_new_msg (i, serial, DBUS_MESSAGE_TYPE_ERROR);
          g_tl[i] = malloc (sizeof (DBusList)); __CPROVER_assume (g_tl[i] != NULL); g_tl[i]->data = err; g_tl[i]->next = g_tl[i]->prev = g_tl[i];
          rc[i] = nondet_int (); __CPROVER_assume (2 <= rc[i] && rc[i] <= 3);      /* the table's reference + the application's */
          t_added[i] = nondet_bool ();
          p[i] = verif_pc_alloc ();
          verif_pc_init (p[i], rc[i], nondet_bool () ? verif_notify : NULL, &c, NULL, (DBusTimeout *) &tmo[i], g_tl[i], serial, 0, t_added[i]);
          G.present[i] = 1; G.key[i] = serial; G.val[i] = p[i];
        }
    }
  verif_gk = nondet_long ();

  connection_timeout_and_complete_all_pending_calls_unlocked (&c);

  __CPROVER_assert (c.have_connection_lock, "post the connection lock is held again on return");
  __CPROVER_assert (G.synthesized == n && G.timeout_removes <= n, "post one timeout error queued per outstanding call");
  __CPROVER_assert (G.notified == 0 || !G.notify_locked, "post no notify function runs under the lock");
  if (0 <= verif_gk && verif_gk < n)
    {
      DBusPendingCall *q = p[verif_gk];
      __CPROVER_assert (g_queued[verif_gk] == 1 && verif_pc_timeout_link (q) == NULL, "postA the call's preallocated timeout error is on the incoming queue, once");
      __CPROVER_assert (!verif_pc_timeout_added (q) && IMP (t_added[verif_gk], G.timeout_removes >= 1), "postB its timeout no longer runs");
      __CPROVER_assert (verif_pc_completed (q) || verif_attached (q), "postD after the connection closed every outstanding call is completed or can still be completed (is attached)");
      REACH ("one-call");
    }
  if (n == 2) REACH ("two-calls"); if (n == 0) REACH ("none");
}
