/* C16: _dbus_validate_bus_name / _dbus_validate_bus_namespace (both wrap the static
 * _dbus_validate_bus_name_full, whose two loops carry the loop contracts) accept exactly the
 * bus-name grammar.  -DVERIF_NS=0|1. */
#include "verif_str.h"
#include "dbus/dbus-marshal-validate.h"
long verif_gk, verif_gk2, verif_w, verif_w2; int verif_flag;
#define B SB(str, start)
#if VERIF_NS
#define VERIF_FN _dbus_validate_bus_namespace
#else
#define VERIF_FN _dbus_validate_bus_name
#endif
dbus_bool_t VERIF_FN (const DBusString *str, int start, int len)
STR_OK_REQUIRES(str)
__CPROVER_requires(start >= 0 && len >= 0 && start <= REAL(str)->len)
__CPROVER_requires(verif_flag == 0 && verif_w2 == -1)
__CPROVER_assigns(verif_w, verif_w2, verif_flag)
__CPROVER_ensures(__CPROVER_return_value == 0 || __CPROVER_return_value == 1)
/* soundness */
__CPROVER_ensures(IMP(__CPROVER_return_value, len >= 1 && len <= G_MAXNAME && len <= REAL(str)->len - start))
__CPROVER_ensures(IMP(__CPROVER_return_value, G_AT(verif_gk, len, G_BUSNAME_LOCAL(B, len, verif_gk))))
#if !VERIF_NS
__CPROVER_ensures(IMP(__CPROVER_return_value, B[0] == ':' || (0 <= verif_w2 && verif_w2 < len && B[verif_w2] == '.')))
#endif
/* completeness */
__CPROVER_ensures(IMP(!__CPROVER_return_value, !(len >= 1 && len <= G_MAXNAME) || len > REAL(str)->len - start
     || (0 <= verif_w && verif_w < len && !G_BUSNAME_LOCAL(B, len, verif_w))
#if !VERIF_NS
     || (verif_flag == 1 && B[0] != ':' && G_AT(verif_gk, len, B[verif_gk] != '.'))
#endif
     ))
;
void harness (void)
{
  const DBusString *s; int start, len;
  dbus_bool_t r = VERIF_FN (s, start, len);
  if (r) REACH("accept"); else REACH("reject");
  if (r && len == 255) REACH("accept-255");
}
