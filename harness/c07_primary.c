/* C07 / C18 (P-stub, loop-free): connection_is_primary_owner (bus/signals.c), the fact behind the match keys sender='<well-known name>'
 * and (for eavesdropping rules) destination='<name>'.  Specification, match rules: "sender: Match messages sent by a particular sender" -
 * a well-known name stands for its current PRIMARY owner; a connection merely waiting in the name's queue does not own it
 * ("the primary owner ... the other connections are in a queue waiting").  Contract: TRUE iff the name is registered and this
 * connection is its primary owner. */
#include <config.h>
#include "dbus/dbus-internals.h"
#include "verif_prelude.h"
#include VERIF_TU
_Bool nondet_bool (void);
#define PRE(c, what) __CPROVER_assert((c), "precondition of " what)
#define REACH(tag) __CPROVER_assert(0, "REACH:" tag)
void _dbus_real_assert (dbus_bool_t c, const char *t, const char *f, int l, const char *fn) { __CPROVER_assert (c, "dbus internal assertion"); __CPROVER_assume (c); }
void _dbus_verbose_real (const char *file, const int line, const char *function, const char *format, ...) { }
static char o_conn, o_other, o_reg, o_svc; static const char nm[] = "a.b"; static _Bool g_exists, g_is_primary, g_in_queue; static const DBusString *g_str;
BusRegistry *bus_connection_get_registry (DBusConnection *c) { PRE (c == (DBusConnection *) &o_conn, "bus_connection_get_registry: this connection"); return (BusRegistry *) &o_reg; }
void _dbus_string_init_const (DBusString *s, const char *v) { PRE (v == nm, "_dbus_string_init_const: the rule's name"); g_str = s; }
BusService *bus_registry_lookup (BusRegistry *r, const DBusString *n) { PRE (r == (BusRegistry *) &o_reg && n == g_str, "bus_registry_lookup: the rule's name"); return g_exists ? (BusService *) &o_svc : NULL; }
DBusConnection *bus_service_get_primary_owners_connection (BusService *s) { PRE (s == (BusService *) &o_svc, "bus_service_get_primary_owners_connection: the service looked up"); return g_is_primary ? (DBusConnection *) &o_conn : (DBusConnection *) &o_other; }
dbus_bool_t bus_service_owner_in_queue (BusService *s, DBusConnection *c) { PRE (s == (BusService *) &o_svc, "bus_service_owner_in_queue"); return c == (DBusConnection *) &o_conn ? g_in_queue : 1; }
void harness (void)
{
  g_exists = nondet_bool (); g_is_primary = nondet_bool (); g_in_queue = nondet_bool ();
  __CPROVER_assume (!g_is_primary || g_in_queue);            /* the primary owner is the head of the queue */
  dbus_bool_t r = connection_is_primary_owner ((DBusConnection *) &o_conn, nm);
  __CPROVER_assert (r == (g_exists && g_is_primary), "owner.post TRUE iff the name is registered and this connection is its PRIMARY owner; a connection only waiting in the queue does not stand for the name");
  if (g_exists && g_in_queue && !g_is_primary) REACH ("queued-not-primary"); if (r) REACH ("primary"); if (!g_exists) REACH ("no-such-name");
}
