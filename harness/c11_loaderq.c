/* C11 / C05 (P-stub, loop-free): the loader's queue of complete messages, real bodies of _dbus_message_loader_peek_message,
 * _dbus_message_loader_pop_message, _dbus_message_loader_pop_message_link, _dbus_message_loader_putback_message_link
 * (dbus/dbus-message.c).  Property C11 "the sequence of messages produced ... [is] the same as for the unsplit stream";
 * C05 "arrive in the order they were sent".  load_message appends each complete message at the END (obligation of
 * C15.load_message_fds); here: the transport takes ONLY the first (oldest) loaded message, peek looks at that same message,
 * and an undone pop puts the link back at the FRONT. */
#include <config.h>
#include "dbus/dbus-internals.h"
#include "verif_prelude.h"
#include VERIF_TU
#include "../stubs/c15_msg_stubs.c"
static DBusMessageLoader L; static char o_first, o_second, o_msg; static DBusList l1, l2, ml;
static struct { int pop_first, pop_first_link, prepends; DBusList *prepended; } Q;
void *_dbus_list_pop_first (DBusList **list) { PRE (list == &L.messages, "_dbus_list_pop_first: the loader's queue"); Q.pop_first++; if (*list == NULL) return NULL; *list = &l2; return l1.data; }
DBusList *_dbus_list_pop_first_link (DBusList **list) { PRE (list == &L.messages, "_dbus_list_pop_first_link: the loader's queue"); Q.pop_first_link++; if (*list == NULL) return NULL; *list = &l2; return &l1; }
void *_dbus_list_pop_last (DBusList **list) { __CPROVER_assert (0, "ldq.out1 the transport never takes the most recently loaded message first"); return NULL; }
DBusList *_dbus_list_pop_last_link (DBusList **list) { __CPROVER_assert (0, "ldq.out1 the transport never takes the most recently loaded message first"); return NULL; }
void *_dbus_list_get_last (DBusList **list) { __CPROVER_assert (0, "ldq.out1 the transport never takes the most recently loaded message first"); return NULL; }
void _dbus_list_prepend_link (DBusList **list, DBusList *link) { PRE (list == &L.messages, "_dbus_list_prepend_link: the loader's queue"); Q.prepends++; Q.prepended = link; *list = link; }
void _dbus_list_append_link (DBusList **list, DBusList *link) { __CPROVER_assert (0, "ldq.back an undone pop goes back to the FRONT, never behind later messages"); }
void harness (void)
{
  int mode = nondet_int (); _Bool empty = nondet_bool (); __CPROVER_assume (mode >= 1 && mode <= 4);
  l1.data = &o_first; l2.data = &o_second; l1.next = &l2; l2.prev = &l1; l1.prev = &l2; l2.next = &l1; ml.data = &o_msg;
  L.messages = empty ? NULL : &l1;
  if (mode == 1)
    { DBusMessage *m = _dbus_message_loader_peek_message (&L);
      __CPROVER_assert (m == (empty ? NULL : (DBusMessage *) &o_first) && L.messages == (empty ? NULL : &l1), "ldq.peek peek shows the FIRST (oldest) loaded message and removes nothing"); if (m) REACH ("peeked"); }
  else if (mode == 2)
    { DBusMessage *m = _dbus_message_loader_pop_message (&L);
      __CPROVER_assert (Q.pop_first == 1 && m == (empty ? NULL : (DBusMessage *) &o_first), "ldq.pop pop hands over the FIRST (oldest) loaded message"); if (m) REACH ("popped"); else REACH ("empty"); }
  else if (mode == 3)
    { DBusList *l = _dbus_message_loader_pop_message_link (&L);
      __CPROVER_assert (Q.pop_first_link == 1 && l == (empty ? NULL : &l1), "ldq.poplink pop_link hands over the link of the FIRST (oldest) loaded message"); if (l) REACH ("popped-link"); }
  else
    { _dbus_message_loader_putback_message_link (&L, &ml);
      __CPROVER_assert (Q.prepends == 1 && Q.prepended == &ml && L.messages == &ml, "ldq.putback an undone pop is again the first message of the queue"); REACH ("putback"); }
}
