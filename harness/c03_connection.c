/* C03 / C05 / C18 (T): the transaction-level senders of bus/connection.c (pristine TU).
 *   harness_from_driver   : bus_transaction_send_from_driver      loop-free -> P
 *   harness_error_reply   : bus_transaction_send_error_reply      loop-free -> P
 *   harness_capture_error : bus_transaction_capture_error_reply   loop-free -> P
 *   harness_capture       : bus_transaction_capture               loop over the monitors that match -> B (<= 3)
 * Callees by contract: stubs/c03_stubs.c; predicates and oracle sentences: spec/bus_typestate.h. */
#include <config.h>
#include "dbus/dbus-internals.h"
#include "verif_prelude.h"
#include "verif_ghost.h"
#include "bus_typestate.h"
#include VERIF_TU
#include "../stubs/c03_stubs.c"

static BusTransaction T;
static BusConnections CS;
static DBusList a_monitor_link;
static struct ts_msg M;

static void any_conn (struct ts_conn *c, int i)
{ c->monitor = 0; c->connected = nondet_bool (); c->can_unix_fd = nondet_bool (); c->active = nondet_bool (); c->name = c->active ? ts_names[i] : NULL; }
static void setup (void)
{
  ts_reset ();
  any_conn (&ts_conns[0], 0); any_conn (&ts_conns[1], 1); any_conn (&ts_conns[2], 2); any_conn (&ts_conns[3], 3);
  T.connections = NULL; T.cancel_hooks = NULL; T.context = (BusContext *) &ts_context_obj; ts_transaction = &T;
  /* BusConnections invariant (established by bus_connection_be_monitor): monitors != NULL => monitor_matchmaker != NULL */
  CS.monitors = nondet_bool () ? &a_monitor_link : NULL;
  CS.monitor_matchmaker = (CS.monitors != NULL || nondet_bool ()) ? (BusMatchmaker *) &ts_monitor_mm_obj : NULL;
  ts_bus_connections = &CS;
}
/* a message freshly built by the bus (dbus_message_new_method_return / _new_signal / _new_error): it has no serial yet */
static void fresh_driver_message (void)
{
  M.serial = 0; M.reply_serial = nondet_uint (); M.type = nondet_int ();
  M.sender = TS_SND_CLIENT; M.sender_of = NULL; M.dest = nondet_bool () ? TS_DST_NONE : TS_DST_NAME; M.dest_of = NULL;
  M.unknown_stripped = 1; M.container_cleared = 1; M.local_disconnected = 0; M.auto_start = 0; M.no_reply = nondet_bool (); M.has_fds = 0; M.is_hello = 0;
  M.error_name = TS_ERR_NONE; M.in_reply_to = NULL; M.has_string_arg = nondet_bool (); M.string_arg = NULL; M.n_string_args = 0; M.refs = 1;
}
/* a message as received from a client and sanitized by bus_dispatch */
static void wire_message (struct ts_conn *from)
{
  M.serial = nondet_uint (); M.reply_serial = nondet_uint (); M.type = nondet_int ();
  M.sender = from->active ? TS_SND_UNIQUE : TS_SND_INACTIVE; M.sender_of = from->active ? from : NULL;
  int d = nondet_int (); M.dest = d == 0 ? TS_DST_NONE : d == 1 ? TS_DST_BUS : TS_DST_NAME; M.dest_of = NULL;
  M.unknown_stripped = 1; M.container_cleared = 1; M.local_disconnected = 0; M.auto_start = nondet_bool (); M.no_reply = nondet_bool (); M.has_fds = nondet_bool (); M.is_hello = nondet_bool ();
  M.error_name = TS_ERR_NONE; M.in_reply_to = NULL; M.has_string_arg = 0; M.string_arg = NULL; M.n_string_args = 0; M.refs = 1;
}
static void any_error (DBusError *e)
{ int k = nondet_int (); e->name = k == 0 ? ts_e_denied : k == 1 ? ts_e_noowner : k == 2 ? ts_e_limits : k == 3 ? ts_e_failed : k == 4 ? ts_e_notsupp : ts_e_other; e->message = ts_s_text; }

/* ------------------------------------------------------------------------------------------------------------------ */
void harness_from_driver (void)
{
  setup ();
  struct ts_conn *conn = &ts_conns[0];
  fresh_driver_message ();
  __CPROVER_assume (PRE_bus_transaction_send_from_driver (&T, conn, &M));

  dbus_bool_t ret = bus_transaction_send_from_driver (&T, (DBusConnection *) conn, (DBusMessage *) &M);

  __CPROVER_assert (ret == 0 || ret == 1, "post.bool");
  /* S: messages the bus originates carry sender org.freedesktop.DBus */
  __CPROVER_assert (IMP (G.captures + G.policy_checks + G.sends + G.capture_errs > 0, TS_FROM_DRIVER (&M)), "post.C03.driver-sender: nothing observes the message before its sender is org.freedesktop.DBus");
  __CPROVER_assert (IMP (ret, TS_FROM_DRIVER (&M) && M.no_reply && IMP (conn->active, M.dest == TS_DST_UNIQUE && M.dest_of == conn)),
                    "post.C03.addressed: success => sender is the bus, NO_REPLY set, destination is the recipient's unique name");
  __CPROVER_assert (G.captures <= 1 && IMP (G.captures == 1, G.captured_msg == &M && G.captured_sender == NULL && G.captured_addressed == conn),
                    "post.C18.capture-once: shown to the monitors at most once, as (from the bus, addressed to the recipient)");
  __CPROVER_assert (IMP (G.policy_checks + G.sends > 0, G.captures == 1 && G.capture_ok), "post.C18.capture-first: captured before the policy decision and before staging");
  __CPROVER_assert (G.policy_checks <= 1 && IMP (G.policy_checks == 1, G.policy_sender == NULL && G.policy_addressed == conn && G.policy_proposed == conn),
                    "post.C06.gate: the recipient's receive policy is consulted once for (bus -> recipient)");
  __CPROVER_assert (IMP (G.sends > 0, G.sends == 1 && G.policy_checks == 1 && G.policy_allowed && G.last_sent_to == conn && G.last_sent_from == NULL && G.last_sent_msg == &M),
                    "post.C05.send-once: staged exactly once, for the recipient, only if the gate allowed");
  __CPROVER_assert (IMP (G.policy_checks == 1 && !G.policy_allowed, ret && conn->staged == 0 && G.capture_errs == 1 && G.capture_err_addressed == conn && G.capture_err_in_reply_to == &M && G.capture_err_name == G.policy_err),
                    "post.C18.denied-shown: a message of the bus that its recipient may not receive is dropped, and the refusal is shown to the monitors once");
  __CPROVER_assert (IMP (G.policy_checks == 0 || G.policy_allowed, G.capture_errs == 0), "post.C18.no-spurious-error");
  __CPROVER_assert (IMP (!ret, conn->staged == 0), "post.C14.false-nothing-staged");
  __CPROVER_assert (ts_conns[1].staged + ts_conns[2].staged + ts_conns[3].staged == 0 && conn->staged <= 1 && M.refs == 1, "post.frame: nobody else; caller's reference untouched");
  if (ret && conn->staged == 1 && conn->active) REACH ("sent-to-active");
  if (ret && conn->staged == 1 && !conn->active) REACH ("sent-to-inactive");
  if (ret && G.policy_checks == 1 && !G.policy_allowed) REACH ("denied-dropped");
  if (!ret && G.captures == 0) REACH ("oom-early");
  if (!ret && G.sends == 1) REACH ("oom-staging");
}

/* ------------------------------------------------------------------------------------------------------------------ */
void harness_error_reply (void)
{
  setup ();
  struct ts_conn *conn = &ts_conns[0];
  wire_message (conn);
  DBusError err; any_error (&err);
  __CPROVER_assume (PRE_bus_transaction_send_error_reply (&T, conn, &err, &M));

  dbus_bool_t ret = bus_transaction_send_error_reply (&T, (DBusConnection *) conn, &err, (DBusMessage *) &M);

  struct ts_msg *r = &ts_new_msgs[0];
  __CPROVER_assert (ret == 0 || ret == 1, "post.bool");
  __CPROVER_assert (ts_new_msgs_used <= 1 && G.from_driver <= 1, "post.C05.one-reply: at most one reply is built and handed to the driver's send path");
  __CPROVER_assert (IMP (ret, ts_new_msgs_used == 1 && G.from_driver == 1 && G.from_driver_msg == r && G.from_driver_to == conn), "post.C05.to-sender: success => exactly one message sent from the driver to the given connection");
  /* C05: "exactly one error reply to its sender carrying the call's serial" */
  __CPROVER_assert (IMP (ts_new_msgs_used == 1, r->type == DBUS_MESSAGE_TYPE_ERROR && r->in_reply_to == &M && r->reply_serial == M.serial && r->reply_serial != 0 && r->error_name == ts_errkind (err.name)),
                    "post.C05.reply-shape: an ERROR carrying the error's name and the serial of the message it answers");
  __CPROVER_assert (IMP (ts_new_msgs_used == 1, r->refs == 0), "post.unref: the reply built here is released exactly once on every path");
  __CPROVER_assert (IMP (!ret, ts_new_msgs_used == 0 || G.from_driver == 1), "post.C14.false-is-oom: FALSE only if building or sending failed");
  __CPROVER_assert (M.refs == 1 && err.name != NULL, "post.frame: the answered message and the error are untouched");
  if (ret) REACH ("sent");
  if (!ret && ts_new_msgs_used == 0) REACH ("oom-building");
  if (!ret && G.from_driver == 1) REACH ("oom-sending");
}

/* ------------------------------------------------------------------------------------------------------------------ */
void harness_capture_error (void)
{
  setup ();
  struct ts_conn *addressed = nondet_bool () ? &ts_conns[0] : NULL;
  if (nondet_bool ()) wire_message (&ts_conns[1]); else { fresh_driver_message (); M.sender = TS_SND_DRIVER; }
  DBusError err; any_error (&err);
  __CPROVER_assume (PRE_bus_transaction_capture_error_reply (&T, addressed, &err, &M));

  dbus_bool_t ret = bus_transaction_capture_error_reply (&T, (DBusConnection *) addressed, &err, (DBusMessage *) &M);

  struct ts_msg *r = &ts_new_msgs[0];
  __CPROVER_assert (ret == 0 || ret == 1, "post.bool");
  __CPROVER_assert (IMP (CS.monitors == NULL, ret && ts_new_msgs_used == 0 && G.captures == 0), "post.C18.no-monitor-no-work: without monitors nothing is built");
  __CPROVER_assert (ts_new_msgs_used <= 1 && G.captures <= 1 && IMP (G.captures == 1, ts_new_msgs_used == 1 && G.captured_msg == r && G.captured_sender == NULL && G.captured_addressed == addressed),
                    "post.C18.shown-once: the synthesised error is captured at most once, as (from the bus, to the addressed recipient)");
  __CPROVER_assert (IMP (G.captures == 1, TS_FROM_DRIVER (r) && r->type == DBUS_MESSAGE_TYPE_ERROR && r->in_reply_to == &M && r->reply_serial == M.serial && r->reply_serial != 0 && r->error_name == ts_errkind (err.name)),
                    "post.C18.error-shape: what the monitors see is an ERROR from org.freedesktop.DBus with the error's name and the serial of the refused message");
  __CPROVER_assert (IMP (CS.monitors != NULL && ret, G.captures == 1 && G.capture_ok), "post.C18.true-means-captured");
  __CPROVER_assert (IMP (ts_new_msgs_used == 1, r->refs == 0), "post.unref: the reply built here is released exactly once");
  __CPROVER_assert (G.sends == 0 && G.policy_checks == 0 && M.refs == 1, "post.frame: nothing is staged for ordinary connections here");
  if (CS.monitors == NULL) REACH ("no-monitors");
  if (CS.monitors != NULL && ret) REACH ("captured");
  if (!ret && ts_new_msgs_used == 0) REACH ("oom-building");
  if (!ret && G.captures == 1) REACH ("oom-capturing");
  if (!ret && ts_new_msgs_used == 1 && G.captures == 0) REACH ("oom-sender");
}

/* ------------------------------------------------------------------------------------------------------------------ */
void harness_capture (void)
{
  setup ();
  struct ts_conn *sender = nondet_bool () ? &ts_conns[0] : NULL;
  struct ts_conn *addressed = nondet_bool () ? &ts_conns[1] : NULL;
  if (sender) wire_message (sender); else { fresh_driver_message (); M.sender = TS_SND_DRIVER; }
  /* monitors whose filter matches (contract of bus_matchmaker_get_recipients on the MONITOR matchmaker): n <= 3 distinct connections */
  ts_n_recipients = nondet_int (); __CPROVER_assume (0 <= ts_n_recipients && ts_n_recipients <= 3);
  ts_recipient[0] = &ts_conns[2]; ts_recipient[1] = &ts_conns[3]; ts_recipient[2] = &ts_conns[1];
  __CPROVER_assume (addressed == NULL || ts_n_recipients < 3);       /* never the addressed recipient */
  ts_conns[2].monitor = 1; ts_conns[3].monitor = 1; if (ts_n_recipients == 3) ts_conns[1].monitor = 1;
  __CPROVER_assume (PRE_bus_transaction_capture (&T, sender, addressed, &M));

  dbus_bool_t ret = bus_transaction_capture (&T, (DBusConnection *) sender, (DBusConnection *) addressed, (DBusMessage *) &M);

  int n = ts_n_recipients;
  __CPROVER_assert (ret == 0 || ret == 1, "post.bool");
  __CPROVER_assert (IMP (CS.monitors == NULL, ret && G.recipient_queries == 0 && G.sends == 0), "post.C18.no-monitor-no-work: without monitors the bus behaves as if monitoring did not exist");
  __CPROVER_assert (IMP (CS.monitors != NULL, G.recipient_queries == 1 && G.recipient_mm == &ts_monitor_mm_obj && G.recipient_q_sender == sender && G.recipient_q_addressed == addressed && G.recipient_q_msg == &M),
                    "post.C18.monitor-filter: the MONITOR matchmaker is asked once about exactly this (sender, addressed, message)");
  __CPROVER_assert (ts_conns[0].staged == 0 && IMP (addressed != NULL, addressed->staged == 0) && IMP (n < 3, ts_conns[1].staged == 0) && IMP (n < 2, ts_conns[3].staged == 0) && IMP (n < 1, ts_conns[2].staged == 0),
                    "post.C18.monitors-only: copies go only to the monitors the filter returned, never to the sender or the addressed recipient");
  __CPROVER_assert (ts_conns[1].staged <= 1 && ts_conns[2].staged <= 1 && ts_conns[3].staged <= 1, "post.C18.one-copy: no monitor gets two copies");
  __CPROVER_assert (IMP (ret && CS.monitors != NULL, ts_conns[2].staged == (n >= 1) && ts_conns[3].staged == (n >= 2) && ts_conns[1].staged == (n >= 3)), "post.C18.every-monitor: success => each matching monitor got exactly one copy");
  __CPROVER_assert (IMP (G.sends > 0, G.last_sent_msg == &M && G.last_sent_from == sender), "post.C18.same-message: the copy is the message itself with its real sender");
  __CPROVER_assert (IMP (CS.monitors != NULL && G.recipient_queries == 1, ts_list_clears == 1), "post.list: the recipient list is released on every path");
  __CPROVER_assert (G.policy_checks == 0 && G.capture_errs == 0 && M.refs == 1, "post.frame: capture makes no policy decision");
  if (CS.monitors == NULL) REACH ("no-monitors");
  if (ret && n == 3 && ts_conns[1].staged == 1) REACH ("three-monitors");
  if (ret && CS.monitors != NULL && n == 0) REACH ("no-match");
  if (!ret && G.sends == 2) REACH ("oom-second-copy");
  if (!ret && G.recipient_queries == 1 && G.sends == 0) REACH ("oom-query");
}
