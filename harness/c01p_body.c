/* C01.5(b) / C10 (P, hybrid): unbounded memory safety of the message body validator.
 *
 * Function under contract: validate_body_helper (static, dbus/dbus-marshal-validate.c) -- the REAL text
 * (VERIF_TU = overlay copy: only loop-contract clauses inserted, contracts/c01p_body.ovl).
 *
 *   - its loops are closed by loop contracts (outer type loop, bool-array loop, array-element loop) or, for the
 *     five alignment-padding loops (at most 7 iterations because the alignment is 1, 2, 4 or 8), unwound 8 times
 *     with unwinding assertions BEFORE DFCC (unwindset_pre) -- the unwinding assertions are proof obligations;
 *   - its three recursive calls are bound to the function's OWN contract (verif_vbh_contract below) by a purely
 *     lexical renaming of the token `validate_body_helper` (same device as harness/c20_common.h): occurrence 1 is
 *     the definition (called by this harness: real body), 2..4 the recursive call sites in source order (array
 *     element, variant content, struct/dict-entry content), 5 the call in _dbus_validate_body_with_reason (outside
 *     this unit).  If a change adds or removes an occurrence the unit no longer compiles (undecided, never a wrong
 *     binding);
 *   - the DBusTypeReader functions, the three string validators, the constant-string API (_dbus_string_init_const_len,
 *     _dbus_string_get_length, _dbus_first_type_in_signature), _dbus_unpack_uint32 and _dbus_warn_return_if_fail are
 *     contract stubs (stubs/c01p_stubs.c, --replace-calls; their own _dbus_asserts are the stubs' preconditions);
 *     _dbus_type_get_alignment, dbus_type_is_valid, dbus_type_is_fixed are the REAL loop-free code, inlined.
 *
 * Case split (tool/units/c01p.py): the proof runs as five units C01.p.body.fixed/.string/.array/.variant/.struct with the SAME
 * harness, contracts and stubs; in unit k the stub of _dbus_type_reader_get_current_type additionally assumes that the code it
 * returns for the reader under contract lies in class k (or is INVALID).  An execution of the loop-contract-transformed function
 * evaluates that call at most once (base case: not at all; arbitrary iteration and loop exit: once, at the loop head;
 * _Static_assert on VERIF_HEAD_CALLS guards this syntactically), so the five units together cover every execution provided
 * the classes cover all type codes: obligation "cases.cover" in every unit.  Without the split (VERIF_CASE_ID 0, not
 * registered as a unit) the same harness is green in 17 min on an idle machine and 32 min
 * under load (1.6 M variables, 12.6 M clauses, one 13-minute UNSAT call); the five parts take 4.5 - 8 min each.
 *
 * What is readable / addressable: ONE heap object of exactly off + len + VERIF_TAIL bytes (VERIF_TAIL = 7); p = object + off,
 * end = p + len, 0 <= len <= _DBUS_STRING_MAX_LENGTH (2^31 - 9; the 128 MiB message limit is far inside), 0 <= off, off + len <=
 * 2^32 (a bound on the offset of `end`, so that the precondition is closed under the recursion).  p starts at an
 * arbitrary offset, so every alignment residue of p is covered (CBMC encodes a pointer as object-id . offset;
 * _DBUS_ALIGN_ADDRESS therefore aligns the offset, i.e. the object base counts as 8-aligned, which is what malloc and the
 * DBusString representation guarantee).
 *   - READS: nothing at or after `end` is assumed readable, and none is read.  CBMC's object bounds alone cannot say that
 *     (an object has one size), so it is stated separately: (i) every 4-byte read goes through _dbus_unpack_uint32, whose stub
 *     requires data + 4 <= end; (ii) before each of the 10 byte-read sites (`*p`) of the function an injected ghost statement
 *     sets verif_overread when p >= end; verif_overread == 0 is a loop invariant and a postcondition [post.noread]; (iii) the
 *     string validators get [str, str + len) (signature: len + 1) below `end` as precondition.  CBMC's own pointer checks
 *     additionally bound EVERY access (listed or not) by end + 7.
 *   - POINTER FORMATION: the function forms and compares pointers up to end + 7 without reading them (`a` = p aligned up,
 *     `a + 4`, `p + 4`, `p += alignment` followed by `p > end`).  With no byte after `end` in the object these comparisons are
 *     undefined in ISO C and CBMC reports them ("pointer relation: pointer outside object bounds": 7 sites, measured with
 *     VERIF_TAIL = 0).  7 tail bytes make them defined; the real caller passes a DBusString whose allocation is len + 8
 *     (_DBUS_STRING_ALLOCATION_PADDING, align_offset 0), so this is the one place where that padding is load-bearing -- for
 *     pointer arithmetic, not for reads.  Since fix f46b959 (array length must be a multiple of the element size) the bool-array
 *     loop no longer reads up to 3 bytes past array_end (DESIGN section 8 item 7): [precondition of _dbus_unpack_uint32].
 *
 * Contract of validate_body_helper (pre: harness assumptions; post: asserts below; the same text as a stub in
 * verif_vbh_contract, which is what the recursive calls see):
 *   requires  p, end in one object, p <= end, [p, end) readable, end - p <= _DBUS_STRING_MAX_LENGTH (offset of end <= 2^32),
 *             total_depth >= 0, new_p NULL or writable, reader a types-only reader (abstract state CUR_OK)
 *   ensures   VALID  ==>  new_p != NULL ==> p <= *new_p <= end (same object)        [post.range]
 *             !VALID ==>  *new_p not written                                          [post.newp-untouched]
 *             total_depth > 64 ==> result == DBUS_INVALID_NESTED_TOO_DEEPLY           [post.depth]
 *             VALID && walk_reader_to_end ==> reader is at its end                    [post.walked]
 *             !walk_reader_to_end ==> reader state unchanged                          [post.reader-frame]
 *             reader state stays a type code or INVALID; a reader at its end stays there [post.reader-ok, post.end-stays]
 *             no byte-read site reads at or after end                                 [post.noread]
 *             VALID && reader was at a type ==> *new_p > p  (progress: one value is at least one byte) [post.progress]
 *             VALID && reader was at its end ==> *new_p == p                          [post.noop]
 *   each recursive call: total_depth + 1, same byte order, same `end`, p inside [p0, end], new_p = &p (writable),
 *             sub reader (never the caller's reader)                                  [precondition of ... (recursive call)]
 */
#include <config.h>
#include "dbus/dbus-internals.h"
#include "verif_prelude.h"
#include "dbus/dbus-string.h"
#define DBUS_CAN_USE_DBUS_STRING_PRIVATE 1
#include "dbus/dbus-string-private.h"
#include "dbus/dbus-marshal-validate.h"
#include "dbus/dbus-marshal-recursive.h"
#include "dbus/dbus-marshal-basic.h"
#include "dbus/dbus-signature.h"
#include "dbus/dbus-protocol.h"
#include <stdlib.h>
#include "c01p_ghost.h"

#define REACH(tag) __CPROVER_assert(0, "REACH:" tag)
#define IMP(a, b) (!(a) || (b))
#define PRE(c, what) __CPROVER_assert((c), "precondition of " what)
#define OFF(q) ((long) __CPROVER_POINTER_OFFSET (q))
_Bool nondet_bool (void); int nondet_int (void); long nondet_long (void);

#define VERIF_VBH_PROTO(n) static DBusValidity verif_vbh_##n (DBusTypeReader *reader, int byte_order, dbus_bool_t walk_reader_to_end, \
    int total_depth, const unsigned char *p, const unsigned char *end, const unsigned char **new_p)
VERIF_VBH_PROTO(1); VERIF_VBH_PROTO(2); VERIF_VBH_PROTO(3); VERIF_VBH_PROTO(4); VERIF_VBH_PROTO(5);

#define VERIF_CAT_(a, b) a##b
#define VERIF_CAT(a, b) VERIF_CAT_(a, b)
_Static_assert (__COUNTER__ == 0, "C01p: __COUNTER__ base moved; renumber verif_vbh_<n>");
#define validate_body_helper VERIF_CAT(verif_vbh_, __COUNTER__)
#include VERIF_TU
#undef validate_body_helper
_Static_assert (__COUNTER__ == 6, "C01p: number of occurrences of validate_body_helper changed");

/* ---- ghost state (declared in c01p_ghost.h, shared with stubs/c01p_stubs.c and the overlay) ---- */
struct verif_k_s verif_k; struct verif_g_s verif_g; int verif_overread;

/* ---- the function's own contract, as seen by its recursive calls ---- */
static DBusValidity verif_vbh_contract (int site, DBusTypeReader *reader, int byte_order, dbus_bool_t walk, int total_depth,
                                        const unsigned char *p, const unsigned char *end, const unsigned char **new_p)
{
  PRE (reader != NULL && reader != verif_reader && __CPROVER_r_ok (reader, sizeof (DBusTypeReader)), "validate_body_helper (recursive call): an initialised sub reader");
  PRE (VERIF_CUR_OK (verif_cur_s), "validate_body_helper (recursive call): reader over a validated signature");
  PRE (__CPROVER_same_object (p, end) && __CPROVER_same_object (p, verif_base) && OFF (p) <= OFF (end), "validate_body_helper (recursive call): p <= end in the buffer");
  PRE (OFF (end) == verif_end_off && OFF (p) >= verif_p0_off, "validate_body_helper (recursive call): same end, p not before the caller's p");
  PRE (total_depth == verif_depth0 + 1, "validate_body_helper (recursive call): total_depth + 1");
  PRE (byte_order == verif_bo0, "validate_body_helper (recursive call): same byte order");
  PRE (new_p == NULL || __CPROVER_w_ok (new_p, sizeof (*new_p)), "validate_body_helper (recursive call): new_p writable");
  if (site == 2) verif_site2 = 1; else if (site == 3) verif_site3 = 1; else verif_site4 = 1;
  DBusValidity v = (DBusValidity) nondet_int ();
  int cur0 = verif_cur_s;
  if (total_depth > DBUS_MAXIMUM_TYPE_RECURSION_DEPTH * 2) __CPROVER_assume (v == DBUS_INVALID_NESTED_TOO_DEEPLY);
  if (walk)
    {
      int c = nondet_int (); __CPROVER_assume (VERIF_CUR_OK (c)); __CPROVER_assume (IMP (v == DBUS_VALID, c == DBUS_TYPE_INVALID));
      if (cur0 == DBUS_TYPE_INVALID) __CPROVER_assume (c == DBUS_TYPE_INVALID);
      verif_cur_s = c; verif_elem_s = nondet_int ();
    }
  if (v == DBUS_VALID && new_p != NULL)
    {
      long d = nondet_long ();
      __CPROVER_assume (0 <= d && d <= OFF (end) - OFF (p));
      __CPROVER_assume (IMP (cur0 != DBUS_TYPE_INVALID, d > 0)); __CPROVER_assume (IMP (cur0 == DBUS_TYPE_INVALID, d == 0));
      *new_p = p + d;
    }
  return v;
}
VERIF_VBH_PROTO(2) { return verif_vbh_contract (2, reader, byte_order, walk_reader_to_end, total_depth, p, end, new_p); }
VERIF_VBH_PROTO(3) { return verif_vbh_contract (3, reader, byte_order, walk_reader_to_end, total_depth, p, end, new_p); }
VERIF_VBH_PROTO(4) { return verif_vbh_contract (4, reader, byte_order, walk_reader_to_end, total_depth, p, end, new_p); }
VERIF_VBH_PROTO(5) { __CPROVER_assert (0, "_dbus_validate_body_with_reason is outside this unit"); __CPROVER_assume (0); return DBUS_VALID; }

#ifndef VERIF_MAXBODY
#define VERIF_MAXBODY _DBUS_STRING_MAX_LENGTH
#endif
#ifndef VERIF_CASE_ID
#define VERIF_CASE_ID 0   /* 0 = no case split (one monolithic unit); 1..5 = the class of tool/units/c01p.py */
#endif
#if VERIF_CASE_ID != 0
_Static_assert (VERIF_HEAD_CALLS == 1, "C01p: the case split over type codes needs exactly one _dbus_type_reader_get_current_type (reader) per loop iteration");
#endif
#ifndef VERIF_TAIL
#define VERIF_TAIL 7      /* bytes of the object after `end`: see the header comment */
#endif

void harness (void)
{
  static DBusTypeReader rd;
  long len = nondet_long (), off = nondet_long ();
  int bo = nondet_int (), depth = nondet_int (); dbus_bool_t walk = nondet_bool ();
  /* closed under the recursion: a recursive call keeps `end` and moves p forward, so the bound is on the offset of `end` */
  __CPROVER_assume (0 <= len && len <= VERIF_MAXBODY && 0 <= off && off <= 2L * VERIF_MAXBODY && off + len <= 2L * VERIF_MAXBODY);
  __CPROVER_assume (depth >= 0);
  unsigned char *buf = malloc (off + len + VERIF_TAIL);
  __CPROVER_assume (buf != NULL);
  const unsigned char *p = buf + off, *end = p + len;
  unsigned char sentinel; const unsigned char *np = &sentinel; const unsigned char **new_p = nondet_bool () ? &np : NULL;

  verif_reader = &rd;
  verif_cur_r = nondet_int (); verif_elem_r = nondet_int (); verif_cur_s = nondet_int (); verif_elem_s = nondet_int ();
  __CPROVER_assume (VERIF_CUR_OK (verif_cur_r));
  verif_depth0 = depth; verif_bo0 = bo; verif_p0_off = off; verif_end_off = off + len; verif_base = buf;
  verif_site2 = verif_site3 = verif_site4 = 0; verif_overread = 0; verif_cs = NULL; verif_cs_ptr = NULL; verif_cs_len = 0;
  int cur0 = verif_cur_r, elem0 = verif_elem_r;

  DBusValidity v = verif_vbh_1 (&rd, bo, walk, depth, p, end, new_p);

  __CPROVER_assert (IMP (v == DBUS_VALID && new_p != NULL, __CPROVER_same_object (np, p) && OFF (np) >= off && OFF (np) <= off + len), "post.range VALID => p <= *new_p <= end");
  __CPROVER_assert (IMP (v != DBUS_VALID, np == &sentinel), "post.newp-untouched !VALID => *new_p not written");
  __CPROVER_assert (IMP (depth > DBUS_MAXIMUM_TYPE_RECURSION_DEPTH * 2, v == DBUS_INVALID_NESTED_TOO_DEEPLY), "post.depth total_depth > 64 => DBUS_INVALID_NESTED_TOO_DEEPLY");
  __CPROVER_assert (IMP (v == DBUS_VALID && walk, verif_cur_r == DBUS_TYPE_INVALID), "post.walked VALID and walk_reader_to_end => reader at its end");
  __CPROVER_assert (IMP (!walk, verif_cur_r == cur0 && verif_elem_r == elem0), "post.reader-frame !walk_reader_to_end => reader unchanged");
  __CPROVER_assert (VERIF_CUR_OK (verif_cur_r), "post.reader-ok the reader is still at a type code or at its end");
  __CPROVER_assert (IMP (cur0 == DBUS_TYPE_INVALID, verif_cur_r == DBUS_TYPE_INVALID), "post.end-stays a reader at its end stays there");
  __CPROVER_assert (IMP (v == DBUS_VALID && new_p != NULL && cur0 != DBUS_TYPE_INVALID, OFF (np) > off), "post.progress VALID and reader at a type => at least one byte consumed");
  __CPROVER_assert (IMP (v == DBUS_VALID && new_p != NULL && cur0 == DBUS_TYPE_INVALID, OFF (np) == off), "post.noop VALID and reader at its end => nothing consumed");
  __CPROVER_assert (verif_overread == 0, "post.noread no byte-read site of validate_body_helper reads at or after end");
  __CPROVER_assert (IMP (verif_site2 || verif_site3 || verif_site4, depth <= DBUS_MAXIMUM_TYPE_RECURSION_DEPTH * 2), "post.norec no recursion beyond depth 64");

  { int t = nondet_int (); __CPROVER_assert (IMP (VERIF_CUR_OK (t), VERIF_CLASSES_COVER (t)), "cases.cover the type-code classes of the C01.p.body.* units cover every type code"); }

  if (v == DBUS_VALID) REACH ("valid");
  if (v == DBUS_VALID && new_p != NULL && OFF (np) == off + len && len > 1000) REACH ("valid-consumed-long-body");
  if (v == DBUS_INVALID_NESTED_TOO_DEEPLY && depth > 64) REACH ("too-deep");
  if (v == DBUS_INVALID_NOT_ENOUGH_DATA) REACH ("not-enough-data");
#if VERIF_CASE_ID == 0 || VERIF_CASE_ID == 1
  if (v == DBUS_INVALID_BOOLEAN_NOT_ZERO_OR_ONE) REACH ("bool-invalid");
  if (v == DBUS_INVALID_ALIGNMENT_PADDING_NOT_NUL) REACH ("padding-not-nul");
#endif
#if VERIF_CASE_ID == 0 || VERIF_CASE_ID == 2
  if (v == DBUS_INVALID_STRING_MISSING_NUL) REACH ("string-missing-nul");
  if (v == DBUS_INVALID_SIGNATURE_MISSING_NUL) REACH ("signature-missing-nul");
#endif
#if VERIF_CASE_ID == 0 || VERIF_CASE_ID == 3
  if (v == DBUS_INVALID_ARRAY_LENGTH_INCORRECT) REACH ("array-length-incorrect");
  if (v == DBUS_INVALID_BOOLEAN_NOT_ZERO_OR_ONE && verif_cur_r == DBUS_TYPE_ARRAY) REACH ("bool-array-invalid");
  if (verif_site2) REACH ("recursion-array-element");
#endif
#if VERIF_CASE_ID == 0 || VERIF_CASE_ID == 4
  if (v == DBUS_INVALID_VARIANT_SIGNATURE_SPECIFIES_MULTIPLE_VALUES) REACH ("variant-multiple");
  if (verif_site3) REACH ("recursion-variant");
#endif
#if VERIF_CASE_ID == 0 || VERIF_CASE_ID == 5
  if (verif_site4) REACH ("recursion-struct");
  if (verif_site4 && v == DBUS_VALID && walk) REACH ("struct-then-more-values");
#endif
}
