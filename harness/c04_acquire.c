/* C04 (+C13): decision table of bus_registry_acquire_service (bus/services.c), P-stub route.
 * The real function on the pristine TU; every callee is a contract written as a stub (assert requires,
 * havoc, assume ensures, update ghost record G).  The abstract pre-state of the name
 *   (exists, requester is primary, requester waits in the queue, primary.allow_replacement, primary.do_not_queue)
 * is delivered by the replaced accessors.  Postcondition = ref_request_name() of spec/ownership_ref.h
 * (written from the RequestName section of the specification) for ALL 2^32 flag words. */
#include <config.h>
#include "dbus/dbus-internals.h"
#include VERIF_TU
#include "c04_common.h"
#include "ownership_ref.h"

/* ---- ghost inputs (havocked in the harness) ---- */
_Bool in_valid, in_is_bus_name, in_active; int in_byte0, in_namelen;
_Bool in_selinux_ok, in_selinux_oom, in_apparmor_ok, in_policy_ok;
int in_limit, in_n_owned;
_Bool in_exists, in_req_is_primary, in_req_in_queue, in_p_allow, in_p_dnq;
dbus_uint32_t in_flags;
/* ---- objects ---- */
static BusRegistry reg; static BusService svc; static BusOwner own_primary, own_req; static DBusList link_req;
static char c_req, c_other, c_ctx, c_tx, c_pol, c_act; static DBusString the_name;
#define REQ   ((DBusConnection *) &c_req)
#define OTHER ((DBusConnection *) &c_other)
#define CTX   ((BusContext *) &c_ctx)
#define TX    ((BusTransaction *) &c_tx)
#define POL   ((BusClientPolicy *) &c_pol)
#define ACT   ((BusActivation *) &c_act)
static BusOwner *g_primary, *g_second;
/* ---- ghost record ---- */
struct { int validate, policy_checks, limit_reads, lookup, ensure, find, unlink, unref, free_link, add, remove, swap, activation;
         _Bool add_ok, remove_ok, swap_ok, ensure_ok, activation_ok; } G;

/* ---- contracts of external callees ---- */
dbus_bool_t _dbus_validate_bus_name (const DBusString *str, int start, int len)
{ PRE (str == &the_name && start == 0 && len == in_namelen, "_dbus_validate_bus_name: whole name"); G.validate++; return in_valid; }  /* enforced: C16.bus_name */
int _dbus_string_get_length (const DBusString *str) { PRE (str == &the_name, "_dbus_string_get_length"); return in_namelen; }
unsigned char _dbus_string_get_byte (const DBusString *str, int start) { PRE (str == &the_name && start == 0 && G.validate == 1 && in_valid, "_dbus_string_get_byte: validated name, byte 0"); return (unsigned char) in_byte0; }
const char *_dbus_string_get_const_data (const DBusString *str) { return some_string; }
dbus_bool_t _dbus_string_equal_c_str (const DBusString *a, const char *c_str)
{ PRE (a == &the_name && verif_streq (c_str, "org.freedesktop.DBus"), "_dbus_string_equal_c_str: compared with the bus name"); return in_is_bus_name; }
dbus_bool_t bus_connection_is_active (DBusConnection *c) { PRE (c == REQ, "bus_connection_is_active"); return in_active; }
const char *bus_connection_get_name (DBusConnection *c) { PRE (c != NULL, "bus_connection_get_name"); return some_string; }
BusClientPolicy *bus_connection_get_policy (DBusConnection *c) { PRE (c == REQ, "bus_connection_get_policy"); return POL; }
BusSELinuxID *bus_selinux_id_table_lookup (DBusHashTable *t, const DBusString *n) { return nondet_ptr (); }
dbus_bool_t bus_selinux_allows_acquire_service (DBusConnection *c, BusSELinuxID *sid, const char *n, DBusError *e)
{ PRE (c == REQ && e != NULL && !ERR_SET (e), "bus_selinux_allows_acquire_service"); G.policy_checks++;
  if (!in_selinux_ok && in_selinux_oom) { e->name = DBUS_ERROR_NO_MEMORY; e->message = some_string; } return in_selinux_ok; }
const char *bus_context_get_type (BusContext *c) { return some_string; }
dbus_bool_t bus_apparmor_allows_acquire_service (DBusConnection *c, const char *bt, const char *n, DBusError *e)
{ PRE (c == REQ && e != NULL && !ERR_SET (e), "bus_apparmor_allows_acquire_service"); G.policy_checks++;
  if (!in_apparmor_ok) { e->name = nondet_bool () ? DBUS_ERROR_NO_MEMORY : DBUS_ERROR_ACCESS_DENIED; e->message = some_string; } return in_apparmor_ok; }
dbus_bool_t bus_client_policy_check_can_own (BusClientPolicy *p, const DBusString *n)
{ PRE (p == POL && n == &the_name, "bus_client_policy_check_can_own: requester's policy, requested name"); G.policy_checks++; return in_policy_ok; }  /* rule semantics: C06 B units */
int bus_context_get_max_services_per_connection (BusContext *c) { PRE (c == CTX, "bus_context_get_max_services_per_connection"); return in_limit; }
int bus_connection_get_n_services_owned (DBusConnection *c) { PRE (c == REQ, "bus_connection_get_n_services_owned: the requester's counter"); G.limit_reads++; return in_n_owned; }
void bus_context_log (BusContext *c, DBusSystemLogSeverity s, const char *msg, ...) { }
BusActivation *bus_context_get_activation (BusContext *c) { return ACT; }
dbus_bool_t bus_activation_send_pending_auto_activation_messages (BusActivation *a, BusService *s, BusTransaction *t)
{ PRE (a == ACT && s == &svc && t == TX, "bus_activation_send_pending_auto_activation_messages"); G.activation++; G.activation_ok = nondet_bool (); return G.activation_ok; }
/* list primitives used directly by the EXISTS branch (dbus-list.c: the B units run the real code) */
void _dbus_list_unlink (DBusList **list, DBusList *link)
{ PRE (list == &svc.owners && link == &link_req && in_req_in_queue && G.find == 1, "_dbus_list_unlink: the requester's own link of this queue"); G.unlink++; }
void _dbus_list_free_link (DBusList *link) { PRE (link == &link_req && G.unlink == 1, "_dbus_list_free_link: after unlinking"); G.free_link++; }

/* ---- contracts of callees defined in the same TU (bound with --replace-calls) ---- */
BusService *verif_stub_bus_registry_lookup (BusRegistry *r, const DBusString *n)
{ PRE (r == &reg && n == &the_name, "bus_registry_lookup"); G.lookup++; return in_exists ? &svc : NULL; }
static void set_entry_flags (BusOwner *o, dbus_uint32_t flags)   /* "settings from its latest RequestName call" */
{ o->allow_replacement = (flags & REF_FLAG_ALLOW_REPLACEMENT) != 0; o->do_not_queue = (flags & REF_FLAG_DO_NOT_QUEUE) != 0; }
BusService *verif_stub_bus_registry_ensure (BusRegistry *r, const DBusString *n, DBusConnection *c, dbus_uint32_t flags, BusTransaction *t, DBusError *e)
{ PRE (r == &reg && n == &the_name && c == REQ && flags == in_flags && t == TX && e != NULL && !ERR_SET (e), "bus_registry_ensure: requester, its flags, this transaction");
  PRE (G.lookup == 1 && !in_exists, "bus_registry_ensure: only after a failed lookup");
  G.ensure++; G.ensure_ok = nondet_bool ();
  if (!G.ensure_ok) { stub_fail (e); return NULL; }
  set_entry_flags (&own_req, flags); g_primary = &own_req; return &svc; }
BusOwner *verif_stub_bus_service_get_primary_owner (BusService *s) { PRE (s == &svc, "bus_service_get_primary_owner"); return g_primary; }
dbus_bool_t verif_stub_bus_service_get_allow_replacement (BusService *s) { PRE (s == &svc && g_primary != NULL, "bus_service_get_allow_replacement: non-empty queue"); return g_primary->allow_replacement; }
DBusList *verif_stub__bus_service_find_owner_link (BusService *s, DBusConnection *c)
{ PRE (s == &svc && c == REQ, "_bus_service_find_owner_link"); G.find++; return in_req_in_queue ? &link_req : NULL; }
void verif_stub_bus_owner_unref (BusOwner *o) { PRE (o == &own_req && G.unlink == 1, "bus_owner_unref: the unlinked entry"); G.unref++; }
dbus_bool_t verif_stub_bus_service_add_owner (BusService *s, DBusConnection *c, dbus_uint32_t flags, BusTransaction *t, DBusError *e)
{ PRE (s == &svc && c == REQ && flags == in_flags && t == TX && e != NULL && !ERR_SET (e), "bus_service_add_owner: requester, its flags, this transaction");
  PRE (g_primary != NULL && g_primary->conn != REQ, "bus_service_add_owner: requester is not the current primary (DESIGN 6 C04)");
  PRE (!(flags & REF_FLAG_DO_NOT_QUEUE) || ((flags & REF_FLAG_REPLACE_EXISTING) && g_primary->allow_replacement), "bus_service_add_owner: with DO_NOT_QUEUE only when about to replace the primary");
  G.add++; G.add_ok = nondet_bool ();
  if (!G.add_ok) { stub_fail (e); return FALSE; }
  set_entry_flags (&own_req, flags);
  /* enforced by C04.add_owner*: REPLACE_EXISTING and a primary that allows replacement => directly behind the primary */
  g_second = ((flags & REF_FLAG_REPLACE_EXISTING) && g_primary->allow_replacement) ? &own_req : (nondet_bool () ? &own_req : NULL);
  return TRUE; }
dbus_bool_t verif_stub_bus_service_remove_owner (BusService *s, DBusConnection *c, BusTransaction *t, DBusError *e)
{ PRE (s == &svc && t == TX && e != NULL && !ERR_SET (e) && g_primary != NULL && c == g_primary->conn && c != REQ, "bus_service_remove_owner: the old primary");
  PRE (G.add == 1 && G.add_ok, "bus_service_remove_owner: only after the requester was enqueued");
  G.remove++; G.remove_ok = nondet_bool (); if (!G.remove_ok) { stub_fail (e); return FALSE; }
  g_primary = g_second; return TRUE; }          /* enforced by C04.remove_owner: second entry becomes primary */
dbus_bool_t verif_stub_bus_service_swap_owner (BusService *s, DBusConnection *c, BusTransaction *t, DBusError *e)
{ PRE (s == &svc && t == TX && e != NULL && !ERR_SET (e) && g_primary != NULL && c == g_primary->conn && c != REQ, "bus_service_swap_owner: the old primary");
  PRE (G.add == 1 && G.add_ok, "bus_service_swap_owner: only after the requester was enqueued (queue length >= 2)");
  G.swap++; G.swap_ok = nondet_bool (); if (!G.swap_ok) { stub_fail (e); return FALSE; }
  g_primary = g_second; return TRUE; }          /* enforced by C04.swap_owner */

void harness (void)
{
  DBusError err; dbus_uint32_t res = nondet_uint ();
  in_valid = nondet_bool (); in_is_bus_name = nondet_bool (); in_active = nondet_bool (); in_byte0 = nondet_int (); in_namelen = nondet_int ();
  in_selinux_ok = nondet_bool (); in_selinux_oom = nondet_bool (); in_apparmor_ok = nondet_bool (); in_policy_ok = nondet_bool ();
  in_limit = nondet_int (); in_n_owned = nondet_int ();
  in_exists = nondet_bool (); in_req_is_primary = nondet_bool (); in_req_in_queue = nondet_bool (); in_p_allow = nondet_bool (); in_p_dnq = nondet_bool ();
  in_flags = nondet_uint ();
  /* preconditions */
  __CPROVER_assume (in_byte0 >= 0 && in_byte0 <= 255 && in_namelen >= 0);
  __CPROVER_assume (in_n_owned >= 0);                                        /* C13.counters: never negative */
  __CPROVER_assume (IMP (!in_exists, !in_req_is_primary && !in_req_in_queue));
  __CPROVER_assume (!(in_req_is_primary && in_req_in_queue));               /* OWN_INV: no connection twice in a queue */
  reg.refcount = 1; reg.context = CTX; reg.service_sid_table = nondet_ptr ();
  svc.refcount = 1; svc.registry = &reg; svc.name = (char *) some_string; svc.owners = nondet_ptr ();
  own_primary.refcount = 1; own_primary.service = &svc; own_primary.conn = in_req_is_primary ? REQ : OTHER;
  own_primary.allow_replacement = in_p_allow; own_primary.do_not_queue = in_p_dnq;
  own_req.refcount = 1; own_req.service = &svc; own_req.conn = REQ; own_req.allow_replacement = nondet_bool (); own_req.do_not_queue = nondet_bool ();
  link_req.data = &own_req; link_req.next = link_req.prev = NULL;
  g_primary = in_exists ? &own_primary : NULL;                              /* OWN_INV: a registered name has a primary */
  g_second = NULL;
  err.name = NULL; err.message = NULL;

  dbus_bool_t ret = bus_registry_acquire_service (&reg, REQ, &the_name, in_flags, &res, TX, &err);

  ref_name_state s; s.exists = in_exists; s.req_is_primary = in_req_is_primary; s.req_in_queue = in_req_in_queue; s.primary_allow = in_p_allow; s.primary_dnq = in_p_dnq;
  ref_request_result R = ref_request_name (s, in_flags);
  int refused = ref_name_refused (in_valid, in_byte0, in_is_bus_name);
  int denied = !in_selinux_ok || !in_apparmor_ok || !in_policy_ok;
  int over = in_n_owned >= in_limit;
  int queue_ops = G.ensure + G.unlink + G.unref + G.free_link + G.add + G.remove + G.swap;
  int primary_flags_kept = own_primary.allow_replacement == in_p_allow && own_primary.do_not_queue == in_p_dnq;
  int new_allow = (in_flags & REF_FLAG_ALLOW_REPLACEMENT) != 0, new_dnq = (in_flags & REF_FLAG_DO_NOT_QUEUE) != 0;

  POST (IMP (ret, !ERR_SET (&err)) && IMP (!ret, ERR_SET (&err)), "acq.post0 error set exactly on FALSE");
  POST (IMP (refused, !ret && err_is (&err, DBUS_ERROR_INVALID_ARGS)), "acq.post1a invalid name / ':' name / the bus name => InvalidArgs");
  POST (IMP (refused, queue_ops == 0 && G.lookup == 0 && G.activation == 0 && primary_flags_kept), "acq.post1b refused name => no operation at all");
  POST (IMP (!refused && denied, !ret && queue_ops == 0 && G.lookup == 0 && G.activation == 0 && primary_flags_kept), "acq.post2a policy denial => error and no operation");
  POST (IMP (!refused && ((!in_selinux_ok && !in_selinux_oom) || (in_selinux_ok && in_apparmor_ok && !in_policy_ok)), err_is (&err, DBUS_ERROR_ACCESS_DENIED)), "acq.post2b SELinux / policy denial => AccessDenied");
  POST (IMP (!refused && !denied && over, !ret && err_is (&err, DBUS_ERROR_LIMITS_EXCEEDED)), "acq.post3a names-per-connection limit reached => LimitsExceeded");
  POST (IMP (!refused && !denied && over, queue_ops == 0 && G.lookup == 0 && G.ensure == 0 && G.activation == 0 && primary_flags_kept), "acq.post3b limit refusal precedes lookup/ensure and mutates nothing");
  POST (IMP (err_is (&err, DBUS_ERROR_LIMITS_EXCEEDED), over) && IMP (ret, in_n_owned < in_limit), "acq.post3c below the limit no LimitsExceeded; success only below the limit");
  if (!refused && !denied && !over)
    {
      POST (G.lookup == 1, "acq.post4 one registry lookup");
      POST (IMP (ret, res == R.reply), "acq.post5 reply code = specification table");
      /* which queue operation: upper bounds on every path, exact on success */
      POST (G.ensure <= (R.op == REF_OP_CREATE) && IMP (ret && R.op == REF_OP_CREATE, G.ensure == 1), "acq.post6a ensure iff the name had no owner");
      POST (G.add <= (R.op == REF_OP_ENQUEUE || R.op == REF_OP_REPLACE_SWAP || R.op == REF_OP_REPLACE_DROP)
            && IMP (ret && (R.op == REF_OP_ENQUEUE || R.op == REF_OP_REPLACE_SWAP || R.op == REF_OP_REPLACE_DROP), G.add == 1), "acq.post6b add_owner iff enqueue or replace");
      POST (G.swap <= (R.op == REF_OP_REPLACE_SWAP) && IMP (ret && R.op == REF_OP_REPLACE_SWAP, G.swap == 1), "acq.post6c swap iff replacing a primary without DO_NOT_QUEUE");
      POST (G.remove <= (R.op == REF_OP_REPLACE_DROP) && IMP (ret && R.op == REF_OP_REPLACE_DROP, G.remove == 1), "acq.post6d remove iff replacing a primary with DO_NOT_QUEUE");
      POST (G.unlink <= (R.op == REF_OP_DROP_SELF && in_req_in_queue) && G.unref == G.unlink && G.free_link == G.unlink
            && IMP (ret && R.op == REF_OP_DROP_SELF, G.unlink == (in_req_in_queue ? 1 : 0)), "acq.post6e EXISTS: requester leaves the queue iff it was waiting in it");
      POST (IMP (R.op == REF_OP_REFRESH_PRIMARY && ret, own_primary.allow_replacement == new_allow && own_primary.do_not_queue == new_dnq), "acq.post7a primary re-request refreshes both stored flags");
      POST (IMP (R.op != REF_OP_REFRESH_PRIMARY, primary_flags_kept), "acq.post7b nobody else's flags touched");
      POST (IMP (ret, G.activation == 1 && G.activation_ok) && G.activation <= 1, "acq.post8a pending auto-activation messages released exactly once on success");
      POST (IMP (G.activation == 1, (R.op != REF_OP_CREATE || G.ensure_ok) && (G.add == 0 || G.add_ok) && (G.swap == 0 || G.swap_ok) && (G.remove == 0 || G.remove_ok)), "acq.post8b ... and only after the queue operation succeeded");
    }
#ifdef VERIF_C14
  /* C14: "either every effect of a request takes place or none does and the caller receives a NoMemory error".
   * FALSE makes bus_dispatch cancel the transaction; only changes that registered an undo hook are rolled back.
   * add_owner registers a hook only for a NEW entry (C04.add_owner: add.hook); set_flags on the primary, the
   * unlink of the EXISTS branch and the refresh / move of an already queued requester register none. */
  POST (IMP (!ret, primary_flags_kept), "acq.c14a FALSE => the primary's stored flags are as before");
  POST (IMP (!ret, G.unlink == 0), "acq.c14b FALSE => the requester has not been dropped from the queue");
  POST (IMP (!ret, !(G.add == 1 && G.add_ok && in_req_in_queue)), "acq.c14c FALSE => an already queued requester has not been refreshed / moved");
  if (!ret && G.activation == 1) REACH ("failed-at-the-last-step");
#endif
  if (ret && res == REF_REQ_PRIMARY_OWNER && R.op == REF_OP_CREATE) REACH ("primary-owner-new");
  if (ret && res == REF_REQ_PRIMARY_OWNER && R.op == REF_OP_REPLACE_SWAP) REACH ("primary-owner-swap");
  if (ret && res == REF_REQ_PRIMARY_OWNER && R.op == REF_OP_REPLACE_DROP) REACH ("primary-owner-drop");
  if (ret && res == REF_REQ_IN_QUEUE) REACH ("in-queue");
  if (ret && res == REF_REQ_EXISTS && G.unlink == 1) REACH ("exists-unlinked");
  if (ret && res == REF_REQ_EXISTS && G.unlink == 0) REACH ("exists");
  if (ret && res == REF_REQ_ALREADY_OWNER) REACH ("already-owner");
  if (refused) REACH ("refused-name");
  if (!refused && denied) REACH ("denied");
  if (!refused && !denied && over) REACH ("limit");
  if (!ret && G.add == 1 && G.add_ok) REACH ("fail-after-enqueue");
  if (ret && (in_flags & ~7u)) REACH ("undefined-flag-bits");
}
